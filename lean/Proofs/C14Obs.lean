import Model.Prepare
/-!
# C14, session tier: what acceptance by the observable-level specification `Obs` means for a trace
(history lemmas). Pure reasoning about `Obs`; the connection-level machine does not occur here.
-/
namespace C14Obs
open PConn Obs

variable {κ : Type} [DecidableEq κ]

/-- trace bookkeeping: which flights have left the cache so far (`rem`), and, per call, which had left it
    when the call started or sent its last frame (`ban`) -/
structure Scan where
  rem : Nat → Bool
  ban : Nat → Nat → Bool

def scanStep (sc : Scan) : Ev κ → Scan
  | .rm _ f => { sc with rem := fun g => if g = f then true else sc.rem g }
  | .start c _ _ => { sc with ban := fun c' => if c' = c then sc.rem else sc.ban c' }
  | .exec c _ _ => { sc with ban := fun c' => if c' = c then sc.rem else sc.ban c' }
  | _ => sc

def scan (tr : List (Ev κ)) : Scan := tr.foldl scanStep ⟨fun _ => false, fun _ _ => false⟩

/-- flight f had already left the cache when call c started / sent its previous frame -/
def removedBefore (tr : List (Ev κ)) (c f : Nat) : Bool := (scan tr).ban c f

theorem scan_snoc (tr : List (Ev κ)) (e : Ev κ) : scan (tr ++ [e]) = scanStep (scan tr) e := by
  unfold scan; rw [List.foldl_append]; rfl

structure Hist (tr : List (Ev κ)) (o : OState κ) : Prop where
  rem    : ∀ f, removedNow o f = (scan tr).rem f
  ban    : ∀ (c : Nat) (ocl : OCaller κ), o.callers[c]? = some ocl → ocl.banned = (scan tr).ban c
  prep   : ∀ (f : Nat) (fl : OFlight κ) (r : PAns), o.flights f = some fl → fl.ans = some r → Ev.prep f fl.key r ∈ tr
  rm     : ∀ (f : Nat) (fl : OFlight κ), o.flights f = some fl → fl.removed = true → Ev.rm fl.key f ∈ tr
  start  : ∀ (c : Nat) (ocl : OCaller κ), o.callers[c]? = some ocl → ∃ b, Ev.start c b ocl.entries ∈ tr
  credit : ∀ k, prepCount k tr + o.credit k = rmCount k tr + 1
  canc   : ∀ c, o.cancelled c = true → Ev.cancel c ∈ tr
  await  : ∀ (c : Nat) (ocl : OCaller κ) (a : XAns), o.callers[c]? = some ocl → ocl.pc = .awaiting a → ∃ ids, Ev.exec c ids a ∈ tr

theorem hist_init (b : Bool) : Hist ([] : List (Ev κ)) (Obs.initB b : OState κ) := by
  refine ⟨fun f => rfl, ?_, ?_, ?_, ?_, fun k => rfl, ?_, ?_⟩
  · intro c ocl h; simp [Obs.initB] at h
  · intro f fl r h; simp [Obs.initB] at h
  · intro f fl h; simp [Obs.initB] at h
  · intro c ocl h; simp [Obs.initB] at h
  · intro c h; simp [Obs.initB] at h
  · intro c ocl a h; simp [Obs.initB] at h

theorem mem_snoc_of_mem {α : Type} {l : List α} {a b : α} (h : a ∈ l) : a ∈ l ++ [b] :=
  List.mem_append_left _ h

theorem prepCount_snoc (k : κ) (tr : List (Ev κ)) (e : Ev κ) :
    prepCount k (tr ++ [e]) = prepCount k tr + (match e with | .prep _ k' _ => if k' = k then 1 else 0 | _ => 0) := by
  unfold prepCount
  rw [List.countP_append]
  cases e <;> simp [List.countP_cons]

theorem rmCount_snoc (k : κ) (tr : List (Ev κ)) (e : Ev κ) :
    rmCount k (tr ++ [e]) = rmCount k tr + (match e with | .rm k' _ => if k' = k then 1 else 0 | _ => 0) := by
  unfold rmCount
  rw [List.countP_append]
  cases e <;> simp [List.countP_cons]

theorem getElem?_set_cases {α : Type} (l : List α) (i j : Nat) (a y : α) (h : (l.set i a)[j]? = some y) :
    (i = j ∧ y = a) ∨ (i ≠ j ∧ l[j]? = some y) := by
  by_cases hij : i = j
  · left
    subst hij
    rw [List.getElem?_set] at h
    simp at h
    exact ⟨rfl, h.2.symm⟩
  · right; rw [List.getElem?_set_ne hij] at h; exact ⟨hij, h⟩

/-- changing only the pc of one caller -/
theorem hist_setPc {tr : List (Ev κ)} {o : OState κ} (e : Ev κ) (c : Nat) (cl : OCaller κ) (pc : OPC) (hH : Hist tr o)
    (hc : o.callers[c]? = some cl) (hsc : scanStep (scan tr) e = scan tr)
    (hp : ∀ k, prepCount k (tr ++ [e]) = prepCount k tr) (hr : ∀ k, rmCount k (tr ++ [e]) = rmCount k tr)
    (hpc : ∀ a, pc ≠ .awaiting a) :
    Hist (tr ++ [e]) (setPc o c cl pc) := by
  have hs : scan (tr ++ [e]) = scan tr := by rw [scan_snoc, hsc]
  refine ⟨?_, ?_, ?_, ?_, ?_, ?_, fun c' h => mem_snoc_of_mem (hH.canc c' h), ?_⟩
  rotate_left 6
  · intro c' ocl a h hpa
    unfold setPc at h
    rcases getElem?_set_cases _ _ _ _ _ h with ⟨h1, h2⟩ | ⟨_, h2⟩
    · subst h2; exact absurd hpa (hpc a)
    · obtain ⟨ids, hi⟩ := hH.await c' ocl a h2 hpa
      exact ⟨ids, mem_snoc_of_mem hi⟩
  · intro f; rw [hs]; exact hH.rem f
  · intro c' ocl h
    rw [hs]
    unfold setPc at h
    rcases getElem?_set_cases _ _ _ _ _ h with ⟨h1, h2⟩ | ⟨_, h2⟩
    · subst h1; subst h2; exact hH.ban c cl hc
    · exact hH.ban c' ocl h2
  · intro f fl r h1 h2; exact mem_snoc_of_mem (hH.prep f fl r h1 h2)
  · intro f fl h1 h2; exact mem_snoc_of_mem (hH.rm f fl h1 h2)
  · intro c' ocl h
    unfold setPc at h
    rcases getElem?_set_cases _ _ _ _ _ h with ⟨h1, h2⟩ | ⟨_, h2⟩
    · subst h1; subst h2
      obtain ⟨b, hb⟩ := hH.start c cl hc
      exact ⟨b, mem_snoc_of_mem hb⟩
    · obtain ⟨b, hb⟩ := hH.start c' ocl h2
      exact ⟨b, mem_snoc_of_mem hb⟩
  · intro k; rw [hp, hr]; exact hH.credit k

theorem hist_step {tr : List (Ev κ)} {o o' : OState κ} {e : Ev κ} (hH : Hist tr o) (h : Obs.step o e = some o') :
    Hist (tr ++ [e]) o' := by
  have hcanc : ∀ c, o.cancelled c = true → Ev.cancel c ∈ tr ++ [e] := fun c h => mem_snoc_of_mem (hH.canc c h)
  have hawait : ∀ (c : Nat) (ocl : OCaller κ) (a : XAns), o.callers[c]? = some ocl → ocl.pc = .awaiting a →
      ∃ ids, Ev.exec c ids a ∈ tr ++ [e] := fun c ocl a h1 h2 => by
    obtain ⟨ids, hi⟩ := hH.await c ocl a h1 h2
    exact ⟨ids, mem_snoc_of_mem hi⟩
  cases e with
  | start c b es =>
    simp only [Obs.step] at h
    by_cases hc : c = o.callers.length ∧ es ≠ []
    · rw [if_pos hc] at h; injection h with h; subst h
      obtain ⟨hc1, _⟩ := hc
      refine ⟨?_, ?_, ?_, ?_, ?_, ?_, hcanc, ?_⟩
      rotate_left 6
      · intro c' ocl a hx hpa
        simp only [] at hx
        by_cases hlt : c' < o.callers.length
        · rw [List.getElem?_append_left hlt] at hx
          exact hawait c' ocl a hx hpa
        · have hge : o.callers.length ≤ c' := Nat.le_of_not_lt hlt
          rw [List.getElem?_append_right hge] at hx
          cases hi : c' - o.callers.length with
          | zero => rw [hi] at hx; simp at hx; subst hx; cases hpa
          | succ n => rw [hi] at hx; simp at hx
      · intro f; rw [scan_snoc]; exact hH.rem f
      · intro c' ocl hx
        rw [scan_snoc]
        simp only [scanStep]
        by_cases hlt : c' < o.callers.length
        · simp only [] at hx
          rw [List.getElem?_append_left hlt] at hx
          have : c' ≠ c := by omega
          simp only [this, if_false]
          exact hH.ban c' ocl hx
        · simp only [] at hx
          have hge : o.callers.length ≤ c' := Nat.le_of_not_lt hlt
          rw [List.getElem?_append_right hge] at hx
          cases hi : c' - o.callers.length with
          | zero =>
            rw [hi] at hx; simp at hx; subst hx
            have : c' = c := by omega
            simp only [this, if_true]
            funext f; exact hH.rem f
          | succ n => rw [hi] at hx; simp at hx
      · intro f fl r h1 h2; exact mem_snoc_of_mem (hH.prep f fl r h1 h2)
      · intro f fl h1 h2; exact mem_snoc_of_mem (hH.rm f fl h1 h2)
      · intro c' ocl hx
        simp only [] at hx
        by_cases hlt : c' < o.callers.length
        · rw [List.getElem?_append_left hlt] at hx
          obtain ⟨b', hb'⟩ := hH.start c' ocl hx
          exact ⟨b', mem_snoc_of_mem hb'⟩
        · have hge : o.callers.length ≤ c' := Nat.le_of_not_lt hlt
          rw [List.getElem?_append_right hge] at hx
          cases hi : c' - o.callers.length with
          | zero =>
            rw [hi] at hx; simp at hx; subst hx
            have : c' = c := by omega
            subst this
            exact ⟨b, by simp⟩
          | succ n => rw [hi] at hx; simp at hx
      · intro k; rw [prepCount_snoc, rmCount_snoc]; exact hH.credit k
    · rw [if_neg hc] at h; cases h
  | prep f k r =>
    simp only [Obs.step] at h
    by_cases hc : 0 < o.credit k ∧ o.callers.any (fun cl => (cl.pc.live || cl.pc.gaveUp) && hasKey cl.entries k) = true
    · rw [if_pos hc] at h
      have hcr := hH.credit k
      have hcredit : ∀ k', prepCount k' (tr ++ [Ev.prep f k r]) + (if k' = k then o.credit k - 1 else o.credit k') =
          rmCount k' (tr ++ [Ev.prep f k r]) + 1 := by
        intro k'
        rw [prepCount_snoc, rmCount_snoc]
        simp only []
        by_cases hk : k' = k
        · subst hk; simp only [if_true]; have := hc.1; omega
        · have : ¬ k = k' := fun e => hk e.symm
          simp only [hk, this, if_false]; exact hH.credit k'
      cases hf : o.flights f with
      | none =>
        simp only [hf] at h; injection h with h; subst h
        refine ⟨?_, ?_, ?_, ?_, ?_, hcredit, hcanc, hawait⟩
        · intro g
          rw [scan_snoc]; simp only [scanStep]
          rw [← hH.rem g]
          unfold removedNow
          by_cases hg : g = f
          · subst hg; simp [hf]
          · simp [hg]
        · intro c ocl hx; rw [scan_snoc]; exact hH.ban c ocl hx
        · intro g fl r' h1 h2
          simp only [] at h1
          by_cases hg : g = f
          · subst hg; simp at h1; subst h1
            simp only [] at h2; injection h2 with h2; subst h2
            simp
          · simp only [hg, if_false] at h1
            exact mem_snoc_of_mem (hH.prep g fl r' h1 h2)
        · intro g fl h1 h2
          simp only [] at h1
          by_cases hg : g = f
          · subst hg; simp at h1; subst h1; simp at h2
          · simp only [hg, if_false] at h1
            exact mem_snoc_of_mem (hH.rm g fl h1 h2)
        · intro c ocl hx
          obtain ⟨b, hb⟩ := hH.start c ocl hx
          exact ⟨b, mem_snoc_of_mem hb⟩
      | some fl0 =>
        simp only [hf] at h
        by_cases hk : fl0.key = k ∧ fl0.ans = none
        · rw [if_pos hk] at h; injection h with h; subst h
          refine ⟨?_, ?_, ?_, ?_, ?_, hcredit, hcanc, hawait⟩
          · intro g
            rw [scan_snoc]; simp only [scanStep]
            rw [← hH.rem g]
            unfold removedNow
            by_cases hg : g = f
            · subst hg; simp [hf]
            · simp [hg]
          · intro c ocl hx; rw [scan_snoc]; exact hH.ban c ocl hx
          · intro g fl r' h1 h2
            simp only [] at h1
            by_cases hg : g = f
            · subst hg; simp at h1; subst h1
              simp only [] at h2; injection h2 with h2; subst h2
              simp [hk.1]
            · simp only [hg, if_false] at h1
              exact mem_snoc_of_mem (hH.prep g fl r' h1 h2)
          · intro g fl h1 h2
            simp only [] at h1
            by_cases hg : g = f
            · subst hg; simp at h1; subst h1
              exact mem_snoc_of_mem (hH.rm g fl0 hf h2)
            · simp only [hg, if_false] at h1
              exact mem_snoc_of_mem (hH.rm g fl h1 h2)
          · intro c ocl hx
            obtain ⟨b, hb⟩ := hH.start c ocl hx
            exact ⟨b, mem_snoc_of_mem hb⟩
        · rw [if_neg hk] at h; cases h
    · rw [if_neg hc] at h; cases h
  | rm k f =>
    simp only [Obs.step] at h
    by_cases hj : o.strict = true ∧ justified o k f = false
    · rw [if_pos hj] at h; cases h
    rw [if_neg hj] at h
    have hcredit : ∀ k', prepCount k' (tr ++ [Ev.rm k f]) + (if k' = k then o.credit k + 1 else o.credit k') =
        rmCount k' (tr ++ [Ev.rm k f]) + 1 := by
      intro k'
      rw [prepCount_snoc, rmCount_snoc]
      simp only []
      by_cases hk : k' = k
      · subst hk; simp only [if_true]; have := hH.credit k'; omega
      · have : ¬ k = k' := fun e => hk e.symm
        simp only [hk, this, if_false]; exact hH.credit k'
    cases hf : o.flights f with
    | none =>
      simp only [hf] at h; injection h with h; subst h
      refine ⟨?_, ?_, ?_, ?_, ?_, hcredit, hcanc, hawait⟩
      · intro g
        rw [scan_snoc]; simp only [scanStep]
        rw [← hH.rem g]
        unfold removedNow
        by_cases hg : g = f
        · subst hg; simp
        · simp [hg]
      · intro c ocl hx; rw [scan_snoc]; exact hH.ban c ocl hx
      · intro g fl r' h1 h2
        simp only [] at h1
        by_cases hg : g = f
        · subst hg; simp at h1; subst h1; simp at h2
        · simp only [hg, if_false] at h1
          exact mem_snoc_of_mem (hH.prep g fl r' h1 h2)
      · intro g fl h1 h2
        simp only [] at h1
        by_cases hg : g = f
        · subst hg; simp at h1; subst h1; simp
        · simp only [hg, if_false] at h1
          exact mem_snoc_of_mem (hH.rm g fl h1 h2)
      · intro c ocl hx
        obtain ⟨b, hb⟩ := hH.start c ocl hx
        exact ⟨b, mem_snoc_of_mem hb⟩
    | some fl0 =>
      simp only [hf] at h
      by_cases hk : fl0.key = k ∧ fl0.removed = false
      · rw [if_pos hk] at h; injection h with h; subst h
        refine ⟨?_, ?_, ?_, ?_, ?_, hcredit, hcanc, hawait⟩
        · intro g
          rw [scan_snoc]; simp only [scanStep]
          rw [← hH.rem g]
          unfold removedNow
          by_cases hg : g = f
          · subst hg; simp
          · simp [hg]
        · intro c ocl hx; rw [scan_snoc]; exact hH.ban c ocl hx
        · intro g fl r' h1 h2
          simp only [] at h1
          by_cases hg : g = f
          · subst hg; simp at h1; subst h1
            exact mem_snoc_of_mem (hH.prep g fl0 r' hf h2)
          · simp only [hg, if_false] at h1
            exact mem_snoc_of_mem (hH.prep g fl r' h1 h2)
        · intro g fl h1 h2
          simp only [] at h1
          by_cases hg : g = f
          · subst hg; simp at h1; subst h1; simp [hk.1]
          · simp only [hg, if_false] at h1
            exact mem_snoc_of_mem (hH.rm g fl h1 h2)
        · intro c ocl hx
          obtain ⟨b, hb⟩ := hH.start c ocl hx
          exact ⟨b, mem_snoc_of_mem hb⟩
      · rw [if_neg hk] at h; cases h
  | exec c ids a =>
    simp only [Obs.step] at h
    cases hc : o.callers[c]? with
    | none => simp [hc] at h
    | some cl =>
      simp only [hc] at h
      -- both accepting branches replace the record of c by one with the same entries and `banned := removedNow o`
      have key : ∀ pc, (∀ a', pc = .awaiting a' → a' = a) →
          Hist (tr ++ [Ev.exec c ids a]) { o with callers := o.callers.set c { cl with pc := pc, banned := removedNow o } } := by
        intro pc hpca
        refine ⟨?_, ?_, ?_, ?_, ?_, ?_, hcanc, ?_⟩
        rotate_left 6
        · intro c' ocl a' hx hpa
          simp only [] at hx
          rcases getElem?_set_cases _ _ _ _ _ hx with ⟨h1, h2⟩ | ⟨_, h2⟩
          · subst h1; subst h2
            have := hpca a' hpa; subst this
            exact ⟨ids, by simp⟩
          · exact hawait c' ocl a' h2 hpa
        · intro f; rw [scan_snoc]; exact hH.rem f
        · intro c' ocl hx
          rw [scan_snoc]; simp only [scanStep]
          simp only [] at hx
          rcases getElem?_set_cases _ _ _ _ _ hx with ⟨h1, h2⟩ | ⟨h1, h2⟩
          · subst h1; subst h2
            simp only [if_true]
            funext f; exact hH.rem f
          · have : c' ≠ c := fun e => h1 e.symm
            simp only [this, if_false]
            exact hH.ban c' ocl h2
        · intro f fl r h1 h2; exact mem_snoc_of_mem (hH.prep f fl r h1 h2)
        · intro f fl h1 h2; exact mem_snoc_of_mem (hH.rm f fl h1 h2)
        · intro c' ocl hx
          simp only [] at hx
          rcases getElem?_set_cases _ _ _ _ _ hx with ⟨h1, h2⟩ | ⟨_, h2⟩
          · subst h1; subst h2
            obtain ⟨b, hb⟩ := hH.start c cl hc
            exact ⟨b, mem_snoc_of_mem hb⟩
          · obtain ⟨b, hb⟩ := hH.start c' ocl h2
            exact ⟨b, mem_snoc_of_mem hb⟩
        · intro k; rw [prepCount_snoc, rmCount_snoc]; exact hH.credit k
      by_cases hk : cl.pc.live = true ∧ okEntries o cl.banned cl.entries ids = true
      · rw [if_pos hk] at h; injection h with h; subst h
        exact key _ (fun a' h' => by injection h' with h'; exact h'.symm)
      · rw [if_neg hk] at h
        by_cases hk2 : cl.pc = .abandoned true ∧ okEntries o cl.banned cl.entries ids = true
        · rw [if_pos hk2] at h; injection h with h; subst h
          exact key _ (fun a' h' => by cases h')
        · rw [if_neg hk2] at h; cases h
  | ret c out =>
    simp only [Obs.step] at h
    cases hc : o.callers[c]? with
    | none => simp [hc] at h
    | some cl =>
      simp only [hc] at h
      have key : ∀ pc, (∀ a, pc ≠ .awaiting a) → Hist (tr ++ [Ev.ret c out]) (setPc o c cl pc) := fun pc hpc =>
        hist_setPc _ c cl pc hH hc rfl (fun k => by rw [prepCount_snoc]; rfl) (fun k => by rw [rmCount_snoc]; rfl) hpc
      cases out with
      | ok =>
        simp only [] at h
        by_cases hp : cl.pc = .awaiting .ok
        · rw [if_pos hp] at h; injection h with h; subst h; exact key _ (fun a h' => by cases h')
        · rw [if_neg hp] at h; cases h
      | execErr =>
        simp only [] at h
        by_cases hp : cl.pc = .awaiting .err
        · rw [if_pos hp] at h; injection h with h; subst h; exact key _ (fun a h' => by cases h')
        · rw [if_neg hp] at h; cases h
      | prepErr f =>
        simp only [] at h
        by_cases hp : cl.pc.live = true ∧ cl.banned f = false
        · rw [if_pos hp] at h
          cases hf : o.flights f with
          | none => simp [hf] at h
          | some fl =>
            simp only [hf] at h
            by_cases hq : hasKey cl.entries fl.key = true ∧ fl.ans = some none ∧ fl.removed = true
            · rw [if_pos hq] at h; injection h with h; subst h; exact key _ (fun a h' => by cases h')
            · rw [if_neg hq] at h; cases h
        · rw [if_neg hp] at h; cases h
      | countErr =>
        simp only [] at h
        by_cases hp : cl.pc.live = true ∧ countMismatch o cl = true
        · rw [if_pos hp] at h; injection h with h; subst h; exact key _ (fun a h' => by cases h')
        · rw [if_neg hp] at h; cases h
      | ctxErr =>
        simp only [] at h
        by_cases hp : o.cancelled c = true ∧ cl.pc.running = true
        · rw [if_pos hp] at h; injection h with h; subst h; exact key _ (fun a h' => by cases h')
        · rw [if_neg hp] at h; cases h
  | crash => simp [Obs.step] at h
  | hang c => simp [Obs.step] at h
  | cancel c =>
    simp only [Obs.step] at h
    by_cases hc : c < o.callers.length
    · rw [if_pos hc] at h; injection h with h; subst h
      refine ⟨?_, ?_, ?_, ?_, ?_, ?_, ?_, hawait⟩
      · intro f; rw [scan_snoc]; exact hH.rem f
      · intro c' ocl hx; rw [scan_snoc]; exact hH.ban c' ocl hx
      · intro f fl r h1 h2; exact mem_snoc_of_mem (hH.prep f fl r h1 h2)
      · intro f fl h1 h2; exact mem_snoc_of_mem (hH.rm f fl h1 h2)
      · intro c' ocl hx
        obtain ⟨b, hb⟩ := hH.start c' ocl hx
        exact ⟨b, mem_snoc_of_mem hb⟩
      · intro k; rw [prepCount_snoc, rmCount_snoc]; exact hH.credit k
      · intro c' hc'
        simp only [Bool.or_eq_true, decide_eq_true_eq] at hc'
        rcases hc' with hc' | hc'
        · subst hc'; simp
        · exact mem_snoc_of_mem (hH.canc c' hc')
    · rw [if_neg hc] at h; cases h

theorem hist_run : ∀ (evs : List (Ev κ)) (tr : List (Ev κ)) (o o' : OState κ), Hist tr o → Obs.run o evs = some o' →
    Hist (tr ++ evs) o'
  | [], tr, o, o', hH, h => by
    simp only [Obs.run] at h; injection h with h; subst h; simpa using hH
  | e :: evs, tr, o, o', hH, h => by
    simp only [Obs.run] at h
    cases hs : Obs.step o e with
    | none => simp [hs] at h
    | some o1 =>
      simp only [hs] at h
      have := hist_run evs (tr ++ [e]) o1 o' (hist_step hH hs) h
      simpa using this

/-- an accepted trace: the state after a prefix, and the step of the next event -/
theorem run_split (o : OState κ) : ∀ (pre : List (Ev κ)) (e : Ev κ) (post : List (Ev κ)) (o' : OState κ),
    Obs.run o (pre ++ e :: post) = some o' → ∃ o1 o2, Obs.run o pre = some o1 ∧ Obs.step o1 e = some o2
  | [], e, post, o', h => by
    simp only [List.nil_append, Obs.run] at h
    cases hs : Obs.step o e with
    | none => simp [hs] at h
    | some o2 => exact ⟨o, o2, rfl, hs⟩
  | x :: pre, e, post, o', h => by
    simp only [List.cons_append, Obs.run] at h ⊢
    cases hs : Obs.step o x with
    | none => simp [hs] at h
    | some o1 =>
      simp only [hs] at h ⊢
      exact run_split o1 pre e post o' h

/-- the ids of an accepted frame -/
theorem okEntries_sound {tr : List (Ev κ)} {o : OState κ} (hH : Hist tr o) (b : Nat → Bool) :
    ∀ (es : List (κ × Nat)) (ids : List Id), okEntries o b es ids = true →
      ids.length = es.length ∧ ∀ (j : Nat) (e : κ × Nat) (id : Id), es[j]? = some e → ids[j]? = some id →
        ∃ f, Ev.prep f e.1 (some (id, e.2)) ∈ tr ∧ b f = false
  | [], [], _ => ⟨rfl, fun j e id h => by simp at h⟩
  | [], _ :: _, h => by simp [okEntries] at h
  | _ :: _, [], h => by simp [okEntries] at h
  | e0 :: es, id0 :: ids, h => by
    simp only [okEntries, Bool.and_eq_true] at h
    obtain ⟨h1, h2⟩ := h
    obtain ⟨hl, hrec⟩ := okEntries_sound hH b es ids h2
    refine ⟨by simp [hl], ?_⟩
    intro j e id he hid
    cases j with
    | zero =>
      simp at he hid; subst he; subst hid
      obtain ⟨f, _, hj⟩ := List.any_eq_true.1 h1
      unfold justifies at hj
      simp only [Bool.and_eq_true, Bool.not_eq_true'] at hj
      obtain ⟨hb, hm⟩ := hj
      cases hf : o.flights f with
      | none => simp [hf] at hm
      | some fl =>
        simp only [hf, Bool.and_eq_true, decide_eq_true_eq] at hm
        have := hH.prep f fl _ hf hm.2
        rw [hm.1] at this
        exact ⟨f, this, hb⟩
    | succ j =>
      simp at he hid
      exact hrec j e id he hid

/-! ### facts about the bookkeeping `scan` -/

theorem scan_append (tr evs : List (Ev κ)) : scan (tr ++ evs) = evs.foldl scanStep (scan tr) := by
  unfold scan; rw [List.foldl_append]

theorem scanStep_keeps (sc : Scan) (e : Ev κ) (c f : Nat) (h1 : sc.rem f = true) (h2 : sc.ban c f = true) :
    (scanStep sc e).rem f = true ∧ (scanStep sc e).ban c f = true := by
  cases e with
  | rm k g =>
    simp only [scanStep]
    refine ⟨?_, h2⟩
    by_cases hg : f = g <;> simp [hg, h1]
  | start c' b es =>
    simp only [scanStep]
    refine ⟨h1, ?_⟩
    by_cases hc : c = c' <;> simp [hc, h1, h2]
  | exec c' ids a =>
    simp only [scanStep]
    refine ⟨h1, ?_⟩
    by_cases hc : c = c' <;> simp [hc, h1, h2]
  | prep _ _ _ => exact ⟨h1, h2⟩
  | ret _ _ => exact ⟨h1, h2⟩
  | crash => exact ⟨h1, h2⟩
  | hang _ => exact ⟨h1, h2⟩
  | cancel _ => exact ⟨h1, h2⟩

theorem foldl_keeps (c f : Nat) : ∀ (evs : List (Ev κ)) (sc : Scan), sc.rem f = true → sc.ban c f = true →
    (evs.foldl scanStep sc).ban c f = true
  | [], _, _, h2 => h2
  | e :: evs, sc, h1, h2 => by
    obtain ⟨g1, g2⟩ := scanStep_keeps sc e c f h1 h2
    exact foldl_keeps c f evs (scanStep sc e) g1 g2

theorem scanStep_rem (sc : Scan) (e : Ev κ) (f : Nat) (h1 : sc.rem f = true) : (scanStep sc e).rem f = true := by
  cases e with
  | rm k g =>
    simp only [scanStep]
    by_cases hg : f = g <;> simp [hg, h1]
  | start _ _ _ => exact h1
  | exec _ _ _ => exact h1
  | prep _ _ _ => exact h1
  | ret _ _ => exact h1
  | crash => exact h1
  | hang _ => exact h1
  | cancel _ => exact h1

theorem foldl_rem_of_mem (f : Nat) (k : κ) : ∀ (evs : List (Ev κ)) (sc : Scan), (sc.rem f = true ∨ Ev.rm k f ∈ evs) →
    (evs.foldl scanStep sc).rem f = true
  | [], sc, h => by
    rcases h with h | h
    · exact h
    · simp at h
  | e :: evs, sc, h => by
    refine foldl_rem_of_mem f k evs (scanStep sc e) ?_
    rcases h with h | h
    · exact Or.inl (scanStep_rem sc e f h)
    · rcases List.mem_cons.1 h with h | h
      · subst h; left; simp [scanStep]
      · exact Or.inr h

theorem scan_rem_of_mem (f : Nat) (k : κ) (tr : List (Ev κ)) (h : Ev.rm k f ∈ tr) : (scan tr).rem f = true := by
  unfold scan
  exact foldl_rem_of_mem f k tr _ (Or.inr h)

/-- a flight that left the cache before call c started stays "removed before" for c, whatever follows -/
theorem removedBefore_of_rm_before_start (p1 p2 : List (Ev κ)) (c f : Nat) (k : κ) (b : Bool) (es : List (κ × Nat))
    (h : Ev.rm k f ∈ p1) : removedBefore (p1 ++ Ev.start c b es :: p2) c f = true := by
  unfold removedBefore
  have h1 := scan_rem_of_mem f k p1 h
  have : p1 ++ Ev.start c b es :: p2 = (p1 ++ [Ev.start c b es]) ++ p2 := by simp
  rw [this, scan_append]
  refine foldl_keeps c f p2 _ ?_ ?_
  · rw [scan_snoc]; exact scanStep_rem _ _ _ h1
  · rw [scan_snoc]; simp [scanStep, h1]

/-! ### the specification never changes its mode -/

theorem obs_step_strict {o o' : OState κ} {e : Ev κ} (h : Obs.step o e = some o') : o'.strict = o.strict := by
  cases e with
  | start c b es =>
    simp only [Obs.step] at h
    split at h
    · injection h with h; subst h; rfl
    · cases h
  | prep f k r =>
    simp only [Obs.step] at h
    split at h
    · split at h
      · injection h with h; subst h; rfl
      · split at h
        · injection h with h; subst h; rfl
        · cases h
    · cases h
  | rm k f =>
    simp only [Obs.step] at h
    split at h
    · cases h
    · split at h
      · injection h with h; subst h; rfl
      · split at h
        · injection h with h; subst h; rfl
        · cases h
  | exec c ids a =>
    simp only [Obs.step] at h
    split at h
    · cases h
    · split at h
      · injection h with h; subst h; rfl
      · split at h
        · injection h with h; subst h; rfl
        · cases h
  | ret c out =>
    simp only [Obs.step] at h
    split at h
    · cases h
    · cases out <;> simp only [] at h
      · split at h
        · injection h with h; subst h; rfl
        · cases h
      · split at h
        · injection h with h; subst h; rfl
        · cases h
      · split at h
        · split at h
          · split at h
            · injection h with h; subst h; rfl
            · cases h
          · cases h
        · cases h
      · split at h
        · injection h with h; subst h; rfl
        · cases h
      · split at h
        · injection h with h; subst h; rfl
        · cases h
  | crash => simp [Obs.step] at h
  | hang _ => simp [Obs.step] at h
  | cancel c =>
    simp only [Obs.step] at h
    split at h
    · injection h with h; subst h; rfl
    · cases h

theorem obs_run_strict : ∀ (evs : List (Ev κ)) (o o' : OState κ), Obs.run o evs = some o' → o'.strict = o.strict
  | [], o, o', h => by simp only [Obs.run] at h; injection h with h; subst h; rfl
  | e :: evs, o, o', h => by
    simp only [Obs.run] at h
    cases hs : Obs.step o e with
    | none => simp [hs] at h
    | some o1 =>
      simp only [hs] at h
      rw [obs_run_strict evs o1 o' h, obs_step_strict hs]

/-! ### a call that returned is finished -/

/-- an event that is neither a frame nor a return of call c leaves c's record alone -/
theorem step_keeps_caller {o o1 : OState κ} {x : Ev κ} {c : Nat} {cl : OCaller κ}
    (hs : Obs.step o x = some o1) (hc : o.callers[c]? = some cl)
    (h1 : ∀ ids a, x ≠ Ev.exec c ids a) (h2 : ∀ out, x ≠ Ev.ret c out) : o1.callers[c]? = some cl := by
  have hlt : c < o.callers.length := (List.getElem?_eq_some_iff.1 hc).1
  cases x with
  | start c' b es =>
    simp only [Obs.step] at hs
    by_cases hh : c' = o.callers.length ∧ es ≠ []
    · rw [if_pos hh] at hs; injection hs with hs; subst hs
      simp only []; rw [List.getElem?_append_left hlt]; exact hc
    · rw [if_neg hh] at hs; cases hs
  | prep f k r =>
    simp only [Obs.step] at hs
    by_cases hh : 0 < o.credit k ∧ o.callers.any (fun cl => (cl.pc.live || cl.pc.gaveUp) && hasKey cl.entries k) = true
    · rw [if_pos hh] at hs
      cases hf : o.flights f with
      | none => simp only [hf] at hs; injection hs with hs; subst hs; exact hc
      | some fl0 =>
        simp only [hf] at hs
        by_cases hk : fl0.key = k ∧ fl0.ans = none
        · rw [if_pos hk] at hs; injection hs with hs; subst hs; exact hc
        · rw [if_neg hk] at hs; cases hs
    · rw [if_neg hh] at hs; cases hs
  | rm k f =>
    simp only [Obs.step] at hs
    by_cases hj : o.strict = true ∧ justified o k f = false
    · rw [if_pos hj] at hs; cases hs
    rw [if_neg hj] at hs
    cases hf : o.flights f with
    | none => simp only [hf] at hs; injection hs with hs; subst hs; exact hc
    | some fl0 =>
      simp only [hf] at hs
      by_cases hk : fl0.key = k ∧ fl0.removed = false
      · rw [if_pos hk] at hs; injection hs with hs; subst hs; exact hc
      · rw [if_neg hk] at hs; cases hs
  | exec c' ids a =>
    have hne : c' ≠ c := by intro e; subst e; exact h1 ids a rfl
    simp only [Obs.step] at hs
    cases hc' : o.callers[c']? with
    | none => simp [hc'] at hs
    | some cl' =>
      simp only [hc'] at hs
      by_cases hk : cl'.pc.live = true ∧ okEntries o cl'.banned cl'.entries ids = true
      · rw [if_pos hk] at hs; injection hs with hs; subst hs
        simp only []; rw [List.getElem?_set_ne hne]; exact hc
      · rw [if_neg hk] at hs
        by_cases hk2 : cl'.pc = .abandoned true ∧ okEntries o cl'.banned cl'.entries ids = true
        · rw [if_pos hk2] at hs; injection hs with hs; subst hs
          simp only []; rw [List.getElem?_set_ne hne]; exact hc
        · rw [if_neg hk2] at hs; cases hs
  | ret c' out =>
    have hne : c' ≠ c := by intro e; subst e; exact h2 out rfl
    have hset : ∀ (cl' : OCaller κ) (pc : OPC), (setPc o c' cl' pc).callers[c]? = some cl := by
      intro cl' pc; unfold setPc; simp only []; rw [List.getElem?_set_ne hne]; exact hc
    simp only [Obs.step] at hs
    cases hc' : o.callers[c']? with
    | none => simp [hc'] at hs
    | some cl' =>
      simp only [hc'] at hs
      cases out with
      | ok =>
        simp only [] at hs
        by_cases hp : cl'.pc = .awaiting .ok
        · rw [if_pos hp] at hs; injection hs with hs; subst hs; exact hset _ _
        · rw [if_neg hp] at hs; cases hs
      | execErr =>
        simp only [] at hs
        by_cases hp : cl'.pc = .awaiting .err
        · rw [if_pos hp] at hs; injection hs with hs; subst hs; exact hset _ _
        · rw [if_neg hp] at hs; cases hs
      | prepErr f =>
        simp only [] at hs
        by_cases hp : cl'.pc.live = true ∧ cl'.banned f = false
        · rw [if_pos hp] at hs
          cases hf : o.flights f with
          | none => simp [hf] at hs
          | some fl =>
            simp only [hf] at hs
            by_cases hq : hasKey cl'.entries fl.key = true ∧ fl.ans = some none ∧ fl.removed = true
            · rw [if_pos hq] at hs; injection hs with hs; subst hs; exact hset _ _
            · rw [if_neg hq] at hs; cases hs
        · rw [if_neg hp] at hs; cases hs
      | countErr =>
        simp only [] at hs
        by_cases hp : cl'.pc.live = true ∧ countMismatch o cl' = true
        · rw [if_pos hp] at hs; injection hs with hs; subst hs; exact hset _ _
        · rw [if_neg hp] at hs; cases hs
      | ctxErr =>
        simp only [] at hs
        by_cases hp : o.cancelled c' = true ∧ cl'.pc.running = true
        · rw [if_pos hp] at hs; injection hs with hs; subst hs; exact hset _ _
        · rw [if_neg hp] at hs; cases hs
  | crash => simp [Obs.step] at hs
  | hang _ => simp [Obs.step] at hs
  | cancel c' =>
    simp only [Obs.step] at hs
    by_cases hh : c' < o.callers.length
    · rw [if_pos hh] at hs; injection hs with hs; subst hs; exact hc
    · rw [if_neg hh] at hs; cases hs

omit [DecidableEq κ] in
theorem live_running {pc : OPC} (h : pc.live = true) : pc.running = true := by
  cases pc with
  | active => rfl
  | awaiting a => rfl
  | returned => simp [OPC.live] at h
  | abandoned l => simp [OPC.live] at h

/-- one event in a state where call c has finished (returned a result or its context error): it is not a return of
    c; it is not a frame of c unless c gave up with a frame still on its way, and after that frame none is -/
theorem finished_step {o o1 : OState κ} {x : Ev κ} {c : Nat} {cl : OCaller κ}
    (hs : Obs.step o x = some o1) (hc : o.callers[c]? = some cl) (hp : cl.pc.running = false) :
    (∀ out, x ≠ Ev.ret c out) ∧ (cl.pc ≠ .abandoned true → ∀ ids a, x ≠ Ev.exec c ids a) ∧
    ∃ cl1, o1.callers[c]? = some cl1 ∧ cl1.pc.running = false ∧
      (cl.pc ≠ .abandoned true → cl1.pc ≠ .abandoned true) ∧ ((∃ ids a, x = Ev.exec c ids a) → cl1.pc ≠ .abandoned true) := by
  have hlt : c < o.callers.length := (List.getElem?_eq_some_iff.1 hc).1
  have hnl : cl.pc.live ≠ true := fun hl => by rw [live_running hl] at hp; cases hp
  have hx1 : ∀ out, x ≠ Ev.ret c out := by
    intro out hx; subst hx
    simp only [Obs.step, hc] at hs
    cases out with
    | ok =>
      simp only [] at hs
      by_cases hq : cl.pc = .awaiting .ok
      · rw [hq] at hp; cases hp
      · rw [if_neg hq] at hs; cases hs
    | execErr =>
      simp only [] at hs
      by_cases hq : cl.pc = .awaiting .err
      · rw [hq] at hp; cases hp
      · rw [if_neg hq] at hs; cases hs
    | prepErr f =>
      simp only [] at hs
      rw [if_neg (fun hq => hnl hq.1)] at hs; cases hs
    | countErr =>
      simp only [] at hs
      rw [if_neg (fun hq => hnl hq.1)] at hs; cases hs
    | ctxErr =>
      simp only [] at hs
      rw [if_neg (fun hq => by rw [hq.2] at hp; cases hp)] at hs; cases hs
  have hx2 : cl.pc ≠ .abandoned true → ∀ ids a, x ≠ Ev.exec c ids a := by
    intro hna ids a hx; subst hx
    simp only [Obs.step, hc] at hs
    rw [if_neg (fun hq => hnl hq.1), if_neg (fun hq => hna hq.1)] at hs
    cases hs
  refine ⟨hx1, hx2, ?_⟩
  by_cases hex : ∃ ids a, x = Ev.exec c ids a
  · obtain ⟨ids, a, hx⟩ := hex; subst hx
    simp only [Obs.step, hc] at hs
    rw [if_neg (fun hq => hnl hq.1)] at hs
    by_cases hk2 : cl.pc = .abandoned true ∧ okEntries o cl.banned cl.entries ids = true
    · rw [if_pos hk2] at hs; injection hs with hs; subst hs
      refine ⟨{ cl with pc := .abandoned false, banned := removedNow o }, ?_, rfl, fun _ => by simp, fun _ => by simp⟩
      simp [hlt]
    · rw [if_neg hk2] at hs; cases hs
  · exact ⟨cl, step_keeps_caller hs hc (fun ids a hx => hex ⟨ids, a, hx⟩) hx1, hp, id, fun h => absurd h hex⟩

/-- a call that has returned (a result, or its context error) never returns again, and the server receives no
    further frame of it — except the one frame that a caller which gave up on its context had just written -/
theorem finished_stays (c : Nat) : ∀ (evs : List (Ev κ)) (o o' : OState κ) (cl : OCaller κ),
    Obs.run o evs = some o' → o.callers[c]? = some cl → cl.pc.running = false →
    ∀ e ∈ evs, (∀ out, e ≠ Ev.ret c out) ∧ (cl.pc ≠ .abandoned true → ∀ ids a, e ≠ Ev.exec c ids a)
  | [], _, _, _, _, _, _ => by intro e he; simp at he
  | x :: evs, o, o', cl, h, hc, hp => by
    simp only [Obs.run] at h
    cases hs : Obs.step o x with
    | none => simp [hs] at h
    | some o1 =>
      simp only [hs] at h
      obtain ⟨hx1, hx2, cl1, g1, g2, g3, _⟩ := finished_step hs hc hp
      intro e he
      rcases List.mem_cons.1 he with he | he
      · subst he; exact ⟨hx1, hx2⟩
      · have := finished_stays c evs o1 o' cl1 h g1 g2 e he
        exact ⟨this.1, fun hna => this.2 (g3 hna)⟩

/-- … and of that late frame there is at most one -/
theorem late_frame_once (c : Nat) : ∀ (evs : List (Ev κ)) (o o' : OState κ) (cl : OCaller κ),
    Obs.run o evs = some o' → o.callers[c]? = some cl → cl.pc.running = false →
    ∀ (p1 p2 : List (Ev κ)) (ids : List Id) (a : XAns), evs = p1 ++ Ev.exec c ids a :: p2 →
      ∀ e ∈ p2, ∀ ids' a', e ≠ Ev.exec c ids' a'
  | [], _, _, _, _, _, _ => by intro p1 p2 ids a h; cases p1 <;> simp at h
  | x :: evs, o, o', cl, h, hc, hp => by
    simp only [Obs.run] at h
    cases hs : Obs.step o x with
    | none => simp [hs] at h
    | some o1 =>
      simp only [hs] at h
      obtain ⟨_, _, cl1, g1, g2, _, g4⟩ := finished_step hs hc hp
      intro p1 p2 ids a hsplit
      cases p1 with
      | nil =>
        simp only [List.nil_append] at hsplit
        injection hsplit with hx hrest
        subst hx; subst hrest
        have hna := g4 ⟨ids, a, rfl⟩
        intro e he ids' a'
        exact (finished_stays c evs o1 o' cl1 h g1 g2 e he).2 hna ids' a'
      | cons y p1 =>
        simp only [List.cons_append] at hsplit
        injection hsplit with _ hrest
        exact late_frame_once c evs o1 o' cl1 h g1 g2 p1 p2 ids a hrest

end C14Obs
