import Model.ExecutorConc
/-! Invariants of the interleaving machine of `Model/ExecutorConc.lean` (concurrent executions of one statement
    sharing the attempt counter and the host iterator). -/
namespace ExecutorConc
open Executor

def wI : Ex → Nat | .inflight => 1 | _ => 0
def wC : Ex → Nat | .counted _ => 1 | _ => 0
def wS : Ex → Nat | .idle => 0 | _ => 1

def wsum (w : Ex → Nat) : List Ex → Nat
  | [] => 0
  | x :: l => w x + wsum w l

theorem started_eq : ∀ l, started l = wsum wS l
  | [] => rfl
  | x :: l => by cases x <;> simp [started, wsum, wS, started_eq l] <;> omega

theorem wsum_set (w : Ex → Nat) : ∀ (l : List Ex) (i : Nat) (x y : Ex), l[i]? = some y →
    wsum w (l.set i x) + w y = wsum w l + w x
  | [], i, x, y, h => by simp at h
  | z :: l, 0, x, y, h => by
    simp at h; subst h; simp [wsum]; omega
  | z :: l, i+1, x, y, h => by
    simp only [List.getElem?_cons_succ] at h
    have := wsum_set w l i x y h
    simp only [List.set_cons_succ, wsum]; omega

theorem wsum_ge (w : Ex → Nat) : ∀ (l : List Ex) (i : Nat) (y : Ex), l[i]? = some y → w y ≤ wsum w l
  | [], i, y, h => by simp at h
  | z :: l, 0, y, h => by simp at h; subst h; simp [wsum]
  | z :: l, i+1, y, h => by
    simp only [List.getElem?_cons_succ] at h
    have := wsum_ge w l i y h
    simp only [wsum]; omega

theorem wsum_le_length (w : Ex → Nat) (hw : ∀ x, w x ≤ 1) : ∀ l, wsum w l ≤ l.length
  | [] => by simp [wsum]
  | x :: l => by have := hw x; have := wsum_le_length w hw l; simp only [wsum, List.length_cons]; omega

theorem wIC_le_S : ∀ l, wsum wI l + wsum wC l ≤ wsum wS l
  | [] => by simp [wsum]
  | x :: l => by have := wIC_le_S l; cases x <;> simp only [wsum, wI, wC, wS] <;> omega

theorem wsum_replicate_idle (w : Ex → Nat) (h : w .idle = 0) : ∀ e, wsum w (List.replicate e .idle) = 0
  | 0 => rfl
  | e+1 => by simp [List.replicate_succ, wsum, h, wsum_replicate_idle w h e]

/-- the invariant: requests sent = attempts counted since the start + attempts in flight; the counter only grows;
    requests sent ≤ (N - c0) + executions launched -/
structure Inv (N c0 e : Nat) (m : M) : Prop where
  acc : m.sent + c0 = m.cnt + wsum wI m.exs
  mono : c0 ≤ m.cnt
  bound : m.sent ≤ (N - c0) + wsum wS m.exs
  len : m.exs.length = e

theorem inv_init (N c0 hosts e : Nat) : Inv N c0 e (init c0 hosts e) := by
  refine ⟨?_, Nat.le_refl _, ?_, by simp [init]⟩
  · simp [init, wsum_replicate_idle wI rfl]
  · simp [init]

theorem inv_sendNext_idle (N c0 e : Nat) (m : M) (i : Nat) (h : m.exs[i]? = some .idle) (hi : Inv N c0 e m) :
    Inv N c0 e (m.sendNext i) := by
  obtain ⟨a, b, c, d⟩ := hi
  unfold M.sendNext
  split
  · have hI := wsum_set wI m.exs i .done .idle h
    have hS := wsum_set wS m.exs i .done .idle h
    simp only [wI, wS] at hI hS
    exact ⟨by simp only; omega, b, by simp only; omega, by simp [d]⟩
  · have hI := wsum_set wI m.exs i .inflight .idle h
    have hS := wsum_set wS m.exs i .inflight .idle h
    simp only [wI, wS] at hI hS
    exact ⟨by simp only; omega, b, by simp only; omega, by simp [d]⟩

/-- a retry licensed by `cnt ≤ N`: the deciding execution has a counted attempt, so in-flight + 1 ≤ launched -/
theorem inv_retry (N c0 e : Nat) (m : M) (i : Nat) (r : Res) (h : m.exs[i]? = some (.counted r)) (hle : m.cnt ≤ N)
    (hi : Inv N c0 e m) :
    Inv N c0 e { m with sent := m.sent + 1, exs := m.exs.set i .inflight } := by
  obtain ⟨a, b, c, d⟩ := hi
  have hI := wsum_set wI m.exs i .inflight (.counted r) h
  have hS := wsum_set wS m.exs i .inflight (.counted r) h
  have hC := wsum_ge wC m.exs i (.counted r) h
  have hICS := wIC_le_S m.exs
  simp only [wI, wS, wC] at hI hS hC
  exact ⟨by simp only; omega, b, by simp only; omega, by simp [d]⟩

theorem inv_sendNext_counted (N c0 e : Nat) (m : M) (i : Nat) (r : Res) (h : m.exs[i]? = some (.counted r)) (hle : m.cnt ≤ N)
    (hi : Inv N c0 e m) : Inv N c0 e (m.sendNext i) := by
  unfold M.sendNext
  split
  · obtain ⟨a, b, c, d⟩ := hi
    have hI := wsum_set wI m.exs i .done (.counted r) h
    have hS := wsum_set wS m.exs i .done (.counted r) h
    simp only [wI, wS] at hI hS
    exact ⟨by simp only; omega, b, by simp only; omega, by simp [d]⟩
  · have := inv_retry N c0 e m i r h hle hi
    obtain ⟨a, b, c, d⟩ := this
    exact ⟨a, b, c, d⟩

theorem inv_done (N c0 e : Nat) (m : M) (i : Nat) (r : Res) (h : m.exs[i]? = some (.counted r)) (hi : Inv N c0 e m) :
    Inv N c0 e { m with exs := m.exs.set i .done } := by
  obtain ⟨a, b, c, d⟩ := hi
  have hI := wsum_set wI m.exs i .done (.counted r) h
  have hS := wsum_set wS m.exs i .done (.counted r) h
  simp only [wI, wS] at hI hS
  exact ⟨by simp only; omega, b, by simp only; omega, by simp [d]⟩

theorem inv_step (p : Policy) (N : Nat) (hp : ∀ m, p.attempt m = decide (m ≤ N)) (c0 e : Nat) (m : M) (a : Act)
    (hi : Inv N c0 e m) : Inv N c0 e (step (some p) m a) := by
  cases a with
  | launch i =>
    simp only [step]
    cases h : m.exs[i]? with
    | none => exact hi
    | some x => cases x <;> first | exact hi | exact inv_sendNext_idle N c0 e m i h hi
  | complete i r =>
    simp only [step]
    cases h : m.exs[i]? with
    | none => exact hi
    | some x =>
      cases x with
      | inflight =>
        obtain ⟨a, b, c, d⟩ := hi
        have hI := wsum_set wI m.exs i (.counted r) .inflight h
        have hS := wsum_set wS m.exs i (.counted r) .inflight h
        simp only [wI, wS] at hI hS
        exact ⟨by simp only; omega, by simp only; omega, by simp only; omega, by simp [d]⟩
      | _ => exact hi
  | decide i =>
    simp only [step]
    cases h : m.exs[i]? with
    | none => exact hi
    | some x =>
      cases x with
      | counted r =>
        cases r with
        | err k =>
          simp only [hp]
          by_cases hle : m.cnt ≤ N
          · simp only [hle, decide_true, Bool.not_true, Bool.false_eq_true, if_false]
            cases p.rtype k with
            | retry => exact inv_retry N c0 e m i _ h hle hi
            | nextHost => exact inv_sendNext_counted N c0 e m i _ h hle hi
            | rethrow => exact inv_done N c0 e m i _ h hi
            | ignore => exact inv_done N c0 e m i _ h hi
            | unknown => exact inv_done N c0 e m i _ h hi
          · simp only [hle, decide_false, Bool.not_false, if_true]
            exact inv_done N c0 e m i _ h hi
        | ok => exact inv_done N c0 e m i _ h hi
        | logical => exact inv_done N c0 e m i _ h hi
      | _ => exact hi

theorem inv_run (p : Policy) (N : Nat) (hp : ∀ m, p.attempt m = decide (m ≤ N)) (c0 e : Nat) :
    ∀ (sched : List Act) (m : M), Inv N c0 e m → Inv N c0 e (run (some p) m sched)
  | [], m, hi => hi
  | a :: sched, m, hi => by
    simp only [run, List.foldl_cons]
    exact inv_run p N hp c0 e sched _ (inv_step p N hp c0 e m a hi)

theorem run_budget (p : Policy) (N : Nat) (hp : ∀ m, p.attempt m = decide (m ≤ N)) (c0 hosts e : Nat) (sched : List Act) :
    let m := run (some p) (init c0 hosts e) sched
    m.sent ≤ (N - c0) + started m.exs ∧ started m.exs ≤ e ∧ m.sent ≤ budget (N - c0) e := by
  intro m
  have hi : Inv N c0 e m := inv_run p N hp c0 e sched _ (inv_init N c0 hosts e)
  have hs : started m.exs ≤ e := by
    rw [started_eq, ← hi.len]
    exact wsum_le_length wS (by intro x; cases x <;> simp [wS]) _
  have hb := hi.bound
  rw [← started_eq] at hb
  exact ⟨hb, hs, by unfold budget; omega⟩

/-! ### the shared host iterator -/

theorem hosts_step (pol : Option Policy) (hnr : ∀ p, pol = some p → ∀ e, p.rtype e ≠ .retry) (hosts : Nat) (m : M) (a : Act)
    (hi : m.sent + m.left = hosts) : (step pol m a).sent + (step pol m a).left = hosts := by
  have hsn : ∀ i, (m.sendNext i).sent + (m.sendNext i).left = hosts := by
    intro i; unfold M.sendNext; split <;> simp only <;> omega
  cases a with
  | launch i =>
    simp only [step]
    cases h : m.exs[i]? with
    | none => exact hi
    | some x => cases x <;> first | exact hi | exact hsn i
  | complete i r =>
    simp only [step]
    cases h : m.exs[i]? with
    | none => exact hi
    | some x => cases x <;> exact hi
  | decide i =>
    simp only [step]
    cases h : m.exs[i]? with
    | none => exact hi
    | some x =>
      cases x with
      | counted r =>
        cases r with
        | err k =>
          cases pol with
          | none => exact hi
          | some p =>
            simp only []
            split
            · exact hi
            · have := hnr p rfl k
              cases hrt : p.rtype k with
              | retry => exact absurd hrt this
              | nextHost => exact hsn i
              | rethrow => exact hi
              | ignore => exact hi
              | unknown => exact hi
        | ok => exact hi
        | logical => exact hi
      | _ => exact hi

theorem run_hosts (pol : Option Policy) (hnr : ∀ p, pol = some p → ∀ e, p.rtype e ≠ .retry) (c0 hosts e : Nat) (sched : List Act) :
    (run pol (init c0 hosts e) sched).sent ≤ hosts := by
  have key : ∀ (sched : List Act) (m : M), m.sent + m.left = hosts → (run pol m sched).sent + (run pol m sched).left = hosts := by
    intro sched
    induction sched with
    | nil => intro m h; exact h
    | cons a s ih => intro m h; simp only [run, List.foldl_cons]; exact ih _ (hosts_step pol hnr hosts m a h)
  have := key sched (init c0 hosts e) (by simp [init])
  omega

/-! ### no retry policy -/

theorem nopol_step (e : Nat) (m : M) (a : Act) (hi : m.sent ≤ wsum wS m.exs ∧ m.exs.length = e) :
    (step none m a).sent ≤ wsum wS (step none m a).exs ∧ (step none m a).exs.length = e := by
  obtain ⟨h1, h2⟩ := hi
  cases a with
  | launch i =>
    simp only [step]
    cases h : m.exs[i]? with
    | none => exact ⟨h1, h2⟩
    | some x =>
      cases x with
      | idle =>
        unfold M.sendNext
        by_cases hl : m.left = 0
        · have hS := wsum_set wS m.exs i .done .idle h
          simp only [wS] at hS
          simp only [if_pos hl]
          exact ⟨by omega, by simp [h2]⟩
        · have hS := wsum_set wS m.exs i .inflight .idle h
          simp only [wS] at hS
          simp only [if_neg hl]
          exact ⟨by omega, by simp [h2]⟩
      | _ => exact ⟨h1, h2⟩
  | complete i r =>
    simp only [step]
    cases h : m.exs[i]? with
    | none => exact ⟨h1, h2⟩
    | some x =>
      cases x with
      | inflight =>
        have hS := wsum_set wS m.exs i (.counted r) .inflight h
        simp only [wS] at hS
        exact ⟨by simp only; omega, by simp [h2]⟩
      | _ => exact ⟨h1, h2⟩
  | decide i =>
    simp only [step]
    cases h : m.exs[i]? with
    | none => exact ⟨h1, h2⟩
    | some x =>
      cases x with
      | counted r =>
        have hS := wsum_set wS m.exs i .done (.counted r) h
        simp only [wS] at hS
        cases r <;> exact ⟨by simp only; omega, by simp [h2]⟩
      | _ => exact ⟨h1, h2⟩

theorem run_no_policy (c0 hosts e : Nat) (sched : List Act) :
    let m := run none (init c0 hosts e) sched
    m.sent ≤ started m.exs ∧ started m.exs ≤ e := by
  intro m
  have key : ∀ (sched : List Act) (m : M), (m.sent ≤ wsum wS m.exs ∧ m.exs.length = e) →
      ((run none m sched).sent ≤ wsum wS (run none m sched).exs ∧ (run none m sched).exs.length = e) := by
    intro sched
    induction sched with
    | nil => intro m h; exact h
    | cons a s ih => intro m h; simp only [run, List.foldl_cons]; exact ih _ (nopol_step e m a h)
  have := key sched (init c0 hosts e) (by simp [init])
  rw [started_eq]
  refine ⟨this.1, ?_⟩
  rw [← this.2]
  exact wsum_le_length wS (by intro x; cases x <;> simp [wS]) _

end ExecutorConc
