import Model.ExecutorConc
/-! Invariants of the interleaving machine of `Model/ExecutorConc.lean` (concurrent executions of one statement
    sharing the attempt counter and the host iterator). -/
namespace ExecutorConc
open Executor

def wI : Ex → Nat | .inflight => 1 | _ => 0
def wC : Ex → Nat | .counted _ => 1 | _ => 0
def wS : Ex → Nat | .idle => 0 | _ => 1

def wsum (w : Ex → Nat) : List Ex → Nat
  | [] => 0
  | x :: l => w x + wsum w l

theorem started_eq : ∀ l, started l = wsum wS l
  | [] => rfl
  | x :: l => by cases x <;> simp [started, wsum, wS, started_eq l] <;> omega

theorem wsum_set (w : Ex → Nat) : ∀ (l : List Ex) (i : Nat) (x y : Ex), l[i]? = some y →
    wsum w (l.set i x) + w y = wsum w l + w x
  | [], i, x, y, h => by simp at h
  | z :: l, 0, x, y, h => by
    simp at h; subst h; simp [wsum]; omega
  | z :: l, i+1, x, y, h => by
    simp only [List.getElem?_cons_succ] at h
    have := wsum_set w l i x y h
    simp only [List.set_cons_succ, wsum]; omega

theorem wsum_ge (w : Ex → Nat) : ∀ (l : List Ex) (i : Nat) (y : Ex), l[i]? = some y → w y ≤ wsum w l
  | [], i, y, h => by simp at h
  | z :: l, 0, y, h => by simp at h; subst h; simp [wsum]
  | z :: l, i+1, y, h => by
    simp only [List.getElem?_cons_succ] at h
    have := wsum_ge w l i y h
    simp only [wsum]; omega

theorem wsum_le_length (w : Ex → Nat) (hw : ∀ x, w x ≤ 1) : ∀ l, wsum w l ≤ l.length
  | [] => by simp [wsum]
  | x :: l => by have := hw x; have := wsum_le_length w hw l; simp only [wsum, List.length_cons]; omega

theorem wIC_le_S : ∀ l, wsum wI l + wsum wC l ≤ wsum wS l
  | [] => by simp [wsum]
  | x :: l => by have := wIC_le_S l; cases x <;> simp only [wsum, wI, wC, wS] <;> omega

theorem wsum_replicate_idle (w : Ex → Nat) (h : w .idle = 0) : ∀ e, wsum w (List.replicate e .idle) = 0
  | 0 => rfl
  | e+1 => by simp [List.replicate_succ, wsum, h, wsum_replicate_idle w h e]

def wD : Ex → Nat | .done => 1 | _ => 0

theorem wD_le_S : ∀ l, wsum wD l ≤ wsum wS l
  | [] => by simp [wsum]
  | x :: l => by have := wD_le_S l; cases x <;> simp only [wsum, wD, wS] <;> omega

/-- `[c0 + n - 1, …, c0 + 1, c0]` -/
def down (c0 : Nat) : Nat → List Nat
  | 0 => []
  | n+1 => (c0 + n) :: down c0 n

theorem down_length (c0 : Nat) : ∀ n, (down c0 n).length = n
  | 0 => rfl
  | n+1 => by simp [down, down_length c0 n]

theorem down_reverse (c0 : Nat) : ∀ n, (down c0 n).reverse = List.range' c0 n
  | 0 => rfl
  | n+1 => by simp [down, down_reverse c0 n, List.range'_concat]

/-! ### accounting: holds for EVERY retry policy (or none) and every schedule -/

/-- requests sent + attempts on a cancelled context = attempts counted since the start + attempts in flight; the
    attempts were numbered c0, c0+1, … in the order they were counted; an execution makes at most one attempt on a
    cancelled context, its last -/
structure Acc (c0 e : Nat) (m : M) : Prop where
  acc : m.sent + m.unsent + c0 = m.cnt + wsum wI m.exs
  mono : c0 ≤ m.cnt
  log : m.log = down c0 (m.cnt - c0)
  dead : m.unsent ≤ wsum wD m.exs
  len : m.exs.length = e

theorem acc_init (c0 hosts e : Nat) : Acc c0 e (init c0 hosts e) := by
  refine ⟨?_, Nat.le_refl _, ?_, ?_, by simp [init]⟩
  · simp [init, wsum_replicate_idle wI rfl]
  · simp [init, down]
  · simp [init]

macro "wsolve" hy:ident hd:ident : tactic =>
  `(tactic| (first | rw [$hy:ident] | rw [$hd:ident] | skip) <;> (simp only [wI, wD, M.deadAttempt, M.count] <;> omega))

/-- one execution moves from `y` to `x`; the counter stays or one attempt is counted -/
theorem acc_upd {c0 e : Nat} {m : M} {i : Nat} {x y : Ex} (hi : Acc c0 e m) (h : m.exs[i]? = some y) (m' : M)
    (hexs : m'.exs = m.exs.set i x)
    (hcnt : (m'.cnt = m.cnt ∧ m'.log = m.log) ∨ (m'.cnt = m.cnt + 1 ∧ m'.log = m.cnt :: m.log))
    (hacc : m'.sent + m'.unsent + m.cnt + wI y = m.sent + m.unsent + m'.cnt + wI x)
    (hdead : m'.unsent + wD y ≤ m.unsent + wD x) : Acc c0 e m' := by
  obtain ⟨a, b, c, d, l⟩ := hi
  have hI := wsum_set wI m.exs i x y h
  have hD := wsum_set wD m.exs i x y h
  refine ⟨by rw [hexs]; omega, by rcases hcnt with ⟨g, _⟩ | ⟨g, _⟩ <;> omega, ?_, by rw [hexs]; omega, by rw [hexs]; simp [l]⟩
  rcases hcnt with ⟨g1, g2⟩ | ⟨g1, g2⟩
  · rw [g1, g2, c]
  · rw [g1, g2, c]
    have : m.cnt + 1 - c0 = (m.cnt - c0) + 1 := by omega
    rw [this, down]
    congr 1
    omega

theorem acc_sendNext {c0 e : Nat} {m : M} {i : Nat} {y : Ex} (hi : Acc c0 e m) (h : m.exs[i]? = some y)
    (hy : wI y = 0) (hd : wD y = 0) : Acc c0 e (m.sendNext i) := by
  unfold M.sendNext
  split
  · exact acc_upd hi h _ rfl (Or.inl ⟨rfl, rfl⟩) (by wsolve hy hd) (by wsolve hy hd)
  · exact acc_upd hi h _ rfl (Or.inl ⟨rfl, rfl⟩) (by wsolve hy hd) (by wsolve hy hd)

theorem acc_finish {c0 e : Nat} {m : M} {i : Nat} {y : Ex} (hi : Acc c0 e m) (h : m.exs[i]? = some y)
    (hy : wI y = 0) (hd : wD y = 0) : Acc c0 e { m with exs := m.exs.set i .done } :=
  acc_upd hi h _ rfl (Or.inl ⟨rfl, rfl⟩) (by wsolve hy hd) (by wsolve hy hd)

theorem acc_deadAttempt {c0 e : Nat} {m : M} {i : Nat} {y : Ex} (hi : Acc c0 e m) (h : m.exs[i]? = some y)
    (hy : wI y = 0) (hd : wD y = 0) : Acc c0 e (m.deadAttempt i) :=
  acc_upd hi h _ rfl (Or.inr ⟨rfl, rfl⟩) (by wsolve hy hd) (by wsolve hy hd)

theorem acc_deadNext {c0 e : Nat} {m : M} {i : Nat} {y : Ex} (hi : Acc c0 e m) (h : m.exs[i]? = some y)
    (hy : wI y = 0) (hd : wD y = 0) : Acc c0 e (m.deadNext i) := by
  unfold M.deadNext
  split
  · exact acc_finish hi h hy hd
  · exact acc_upd hi h _ rfl (Or.inr ⟨rfl, rfl⟩) (by wsolve hy hd) (by wsolve hy hd)

theorem acc_step (pol : Option Policy) (c0 e : Nat) (m : M) (a : Act) (hi : Acc c0 e m) : Acc c0 e (step pol m a) := by
  cases a with
  | launch i =>
    simp only [step]
    cases h : m.exs[i]? with
    | none => exact hi
    | some x => cases x <;> first | exact hi | exact acc_sendNext hi h rfl rfl
  | complete i r =>
    simp only [step]
    cases h : m.exs[i]? with
    | none => exact hi
    | some x =>
      cases x with
      | inflight =>
        exact acc_upd hi h _ rfl (Or.inr ⟨rfl, rfl⟩) (by simp only [M.count, wI]; omega) (by simp only [M.count, wD]; omega)
      | _ => exact hi
  | decide i =>
    simp only [step]
    cases h : m.exs[i]? with
    | none => exact hi
    | some x =>
      cases x with
      | counted r =>
        cases r with
        | err k =>
          cases pol with
          | none => exact acc_finish hi h rfl rfl
          | some p =>
            simp only []
            split
            · exact acc_finish hi h rfl rfl
            · cases p.rtype k with
              | retry => exact acc_upd hi h _ rfl (Or.inl ⟨rfl, rfl⟩) (by simp only [wI]; omega) (by simp only [wD]; omega)
              | nextHost => exact acc_sendNext hi h rfl rfl
              | rethrow => exact acc_finish hi h rfl rfl
              | ignore => exact acc_finish hi h rfl rfl
              | unknown => exact acc_finish hi h rfl rfl
        | ok => exact acc_finish hi h rfl rfl
        | logical => exact acc_finish hi h rfl rfl
      | _ => exact hi
  | abort i =>
    simp only [step]
    cases h : m.exs[i]? with
    | none => exact hi
    | some x =>
      cases x with
      | idle => exact acc_deadNext hi h rfl rfl
      | counted r =>
        cases r with
        | err k =>
          cases pol with
          | none => exact acc_finish hi h rfl rfl
          | some p =>
            simp only []
            split
            · exact acc_finish hi h rfl rfl
            · cases p.rtype k with
              | retry => exact acc_deadAttempt hi h rfl rfl
              | nextHost => exact acc_deadNext hi h rfl rfl
              | rethrow => exact acc_finish hi h rfl rfl
              | ignore => exact acc_finish hi h rfl rfl
              | unknown => exact acc_finish hi h rfl rfl
        | ok => exact acc_finish hi h rfl rfl
        | logical => exact acc_finish hi h rfl rfl
      | _ => exact hi

theorem acc_run (pol : Option Policy) (c0 e : Nat) :
    ∀ (sched : List Act) (m : M), Acc c0 e m → Acc c0 e (run pol m sched)
  | [], m, hi => hi
  | a :: sched, m, hi => by
    simp only [run, List.foldl_cons]
    exact acc_run pol c0 e sched _ (acc_step pol c0 e m a hi)

theorem wsum_wI_quiet : ∀ l, quiet l = true → wsum wI l = 0
  | [], _ => rfl
  | x :: l, h => by
    simp only [quiet, List.all_cons, Bool.and_eq_true] at h
    have := wsum_wI_quiet l (by simpa [quiet] using h.2)
    cases x <;> simp_all [wsum, wI]

/-- attempts numbered consecutively, counter = start + attempts, for every policy and schedule; at quiescence the
    counter accounts for every request sent plus the attempts made on a cancelled context (at most one per execution) -/
theorem run_accounted (pol : Option Policy) (c0 hosts e : Nat) (sched : List Act) :
    let m := run pol (init c0 hosts e) sched
    m.log.reverse = List.range' c0 m.log.length ∧ m.cnt = c0 + m.log.length ∧
    m.sent + m.unsent ≤ m.cnt - c0 + e ∧ m.unsent ≤ e ∧
    (quiet m.exs = true → m.cnt = c0 + m.sent + m.unsent) := by
  intro m
  have hi : Acc c0 e m := acc_run pol c0 e sched _ (acc_init c0 hosts e)
  have hlen : m.log.length = m.cnt - c0 := by rw [hi.log, down_length]
  have hI : wsum wI m.exs ≤ e := by
    rw [← hi.len]; exact wsum_le_length wI (by intro x; cases x <;> simp [wI]) _
  have hD : wsum wD m.exs ≤ e := by
    rw [← hi.len]; exact wsum_le_length wD (by intro x; cases x <;> simp [wD]) _
  have ha := hi.acc
  have hm := hi.mono
  have hd := hi.dead
  refine ⟨by rw [hlen, hi.log, down_reverse], by omega, by omega, by omega, ?_⟩
  intro hq
  have := wsum_wI_quiet m.exs hq
  omega

/-! ### the budget of a policy `Attempts() ≤ N` -/

/-- the invariant: the accounting, and requests sent ≤ (N - c0) + executions launched -/
structure Inv (N c0 e : Nat) (m : M) : Prop where
  toAcc : Acc c0 e m
  bound : m.sent ≤ (N - c0) + wsum wS m.exs

theorem inv_init (N c0 hosts e : Nat) : Inv N c0 e (init c0 hosts e) :=
  ⟨acc_init c0 hosts e, by simp [init]⟩

/-- the execution moves on without a new request: launched executions do not decrease -/
theorem bound_keep {N c0 : Nat} {m : M} {i : Nat} {x y : Ex} (h : m.exs[i]? = some y) (hxy : wS y ≤ wS x)
    (hb : m.sent ≤ (N - c0) + wsum wS m.exs) : m.sent ≤ (N - c0) + wsum wS (m.exs.set i x) := by
  have hS := wsum_set wS m.exs i x y h
  omega

theorem bound_sendNext_idle {N c0 : Nat} {m : M} {i : Nat} (h : m.exs[i]? = some .idle)
    (hb : m.sent ≤ (N - c0) + wsum wS m.exs) : (m.sendNext i).sent ≤ (N - c0) + wsum wS (m.sendNext i).exs := by
  unfold M.sendNext
  split
  · exact bound_keep h (by simp [wS]) hb
  · have hS := wsum_set wS m.exs i .inflight .idle h
    simp only [wS] at hS
    simp only; omega

/-- a retry licensed by `cnt ≤ N`: the deciding execution has a counted attempt, so in-flight + 1 ≤ launched -/
theorem bound_retry {N c0 e : Nat} {m : M} {i : Nat} {r : Res} (h : m.exs[i]? = some (.counted r)) (hle : m.cnt ≤ N)
    (ha : Acc c0 e m) : m.sent + 1 ≤ (N - c0) + wsum wS (m.exs.set i .inflight) := by
  have hS := wsum_set wS m.exs i .inflight (.counted r) h
  have hC := wsum_ge wC m.exs i (.counted r) h
  have hICS := wIC_le_S m.exs
  have a := ha.acc
  have b := ha.mono
  simp only [wS, wC] at hS hC
  omega

theorem bound_sendNext_counted {N c0 e : Nat} {m : M} {i : Nat} {r : Res} (h : m.exs[i]? = some (.counted r)) (hle : m.cnt ≤ N)
    (ha : Acc c0 e m) (hb : m.sent ≤ (N - c0) + wsum wS m.exs) :
    (m.sendNext i).sent ≤ (N - c0) + wsum wS (m.sendNext i).exs := by
  unfold M.sendNext
  split
  · exact bound_keep h (by simp [wS]) hb
  · exact bound_retry h hle ha

theorem bound_deadNext {N c0 : Nat} {m : M} {i : Nat} {y : Ex} (h : m.exs[i]? = some y)
    (hb : m.sent ≤ (N - c0) + wsum wS m.exs) : (m.deadNext i).sent ≤ (N - c0) + wsum wS (m.deadNext i).exs := by
  unfold M.deadNext
  split
  · exact bound_keep h (by cases y <;> simp [wS]) hb
  · exact bound_keep h (by cases y <;> simp [wS]) hb

theorem inv_step (p : Policy) (N : Nat) (hp : ∀ m, p.attempt m = decide (m ≤ N)) (c0 e : Nat) (m : M) (a : Act)
    (hi : Inv N c0 e m) : Inv N c0 e (step (some p) m a) := by
  refine ⟨acc_step (some p) c0 e m a hi.toAcc, ?_⟩
  obtain ⟨ha, hb⟩ := hi
  cases a with
  | launch i =>
    simp only [step]
    cases h : m.exs[i]? with
    | none => exact hb
    | some x => cases x <;> first | exact hb | exact bound_sendNext_idle h hb
  | complete i r =>
    simp only [step]
    cases h : m.exs[i]? with
    | none => exact hb
    | some x =>
      cases x with
      | inflight => exact bound_keep h (by simp [wS]) hb
      | _ => exact hb
  | decide i =>
    simp only [step]
    cases h : m.exs[i]? with
    | none => exact hb
    | some x =>
      cases x with
      | counted r =>
        cases r with
        | err k =>
          simp only [hp]
          by_cases hle : m.cnt ≤ N
          · simp only [hle, decide_true, Bool.not_true, Bool.false_eq_true, if_false]
            cases p.rtype k with
            | retry => exact bound_retry h hle ha
            | nextHost => exact bound_sendNext_counted h hle ha hb
            | rethrow => exact bound_keep h (by simp [wS]) hb
            | ignore => exact bound_keep h (by simp [wS]) hb
            | unknown => exact bound_keep h (by simp [wS]) hb
          · simp only [hle, decide_false, Bool.not_false, if_true]
            exact bound_keep h (by simp [wS]) hb
        | ok => exact bound_keep h (by simp [wS]) hb
        | logical => exact bound_keep h (by simp [wS]) hb
      | _ => exact hb
  | abort i =>
    simp only [step]
    cases h : m.exs[i]? with
    | none => exact hb
    | some x =>
      cases x with
      | idle => exact bound_deadNext h hb
      | counted r =>
        cases r with
        | err k =>
          simp only []
          split
          · exact bound_keep h (by simp [wS]) hb
          · cases p.rtype k with
            | retry => exact bound_keep h (by simp [wS]) hb
            | nextHost => exact bound_deadNext h hb
            | rethrow => exact bound_keep h (by simp [wS]) hb
            | ignore => exact bound_keep h (by simp [wS]) hb
            | unknown => exact bound_keep h (by simp [wS]) hb
        | ok => exact bound_keep h (by simp [wS]) hb
        | logical => exact bound_keep h (by simp [wS]) hb
      | _ => exact hb

theorem inv_run (p : Policy) (N : Nat) (hp : ∀ m, p.attempt m = decide (m ≤ N)) (c0 e : Nat) :
    ∀ (sched : List Act) (m : M), Inv N c0 e m → Inv N c0 e (run (some p) m sched)
  | [], m, hi => hi
  | a :: sched, m, hi => by
    simp only [run, List.foldl_cons]
    exact inv_run p N hp c0 e sched _ (inv_step p N hp c0 e m a hi)

theorem run_budget (p : Policy) (N : Nat) (hp : ∀ m, p.attempt m = decide (m ≤ N)) (c0 hosts e : Nat) (sched : List Act) :
    let m := run (some p) (init c0 hosts e) sched
    m.sent ≤ (N - c0) + started m.exs ∧ started m.exs ≤ e ∧ m.sent ≤ budget (N - c0) e := by
  intro m
  have hi : Inv N c0 e m := inv_run p N hp c0 e sched _ (inv_init N c0 hosts e)
  have hs : started m.exs ≤ e := by
    rw [started_eq, ← hi.toAcc.len]
    exact wsum_le_length wS (by intro x; cases x <;> simp [wS]) _
  have hb := hi.bound
  rw [← started_eq] at hb
  exact ⟨hb, hs, by unfold budget; omega⟩

/-! ### the shared host iterator -/

theorem hosts_step (pol : Option Policy) (hnr : ∀ p, pol = some p → ∀ e, p.rtype e ≠ .retry) (hosts : Nat) (m : M) (a : Act)
    (hi : m.sent + m.left ≤ hosts) : (step pol m a).sent + (step pol m a).left ≤ hosts := by
  have hsn : ∀ i, (m.sendNext i).sent + (m.sendNext i).left ≤ hosts := by
    intro i; unfold M.sendNext; split <;> simp only <;> omega
  have hdn : ∀ i, (m.deadNext i).sent + (m.deadNext i).left ≤ hosts := by
    intro i; unfold M.deadNext; split <;> simp only [M.deadAttempt, M.count] <;> omega
  have hda : ∀ i, (m.deadAttempt i).sent + (m.deadAttempt i).left ≤ hosts := by
    intro i; simp only [M.deadAttempt, M.count]; omega
  cases a with
  | launch i =>
    simp only [step]
    cases h : m.exs[i]? with
    | none => exact hi
    | some x => cases x <;> first | exact hi | exact hsn i
  | complete i r =>
    simp only [step]
    cases h : m.exs[i]? with
    | none => exact hi
    | some x => cases x <;> first | exact hi | (simp only [M.count]; exact hi)
  | decide i =>
    simp only [step]
    cases h : m.exs[i]? with
    | none => exact hi
    | some x =>
      cases x with
      | counted r =>
        cases r with
        | err k =>
          cases pol with
          | none => exact hi
          | some p =>
            simp only []
            split
            · exact hi
            · have := hnr p rfl k
              cases hrt : p.rtype k with
              | retry => exact absurd hrt this
              | nextHost => exact hsn i
              | rethrow => exact hi
              | ignore => exact hi
              | unknown => exact hi
        | ok => exact hi
        | logical => exact hi
      | _ => exact hi
  | abort i =>
    simp only [step]
    cases h : m.exs[i]? with
    | none => exact hi
    | some x =>
      cases x with
      | idle => exact hdn i
      | counted r =>
        cases r with
        | err k =>
          cases pol with
          | none => exact hi
          | some p =>
            simp only []
            split
            · exact hi
            · cases hrt : p.rtype k with
              | retry => exact hda i
              | nextHost => exact hdn i
              | rethrow => exact hi
              | ignore => exact hi
              | unknown => exact hi
        | ok => exact hi
        | logical => exact hi
      | _ => exact hi

theorem run_hosts (pol : Option Policy) (hnr : ∀ p, pol = some p → ∀ e, p.rtype e ≠ .retry) (c0 hosts e : Nat) (sched : List Act) :
    (run pol (init c0 hosts e) sched).sent ≤ hosts := by
  have key : ∀ (sched : List Act) (m : M), m.sent + m.left ≤ hosts → (run pol m sched).sent + (run pol m sched).left ≤ hosts := by
    intro sched
    induction sched with
    | nil => intro m h; exact h
    | cons a s ih => intro m h; simp only [run, List.foldl_cons]; exact ih _ (hosts_step pol hnr hosts m a h)
  have := key sched (init c0 hosts e) (by simp [init])
  omega

/-! ### no retry policy -/

theorem nopol_step (e : Nat) (m : M) (a : Act) (hi : m.sent ≤ wsum wS m.exs ∧ m.exs.length = e) :
    (step none m a).sent ≤ wsum wS (step none m a).exs ∧ (step none m a).exs.length = e := by
  obtain ⟨h1, h2⟩ := hi
  cases a with
  | launch i =>
    simp only [step]
    cases h : m.exs[i]? with
    | none => exact ⟨h1, h2⟩
    | some x =>
      cases x with
      | idle =>
        unfold M.sendNext
        by_cases hl : m.left = 0
        · have hS := wsum_set wS m.exs i .done .idle h
          simp only [wS] at hS
          simp only [if_pos hl]
          exact ⟨by omega, by simp [h2]⟩
        · have hS := wsum_set wS m.exs i .inflight .idle h
          simp only [wS] at hS
          simp only [if_neg hl]
          exact ⟨by omega, by simp [h2]⟩
      | _ => exact ⟨h1, h2⟩
  | complete i r =>
    simp only [step]
    cases h : m.exs[i]? with
    | none => exact ⟨h1, h2⟩
    | some x =>
      cases x with
      | inflight =>
        have hS := wsum_set wS m.exs i (.counted r) .inflight h
        simp only [wS] at hS
        exact ⟨by simp only [M.count]; omega, by simp [h2]⟩
      | _ => exact ⟨h1, h2⟩
  | decide i =>
    simp only [step]
    cases h : m.exs[i]? with
    | none => exact ⟨h1, h2⟩
    | some x =>
      cases x with
      | counted r =>
        have hS := wsum_set wS m.exs i .done (.counted r) h
        simp only [wS] at hS
        cases r <;> exact ⟨by simp only; omega, by simp [h2]⟩
      | _ => exact ⟨h1, h2⟩
  | abort i =>
    simp only [step]
    cases h : m.exs[i]? with
    | none => exact ⟨h1, h2⟩
    | some x =>
      cases x with
      | idle =>
        have hS := wsum_set wS m.exs i .done .idle h
        simp only [wS] at hS
        unfold M.deadNext
        by_cases hl : m.left = 0
        · simp only [if_pos hl]
          exact ⟨by omega, by simp [h2]⟩
        · simp only [if_neg hl, M.deadAttempt, M.count]
          exact ⟨by omega, by simp [h2]⟩
      | counted r =>
        have hS := wsum_set wS m.exs i .done (.counted r) h
        simp only [wS] at hS
        cases r <;> exact ⟨by simp only; omega, by simp [h2]⟩
      | _ => exact ⟨h1, h2⟩

theorem run_no_policy (c0 hosts e : Nat) (sched : List Act) :
    let m := run none (init c0 hosts e) sched
    m.sent ≤ started m.exs ∧ started m.exs ≤ e := by
  intro m
  have key : ∀ (sched : List Act) (m : M), (m.sent ≤ wsum wS m.exs ∧ m.exs.length = e) →
      ((run none m sched).sent ≤ wsum wS (run none m sched).exs ∧ (run none m sched).exs.length = e) := by
    intro sched
    induction sched with
    | nil => intro m h; exact h
    | cons a s ih => intro m h; simp only [run, List.foldl_cons]; exact ih _ (nopol_step e m a h)
  have := key sched (init c0 hosts e) (by simp [init])
  rw [started_eq]
  refine ⟨this.1, ?_⟩
  rw [← this.2]
  exact wsum_le_length wS (by intro x; cases x <;> simp [wS]) _

end ExecutorConc
