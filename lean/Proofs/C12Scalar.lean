import Proofs.C12Int
import Proofs.C12Varint
import Model.MarshalInterp
/-!
# C12: varint from Go integer kinds; the other scalar encoders
-/
namespace C12Scalar
open ValueSpec Marshal C12Bytes C12Int C12Varint

theorem beBytes_ne_nil (k n : Nat) (hk : 1 ≤ k) : beBytes k n ≠ [] := by
  intro h
  have := beBytes_length k n
  rw [h] at this
  simp at this
  omega

theorem tcDec_beBytes8 (m : Nat) (h : m < 2^63) : tcDec (beBytes 8 m) = m := by
  unfold tcDec
  rw [beNat_beBytes, beBytes_length]
  have : m % 256 ^ 8 = m := Nat.mod_eq_of_lt (by omega)
  rw [this, if_neg (by omega)]

theorem tcDec_zero_beBytes8 (m : Nat) (h : m < 2^64) : tcDec (0 :: beBytes 8 m) = m := by
  unfold tcDec
  rw [beNat_cons, beNat_beBytes, List.length_cons, beBytes_length]
  have : m % 256 ^ 8 = m := Nat.mod_eq_of_lt (by omega)
  rw [this]
  simp only [show (0:UInt8).toNat = 0 by rfl]
  rw [if_neg (by omega)]
  simp

/-- when marshalVarint on a Go integer kind succeeds, the bytes are the varint of the value — every kind,
    named or not, every value (incl. uint64 ≥ 2^63, 9 bytes before trimming) -/
theorem marshalVarintKind_spec (k : IntKind) (named : Bool) (v : Int) (hv : k.holds v = true) (b : Bytes)
    (h : marshalVarintKind k named v = some b) : b = specVarint v := by
  unfold marshalVarintKind at h
  split at h
  · rename_i hc
    obtain ⟨rfl, rfl⟩ := hc
    simp [IntKind.holds, IntKind.signed, IntKind.bits, leB_iff, ltB_iff] at hv
    have hnat : ((v.toNat : Nat) : Int) = v := by omega
    split at h
    · injection h with h
      rw [← h, trimTC_spec _ (by simp), tcDec_zero_beBytes8 _ (by omega), hnat]
    · injection h with h
      rw [← h, trimTC_spec _ (beBytes_ne_nil 8 _ (by omega)), tcDec_beBytes8 _ (by omega), hnat]
  · rename_i hc
    rw [marshalIntKind_char .big k named v hv] at h
    split at h
    · rename_i hacc
      simp only [Option.map_some, Option.some.injEq] at h
      have hfit : fitsS 8 v = true := by
        rcases hacc with hf | hw
        · exact hf
        · exfalso
          -- the only kinds that wrap into bigint are unnamed uint64, excluded here
          cases k <;> cases named <;>
            simp [wrapsAccepted, IntKind.signed, IntKind.holds, IntKind.bits, IntCol.bytes, leB_iff, ltB_iff] at hw hv hc <;> omega
      rw [← h]
      show trimTC (tcEnc 8 v) = specVarint v
      rw [trimTC_spec _ (by rw [tcEnc]; exact beBytes_ne_nil 8 _ (by omega)), tcDec_tcEnc 8 v (by omega) hfit]
    · simp at h

/-- string → varint: ParseInt(…, 64), so only the int64 range; the bytes are the varint of the parsed number -/
theorem marshalVarintString_spec (s b : Bytes) (h : marshalVarintString s = some b) :
    ∃ n, parseDec s = some n ∧ b = specVarint n := by
  unfold marshalVarintString marshalIntString at h
  cases hp : parseInt (8 * IntCol.big.bytes) s with
  | none => simp [hp] at h
  | some n =>
    simp [hp] at h
    unfold parseInt at hp
    cases hd : parseDec s with
    | none => simp [hd] at hp
    | some m =>
      rw [hd] at hp
      dsimp only at hp
      split at hp
      · rename_i hr
        simp only [IntCol.bytes] at hr
        injection hp with hp
        subst hp
        refine ⟨m, rfl, ?_⟩
        rw [← h, encBigInt_eq, trimTC_spec _ (by rw [tcEnc]; exact beBytes_ne_nil 8 _ (by omega)),
          tcDec_tcEnc 8 m (by omega) (by simp [fitsS, leB_iff, ltB_iff]; omega)]
      · simp at hp

/-! ## date, timestamp, time, float, double, boolean -/

theorem toS64_id (x : Int) (h : fitsS 8 x = true) : toS 64 x = x := by
  simp [fitsS, leB_iff, ltB_iff] at h
  simp [toS]; omega

/-- marshal.go daysSinceEpoch (truncating `/`, then one less when the truncated remainder is negative) is the FLOOR
    of ts / 86400000 for every int64 — also before 1970 -/
theorem daysSinceEpoch_floor (ts : Int) : daysSinceEpoch ts = ts / 86400000 := by
  unfold daysSinceEpoch goDiv goMod millisInADay
  simp only [Int.tdiv_eq_ediv, Int.tmod_eq_emod]
  have hs : Int.sign 86400000 = 1 := by decide
  by_cases h0 : 0 ≤ ts
  · simp [h0]; omega
  · by_cases hd : (86400000:Int) ∣ ts
    · simp [hd]
      have := Int.emod_eq_zero_of_dvd hd
      omega
    · have hm : ts % 86400000 ≠ 0 := fun h => hd (Int.dvd_of_emod_eq_zero h)
      simp only [h0, hd, or_self, if_false, hs]
      have : (Int.natAbs 86400000 : Int) = 86400000 := by decide
      rw [this]
      split <;> omega

/-- date from a millisecond count: the specification's day (FLOOR) + 2^31, for every count whose day is in range -/
theorem encDateMillis_spec (ts : Int)
    (hrange : fitsU 4 (ts / 86400000 + 2147483648) = true) :
    encDateMillis ts = beBytes 4 (ts / 86400000 + 2147483648).toNat := by
  simp [fitsU, leB_iff, ltB_iff] at hrange
  unfold encDateMillis
  rw [daysSinceEpoch_floor, encInt_eq, tcEnc_toS32, tcEnc]
  congr 1
  omega

/-- exact milliseconds of a time.Time with a nanosecond part in [0, 10^9), when nothing overflows -/
theorem timeMillis_exact (sec nsec : Int) (h1 : fitsS 8 (sec * 1000) = true) (h2 : fitsS 8 (exactMillis sec nsec) = true) :
    timeMillis sec nsec = exactMillis sec nsec := by
  unfold timeMillis
  rw [toS64_id _ h1]
  exact toS64_id _ h2

theorem day_of_millis (sec nsec : Int) (hn : 0 ≤ nsec ∧ nsec < 1000000000) :
    exactMillis sec nsec / 86400000 = sec / 86400 := by
  unfold exactMillis; omega

end C12Scalar
