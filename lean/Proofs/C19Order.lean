import Proofs.C19Gen
/-! helper lemmas for C19: Cassandra's TimeUUIDType order (`Spec.cassLe`) as an order — reflexive, total,
    transitive, antisymmetric up to (timestamp, low 8 bytes) — and the Min/MaxTimeUUID bounds as EXACT range
    delimiters: which version-1 RFC 4122 UUIDs lie between the bounds of two instants. -/
namespace Uuid

theorem signed_inj (a b : UInt8) (h : Spec.signed a = Spec.signed b) : a = b := by
  have ha := a.toNat_lt; have hb := b.toNat_lt
  apply UInt8.toNat_inj.mp
  unfold Spec.signed at h
  split at h <;> split at h <;> omega

theorem sLexLe_refl : ∀ l : List UInt8, Spec.sLexLe l l = true
  | [] => rfl
  | a :: as => by simp [Spec.sLexLe, sLexLe_refl as]

theorem sLexLe_total : ∀ a b : List UInt8, Spec.sLexLe a b = true ∨ Spec.sLexLe b a = true
  | [], _ => Or.inl rfl
  | _ :: _, [] => Or.inr rfl
  | a :: as, b :: bs => by
    simp only [Spec.sLexLe]
    by_cases h1 : Spec.signed a < Spec.signed b
    · simp [h1]
    · by_cases h2 : Spec.signed b < Spec.signed a
      · simp [h2]
      · simp only [h1, h2, if_false]; exact sLexLe_total as bs

theorem sLexLe_trans : ∀ a b c : List UInt8, Spec.sLexLe a b = true → Spec.sLexLe b c = true →
    Spec.sLexLe a c = true
  | [], _, _, _, _ => rfl
  | _ :: _, [], _, h, _ => by simp [Spec.sLexLe] at h
  | _ :: _, _ :: _, [], _, h => by simp [Spec.sLexLe] at h
  | a :: as, b :: bs, c :: cs, h1, h2 => by
    simp only [Spec.sLexLe] at h1 h2 ⊢
    by_cases hab : Spec.signed a < Spec.signed b
    · by_cases hbc : Spec.signed b < Spec.signed c
      · rw [if_pos (by omega)]
      · by_cases hcb : Spec.signed c < Spec.signed b
        · simp [hbc, hcb] at h2
        · rw [if_pos (by omega)]
    · by_cases hba : Spec.signed b < Spec.signed a
      · simp [hab, hba] at h1
      · simp only [hab, hba, if_false] at h1
        by_cases hbc : Spec.signed b < Spec.signed c
        · rw [if_pos (by omega)]
        · by_cases hcb : Spec.signed c < Spec.signed b
          · simp [hbc, hcb] at h2
          · simp only [hbc, hcb, if_false] at h2
            rw [if_neg (by omega), if_neg (by omega)]
            exact sLexLe_trans as bs cs h1 h2

theorem sLexLe_antisymm : ∀ a b : List UInt8, a.length = b.length → Spec.sLexLe a b = true →
    Spec.sLexLe b a = true → a = b
  | [], [], _, _, _ => rfl
  | [], _ :: _, h, _, _ => by simp at h
  | _ :: _, [], h, _, _ => by simp at h
  | a :: as, b :: bs, hl, h1, h2 => by
    simp only [Spec.sLexLe] at h1 h2
    by_cases hab : Spec.signed a < Spec.signed b
    · have : ¬ Spec.signed b < Spec.signed a := by omega
      simp [hab, this] at h2
    · by_cases hba : Spec.signed b < Spec.signed a
      · simp [hab, hba] at h1
      · simp only [hab, hba, if_false] at h1 h2
        have e : a = b := signed_inj a b (by omega)
        rw [e, sLexLe_antisymm as bs (by simpa using hl) h1 h2]

/-! ### `cassLe`: timestamp first -/

theorem cassLe_of_ts_lt (u v : List UInt8) (h : Spec.rfcTimestamp u < Spec.rfcTimestamp v) :
    Spec.cassLe u v = true ∧ Spec.cassLe v u = false := by
  unfold Spec.cassLe
  rw [if_pos h, if_neg (by omega), if_pos h]
  exact ⟨rfl, rfl⟩

theorem ts_le_of_cassLe (u v : List UInt8) (h : Spec.cassLe u v = true) :
    Spec.rfcTimestamp u ≤ Spec.rfcTimestamp v := by
  apply Classical.byContradiction
  intro hn
  have := (cassLe_of_ts_lt v u (by omega)).2
  rw [h] at this; cases this

theorem cassLe_refl (u : List UInt8) : Spec.cassLe u u = true := by
  simp [Spec.cassLe, sLexLe_refl]

theorem cassLe_total (u v : List UInt8) : Spec.cassLe u v = true ∨ Spec.cassLe v u = true := by
  by_cases h1 : Spec.rfcTimestamp u < Spec.rfcTimestamp v
  · exact Or.inl (cassLe_of_ts_lt u v h1).1
  · by_cases h2 : Spec.rfcTimestamp v < Spec.rfcTimestamp u
    · exact Or.inr (cassLe_of_ts_lt v u h2).1
    · simp only [Spec.cassLe, h1, h2, if_false]; exact sLexLe_total _ _

theorem cassLe_trans (u v w : List UInt8) (h1 : Spec.cassLe u v = true) (h2 : Spec.cassLe v w = true) :
    Spec.cassLe u w = true := by
  have l1 := ts_le_of_cassLe u v h1
  have l2 := ts_le_of_cassLe v w h2
  by_cases hlt : Spec.rfcTimestamp u < Spec.rfcTimestamp w
  · exact (cassLe_of_ts_lt u w hlt).1
  · have e1 : Spec.rfcTimestamp u = Spec.rfcTimestamp v := by omega
    have e2 : Spec.rfcTimestamp v = Spec.rfcTimestamp w := by omega
    unfold Spec.cassLe at h1 h2 ⊢
    rw [if_neg (by omega), if_neg (by omega)] at h1 h2
    rw [if_neg (by omega), if_neg (by omega)]
    exact sLexLe_trans _ _ _ h1 h2

/-- two UUIDs that are each ≤ the other carry the same timestamp and the same low 8 bytes (clock sequence and
    node) — the order is total on what Cassandra compares, and on nothing else (the version nibble is ignored) -/
theorem cassLe_antisymm (u v : List UInt8) (hu : u.length = 16) (hv : v.length = 16)
    (h1 : Spec.cassLe u v = true) (h2 : Spec.cassLe v u = true) :
    Spec.rfcTimestamp u = Spec.rfcTimestamp v ∧ u.drop 8 = v.drop 8 := by
  have l1 := ts_le_of_cassLe u v h1
  have l2 := ts_le_of_cassLe v u h2
  have e : Spec.rfcTimestamp u = Spec.rfcTimestamp v := by omega
  refine ⟨e, ?_⟩
  unfold Spec.cassLe at h1 h2
  rw [e] at h1 h2
  simp only [Nat.lt_irrefl, if_false] at h1 h2
  exact sLexLe_antisymm _ _ (by simp [hu, hv]) h1 h2

/-! ### the bounds of an instant, one side at a time -/

theorem tick_eq_bits (now : Int × Nat) (h : Representable now.1 now.2) :
    bits64 (getTimestamp now.1 now.2) = tick now ∧ tick now < 2 ^ 60 := by
  obtain ⟨_, hlt⟩ := bits64_getTimestamp now.1 now.2 h
  unfold tick
  rw [Nat.mod_eq_of_lt hlt]
  exact ⟨rfl, hlt⟩

theorem rfcTs_min (a : Int × Nat) (ha : Representable a.1 a.2) :
    Spec.rfcTimestamp (minTimeUUID a.1 a.2) = tick a := by
  unfold minTimeUUID
  rw [(tick_eq_bits a ha).1, rfcTimestamp_with _ _ _ (tick_eq_bits a ha).2]

theorem rfcTs_max (a : Int × Nat) (ha : Representable a.1 a.2) :
    Spec.rfcTimestamp (maxTimeUUID a.1 a.2) = tick a := by
  unfold maxTimeUUID
  rw [(tick_eq_bits a ha).1, rfcTimestamp_with _ _ _ (tick_eq_bits a ha).2]

/-- `MinTimeUUID(a) ≤ u` exactly when `u`'s timestamp is at or after `a`'s tick -/
theorem min_le_iff (a : Int × Nat) (ha : Representable a.1 a.2) (u : List UInt8) (hl : u.length = 16)
    (hv : version u = 1) (hvar : variant u = 2) :
    Spec.cassLe (minTimeUUID a.1 a.2) u = true ↔ tick a ≤ timestamp u := by
  have hts := timestamp_eq_rfc u hl hv
  constructor
  · intro h
    have := ts_le_of_cassLe _ _ h
    rw [rfcTs_min a ha] at this; omega
  · intro h
    by_cases he : tick a = timestamp u
    · have hb := (min_max_bound (timestamp u) (by rw [← he]; exact (tick_eq_bits a ha).2) u hl hv hvar rfl).1
      unfold minTimeUUID; rw [(tick_eq_bits a ha).1, he]; exact hb
    · exact (cassLe_of_ts_lt _ _ (by rw [rfcTs_min a ha]; omega)).1

/-- `u ≤ MaxTimeUUID(b)` exactly when `u`'s timestamp is at or before `b`'s tick -/
theorem le_max_iff (b : Int × Nat) (hb : Representable b.1 b.2) (u : List UInt8) (hl : u.length = 16)
    (hv : version u = 1) (hvar : variant u = 2) :
    Spec.cassLe u (maxTimeUUID b.1 b.2) = true ↔ timestamp u ≤ tick b := by
  have hts := timestamp_eq_rfc u hl hv
  constructor
  · intro h
    have := ts_le_of_cassLe _ _ h
    rw [rfcTs_max b hb] at this; omega
  · intro h
    by_cases he : tick b = timestamp u
    · have hb' := (min_max_bound (timestamp u) (by rw [← he]; exact (tick_eq_bits b hb).2) u hl hv hvar rfl).2
      unfold maxTimeUUID; rw [(tick_eq_bits b hb).1, he]; exact hb'
    · exact (cassLe_of_ts_lt _ _ (by rw [rfcTs_max b hb]; omega)).1

/-- `u ≤ MinTimeUUID(b)` can only hold at an earlier tick or, at `b`'s tick, for the minimum's own low bytes -/
theorem lt_min_iff (b : Int × Nat) (hb : Representable b.1 b.2) (u : List UInt8) (hl : u.length = 16)
    (hv : version u = 1) (hvar : variant u = 2) :
    Spec.cassLe (minTimeUUID b.1 b.2) u = false ↔ timestamp u < tick b := by
  have := min_le_iff b hb u hl hv hvar
  cases h : Spec.cassLe (minTimeUUID b.1 b.2) u
  · simp only [h, Bool.false_eq_true, false_iff, true_iff] at this ⊢; omega
  · simp only [h, true_iff] at this; simp; omega

theorem max_lt_iff (a : Int × Nat) (ha : Representable a.1 a.2) (u : List UInt8) (hl : u.length = 16)
    (hv : version u = 1) (hvar : variant u = 2) :
    Spec.cassLe u (maxTimeUUID a.1 a.2) = false ↔ tick a < timestamp u := by
  have := le_max_iff a ha u hl hv hvar
  cases h : Spec.cassLe u (maxTimeUUID a.1 a.2)
  · simp only [h, Bool.false_eq_true, false_iff, true_iff] at this ⊢; omega
  · simp only [h, true_iff] at this; simp; omega

end Uuid
