import Model.Pool
/-!
# C17 — pools stay within bounds; a session always closes (property theorems)

Model: `Model/Pool.lean`. Data-race freedom and "goroutines exit within a bounded time" are runtime
facts outside this model (the harness runs under the race detector in the thorough tier and watches
every Close with a watchdog — supporting evidence).
-/
namespace C17
open Pool

structure Inv (s : St) : Prop where
  bound : s.conns + s.pending ≤ s.size
  idle : s.filling = false → s.pending = 0
  opened : s.opened = s.conns
  closedEmpty : s.closed = true → s.conns = 0

theorem inv_init (n : Nat) : Inv (init n) := by constructor <;> simp [init]

theorem inv_step (s s' : St) (a : Act) (h : Inv s) (hs : step s a = some s') : Inv s' := by
  obtain ⟨h1, h2, h3, h4⟩ := h
  cases a <;> simp only [step] at hs <;> (repeat' split at hs) <;>
    first
    | (simp at hs; done)
    | (injection hs with hs; subst hs; constructor <;> simp_all <;> omega)

theorem inv_run : ∀ (as : List Act) (s s' : St), Inv s → run s as = some s' → Inv s'
  | [], s, s', h, hr => by simp [run] at hr; subst hr; exact h
  | a :: as, s, s', h, hr => by
    simp only [run] at hr
    split at hr
    · rename_i s1 hs1; exact inv_run as s1 s' (inv_step s s1 a h hs1) hr
    · simp at hr

theorem size_const : ∀ (as : List Act) (s s' : St), run s as = some s' → s'.size = s.size
  | [], s, s', hr => by simp [run] at hr; subst hr; rfl
  | a :: as, s, s', hr => by
    simp only [run] at hr
    split at hr
    · rename_i s1 hs1
      have e : s1.size = s.size := by
        cases a <;> simp only [step] at hs1 <;> (repeat' split at hs1) <;>
          first | (simp at hs1; done) | (injection hs1 with hs1; subst hs1; rfl)
      rw [size_const as s1 s' hr, e]
    · simp at hr

/-- **pool bound**: whatever the interleaving of fill triggers, dial successes/failures (including late
    ones), error callbacks and Close, the pool never holds more than the configured number of connections -/
theorem C17_pool_bound (n : Nat) (as : List Act) (s : St) (h : run (init n) as = some s) : s.conns ≤ n := by
  have inv := inv_run as _ s (inv_init n) h
  have hs := size_const as _ s h
  have := inv.bound
  simp [init] at hs
  omega

/-- at most one filler: no fill can start while one is in progress -/
theorem C17_single_filler (s : St) (h : s.filling = true) : step s .fillStart = none := by
  simp [step, h]

/-- a connection reported closed is removed, and a refill can start (unless a filler is already running,
    which then… see `C17_pool_bound`: the running filler only adds what it computed) -/
theorem C17_error_removes_and_refills (s : St) (h0 : s.closed = false) (h1 : s.conns > 0) (h2 : s.filling = false)
    (h3 : s.conns ≤ s.size) :
    ∃ s1 s2, step s .connError = some s1 ∧ s1.conns = s.conns - 1 ∧ step s1 .fillStart = some s2 ∧
      s2.pending = s.size - (s.conns - 1) := by
  refine ⟨{ s with conns := s.conns - 1, opened := s.opened - 1 },
          { s with conns := s.conns - 1, opened := s.opened - 1, filling := true, pending := s.size - (s.conns - 1) }, ?_, rfl, ?_, rfl⟩
  · simp [step, h0, h1]
  · have : s.conns - 1 < s.size := by omega
    simp [step, h0, h2, this]

/-- no connection is left open after the pool is closed — also not by a dial that finishes later -/
theorem C17_no_conn_after_close (n : Nat) (as : List Act) (s : St) (h : run (init n) as = some s)
    (hc : s.closed = true) : s.opened = 0 := by
  have inv := inv_run as _ s (inv_init n) h
  rw [inv.opened]; exact inv.closedEmpty hc

theorem C17_close_idempotent (s : St) (hc : s.closed = true) : step s .close = some s := by
  simp [step, hc]

example : ∃ s, run (init 2) [.fillStart, .dialOk, .dialFail, .fillStop, .fillStart, .connError, .dialOk, .fillStop,
    .fillStart, .close, .dialOk] = some s ∧ s.conns = 0 ∧ s.opened = 0 ∧ s.closed = true := by
  refine ⟨_, rfl, ?_, ?_, ?_⟩ <;> decide

/-! ### debouncer stop (repaired protocol) -/

/-- stop() has no blocking operation: it completes in any state, whatever the flusher is doing -/
theorem C17_debouncer_stop_returns (d : Deb) : ∃ d', dstep d .stop = some d' ∧ d'.stopDone = true := by
  unfold dstep
  by_cases h : d.stopDone = true
  · exact ⟨d, by simp [h], h⟩
  · exact ⟨{ d with stopped := true, quitClosed := true, stopDone := true }, by simp [h], rfl⟩

def measure (d : Deb) : Nat :=
  match d.f with
  | .refreshing => 3 | .select => 2 | .woken => 1 | .exited => 0

/-- after stop, every action keeps `stopped ∧ quitClosed`, and the flusher always has an enabled step of its
    own that brings it strictly closer to having exited (so the background goroutine ends, given that
    refreshFn returns) -/
theorem C17_flusher_exits (d : Deb) (hs : d.stopped = true) (hq : d.quitClosed = true) (hf : d.f ≠ .exited) :
    ∃ a d', (a = .wake ∨ a = .lock ∨ a = .refreshDone) ∧ dstep d a = some d' ∧ measure d' < measure d ∧
      d'.stopped = true ∧ d'.quitClosed = true := by
  cases hfc : d.f with
  | exited => exact absurd hfc hf
  | select => exact ⟨.wake, { d with f := .woken }, by simp, by simp [dstep, hfc, hq], by simp [measure, hfc], hs, hq⟩
  | woken => exact ⟨.lock, { d with f := .exited, timerArmed := false }, by simp, by simp [dstep, hfc, hs], by simp [measure, hfc], hs, hq⟩
  | refreshing => exact ⟨.refreshDone, { d with f := .select }, by simp, by simp [dstep, hfc], by simp [measure, hfc], hs, hq⟩

theorem C17_stop_flags_stable (d d' : Deb) (a : DAct) (hs : d.stopped = true) (hq : d.quitClosed = true)
    (h : dstep d a = some d') : d'.stopped = true ∧ d'.quitClosed = true := by
  cases a <;> simp only [dstep] at h <;> (repeat' split at h) <;>
    first | (simp at h; done) | (injection h with h; subst h; simp_all)

/-- What failed before the fix commit (kept as a theorem about the OLD protocol; the harness re-checks the
    real code with 3000 rounds of refreshNow ∥ stop on every run): the flusher, woken by refreshNow, sees
    `stopped` and exits; the unbuffered send in stop() can then never complete. -/
theorem C17_old_protocol_deadlock :
    ∃ d, orun ODeb.init [.refreshNow, .wake, .stopSet, .lock] = some d ∧ d.stopped = true ∧ d.stopDone = false ∧
      d.f = .exited ∧ ∀ a, (ostep d a = none ∨ ∃ d', ostep d a = some d' ∧ d'.stopDone = false ∧ d'.f = .exited ∧ d'.stopped = true) := by
  refine ⟨_, rfl, by decide, by decide, by decide, ?_⟩
  intro a
  cases a <;> simp [ostep, orun, ODeb.init]

end C17
