import Model.Pool
import Model.Pipe
import Proofs.C17Pipe
import Proofs.C17Deb
import Proofs.C17Reg
import Proofs.C06Lock
import Proofs.C17Ctl
/-!
# C17 — pools stay within bounds; a session always closes (property theorems)

Model: `Model/Pool.lean`. Data-race freedom and "goroutines exit within a bounded time" are runtime
facts outside this model (the harness runs under the race detector in the thorough tier and watches
every Close with a watchdog — supporting evidence).
-/
namespace C17
open Pool

structure Inv (s : St) : Prop where
  bound : s.conns + s.pending ≤ s.size
  idle : s.filling = false → s.pending = 0
  opened : s.opened = s.conns
  closedEmpty : s.closed = true → s.conns = 0

theorem inv_init (n : Nat) : Inv (init n) := by constructor <;> simp [init]

theorem inv_step (s s' : St) (a : Act) (h : Inv s) (hs : step s a = some s') : Inv s' := by
  obtain ⟨h1, h2, h3, h4⟩ := h
  cases a <;> simp only [step] at hs <;> (repeat' split at hs) <;>
    first
    | (simp at hs; done)
    | (injection hs with hs; subst hs; constructor <;> simp_all <;> omega)

theorem inv_run : ∀ (as : List Act) (s s' : St), Inv s → run s as = some s' → Inv s'
  | [], s, s', h, hr => by simp [run] at hr; subst hr; exact h
  | a :: as, s, s', h, hr => by
    simp only [run] at hr
    split at hr
    · rename_i s1 hs1; exact inv_run as s1 s' (inv_step s s1 a h hs1) hr
    · simp at hr

theorem size_const : ∀ (as : List Act) (s s' : St), run s as = some s' → s'.size = s.size
  | [], s, s', hr => by simp [run] at hr; subst hr; rfl
  | a :: as, s, s', hr => by
    simp only [run] at hr
    split at hr
    · rename_i s1 hs1
      have e : s1.size = s.size := by
        cases a <;> simp only [step] at hs1 <;> (repeat' split at hs1) <;>
          first | (simp at hs1; done) | (injection hs1 with hs1; subst hs1; rfl)
      rw [size_const as s1 s' hr, e]
    · simp at hr

/-- **pool bound**: whatever the interleaving of fill triggers, dial successes/failures (including late
    ones), error callbacks and Close, the pool never holds more than the configured number of connections -/
theorem C17_pool_bound (n : Nat) (as : List Act) (s : St) (h : run (init n) as = some s) : s.conns ≤ n := by
  have inv := inv_run as _ s (inv_init n) h
  have hs := size_const as _ s h
  have := inv.bound
  simp [init] at hs
  omega

/-- at most one filler: no fill can start while one is in progress -/
theorem C17_single_filler (s : St) (h : s.filling = true) : step s .fillStart = none := by
  simp [step, h]

/-- a connection reported closed is removed, and a refill can start (unless a filler is already running,
    which then… see `C17_pool_bound`: the running filler only adds what it computed) -/
theorem C17_error_removes_and_refills (s : St) (h0 : s.closed = false) (h1 : s.conns > 0) (h2 : s.filling = false)
    (h3 : s.conns ≤ s.size) :
    ∃ s1 s2, step s .connError = some s1 ∧ s1.conns = s.conns - 1 ∧ step s1 .fillStart = some s2 ∧
      s2.pending = s.size - (s.conns - 1) := by
  refine ⟨{ s with conns := s.conns - 1, opened := s.opened - 1 },
          { s with conns := s.conns - 1, opened := s.opened - 1, filling := true, pending := s.size - (s.conns - 1) }, ?_, rfl, ?_, rfl⟩
  · simp [step, h0, h1]
  · have : s.conns - 1 < s.size := by omega
    simp [step, h0, h2, this]

/-- no connection is left open after the pool is closed — also not by a dial that finishes later -/
theorem C17_no_conn_after_close (n : Nat) (as : List Act) (s : St) (h : run (init n) as = some s)
    (hc : s.closed = true) : s.opened = 0 := by
  have inv := inv_run as _ s (inv_init n) h
  rw [inv.opened]; exact inv.closedEmpty hc

theorem C17_close_idempotent (s : St) (hc : s.closed = true) : step s .close = some s := by
  simp [step, hc]

example : ∃ s, run (init 2) [.fillStart, .dialOk, .dialFail, .fillStop, .fillStart, .connError, .dialOk, .fillStop,
    .fillStart, .close, .dialOk] = some s ∧ s.conns = 0 ∧ s.opened = 0 ∧ s.closed = true := by
  refine ⟨_, rfl, ?_, ?_, ?_⟩ <;> decide

/-! ### debouncer stop (repaired protocol) -/

/-- stop() has no blocking operation: it completes in any state, whatever the flusher is doing -/
theorem C17_debouncer_stop_returns (d : Deb) : ∃ d', dstep d .stop = some d' ∧ d'.stopDone = true := by
  unfold dstep
  by_cases h : d.stopDone = true
  · exact ⟨d, by simp [h], h⟩
  · exact ⟨{ d with stopped := true, quitClosed := true, stopDone := true }, by simp [h], rfl⟩

def measure (d : Deb) : Nat :=
  match d.f with
  | .refreshing => 3 | .select => 2 | .woken => 1 | .exited => 0

/-- after stop, every action keeps `stopped ∧ quitClosed`, and the flusher always has an enabled step of its
    own that brings it strictly closer to having exited (so the background goroutine ends, given that
    refreshFn returns) -/
theorem C17_flusher_exits (d : Deb) (hs : d.stopped = true) (hq : d.quitClosed = true) (hf : d.f ≠ .exited) :
    ∃ a d', (a = .wake ∨ a = .lock ∨ a = .refreshDone) ∧ dstep d a = some d' ∧ measure d' < measure d ∧
      d'.stopped = true ∧ d'.quitClosed = true := by
  cases hfc : d.f with
  | exited => exact absurd hfc hf
  | select => exact ⟨.wake, { d with f := .woken }, by simp, by simp [dstep, hfc, hq], by simp [measure, hfc], hs, hq⟩
  | woken => exact ⟨.lock, { d with f := .exited, timerArmed := false }, by simp, by simp [dstep, hfc, hs], by simp [measure, hfc], hs, hq⟩
  | refreshing => exact ⟨.refreshDone, { d with f := .select }, by simp, by simp [dstep, hfc], by simp [measure, hfc], hs, hq⟩

theorem C17_stop_flags_stable (d d' : Deb) (a : DAct) (hs : d.stopped = true) (hq : d.quitClosed = true)
    (h : dstep d a = some d') : d'.stopped = true ∧ d'.quitClosed = true := by
  cases a <;> simp only [dstep] at h <;> (repeat' split at h) <;>
    first | (simp at h; done) | (injection h with h; subst h; simp_all)

/-- What failed before the fix commit (kept as a theorem about the OLD protocol; the harness re-checks the
    real code with 3000 rounds of refreshNow ∥ stop on every run): the flusher, woken by refreshNow, sees
    `stopped` and exits; the unbuffered send in stop() can then never complete. -/
theorem C17_old_protocol_deadlock :
    ∃ d, orun ODeb.init [.refreshNow, .wake, .stopSet, .lock] = some d ∧ d.stopped = true ∧ d.stopDone = false ∧
      d.f = .exited ∧ ∀ a, (ostep d a = none ∨ ∃ d', ostep d a = some d' ∧ d'.stopDone = false ∧ d'.f = .exited ∧ d'.stopped = true) := by
  refine ⟨_, rfl, by decide, by decide, by decide, ?_⟩
  intro a
  cases a <;> simp [ostep, orun, ODeb.init]

end C17

namespace C17
/-! ### the connect pipeline at the granularity of its round trips (Model/Pipe.lean)

Schedules = arbitrary lists of: an attempt's current step is answered / fails (dial, OPTIONS, STARTUP, each
AUTH_RESPONSE round, USE), a filler stops, a pool connection breaks, Pick, any number of fill() calls passing
their read-locked check before one of them takes the write lock, the host is removed, added again
(a new pool object while attempts of the old one are in flight), the pool is closed, Session.Close. -/

open Pipe C17Pipe in
/-- **pool bound** over the finer pipeline: whatever the schedule, no pool object (registered or not) ever
    holds more than NumConns connections — connections plus connects in flight plus connects still to be
    started stay within the size -/
theorem C17_pipe_pool_bound (c : Cfg) (hpos : 0 < c.size) (as : List Act) (h : Host)
    (hr : (Host.init c).run as = some h) :
    ∀ p ∈ h.pools, p.conns.length + p.att.length + p.rest ≤ c.size := by
  have ⟨hi, hc⟩ := hinv_run as _ h (hinv_init c hpos) hr
  intro p hp
  have hc' : h.cfg.size = c.size := by rw [hc]; rfl
  rcases mem_pools h p hp with hcur | hold
  · have := (hi.cur p hcur).bound; omega
  · have := (hi.old p hold).1.bound; omega

open Pipe C17Pipe in
/-- `C17_no_conn_after_close` restated over the finer pipeline: in every reachable state a closed pool holds no
    connection, every pool that is no longer registered is closed, and the only sockets still attributable to a
    closed pool are those of connects that have not returned yet (one each, none for a connect still dialling) -/
theorem C17_pipe_no_conn_after_close (c : Cfg) (hpos : 0 < c.size) (as : List Act) (h : Host)
    (hr : (Host.init c).run as = some h) :
    (∀ p ∈ h.old, p.closed = true) ∧
    (∀ p ∈ h.pools, p.closed = true → p.conns = [] ∧ p.opened = sockSum p.att) := by
  have ⟨hi, _⟩ := hinv_run as _ h (hinv_init c hpos) hr
  refine ⟨fun p hp => (hi.old p hp).2, ?_⟩
  intro p hp hcl
  have inv : PInv h.cfg.size p := by
    rcases mem_pools h p hp with hcur | hold
    · exact hi.cur p hcur
    · exact (hi.old p hold).1
  have h0 := inv.closedEmpty hcl
  exact ⟨h0, by have := inv.ghost; simp [h0] at this; exact this⟩

open Pipe C17Pipe in
/-- a connection that completes (its last step — the USE reply when a keyspace is configured — is answered) after
    its pool was closed is closed and never appended: in every reachable state, for every closed pool and every
    connect of it waiting for its last answer, answering leaves the pool empty and takes one socket away -/
theorem C17_pipe_late_completion_closed (c : Cfg) (hpos : 0 < c.size) (as : List Act) (h : Host)
    (hr : (Host.init c).run as = some h) (p : Pool) (hp : p ∈ h.pools) (hcl : p.closed = true)
    (k : Nat) (a : Att) (l : List Att) (ht : takeAtt p.att k = some (a, l)) (hlast : next h.cfg a.stage = none)
    (p' : Pool) (m : Nat) (hok : Pool.ok h.cfg p k h.nextId = some (p', m)) :
    p'.conns = [] ∧ p'.closed = true ∧ p'.opened + 1 = p.opened := by
  have ⟨hi, _⟩ := hinv_run as _ h (hinv_init c hpos) hr
  have inv : PInv h.cfg.size p := by
    rcases mem_pools h p hp with hcur | hold
    · exact hi.cur p hcur
    · exact (hi.old p hold).1
  have h0 := inv.closedEmpty hcl
  have hg := inv.ghost
  have ⟨_, ts⟩ := takeAtt_spec _ _ _ _ ht
  have hsock : a.sock = 1 := by unfold Att.sock; simp [next_none_ne_dial h.cfg _ hlast]
  unfold Pool.ok at hok
  simp only [ht, hlast, hcl, if_true] at hok
  split at hok <;>
    (injection hok with hok; injection hok with hok _; subst hok
     refine ⟨h0, rfl, ?_⟩
     simp [h0] at hg ⊢; omega)

open Pipe C17Pipe in
/-- **Session.Close leaves nothing** (FULL: every schedule before, around and after the Close — addHost, removal, Pick,
    connects completing or failing anywhere, also between Session.Close's policyConnPool.Close() and its s.cancel()):
    after Session.Close, once every connect in flight has returned, no socket is open, no pool holds a connection and
    no pool is registered.  (Before the fix commit for KF-C17-3 an addHost inside Session.Close registered and filled a
    pool nobody closed: `C17_old_addhost_in_close_window_leaks`.) -/
theorem C17_pipe_session_close_leaves_nothing (c : Cfg) (hpos : 0 < c.size) (as : List Act) (h : Host)
    (hr : (Host.init c).run as = some h) (hsc : h.sessClosed = true)
    (hq : ∀ p ∈ h.pools, p.att = []) :
    h.opened = 0 ∧ h.closedConns = 0 ∧ h.cur = none := by
  have ⟨hi, _⟩ := hinv_run as _ h (hinv_init c hpos) hr
  have hcur := hi.sess hsc
  have hall : ∀ p ∈ h.pools, p.closed = true ∧ p.conns = [] ∧ p.opened = 0 := by
    intro p hp
    rcases mem_pools h p hp with hc | hold
    · rw [hcur] at hc; simp at hc
    · have ⟨inv, hcl⟩ := hi.old p hold
      have h0 := inv.closedEmpty hcl
      refine ⟨hcl, h0, ?_⟩
      have := inv.ghost; rw [hq p hp, h0] at this; simpa [sockSum] using this
  refine ⟨?_, ?_, hcur⟩
  · unfold Host.opened
    apply sum_zero_of_all_zero
    intro x hx
    obtain ⟨p, hp, rfl⟩ := List.mem_map.mp hx
    exact (hall p hp).2.2
  · unfold Host.closedConns
    apply sum_zero_of_all_zero
    intro x hx
    obtain ⟨p, hp, rfl⟩ := List.mem_map.mp hx
    simp [(hall p hp).2.1]

open Pipe C17Pipe in
/-- from policyConnPool.Close() on — in EVERY reachable state, connects still in flight or not — no pool is registered
    for the host and every pool object that exists is closed: nothing can be appended to any pool any more
    (`C17_pipe_late_completion_closed`), whatever addHost / Pick / removal callers still arrive -/
theorem C17_pipe_closed_session_registers_nothing (c : Cfg) (hpos : 0 < c.size) (as : List Act) (h : Host)
    (hr : (Host.init c).run as = some h) (hsc : h.sessClosed = true) :
    h.cur = none ∧ ∀ p ∈ h.pools, p.closed = true ∧ p.conns = [] := by
  have ⟨hi, _⟩ := hinv_run as _ h (hinv_init c hpos) hr
  have hcur := hi.sess hsc
  refine ⟨hcur, ?_⟩
  intro p hp
  rcases mem_pools h p hp with hc | hold
  · rw [hcur] at hc; simp at hc
  · have ⟨inv, hcl⟩ := hi.old p hold
    exact ⟨hcl, inv.closedEmpty hcl⟩

/-- regression (the code BEFORE the fix commit for KF-C17-3, `Host.stepOld`: addHost does not look at `closed`): size 2;
    the pool is full; Session.Close closes the pools; an addHost arrives before the session context is cancelled: a new
    pool is registered and filled (attempts 3 and 4 complete); the context is cancelled — Session.Close has returned,
    every connect has returned, and two connections are open in a pool that nothing will close -/
theorem C17_old_addhost_in_close_window_leaks :
    ∃ h, (Pipe.Host.init ⟨2, false, 0⟩).runOld
      [.ok 2, .ok 2, .ok 2, .stop, .sclose, .up, .ok 3, .ok 3, .ok 3, .ok 4, .ok 4, .ok 4, .stop, .scancel] = some h ∧
      h.sessClosed = true ∧ h.cancelled = true ∧ (∀ p ∈ h.pools, p.att = []) ∧
      h.opened = 2 ∧ h.cur.map (·.conns) = some [3, 4] ∧ h.cur.map (·.closed) = some false := by
  refine ⟨_, rfl, ?_, ?_, ?_, ?_, ?_, ?_⟩ <;> decide

/-- the code that exists on the same events: the addHost inside Session.Close does nothing (no connect 3 ever starts,
    `.ok 3` is not enabled), nothing is registered, nothing is open -/
example : ∃ h, (Pipe.Host.init ⟨2, false, 0⟩).run [.ok 2, .ok 2, .ok 2, .stop, .sclose, .up, .scancel, .up] = some h ∧
    h.cur = none ∧ h.opened = 0 ∧ h.step (.ok 3) = none := by
  refine ⟨_, rfl, ?_, ?_, ?_⟩ <;> decide

/-- non-vacuity, and the schedule of the seeded change: size 2, keyspace configured; the second connection is
    dialled, gets SUPPORTED and READY and waits for the USE reply; the host is removed; the reply arrives -/
example : ∃ h, (Pipe.Host.init ⟨2, true, 0⟩).run [.ok 2, .ok 2, .ok 2, .down, .ok 2, .stop] = some h ∧
    h.opened = 0 ∧ h.closedConns = 0 := by
  refine ⟨_, rfl, ?_, ?_⟩ <;> decide

/-- What the check is there to catch (the family "the closed-check is made before the last round trip and the
    append does not look again"): on the same schedule that variant ends with a closed pool holding a connection
    that nothing will ever close. -/
theorem C17_pipe_early_check_leaks :
    ∃ h, (Pipe.Host.init ⟨2, true, 0⟩).runEarly [.ok 2, .ok 2, .ok 2, .down, .ok 2, .stop, .sclose] = some h ∧
      h.sessClosed = true ∧ (∀ p ∈ h.pools, p.att = []) ∧ h.opened = 1 ∧ h.closedConns = 1 := by
  refine ⟨_, rfl, ?_, ?_, ?_, ?_⟩ <;> decide

/-- several fill() calls at once on a short idle pool (the second connect was refused, the filler stopped): both
    pass the read-locked check; under the write lock the second one finds `filling` set and returns -/
example : ∃ h, (Pipe.Host.init ⟨2, false, 0⟩).run
    [.fail 2, .stop, .fillCheck, .fillCheck, .fillGo, .fillGo, .ok 3, .ok 3, .ok 3, .stop] = some h ∧
    h.cur.map (·.conns) = some [1, 3] ∧ h.opened = 2 := by
  refine ⟨_, rfl, ?_, ?_⟩ <;> decide

/-- What the check is there to catch (the family "fill's second check, under the write lock, forgets `filling`"):
    the same schedule gives two fillers and a pool above its size. -/
theorem C17_pipe_fill_without_recheck_overfills :
    ∃ h, (Pipe.Host.init ⟨2, false, 0⟩).runNoRecheck
      [.fail 2, .stop, .fillCheck, .fillCheck, .fillGo, .fillGo, .ok 3, .ok 3, .ok 3, .ok 4, .ok 4, .ok 4] = some h ∧
      h.cur.map (·.conns) = some [1, 3, 4] ∧ h.cfg.size = 2 := by
  refine ⟨_, rfl, ?_, ?_⟩ <;> decide

/-! ### startupCoordinator.setupConn: the handshake-result protocol (Model/Pipe.lean, namespace Hs) -/

namespace HsProofs
open Hs

structure Inv (s : St) : Prop where
  ret : s.c = .ret → s.cancelled = true
  left : s.c = .left → s.cancelled = true
  ticker : s.w = .done → s.tickerClosed = true
  noBuf : s.buf = 0

theorem inv_init : Inv St.init := by constructor <;> simp [St.init]

theorem inv_step (s s' : St) (a : Act) (h : Inv s) (hs : step s a = some s') : Inv s' := by
  obtain ⟨h1, h2, h3, h4⟩ := h
  cases a <;> simp only [step] at hs <;> (try split at hs) <;>
    first
    | (simp at hs; done)
    | (injection hs with hs; subst hs; constructor <;> simp_all)

theorem inv_run : ∀ (as : List Act) (s s' : St), Inv s → run s as = some s' → Inv s'
  | [], s, s', h, hr => by simp [run] at hr; subst hr; exact h
  | a :: as, s, s', h, hr => by
    simp only [run] at hr
    split at hr
    · rename_i s1 hs1; exact inv_run as s1 s' (inv_step s s1 a h hs1) hr
    · simp at hr

end HsProofs

open Hs HsProofs in
/-- **no reporter blocks forever on its send** (the code that exists: unbuffered channel, each send in a select
    with ctx.Done()): in every state reachable under any schedule — deadline or parent cancellation at any point,
    either reporter first, the consumer leaving through ctx.Done() or not — a reporter standing at its
    `startupErr <- err` completes it within two steps of the protocol's own participants (the consumer's deferred
    cancel(), then the ctx.Done() branch; or the rendezvous), no outside event needed -/
theorem C17_hs_send_never_blocks (as : List Act) (s : St) (hr : run St.init as = some s) :
    (s.r = .send → ∃ bs s', bs.length ≤ 2 ∧ (∀ b ∈ bs, b = .rSend ∨ b = .rEsc ∨ b = .cRet) ∧ run s bs = some s' ∧ s'.r = .done) ∧
    (s.w = .send → ∃ bs s', bs.length ≤ 2 ∧ (∀ b ∈ bs, b = .wSend ∨ b = .wEsc ∨ b = .cRet) ∧ run s bs = some s' ∧ s'.w = .done) := by
  have inv := HsProofs.inv_run as _ s HsProofs.inv_init hr
  constructor
  · intro hsend
    cases hc : s.c with
    | wait => exact ⟨[.rSend], _, by simp, by simp, by (simp [run, step, hsend, hc]; rfl), by rfl⟩
    | got => exact ⟨[.cRet, .rEsc], _, by simp, by simp, by (simp [run, step, hsend, hc]; rfl), by rfl⟩
    | left => exact ⟨[.rEsc], _, by simp, by simp, by (simp [run, step, hsend, inv.left hc]; rfl), by rfl⟩
    | ret => exact ⟨[.rEsc], _, by simp, by simp, by (simp [run, step, hsend, inv.ret hc]; rfl), by rfl⟩
  · intro hsend
    cases hc : s.c with
    | wait => exact ⟨[.wSend], _, by simp, by simp, by (simp [run, step, hsend, hc]; rfl), by rfl⟩
    | got => exact ⟨[.cRet, .wEsc], _, by simp, by simp, by (simp [run, step, hsend, hc]; rfl), by rfl⟩
    | left => exact ⟨[.wEsc], _, by simp, by simp, by (simp [run, step, hsend, inv.left hc]; rfl), by rfl⟩
    | ret => exact ⟨[.wEsc], _, by simp, by simp, by (simp [run, step, hsend, inv.ret hc]; rfl), by rfl⟩

open Hs HsProofs in
/-- **every reporter terminates**: once setupConn has returned (on any path), each reporter that has not returned
    has an enabled step of its own that brings it strictly closer to returning (`run → send → done`; for a reporter
    still working this is "recv / options returns", which the closed socket resp. the cancelled context force),
    no step of anybody moves a reporter away from returning, and "setupConn has returned" is stable -/
theorem C17_hs_reporters_terminate (as : List Act) (s : St) (hr : run St.init as = some s) (hc : s.c = .ret) :
    (s.r ≠ .done → ∃ a s', (a = .rErr ∨ a = .rEsc) ∧ step s a = some s' ∧ s'.r.measure < s.r.measure) ∧
    (s.w ≠ .done → ∃ a s', (a = .wRet ∨ a = .wEsc) ∧ step s a = some s' ∧ s'.w.measure < s.w.measure) ∧
    (∀ a s', step s a = some s' → s'.c = .ret ∧ s'.r.measure ≤ s.r.measure ∧ s'.w.measure ≤ s.w.measure) := by
  have inv := HsProofs.inv_run as _ s HsProofs.inv_init hr
  have hcan := inv.ret hc
  refine ⟨?_, ?_, ?_⟩
  · intro hnd
    cases hrr : s.r with
    | done => exact absurd hrr hnd
    | run => exact ⟨.rErr, { s with r := .send }, by simp, by simp [step, hrr], by simp [RPc.measure]⟩
    | send => exact ⟨.rEsc, { s with r := .done }, by simp, by simp [step, hrr, hcan], by simp [RPc.measure]⟩
  · intro hnd
    cases hww : s.w with
    | done => exact absurd hww hnd
    | run => exact ⟨.wRet, { s with w := .send }, by simp, by simp [step, hww], by simp [RPc.measure]⟩
    | send => exact ⟨.wEsc, { s with w := .done, tickerClosed := true }, by simp, by simp [step, hww, hcan], by simp [RPc.measure]⟩
  · intro a s' hs
    cases a <;> simp only [step] at hs <;> (try split at hs) <;>
      first
      | (simp at hs; done)
      | (injection hs with hs; subst hs; simp_all [RPc.measure])

/-- the same monotonicity in every state (before setupConn returns as well): no step moves a reporter backwards -/
theorem C17_hs_measure_mono (s s' : Hs.St) (a : Hs.Act) (hs : Hs.step s a = some s') :
    s'.r.measure ≤ s.r.measure ∧ s'.w.measure ≤ s.w.measure := by
  cases a <;> simp only [Hs.step] at hs <;> (try split at hs) <;>
    first
    | (simp at hs; done)
    | (injection hs with hs; subst hs; simp_all [Hs.RPc.measure])

/-- What the check is there to catch (the family "result channel buffered, plain sends"): the consumer leaves
    through ctx.Done() without receiving; the writer's error fills the one slot; the reader's error send then
    blocks — and stays blocked along EVERY continuation (the state is closed under all steps). -/
theorem C17_hs_buffered_plain_send_blocks :
    ∃ s, Hs.runBuf Hs.St.init [.ctxFire, .cLeave, .cRet, .wRet, .wSend, .rErr] = some s ∧
      s.r = .send ∧ s.w = .done ∧ s.c = .ret ∧ s.buf = 1 ∧
      ∀ (bs : List Hs.Act) (s' : Hs.St), Hs.runBuf s bs = some s' → s'.r = .send := by
  refine ⟨_, rfl, by decide, by decide, by decide, by decide, ?_⟩
  have key : ∀ (bs : List Hs.Act) (t t' : Hs.St), t.r = .send → t.w = .done → t.c = .ret → t.buf = 1 →
      Hs.runBuf t bs = some t' → t'.r = .send := by
    intro bs
    induction bs with
    | nil => intro t t' h1 _ _ _ hr; simp [Hs.runBuf] at hr; subst hr; exact h1
    | cons b bs ih =>
      intro t t' h1 h2 h3 h4 hr
      simp only [Hs.runBuf] at hr
      split at hr
      · rename_i t1 ht1
        have : t1.r = .send ∧ t1.w = .done ∧ t1.c = .ret ∧ t1.buf = 1 := by
          cases b <;> simp only [Hs.stepBuf] at ht1 <;> (try split at ht1) <;>
            first
            | (simp at ht1; done)
            | (injection ht1 with ht1; subst ht1; simp_all)
        exact ih t1 t' this.1 this.2.1 this.2.2.1 this.2.2.2 hr
      · simp at hr
  intro bs s' hr
  exact key bs _ s' (by decide) (by decide) (by decide) (by decide) hr

/-- the code that exists on the same events: both reporters return -/
example : ∃ s, Hs.run Hs.St.init [.ctxFire, .cLeave, .cRet, .wRet, .wEsc, .rErr, .rEsc] = some s ∧
    s.r = .done ∧ s.w = .done := by
  refine ⟨_, rfl, ?_, ?_⟩ <;> decide

end C17

namespace C17
/-! ### refreshDebouncer with its broadcaster: every refreshNow() waiter is released

For every schedule of refreshNow / debounce / stop calls and flusher steps, once stop() has been called every waiter
ever handed a channel by refreshNow() is released (gets the result of a refresh or a closed channel) after at most three
further steps of the flusher — so no goroutine sitting in Session.refreshRing outlives Session.Close
(`C17_waiters_released`, FULL).

Before the fix commit for KF-C17-2 refreshNow() did not look at `stopped`: called after the flusher had returned it
created a broadcaster nobody would ever stop and handed out a channel that was never written nor closed
(`C17_old_refreshNow_strands_waiter`, regression theorem about the old definition `wrunOld`). -/

open Pool C17Deb in
/-- **every refreshNow() waiter is released** (FULL: all schedules): in every state reachable under any schedule
    (0.. waiters queued before / while a refresh runs, stop at any point, refreshNow before, while and after the flusher
    returns, the select taking any ready case), once `stopped` is set the flusher has at most three steps of its own
    left (refreshFn returns; the select takes the closed quit channel; the critical section) after which it has exited
    and EVERY waiter ever handed a channel is released -/
theorem C17_waiters_released (as : List WAct) (d : WDeb) (hr : wrun WDeb.init as = some d)
    (hs : d.stopped = true) :
    ∃ bs d', bs.length ≤ 3 ∧ (∀ b ∈ bs, b = .wake .quit ∨ b = .lock ∨ b = .refreshDone) ∧
      wrun d bs = some d' ∧ d'.f = .exited ∧ ∀ w, w < d.nextW → d'.released w := by
  have inv := winv_run true as _ d (winv_init true) hr
  exact drain true d inv hs (fun he => inv.noPend he (Or.inl rfl))

open Pool C17Deb in
/-- a refreshNow() on a stopped debouncer is released by the call itself (a closed channel), wherever the flusher is -/
theorem C17_refreshNow_after_stop_released (d : WDeb) (hs : d.stopped = true) :
    ∃ d', wstep d .refreshNow = some d' ∧ d'.nextW = d.nextW + 1 ∧ d'.released d.nextW ∧ d'.pend = d.pend := by
  refine ⟨_, rfl, ?_, ?_, ?_⟩ <;> simp [wRefreshNow, hs, WDeb.released]

open Pool C17Deb in
/-- in every reachable state of the code that exists no listener is registered on a broadcaster the flusher can no
    longer reach: once the flusher has returned, `d.broadcaster` is nil and stays nil -/
theorem C17_no_broadcaster_after_exit (as : List WAct) (d : WDeb) (hr : wrun WDeb.init as = some d)
    (he : d.f = .exited) : d.pend = none ∧ d.cur = none :=
  have inv := winv_run true as _ d (winv_init true) hr
  ⟨inv.noPend he (Or.inl rfl), inv.curRef (by rw [he]; decide)⟩

open Pool C17Deb in
/-- a released waiter stays released along every continuation (both variants of refreshNow) -/
theorem C17_released_stable (fixed : Bool) : ∀ (bs : List WAct) (d d' : WDeb) (w : Nat),
    wrunG fixed d bs = some d' → d.released w → d'.released w
  | [], d, d', w, hr, h => by simp [wrunG] at hr; subst hr; exact h
  | b :: bs, d, d', w, hr, h => by
    simp only [wrunG] at hr
    split at hr
    · rename_i d1 hs1
      have m := released_mono fixed d d1 b hs1
      exact C17_released_stable fixed bs d1 d' w hr (by
        rcases h with a | a
        · exact Or.inl (m.1 w a)
        · exact Or.inr (m.2.1 w a))
    · simp at hr

open Pool in
/-- non-vacuity, and the schedule of the seeded change on the code that exists: a refresh is running (waiter 0), a
    second one is asked for (waiter 1), stop(), the running refresh returns; whichever ready case the select takes,
    both waiters end up released -/
example : ∃ d, wrun WDeb.init [.refreshNow, .wake .now, .lock, .refreshNow, .stop, .refreshDone, .wake .quit, .lock] = some d ∧
    d.served = [0] ∧ d.shut = [1] ∧ d.f = .exited := by
  refine ⟨_, rfl, ?_, ?_, ?_⟩ <;> decide

example : ∃ d, Pool.wrun Pool.WDeb.init [.refreshNow, .wake .now, .lock, .refreshNow, .stop, .refreshDone, .wake .now, .lock] = some d ∧
    d.served = [0] ∧ d.shut = [1] ∧ d.f = .exited := by
  refine ⟨_, rfl, ?_, ?_, ?_⟩ <;> decide

/-- the code that exists on the schedule of KF-C17-2: stop(); the flusher returns; refreshNow() — waiter 0 holds a closed
    channel at once -/
example : ∃ d, Pool.wrun Pool.WDeb.init [.stop, .wake .quit, .lock, .refreshNow] = some d ∧ d.shut = [0] ∧ d.pend = none := by
  refine ⟨_, rfl, ?_, ?_⟩ <;> decide

open Pool in
/-- regression (the code BEFORE the fix commit for KF-C17-2, `wrunOld`: refreshNow does not look at `stopped`): stop();
    the flusher returns; refreshNow() — waiter 0 is never released, along EVERY continuation -/
theorem C17_old_refreshNow_strands_waiter :
    ∃ d, wrunOld WDeb.init [.stop, .wake .quit, .lock, .refreshNow] = some d ∧ d.stopped = true ∧ d.f = .exited ∧
      d.late = true ∧ 0 < d.nextW ∧ ∀ (bs : List WAct) (d' : WDeb), wrunOld d bs = some d' → ¬ d'.released 0 := by
  refine ⟨_, rfl, by decide, by decide, by decide, by decide, ?_⟩
  have key : ∀ (bs : List WAct) (t t' : WDeb), t.f = .exited → 0 ∈ ls t.pend → 0 ∉ t.served → 0 ∉ t.shut →
      wrunOld t bs = some t' → ¬ t'.released 0 := by
    intro bs
    induction bs with
    | nil =>
      intro t t' _ _ h3 h4 hr
      simp [wrunOld, wrunG] at hr; subst hr
      intro h; rcases h with a | a
      · exact h3 a
      · exact h4 a
    | cons b bs ih =>
      intro t t' h1 h2 h3 h4 hr
      simp only [wrunOld, wrunG] at hr
      split at hr
      · rename_i t1 ht1
        have : t1.f = .exited ∧ 0 ∈ ls t1.pend ∧ 0 ∉ t1.served ∧ 0 ∉ t1.shut := by
          cases b with
          | refreshNow =>
            simp only [wstepG, wRefreshNow, Bool.false_and, Bool.false_eq_true, if_false] at ht1
            injection ht1 with ht1; subst ht1
            split
            · rename_i hp; simp [hp, ls] at h2
            · rename_i l hp
              simp only [hp, ls, Option.getD_some] at h2
              exact ⟨h1, by simp [ls, h2], h3, h4⟩
          | debounce =>
            simp only [wstepG] at ht1
            split at ht1 <;> (injection ht1 with ht1; subst ht1; exact ⟨h1, h2, h3, h4⟩)
          | wake x => simp [wstepG, h1] at ht1
          | lock => simp [wstepG, h1] at ht1
          | refreshDone => simp [wstepG, h1] at ht1
          | stop =>
            simp only [wstepG] at ht1; injection ht1 with ht1; subst ht1; exact ⟨h1, h2, h3, h4⟩
        exact ih t1 t' this.1 this.2.1 this.2.2.1 this.2.2.2 hr
      · simp at hr
  intro bs d' hr
  exact key bs _ d' (by decide) (by decide) (by decide) (by decide) hr

open Pool in
/-- What the check is there to catch (the family "the flusher leaves through its quit case without stopping the
    pending broadcaster"): a refresh is running, a second one is asked for (waiter 1, registered BEFORE stop), stop(),
    the refresh returns, the select takes the quit case — waiter 1 is never released, along every continuation. -/
theorem C17_quit_return_strands_waiter :
    ∃ d, wrunQuitReturn WDeb.init [.refreshNow, .wake .now, .lock, .refreshNow, .stop, .refreshDone, .wake .quit] = some d ∧
      d.stopped = true ∧ d.f = .exited ∧ d.late = false ∧ 1 < d.nextW ∧
      ∀ (bs : List WAct) (d' : WDeb), wrunQuitReturn d bs = some d' → ¬ d'.released 1 := by
  refine ⟨_, rfl, by decide, by decide, by decide, by decide, ?_⟩
  have key : ∀ (bs : List WAct) (t t' : WDeb), t.f = .exited → 1 ∈ ls t.pend → 1 ∉ t.served → 1 ∉ t.shut → 1 < t.nextW →
      wrunQuitReturn t bs = some t' → ¬ t'.released 1 := by
    intro bs
    induction bs with
    | nil =>
      intro t t' _ _ h3 h4 _ hr
      simp [wrunQuitReturn] at hr; subst hr
      intro h; rcases h with a | a
      · exact h3 a
      · exact h4 a
    | cons b bs ih =>
      intro t t' h1 h2 h3 h4 h5 hr
      simp only [wrunQuitReturn] at hr
      split at hr
      · rename_i t1 ht1
        have : t1.f = .exited ∧ 1 ∈ ls t1.pend ∧ 1 ∉ t1.served ∧ 1 ∉ t1.shut ∧ 1 < t1.nextW := by
          cases b with
          | refreshNow =>
            simp only [wstepQuitReturn, wstep, wstepG, wRefreshNow, Bool.true_and] at ht1
            injection ht1 with ht1; subst ht1
            split
            · refine ⟨h1, h2, h3, ?_, by simp; omega⟩
              simp only [List.mem_append, List.mem_singleton, not_or]
              exact ⟨h4, by omega⟩
            · split
              · rename_i hp; simp [hp, ls] at h2
              · rename_i l hp
                simp only [hp, ls, Option.getD_some] at h2
                exact ⟨h1, by simp [ls, h2], h3, h4, by simp; omega⟩
          | debounce =>
            simp only [wstepQuitReturn, wstep, wstepG] at ht1
            split at ht1 <;> (injection ht1 with ht1; subst ht1; exact ⟨h1, h2, h3, h4, h5⟩)
          | wake x => cases x <;> simp [wstepQuitReturn, wstep, wstepG, h1] at ht1
          | lock => simp [wstepQuitReturn, wstep, wstepG, h1] at ht1
          | refreshDone => simp [wstepQuitReturn, wstep, wstepG, h1] at ht1
          | stop =>
            simp only [wstepQuitReturn, wstep, wstepG] at ht1; injection ht1 with ht1; subst ht1; exact ⟨h1, h2, h3, h4, h5⟩
        exact ih t1 t' this.1 this.2.1 this.2.2.1 this.2.2.2.1 this.2.2.2.2 hr
      · simp at hr
  intro bs d' hr
  exact key bs _ d' (by decide) (by decide) (by decide) (by decide) (by decide) hr

end C17

namespace C17
/-! ### policyConnPool: concurrent addHost / removeHost / Close callers for one host (Model/Pool.lean, namespace Reg) -/

open Reg C17Reg in
/-- **no orphan pool**: whatever the interleaving of any number of addHost (UP event, ring refresh, reconnect ticker,
    control connection), removeHost and policyConnPool.Close callers — each advancing step by step: lock, lookup,
    create, store, unlock, fill — every hostConnPool object that is not closed and that nobody is committed to closing
    is the REGISTERED one or the one the caller inside the mutex is about to store: no pool object is ever out of the
    reach of removeHost / Close -/
theorem C17_no_orphan_pool (b : Bool) (as : List Act) (s : St) (hr : run (St.init b) as = some s) (i : Nat)
    (hl : s.live i) : s.reg = some i ∨ s.crit = some (.addCreated i) := by
  have inv := rinv_run as _ s (rinv_init b) hr
  obtain ⟨h1, h2, h3⟩ := hl
  rcases inv.noOrphan i h1 with a | a | a | a
  · exact Or.inl a
  · exact Or.inr a
  · exact absurd a h2
  · exact absurd a h3

open Reg C17Reg in
/-- **at most one pool object per host** is ever registered or filling: two pool objects that are both open and not
    committed to be closed are the same object, for all interleavings -/
theorem C17_one_pool_per_host (b : Bool) (as : List Act) (s : St) (hr : run (St.init b) as = some s) (i j : Nat)
    (hi : s.live i) (hj : s.live j) : i = j := by
  have inv := rinv_run as _ s (rinv_init b) hr
  rcases C17_no_orphan_pool b as s hr i hi with a | a <;> rcases C17_no_orphan_pool b as s hr j hj with c | c
  · rw [a] at c; injection c
  · have := inv.missLock (Or.inr ⟨j, c⟩); rw [a] at this; simp at this
  · have := inv.missLock (Or.inr ⟨i, a⟩); rw [c] at this; simp at this
  · rw [a] at c; injection c with c; injection c

open Reg C17Reg in
/-- **nothing is live once policyConnPool.Close has swept the map** (fix: commit for KF-C17-3), for all interleavings of
    any number of addHost / removeHost / Close callers before, while and after: `closed` is never reset, no pool is
    registered any more, and no pool object is open and uncommitted to be closed — in particular an addHost caller that
    gets the mutex afterwards builds and fills nothing -/
theorem C17_reg_nothing_live_after_close (b : Bool) (as : List Act) (s : St) (hr : run (St.init b) as = some s)
    (hc : s.closed = true) :
    s.reg = none ∧ (∀ i, ¬ s.live i) ∧ ∀ (bs : List Act) (s' : St), run s bs = some s' → s'.closed = true := by
  have rc := rclosed_run as _ s (rclosed_init b) hr hc
  refine ⟨rc.1, ?_, ?_⟩
  · intro i hl
    rcases C17_no_orphan_pool b as s hr i hl with a | a
    · rw [rc.1] at a; simp at a
    · exact rc.2.2.1 i a
  · intro bs s' h; exact closed_run bs s s' h hc

/-- non-vacuity: Close, then two addHost callers — both find `closed` under the mutex and leave; nothing is built -/
example : ∃ s, Reg.run (Reg.St.init true)
    [.callClose, .clLock, .clSweep, .clUnlock, .callAdd, .callAdd, .addLock, .addLookup, .addUnlock, .addLock, .addLookup,
     .addUnlock] = some s ∧ s.closed = true ∧ s.pools = [true] ∧ s.reg = none ∧ s.toFill = [] ∧ s.filled = [] := by
  refine ⟨_, rfl, ?_, ?_, ?_, ?_, ?_⟩ <;> decide

/-- non-vacuity: two addHost callers for a host without a pool, interleaved as far as the mutex allows; one pool -/
example : ∃ s, Reg.run (Reg.St.init false)
    [.callAdd, .callAdd, .addLock, .addLookup, .addCreate, .addStore, .addUnlock, .addLock, .addLookup, .addUnlock,
     .fill 0, .fill 0] = some s ∧ s.pools = [false] ∧ s.reg = some 0 ∧ s.filled = [0, 0] := by
  refine ⟨_, rfl, ?_, ?_, ?_⟩ <;> decide

/-- What the check is there to catch (the family "addHost looks up under the read lock, builds the pool unlocked and
    stores it under the write lock without looking again"): two callers both miss, both build a pool, the second store
    overwrites the first — two live pool objects for one host, both filled; pool 0 is not registered, and along EVERY
    continuation (any further addHost / removeHost / policyConnPool.Close callers, any interleaving) it stays open,
    unregistered and uncommitted to be closed: out of the reach of removeHost and Close for good. -/
theorem C17_split_lock_orphans_pool :
    ∃ s, Reg.runSplit (Reg.St.init false) [.callAdd, .callAdd, .sLookup, .sLookup, .sMake, .sMake, .sStore 0, .sStore 1,
        .fill 0, .fill 1] = some s ∧
      s.live 0 ∧ s.live 1 ∧ s.reg = some 1 ∧ s.filled = [0, 1] ∧
      ∀ (bs : List Reg.Act) (s' : Reg.St), Reg.runSplit s bs = some s' → s'.live 0 ∧ s'.reg ≠ some 0 := by
  refine ⟨_, rfl, ?_, ?_, by decide, by decide, ?_⟩
  · exact ⟨by decide, by decide, by decide⟩
  · exact ⟨by decide, by decide, by decide⟩
  · intro bs s' hr
    have h := C17Reg.orphan0_run bs _ s'
      ⟨by decide, by decide, by decide, by decide, by decide, by decide, by decide, by decide, by decide⟩ hr
    exact ⟨⟨h.open0, h.crit.2.2.2, h.notDoomed⟩, h.notReg⟩

/-! ## Pool close when the transports' Close() reports an error (`Model/PoolLock.lean`, lemmas `Proofs/C06Lock.lean`)

The fault point "net.Conn.Close() returns an error" (a tls.Conn whose close_notify cannot be written): Conn.Close then
calls hostConnPool.HandleError on the closing goroutine, which takes pool.mu. The pool scenarios, the Session.Close runs
and the connect-pipeline schedules of the C17 harness run with this fault on all / on the odd connections (`cerr`). -/

/-- **pool close returns whatever the transports report from Close**: any goroutines running any sequences of the pool's
    methods (Close, HandleError, Pick / Size, Conn.Close, closeWithError, the tail of connect()), any set of connections
    whose transport reports an error from Close, any schedule: nobody waits for pool.mu while holding it, the holder of
    pool.mu can always move, and while somebody has work left somebody can move (so hostConnPool.Close, hence
    policyConnPool.Close and Session.Close, is never blocked for good on the pool's lock) -/
theorem C17_pool_close_returns_with_close_errors (cerr : Nat → Bool) (conns : List Nat) (ms : Nat → List PoolLock.Meth)
    (ts : List Nat) (st : PoolLock.St)
    (hr : PoolLock.run cerr (PoolLock.init conns (fun t => PoolLock.progOf (ms t))) ts = some st) :
    (∀ t, PoolLock.selfDeadlocked st t = false) ∧
    (∀ t, st.holder = some t → (PoolLock.step cerr st t).isSome = true) ∧
    (∀ u, st.prog u ≠ [] → ∃ t, (PoolLock.step cerr st t).isSome = true) := by
  have inv : PoolLock.LInv cerr st :=
    PoolLock.linv_run cerr ts _ st (PoolLock.linv_init cerr conns _ (fun t => PoolLock.ok_progOf cerr (ms t))) hr
  refine ⟨?_, fun t hh => PoolLock.holder_steps cerr st t inv hh, fun u hu => PoolLock.some_thread_steps cerr st u inv hu⟩
  intro t
  have it := inv t
  unfold PoolLock.selfDeadlocked
  split
  · rename_i r hpr
    cases hh : decide (st.holder = some t) with
    | true => simp [hpr, hh, PoolLock.ok] at it
    | false => simpa using hh
  · rfl

/-- non-vacuity: Session.Close's pool close of two connections with faulty transports next to an error callback of
    connection 2 (a reset seen by its receive loop) and a Pick: everybody finishes, each transport closed once -/
example : ∃ st, PoolLock.run (fun _ => true)
    (PoolLock.init [1, 2] (fun t => PoolLock.progOf (if t = 0 then [.close] else if t = 1 then [.connError 2, .pick] else [])))
    [1, 0, 0, 0, 1, 1, 1, 0, 0, 0, 0, 0, 1, 1, 1, 0] = some st ∧
    st.holder = none ∧ st.closed = true ∧ st.conns = [] ∧ st.closes 1 = 1 ∧ st.closes 2 = 1 ∧ st.prog 0 = [] ∧ st.prog 1 = [] := by
  refine ⟨_, rfl, ?_, ?_, ?_, ?_, ?_, ?_, ?_⟩ <;> decide

/-- what the fault class is there to catch (hostConnPool.Close closing its connections while it holds pool.mu — NOT the
    code that exists): one pooled connection with a faulty transport and Close waits for its own lock for good -/
theorem C17_pool_close_holding_lock_self_deadlocks :
    ∃ st, PoolLock.run (fun _ => true) (PoolLock.init [1] (fun t => if t = 0 then PoolLock.pCloseHoldingLock else []))
        [0, 0, 0, 0] = some st ∧ PoolLock.selfDeadlocked st 0 = true ∧ PoolLock.step (fun _ => true) st 0 = none := by
  refine ⟨_, rfl, ?_, ?_⟩ <;> decide

/-! ## Session.Close against the control connection's heartbeat and reconnects (`Model/PoolCtl.lean`)

controlConn.close() hands `quit` to the heartbeat goroutine over an UNBUFFERED channel: Session.Close returns only if
that goroutine comes back to its select — also when it is inside c.reconnect() at that moment (dialling the ring's
hosts and the contact points, handshake, system.local, REGISTER, refreshRing).

FULL PROPERTY ("… after which the driver's background goroutines exit"), proved below without exclusion since the repair of
KF-C17-4 (props/C17.fix-KF-C17-4.diff: close() SWAPS the state to Closing and signals only a heartbeat that had started):
once close() has returned the heartbeat goroutine has exited, or has not run yet and then its first instruction is its
last (`C17_ctl_heartbeat_exits`). Before the repair close() used CAS(Started → Closing): a heartbeat goroutine scheduled
after close() still found Starting, started and was never told to stop — `C17_old_close_before_heartbeat_runs` keeps the
kernel-checked counterexample about that OLD definition (`Ctl.runG false false`) as a regression witness. -/

/-- **Session.Close is never stranded on the control connection**: whenever the closer waits in `c.quit <- struct{}{}`,
    the heartbeat goroutine is alive, on its way back to the select, and can move — for every schedule of heartbeats,
    failed heartbeats, reconnects by the heartbeat goroutine and by others (any number of round trips), and Close -/
theorem C17_ctl_closer_never_stranded (as : List Ctl.Act) (s : Ctl.St) (hr : Ctl.run Ctl.init as = some s)
    (hc : s.cl = .sending) :
    s.state = .closing ∧ (s.hb = .select ∨ s.hb = .beat ∨ s.hb = .inReconn) ∧
    ∃ a, Ctl.hbAct s a = true ∧ (Ctl.step s a).isSome = true := by
  have inv := C17Ctl.inv_run true as _ s (C17Ctl.inv_init true) hr
  exact ⟨(inv.sending hc).1, (inv.sending hc).2, C17Ctl.hb_enabled s inv hc⟩

/-- **… and waits for a bounded number of the heartbeat goroutine's steps**: from any reachable state in which the closer
    is blocked, along EVERY continuation in which it is still blocked the heartbeat goroutine has taken at most `mu s`
    steps (1 in its select, 2 waiting for the OPTIONS answer, k + 3 inside a reconnect with k round trips left); by the
    previous theorem it can always take the next one, so Close is released after at most `mu s` of them -/
theorem C17_ctl_close_wait_bounded (as bs : List Ctl.Act) (s s' : Ctl.St) (hr : Ctl.run Ctl.init as = some s)
    (hc : s.cl = .sending) (hr' : Ctl.run s bs = some s') (hc' : s'.cl = .sending) :
    C17Ctl.hbSteps s bs + Ctl.mu s' ≤ Ctl.mu s :=
  C17Ctl.mu_run bs s s' (C17Ctl.inv_run true as _ s (C17Ctl.inv_init true) hr) hc hr' hc'

/-- once close() has switched the state to Closing no reconnect attempt starts any more (reconnect() returns at once) and
    the state stays Closing -/
theorem C17_ctl_no_reconnect_after_close (as : List Ctl.Act) (s s' : Ctl.St) (a : Ctl.Act)
    (_hr : Ctl.run Ctl.init as = some s) (hcl : s.state = .closing) (hs : Ctl.step s a = some s') :
    s'.state = .closing ∧ (s.rc = .free → s'.rc = .free) := by
  obtain ⟨st, hb, cl, rc⟩ := s
  simp only at hcl; subst hcl
  cases a <;> simp only [Ctl.step, Ctl.stepG] at hs <;> (repeat' split at hs) <;>
    (first
      | (simp at hs; done)
      | (injection hs with hs; subst hs; simp_all))

/-- **the heartbeat goroutine is gone when close() returns** (full; repaired close()): for every schedule — Close before,
    while or after the heartbeat goroutine's first instruction included — once close() has returned the goroutine has
    exited, or it has not run yet and whatever happens next it is still not running or it has exited (its CAS fails) -/
theorem C17_ctl_heartbeat_exits (as : List Ctl.Act) (s : Ctl.St) (hr : Ctl.run Ctl.init as = some s) (hd : s.cl = .done) :
    s.hb = .exited ∨ (s.hb = .notStarted ∧ ∀ a s', Ctl.step s a = some s' → s'.hb = .notStarted ∨ s'.hb = .exited) := by
  have inv := C17Ctl.inv_run true as _ s (C17Ctl.inv_init true) hr
  have hst : s.state = .closing := inv.swapClosing rfl (by simp [hd])
  rcases inv.closed hst (Or.inr hd) with h | h
  · exact Or.inl h
  · refine Or.inr ⟨h, ?_⟩
    intro a s' hs
    have hown := inv.own
    obtain ⟨st, hb, cl, rc⟩ := s
    simp only at h hst; subst h; subst hst
    cases a <;> simp only [Ctl.step, Ctl.stepG] at hs <;> (repeat' split at hs) <;>
      (first
        | (simp at hs; done)
        | (injection hs with hs; subst hs; simp_all))

/-- non-vacuity of the second alternative: Close before the heartbeat goroutine's first instruction; that instruction
    then finds Closing and returns -/
example : ∃ s s', Ctl.run Ctl.init [.close, .closeConn] = some s ∧ s.cl = .done ∧ s.hb = .notStarted ∧
    Ctl.step s .hbStart = some s' ∧ s'.hb = .exited ∧ s'.state = .closing := by
  refine ⟨_, _, rfl, by decide, by decide, rfl, by decide, by decide⟩

/-- Regression witness about the OLD close() (CAS(Started → Closing), before the repair of KF-C17-4; NOT the code that
    exists): Session.Close runs before the heartbeat goroutine's first instruction; close() returns, the goroutine then
    starts and along EVERY continuation it never exits (nobody will ever send on quit) -/
theorem C17_old_close_before_heartbeat_runs :
    ∃ s, Ctl.runG false false Ctl.init [.close, .closeConn, .hbStart] = some s ∧ s.cl = .done ∧ s.hb = .select ∧
      ∀ (bs : List Ctl.Act) (s' : Ctl.St), Ctl.runG false false s bs = some s' → s'.cl = .done ∧ s'.hb ≠ .exited := by
  refine ⟨_, rfl, by decide, by decide, ?_⟩
  intro bs s' hr
  have h := C17Ctl.late_run bs _ s' ⟨by decide, by decide, by decide⟩ hr
  refine ⟨h.cl, ?_⟩
  rcases h.hb with h | h | h <;> simp [h]

/-- what the schedules with Close inside a reconnect are there to catch (the heartbeat goroutine returning when it
    comes out of reconnect() and sees Closing — NOT the code that exists): the closer waits on `quit` for good -/
theorem C17_ctl_return_after_reconnect_strands_closer :
    ∃ s, Ctl.runG true false Ctl.init [.hbStart, .hbTimer, .hbBeatFail 0, .close, .rcDone] = some s ∧
      s.cl = .sending ∧ s.hb = .exited ∧
      ∀ (bs : List Ctl.Act) (s' : Ctl.St), Ctl.runG true false s bs = some s' → s'.cl = .sending := by
  refine ⟨_, rfl, by decide, by decide, ?_⟩
  intro bs s' hr
  exact (C17Ctl.stranded_run bs _ s' ⟨by decide, by decide, by decide, by decide⟩ hr).cl

/-- non-vacuity: Close while the heartbeat goroutine is inside a reconnect with two round trips left: the closer waits
    (state sending) until the attempt is over, gets its quit, closes the connection; the heartbeat goroutine has exited -/
example : ∃ s1 s2, Ctl.run Ctl.init [.hbStart, .hbTimer, .hbBeatFail 2, .rcStep, .close] = some s1 ∧
    s1.cl = .sending ∧ s1.hb = .inReconn ∧ Ctl.mu s1 = 4 ∧
    Ctl.run s1 [.rcStep, .otherEnter 5, .rcDone, .hbQuit, .closeConn] = some s2 ∧
    s2.cl = .done ∧ s2.hb = .exited ∧ s2.rc = .free ∧ s2.state = .closing := by
  refine ⟨_, _, rfl, by decide, by decide, by decide, rfl, by decide, by decide, by decide, by decide⟩

/-! ## The reconnection-policy retry loop of hostConnPool.connect() (`Model/PoolCtl.lean`, namespace `Retry`)

FULL PROPERTY: `∀ n f, (Retry.connect n f).1 ≠ .nilNoErr` — a connect that reports no error hands a connection to the
pool. It does NOT hold for the code that exists: a ReconnectionPolicy whose GetMaxRetries() is 0 makes the loop body
never run, connect() goes on with conn == nil and err == nil (`C17_cex_connect_zero_retries_nil_conn`, proposed finding
KF-C17-5). `C17_connect_conn_or_error_partial` excludes exactly `n = 0`. -/

/-- the retry loop, for every policy bound n ≥ 1 and every sequence of attempt outcomes: it returns a connection or an
    error, never more than n attempts, the connection is the first successful attempt's and everything before it was a
    retryable failure — PARTIAL: n ≥ 1 -/
theorem C17_connect_conn_or_error_partial (n : Nat) (f : Nat → Retry.Dial) (hn : 1 ≤ n) :
    (Retry.connect n f).1 ≠ .nilNoErr ∧ (Retry.connect n f).2 ≤ n ∧ 1 ≤ (Retry.connect n f).2 ∧
    ∀ k, (Retry.connect n f).1 = .conn k → f k = .ok ∧ (Retry.connect n f).2 = k + 1 ∧ ∀ j, j < k → f j = .temp := by
  obtain ⟨a, _, c, d⟩ := C17Retry.go_spec f n 0 false
  refine ⟨?_, by simpa [Retry.connect] using a, ?_, ?_⟩
  · intro h; have := (d h).1; omega
  · cases n with
    | zero => omega
    | succ m =>
      simp only [Retry.connect, Retry.go]
      cases f 0 <;> simp
      exact (C17Retry.go_spec f m 1 true).2.1
  · intro k hk
    obtain ⟨_, _, c3, c4, c5⟩ := c k hk
    exact ⟨c3, c4, fun j hj => c5 j (Nat.zero_le _) hj⟩

/-- the attempts never exceed the policy's bound, whatever it is (also 0) -/
theorem C17_connect_attempts_bounded (n : Nat) (f : Nat → Retry.Dial) : (Retry.connect n f).2 ≤ n := by
  simpa [Retry.connect] using (C17Retry.go_spec f n 0 false).1

/-- kernel-checked counterexample to the full statement: GetMaxRetries() = 0 — no attempt, no error, no connection; an
    open pool appends the nil connection (Pick then dereferences it; with a keyspace configured connect() itself does) -/
theorem C17_cex_connect_zero_retries_nil_conn (f : Nat → Retry.Dial) :
    Retry.connect 0 f = (.nilNoErr, 0) ∧ Retry.appended (Retry.connect 0 f).1 = (1, 1) := by
  simp [Retry.connect, Retry.go, Retry.appended]

/-- non-vacuity: two retryable failures, then a connection (3 attempts allowed); a non-temporary OpError ends the loop -/
example : Retry.connect 3 (fun i => if i < 2 then .temp else .ok) = (.conn 2, 3) ∧
    Retry.connect 3 (fun i => if i = 0 then .temp else .perm) = (.err, 2) ∧
    Retry.connect 2 (fun _ => .temp) = (.err, 2) := by
  refine ⟨?_, ?_, ?_⟩ <;> decide

/-! ## The event debouncers' stop() (Session.Close) against the flusher at each of its program points (`EvStop`)

eventDebouncer.stop() hands `quit` to the flusher over an unbuffered channel; the flusher's timer branch takes e.mu.
stop() holds no lock, so whatever the flusher is doing — in its select, committed to the timer branch and waiting for
e.mu behind a debounce(), flushing — it comes back to the select and takes the quit. -/

/-- **stop() (hence Session.Close) is never blocked for good on an event debouncer**: for every schedule of debounce()
    calls, timer expiries, somebody slow inside e.mu, flusher steps and stop(): a stop() waiting in its send holds
    nothing the flusher needs, the flusher is alive, and a flusher step is enabled — or somebody else is inside e.mu
    and can leave -/
theorem C17_evdeb_stop_never_blocked_for_good (as : List EvStop.Act) (x : EvStop.St) (hr : EvStop.run EvStop.init as = some x)
    (hs : x.s = .sending) :
    x.mu ≠ .S ∧ x.f ≠ .exited ∧
    ((∃ a, EvStop.fAct a = true ∧ (EvStop.step x a).isSome = true) ∨ (x.mu = .H ∧ (EvStop.step x .hunlock).isSome = true)) := by
  have inv := C17EvDeb.inv_run as _ x C17EvDeb.inv_init hr
  exact ⟨inv.noS, inv.alive hs, C17EvDeb.progress x inv hs⟩

/-- … and every step of the flusher releases it or brings the flusher strictly closer to the select that takes the quit
    (measure ≤ 6: a timer value already in the channel may cost one more flush round) -/
theorem C17_evdeb_stop_wait_bounded (as : List EvStop.Act) (x x' : EvStop.St) (a : EvStop.Act)
    (_hr : EvStop.run EvStop.init as = some x) (hs : x.s = .sending) (hst : EvStop.step x a = some x') (hf : EvStop.fAct a = true) :
    x'.s = .closing ∨ (x'.s = .sending ∧ EvStop.mu x' < EvStop.mu x) :=
  C17EvDeb.mu_step x x' a hs hst hf

/-- once stop() is past its send the flusher goroutine has exited -/
theorem C17_evdeb_flusher_exits (as : List EvStop.Act) (x : EvStop.St) (hr : EvStop.run EvStop.init as = some x)
    (hs : x.s = .closing ∨ x.s = .done) : x.f = .exited :=
  (C17EvDeb.inv_run as _ x C17EvDeb.inv_init hr).gone hs

/-- what the schedules are there to catch (stop() taking e.mu and keeping it across the send — NOT the code that
    exists): the timer fires, the flusher commits to the timer branch, stop() gets the mutex first: along EVERY
    continuation stop() stays in its send and the flusher stays in front of the mutex -/
theorem C17_evdeb_stop_holding_mu_deadlocks :
    ∃ x, EvStop.runG true EvStop.init [.deb, .fire, .fTimer, .stop, .sLock] = some x ∧
      ∀ (bs : List EvStop.Act) (x' : EvStop.St), EvStop.runG true x bs = some x' → x'.s = .sending ∧ x'.f = .wantLock := by
  refine ⟨_, rfl, ?_⟩
  intro bs x' hr
  have h := C17EvDeb.dead_run bs _ x' ⟨by decide, by decide, by decide⟩ hr
  exact ⟨h.s, h.f⟩

/-- non-vacuity: an event is buffered, a slow debounce() holds e.mu, the timer fires and the flusher waits for the
    mutex; stop() blocks in its send; the mutex is released: flush (one callback), quit taken, stop() returns -/
example : ∃ x1 x2, EvStop.run EvStop.init [.deb, .hlock, .fire, .fTimer, .stop] = some x1 ∧
    x1.s = .sending ∧ x1.f = .wantLock ∧ EvStop.mu x1 = 3 ∧
    EvStop.run x1 [.hunlock, .fLock, .fFlush, .fQuit, .stopDone] = some x2 ∧
    x2.s = .done ∧ x2.f = .exited ∧ x2.callbacks = 1 ∧ x2.mu = .none := by
  refine ⟨_, _, rfl, by decide, by decide, by decide, rfl, by decide, by decide, by decide, by decide⟩

end C17
