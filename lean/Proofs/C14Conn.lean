import Model.Prepare
/-!
# C14, session tier: every schedule of the connection-level machine `PConn` produces a trace that the
observable-level specification `Obs` accepts (refinement by an inductive invariant `Inv` and a coupling
relation `Rel`). Helper lemmas; the property theorems are in `Proofs/C14.lean`.
-/
namespace C14Conn
open PConn Obs

variable {κ : Type} [DecidableEq κ]

/-! ### list facts -/

theorem countP_set_same {α : Type} (p : α → Bool) : ∀ (l : List α) (i : Nat) (x a : α),
    l[i]? = some x → p x = p a → (l.set i a).countP p = l.countP p
  | [], _, _, _, h, _ => by simp at h
  | y :: l, 0, x, a, h, hp => by
    simp at h; subst h
    simp [List.countP_cons, hp]
  | y :: l, i + 1, x, a, h, hp => by
    simp at h
    simp [List.countP_cons, countP_set_same p l i x a h hp]

theorem countP_set_dec {α : Type} (p : α → Bool) : ∀ (l : List α) (i : Nat) (x a : α),
    l[i]? = some x → p x = true → p a = false → (l.set i a).countP p + 1 = l.countP p
  | [], _, _, _, h, _, _ => by simp at h
  | y :: l, 0, x, a, h, hx, ha => by
    simp at h; subst h
    simp [hx, ha]
  | y :: l, i + 1, x, a, h, hx, ha => by
    simp at h
    have := countP_set_dec p l i x a h hx ha
    simp only [List.set_cons_succ, List.countP_cons]
    omega

/-! ### invariant of the connection-level machine -/

def isRemovedL (fls : List (Flight κ)) (f : Nat) : Bool :=
  match fls[f]? with
  | some fl => fl.removed
  | none => false

omit [DecidableEq κ] in
theorem isRemoved_eq (s : State κ) : isRemoved s = isRemovedL s.flights := rfl

/-- number of flights of key k whose PREPARE has not reached the server -/
def unann (fls : List (Flight κ)) (k : κ) : Nat :=
  fls.countP (fun fl => decide (fl.key = k) && fl.ans.isNone)

/-- the statements taken so far belong to the entries, in order, and come from flights that were not
    banned -/
def GotOK (fls : List (Flight κ)) (b : Nat → Bool) : List (κ × Nat) → List Nat → Prop
  | _, [] => True
  | [], _ :: _ => False
  | e :: es, f :: fs =>
    (∃ (fl : Flight κ) (id : Id), fls[f]? = some fl ∧ fl.key = e.1 ∧ fl.ans = some (some (id, e.2)) ∧ b f = false) ∧ GotOK fls b es fs

/-- the caller is inside prepareStatement for its next entry, holding flight f -/
def Holds (fls : List (Flight κ)) (cl : Caller κ) (f : Nat) : Prop :=
  cl.got.length < cl.entries.length ∧ GotOK fls cl.banned cl.entries cl.got ∧
    ∃ (fl : Flight κ) (e : κ × Nat), fls[f]? = some fl ∧ cl.entries[cl.got.length]? = some e ∧ fl.key = e.1 ∧ cl.banned f = false

structure CallerOK (fls : List (Flight κ)) (cl : Caller κ) : Prop where
  ne  : cl.entries ≠ []
  ban : ∀ f, cl.banned f = true → isRemovedL fls f = true
  pcs : match cl.pc with
    | .start => cl.got.length < cl.entries.length ∧ GotOK fls cl.banned cl.entries cl.got
    | .won f => Holds fls cl f
    | .waiting f => Holds fls cl f
    | .answered _ => True
    | .returned => True
    | .abandoned => True
    | .lagging => cl.got.length = cl.entries.length ∧ GotOK fls cl.banned cl.entries cl.got

/-- the caller accounts for flight f while its PREPARE has not reached the server: it published it and is about
    to start the goroutine, it waits for it, or it gave up on its context (after starting the goroutine) -/
def Owns (pc : PC) (f : Nat) : Prop := pc = .won f ∨ pc = .waiting f ∨ pc = .abandoned

theorem not_owns_start {pc : PC} {f : Nat} (h : pc = .start) : ¬ Owns pc f := by
  intro ho; rcases ho with ho | ho | ho <;> (rw [h] at ho; cases ho)
theorem not_owns_answered {pc : PC} {a : XAns} {f : Nat} (h : pc = .answered a) : ¬ Owns pc f := by
  intro ho; rcases ho with ho | ho | ho <;> (rw [h] at ho; cases ho)
theorem not_owns_lagging {pc : PC} {f : Nat} (h : pc = .lagging) : ¬ Owns pc f := by
  intro ho; rcases ho with ho | ho | ho <;> (rw [h] at ho; cases ho)
theorem owns_waiting {pc : PC} {f g : Nat} (h : pc = .waiting f) (ho : Owns pc g) : g = f := by
  rcases ho with ho | ho | ho <;> rw [h] at ho
  · cases ho
  · injection ho with ho; exact ho.symm
  · cases ho
theorem owns_won {pc : PC} {f g : Nat} (h : pc = .won f) (ho : Owns pc g) : g = f := by
  rcases ho with ho | ho | ho <;> rw [h] at ho
  · injection ho with ho; exact ho.symm
  · cases ho
  · cases ho

structure Inv (s : State κ) : Prop where
  cached   : ∀ (k : κ) (f : Nat), s.cache k = some f → ∃ fl : Flight κ, s.flights[f]? = some fl ∧ fl.key = k ∧ fl.removed = false
  uncached : ∀ (f : Nat) (fl : Flight κ), s.flights[f]? = some fl → fl.removed = false → s.cache fl.key = some f
  doneAns  : ∀ (f : Nat) (fl : Flight κ), s.flights[f]? = some fl → fl.done = true → fl.ans ≠ none
  failRem  : ∀ (f : Nat) (fl : Flight κ), s.flights[f]? = some fl → fl.done = true → fl.ans = some none → fl.removed = true
  callers  : ∀ (c : Nat) (cl : Caller κ), s.callers[c]? = some cl → CallerOK s.flights cl
  waiter   : ∀ (f : Nat) (fl : Flight κ), s.flights[f]? = some fl → fl.ans = none →
               ∃ (c : Nat) (cl : Caller κ), s.callers[c]? = some cl ∧ hasKey cl.entries fl.key = true ∧ Owns cl.pc f
  unspawned : ∀ (f : Nat) (fl : Flight κ), s.flights[f]? = some fl → fl.spawned = false →
               ∃ (c : Nat) (cl : Caller κ), s.callers[c]? = some cl ∧ cl.pc = .won f

/-- flights only ever gain information -/
def FlMono (fls fls' : List (Flight κ)) : Prop :=
  ∀ (f : Nat) (fl : Flight κ), fls[f]? = some fl → ∃ fl' : Flight κ, fls'[f]? = some fl' ∧ fl'.key = fl.key ∧
    (fl.ans ≠ none → fl'.ans = fl.ans) ∧ (fl.removed = true → fl'.removed = true)

theorem flmono_refl (fls : List (Flight κ)) : FlMono fls fls := fun _ fl h => ⟨fl, h, rfl, fun _ => rfl, id⟩

theorem flmono_set (fls : List (Flight κ)) (g : Nat) (fl fl' : Flight κ) (hg : fls[g]? = some fl)
    (hk : fl'.key = fl.key) (ha : fl.ans ≠ none → fl'.ans = fl.ans) (hr : fl.removed = true → fl'.removed = true) :
    FlMono fls (fls.set g fl') := by
  intro f x hx
  by_cases h : g = f
  · subst h
    have hlt : g < fls.length := (List.getElem?_eq_some_iff.1 hg).1
    rw [hg] at hx; injection hx with hx; subst hx
    exact ⟨fl', by simp [List.getElem?_set, hlt], hk, ha, hr⟩
  · exact ⟨x, by rw [List.getElem?_set_ne h]; exact hx, rfl, fun _ => rfl, id⟩

theorem flmono_append (fls : List (Flight κ)) (x : Flight κ) : FlMono fls (fls ++ [x]) := by
  intro f fl h
  have hlt : f < fls.length := (List.getElem?_eq_some_iff.1 h).1
  exact ⟨fl, by rw [List.getElem?_append_left hlt]; exact h, rfl, fun _ => rfl, id⟩

theorem isRemovedL_mono {fls fls' : List (Flight κ)} (hm : FlMono fls fls') (f : Nat)
    (h : isRemovedL fls f = true) : isRemovedL fls' f = true := by
  unfold isRemovedL at h ⊢
  cases hf : fls[f]? with
  | none => simp [hf] at h
  | some fl =>
    simp [hf] at h
    obtain ⟨fl', h1, _, _, h4⟩ := hm f fl hf
    simp [h1, h4 h]

theorem gotOK_mono {fls fls' : List (Flight κ)} (hm : FlMono fls fls') (b : Nat → Bool) :
    ∀ (es : List (κ × Nat)) (fs : List Nat), GotOK fls b es fs → GotOK fls' b es fs
  | _, [], _ => by simp [GotOK]
  | [], _ :: _, h => by simp [GotOK] at h
  | e :: es, f :: fs, ⟨⟨fl, id, h1, h2, h3, h4⟩, hr⟩ => by
    obtain ⟨fl', g1, g2, g3, _⟩ := hm f fl h1
    refine ⟨⟨fl', id, g1, g2.trans h2, ?_, h4⟩, gotOK_mono hm b es fs hr⟩
    rw [g3 (by rw [h3]; simp), h3]

theorem callerOK_mono {fls fls' : List (Flight κ)} (hm : FlMono fls fls') (cl : Caller κ)
    (h : CallerOK fls cl) : CallerOK fls' cl := by
  refine ⟨h.ne, fun f hf => isRemovedL_mono hm f (h.ban f hf), ?_⟩
  have hp := h.pcs
  cases hpc : cl.pc with
  | start =>
    rw [hpc] at hp
    exact ⟨hp.1, gotOK_mono hm _ _ _ hp.2⟩
  | won f =>
    rw [hpc] at hp
    obtain ⟨h1, h2, fl, e, h3, h4, h5, h6⟩ := hp
    obtain ⟨fl', g1, g2, _, _⟩ := hm f fl h3
    exact ⟨h1, gotOK_mono hm _ _ _ h2, fl', e, g1, h4, g2.trans h5, h6⟩
  | waiting f =>
    rw [hpc] at hp
    obtain ⟨h1, h2, fl, e, h3, h4, h5, h6⟩ := hp
    obtain ⟨fl', g1, g2, _, _⟩ := hm f fl h3
    exact ⟨h1, gotOK_mono hm _ _ _ h2, fl', e, g1, h4, g2.trans h5, h6⟩
  | answered a => trivial
  | returned => trivial
  | abandoned => trivial
  | lagging =>
    rw [hpc] at hp
    exact ⟨hp.1, gotOK_mono hm _ _ _ hp.2⟩

/-- appending a taken flight at the position of the next entry -/
theorem gotOK_snoc (fls : List (Flight κ)) (b : Nat → Bool) :
    ∀ (es : List (κ × Nat)) (fs : List Nat) (f : Nat) (e : κ × Nat), GotOK fls b es fs → es[fs.length]? = some e →
      (∃ (fl : Flight κ) (id : Id), fls[f]? = some fl ∧ fl.key = e.1 ∧ fl.ans = some (some (id, e.2)) ∧ b f = false) →
      GotOK fls b es (fs ++ [f])
  | [], [], _, _, _, he, _ => by simp at he
  | e' :: es, [], f, e, _, he, hf => by
    simp at he; subst he
    exact ⟨hf, by simp [GotOK]⟩
  | [], _ :: _, _, _, h, _, _ => by simp [GotOK] at h
  | e' :: es, g :: fs, f, e, ⟨h1, h2⟩, he, hf => by
    simp at he
    exact ⟨h1, gotOK_snoc fls b es fs f e h2 he hf⟩

/-! ### coupling with the specification state -/

def PcRel : PC → OPC → Prop
  | .start, p => p.live = true
  | .won _, p => p.live = true
  | .waiting _, p => p.live = true
  | .answered a, p => p = .awaiting a
  | .returned, p => p = .returned
  | .abandoned, p => p.gaveUp = true
  | .lagging, p => p = .abandoned true

def absFlight (fls : List (Flight κ)) (f : Nat) : Option (OFlight κ) :=
  match fls[f]? with
  | none => none
  | some fl => if fl.ans = none ∧ fl.removed = false then none else some ⟨fl.key, fl.ans, fl.removed⟩

structure Rel (s : State κ) (o : OState κ) : Prop where
  ncall  : o.callers.length = s.callers.length
  call   : ∀ (c : Nat) (cl : Caller κ), s.callers[c]? = some cl → ∃ ocl : OCaller κ, o.callers[c]? = some ocl ∧ ocl.entries = cl.entries ∧
             ocl.banned = cl.banned ∧ PcRel cl.pc ocl.pc
  flight : ∀ f, o.flights f = absFlight s.flights f
  known  : ∀ f, o.flights f ≠ none → f ∈ o.known
  credit : ∀ k, o.credit k = unann s.flights k + (if s.cache k = none then 1 else 0)
  canc   : o.cancelled = s.cancelled
  strict : o.strict = s.strict

theorem removedNow_eq {s : State κ} {o : OState κ} (hR : Rel s o) : removedNow o = isRemoved s := by
  funext f
  unfold removedNow isRemoved
  rw [hR.flight f]
  unfold absFlight
  cases hf : s.flights[f]? with
  | none => rfl
  | some fl =>
    simp only []
    by_cases h : fl.ans = none ∧ fl.removed = false
    · simp [h]
    · simp [h]

theorem mem_of_getElem? {α : Type} {l : List α} {i : Nat} {a : α} (h : l[i]? = some a) : a ∈ l := by
  obtain ⟨hlt, h2⟩ := List.getElem?_eq_some_iff.1 h
  exact h2 ▸ List.getElem_mem hlt

theorem hasKey_of_getElem? {es : List (κ × Nat)} {i : Nat} {e : κ × Nat} (h : es[i]? = some e) : hasKey es e.1 = true := by
  unfold hasKey
  exact List.any_eq_true.2 ⟨e, mem_of_getElem? h, by simp⟩

theorem absFlight_ans {fls : List (Flight κ)} {f : Nat} {fl : Flight κ} (hf : fls[f]? = some fl) (ha : fl.ans ≠ none) :
    absFlight fls f = some ⟨fl.key, fl.ans, fl.removed⟩ := by
  unfold absFlight
  simp [hf, ha]

theorem getElem?_snoc_cases {α : Type} (l : List α) (x y : α) (i : Nat) (h : (l ++ [x])[i]? = some y) :
    (i < l.length ∧ l[i]? = some y) ∨ (i = l.length ∧ y = x) := by
  by_cases hlt : i < l.length
  · left; rw [List.getElem?_append_left hlt] at h; exact ⟨hlt, h⟩
  · right
    have hge : l.length ≤ i := Nat.le_of_not_lt hlt
    rw [List.getElem?_append_right hge] at h
    cases hi : i - l.length with
    | zero => rw [hi] at h; simp at h; exact ⟨by omega, h.symm⟩
    | succ n => rw [hi] at h; simp at h

theorem getElem?_set_cases {α : Type} (l : List α) (i j : Nat) (a y : α) (h : (l.set i a)[j]? = some y) :
    (i = j ∧ y = a) ∨ (i ≠ j ∧ l[j]? = some y) := by
  by_cases hij : i = j
  · left
    subst hij
    rw [List.getElem?_set] at h
    simp at h
    exact ⟨rfl, h.2.symm⟩
  · right; rw [List.getElem?_set_ne hij] at h; exact ⟨hij, h⟩

/-! ### updating one caller -/

theorem inv_updCaller {s : State κ} {c : Nat} {cl cl' : Caller κ} (hI : Inv s) (hc : s.callers[c]? = some cl)
    (hok : CallerOK s.flights cl') (he : cl'.entries = cl.entries)
    (hw : ∀ (f : Nat) (fl : Flight κ), Owns cl.pc f → s.flights[f]? = some fl → fl.ans = none → Owns cl'.pc f)
    (hu : ∀ (f : Nat) (fl : Flight κ), cl.pc = .won f → s.flights[f]? = some fl → fl.spawned = false → cl'.pc = .won f) :
    Inv { s with callers := s.callers.set c cl' } := by
  have hlt : c < s.callers.length := (List.getElem?_eq_some_iff.1 hc).1
  refine ⟨hI.cached, hI.uncached, hI.doneAns, hI.failRem, ?_, ?_, ?_⟩
  · intro c' x hx
    rcases getElem?_set_cases _ _ _ _ _ hx with ⟨_, h2⟩ | ⟨_, h2⟩
    · subst h2; exact hok
    · exact hI.callers c' x h2
  · intro f fl hf ha
    obtain ⟨c0, cl0, h0, hk0, hp0⟩ := hI.waiter f fl hf ha
    by_cases hcc : c = c0
    · subst hcc
      rw [hc] at h0; injection h0 with h0; subst h0
      exact ⟨c, cl', by simp [List.getElem?_set, hlt], by rw [he]; exact hk0, hw f fl hp0 hf ha⟩
    · exact ⟨c0, cl0, by simp only []; rw [List.getElem?_set_ne hcc]; exact h0, hk0, hp0⟩
  · intro f fl hf hsp
    obtain ⟨c0, cl0, h0, hp0⟩ := hI.unspawned f fl hf hsp
    by_cases hcc : c = c0
    · subst hcc
      rw [hc] at h0; injection h0 with h0; subst h0
      exact ⟨c, cl', by simp [List.getElem?_set, hlt], hu f fl hp0 hf hsp⟩
    · exact ⟨c0, cl0, by simp only []; rw [List.getElem?_set_ne hcc]; exact h0, hp0⟩

/-- the caller moves without an observable event -/
theorem rel_updCaller_same {s : State κ} {o : OState κ} {c : Nat} {cl cl' : Caller κ} (hR : Rel s o)
    (hc : s.callers[c]? = some cl) (he : cl'.entries = cl.entries) (hb : cl'.banned = cl.banned)
    (hp : ∀ p, PcRel cl.pc p → PcRel cl'.pc p) :
    Rel { s with callers := s.callers.set c cl' } o := by
  refine ⟨by simp [hR.ncall], ?_, hR.flight, hR.known, hR.credit, hR.canc, hR.strict⟩
  intro c' x hx
  rcases getElem?_set_cases _ _ _ _ _ hx with ⟨h1, h2⟩ | ⟨_, h2⟩
  · subst h1; subst h2
    obtain ⟨ocl, g1, g2, g3, g4⟩ := hR.call c cl hc
    exact ⟨ocl, g1, g2.trans he.symm, g3.trans hb.symm, hp _ g4⟩
  · exact hR.call c' x h2

/-- the caller moves together with its record in the specification state -/
theorem rel_updCaller {s : State κ} {o : OState κ} {c : Nat} {cl cl' : Caller κ} (ocl' : OCaller κ) (hR : Rel s o)
    (hc : s.callers[c]? = some cl) (he : ocl'.entries = cl'.entries) (hb : ocl'.banned = cl'.banned)
    (hp : PcRel cl'.pc ocl'.pc) :
    Rel { s with callers := s.callers.set c cl' } { o with callers := o.callers.set c ocl' } := by
  have hlt : c < s.callers.length := (List.getElem?_eq_some_iff.1 hc).1
  refine ⟨by simp [hR.ncall], ?_, hR.flight, hR.known, hR.credit, hR.canc, hR.strict⟩
  intro c' x hx
  rcases getElem?_set_cases _ _ _ _ _ hx with ⟨h1, h2⟩ | ⟨h1, h2⟩
  · subst h1; subst h2
    exact ⟨ocl', by simp [List.getElem?_set, hR.ncall, hlt], he, hb, hp⟩
  · obtain ⟨ocl, g1, g2⟩ := hR.call c' x h2
    exact ⟨ocl, by simp only []; rw [List.getElem?_set_ne h1]; exact g1, g2⟩

/-! ### removing a key from the cache -/

theorem unann_set_same (fls : List (Flight κ)) (g : Nat) (fl fl' : Flight κ) (k : κ) (hg : fls[g]? = some fl)
    (hk : fl'.key = fl.key) (ha : fl'.ans = fl.ans) : unann (fls.set g fl') k = unann fls k := by
  unfold unann
  exact countP_set_same _ fls g fl fl' hg (by simp [hk, ha])

theorem removeKey_callers (s : State κ) (k : κ) : (removeKey s k).1.callers = s.callers := by
  unfold removeKey
  split
  · rfl
  · split <;> rfl

theorem removeKey_refines {s : State κ} {o : OState κ} (k : κ) (hI : Inv s) (hR : Rel s o)
    (hj : s.strict = true → ∀ g, s.cache k = some g → justified o k g = true) :
    ∃ o', Obs.run o (removeKey s k).2 = some o' ∧ Inv (removeKey s k).1 ∧ Rel (removeKey s k).1 o' := by
  unfold removeKey
  cases hck : s.cache k with
  | none => exact ⟨o, rfl, hI, hR⟩
  | some g =>
    obtain ⟨fl, hg, hkey, hrem⟩ := hI.cached k g hck
    have hlt : g < s.flights.length := (List.getElem?_eq_some_iff.1 hg).1
    have hguard : ¬ (o.strict = true ∧ justified o k g = false) := by
      intro hh
      have := hj (by rw [← hR.strict]; exact hh.1) g hck
      rw [this] at hh; cases hh.2
    simp only [hg]
    -- the specification's step
    have hof : o.flights g = if fl.ans = none then none else some ⟨k, fl.ans, false⟩ := by
      rw [hR.flight g]; unfold absFlight; simp [hg, hrem, hkey]
    have hmono : FlMono s.flights (s.flights.set g { fl with removed := true }) :=
      flmono_set _ g fl _ hg rfl (fun _ => rfl) (fun _ => rfl)
    have hInv : Inv { s with cache := fun k' => if k' = k then none else s.cache k',
                             flights := s.flights.set g { fl with removed := true } } := by
      refine ⟨?_, ?_, ?_, ?_, ?_, ?_, ?_⟩
      · intro k' f hc'
        simp only [] at hc'
        by_cases hk' : k' = k
        · simp [hk'] at hc'
        · simp [hk'] at hc'
          obtain ⟨fl', h1, h2, h3⟩ := hI.cached k' f hc'
          have hne : g ≠ f := by
            intro e; subst e
            rw [hg] at h1; injection h1 with h1; subst h1
            exact hk' (h2.symm.trans hkey)
          exact ⟨fl', by simp only []; rw [List.getElem?_set_ne hne]; exact h1, h2, h3⟩
      · intro f x hx hxr
        simp only [] at hx
        rcases getElem?_set_cases _ _ _ _ _ hx with ⟨_, h2⟩ | ⟨h1, h2⟩
        · subst h2; simp at hxr
        · have hc' := hI.uncached f x h2 hxr
          have hne : x.key ≠ k := by
            intro e
            rw [e, hck] at hc'
            injection hc' with hc'
            exact h1 hc'
          simp [hne, hc']
      · intro f x hx hd
        simp only [] at hx
        rcases getElem?_set_cases _ _ _ _ _ hx with ⟨h1, h2⟩ | ⟨_, h2⟩
        · subst h1; subst h2; exact hI.doneAns g fl hg hd
        · exact hI.doneAns f x h2 hd
      · intro f x hx hd ha
        simp only [] at hx
        rcases getElem?_set_cases _ _ _ _ _ hx with ⟨_, h2⟩ | ⟨_, h2⟩
        · subst h2; rfl
        · exact hI.failRem f x h2 hd ha
      · intro c cl hc
        exact callerOK_mono hmono cl (hI.callers c cl hc)
      · intro f x hx ha
        simp only [] at hx
        rcases getElem?_set_cases _ _ _ _ _ hx with ⟨h1, h2⟩ | ⟨_, h2⟩
        · subst h1; subst h2; exact hI.waiter g fl hg ha
        · exact hI.waiter f x h2 ha
      · intro f x hx ha
        simp only [] at hx
        rcases getElem?_set_cases _ _ _ _ _ hx with ⟨h1, h2⟩ | ⟨_, h2⟩
        · subst h1; subst h2; exact hI.unspawned g fl hg ha
        · exact hI.unspawned f x h2 ha
    have hcredit : ∀ k', (if k' = k then o.credit k + 1 else o.credit k') =
        unann (s.flights.set g { fl with removed := true }) k' + (if (if k' = k then none else s.cache k') = none then 1 else 0) := by
      intro k'
      rw [unann_set_same s.flights g fl { fl with removed := true } k' hg rfl rfl]
      by_cases hk' : k' = k
      · subst hk'; simp [hR.credit k', hck]
      · simp [hk', hR.credit k']
    have hflight : ∀ (ofl : OFlight κ), ofl = ⟨k, fl.ans, true⟩ →
        ∀ f, (if f = g then some ofl else o.flights f) = absFlight (s.flights.set g { fl with removed := true }) f := by
      intro ofl hofl f
      unfold absFlight
      by_cases hf : f = g
      · subst hf; simp [hlt, hofl, hkey]
      · have : g ≠ f := fun e => hf e.symm
        simp only [hf, if_false, List.getElem?_set_ne this]
        exact hR.flight f
    by_cases hans : fl.ans = none
    · -- removed before its PREPARE reached the server
      have ho : o.flights g = none := by rw [hof]; simp [hans]
      refine ⟨_, by simp only [Obs.run, Obs.step]; rw [if_neg hguard]; simp only [ho]; rfl, hInv, ?_⟩
      refine ⟨hR.ncall, hR.call, ?_, ?_, hcredit, hR.canc, hR.strict⟩
      · exact hflight _ (by rw [hans])
      · intro f hf
        simp only [] at hf ⊢
        by_cases hfg : f = g
        · simp [hfg]
        · simp only [hfg, if_false] at hf
          exact List.mem_cons_of_mem _ (hR.known f hf)
    · have ho : o.flights g = some ⟨k, fl.ans, false⟩ := by rw [hof]; simp [hans]
      refine ⟨_, by simp only [Obs.run, Obs.step]; rw [if_neg hguard]; simp only [ho, and_self, if_true]; rfl, hInv, ?_⟩
      refine ⟨hR.ncall, hR.call, ?_, ?_, hcredit, hR.canc, hR.strict⟩
      · exact hflight _ rfl
      · intro f hf
        simp only [] at hf ⊢
        by_cases hfg : f = g
        · subst hfg; exact hR.known f (by rw [ho]; simp)
        · simp only [hfg, if_false] at hf
          exact hR.known f hf

/-! ### a flight changes only its `done` flag -/

theorem setFlight_same {s : State κ} {o : OState κ} (f : Nat) (fl fl' : Flight κ) (hI : Inv s) (hR : Rel s o)
    (hf : s.flights[f]? = some fl) (hk : fl'.key = fl.key) (ha : fl'.ans = fl.ans) (hr : fl'.removed = fl.removed)
    (hd1 : fl'.done = true → fl'.ans ≠ none) (hd2 : fl'.done = true → fl'.ans = some none → fl'.removed = true)
    (hsp : fl'.spawned = false → fl.spawned = false) :
    Inv { s with flights := s.flights.set f fl' } ∧ Rel { s with flights := s.flights.set f fl' } o := by
  have hlt : f < s.flights.length := (List.getElem?_eq_some_iff.1 hf).1
  have hmono : FlMono s.flights (s.flights.set f fl') :=
    flmono_set _ f fl fl' hf hk (fun _ => ha) (fun h => by rw [hr]; exact h)
  refine ⟨⟨?_, ?_, ?_, ?_, ?_, ?_, ?_⟩, ⟨hR.ncall, hR.call, ?_, hR.known, ?_, hR.canc, hR.strict⟩⟩
  · intro k g hc
    obtain ⟨x, h1, h2, h3⟩ := hI.cached k g hc
    by_cases hfg : f = g
    · subst hfg
      rw [hf] at h1; injection h1 with h1; subst h1
      exact ⟨fl', by simp [hlt], hk.trans h2, hr.trans h3⟩
    · exact ⟨x, by simp only []; rw [List.getElem?_set_ne hfg]; exact h1, h2, h3⟩
  · intro g x hx hxr
    simp only [] at hx
    rcases getElem?_set_cases _ _ _ _ _ hx with ⟨h1, h2⟩ | ⟨_, h2⟩
    · subst h1; subst h2
      rw [hk]; exact hI.uncached f fl hf (hr ▸ hxr)
    · exact hI.uncached g x h2 hxr
  · intro g x hx hd
    simp only [] at hx
    rcases getElem?_set_cases _ _ _ _ _ hx with ⟨_, h2⟩ | ⟨_, h2⟩
    · subst h2; exact hd1 hd
    · exact hI.doneAns g x h2 hd
  · intro g x hx hd hax
    simp only [] at hx
    rcases getElem?_set_cases _ _ _ _ _ hx with ⟨_, h2⟩ | ⟨_, h2⟩
    · subst h2; exact hd2 hd hax
    · exact hI.failRem g x h2 hd hax
  · intro c cl hc
    exact callerOK_mono hmono cl (hI.callers c cl hc)
  · intro g x hx hax
    simp only [] at hx
    rcases getElem?_set_cases _ _ _ _ _ hx with ⟨h1, h2⟩ | ⟨_, h2⟩
    · subst h1; subst h2
      rw [hk]
      exact hI.waiter f fl hf (ha ▸ hax)
    · exact hI.waiter g x h2 hax
  · intro g x hx hax
    simp only [] at hx
    rcases getElem?_set_cases _ _ _ _ _ hx with ⟨h1, h2⟩ | ⟨_, h2⟩
    · subst h1; subst h2
      exact hI.unspawned f fl hf (hsp hax)
    · exact hI.unspawned g x h2 hax
  · intro g
    rw [hR.flight g]
    unfold absFlight
    by_cases hfg : f = g
    · subst hfg
      have h1 : (s.flights.set f fl')[f]? = some fl' := by simp [hlt]
      simp only [h1, hf, hk, ha, hr]
    · simp only [List.getElem?_set_ne hfg]
  · intro k
    rw [hR.credit k, unann_set_same s.flights f fl fl' k hf hk ha]

theorem setDone_refines {s : State κ} {o : OState κ} (f : Nat) (fl : Flight κ) (hI : Inv s) (hR : Rel s o)
    (hf : s.flights[f]? = some fl) (ha : fl.ans ≠ none) (hr : fl.ans = some none → fl.removed = true) :
    Inv (setDone s f) ∧ Rel (setDone s f) o := by
  unfold setDone
  simp only [hf]
  exact setFlight_same f fl { fl with done := true } hI hR hf rfl rfl rfl (fun _ => ha) (fun _ => hr) id

/-! ### a cache that never purges for capacity: only finished flights are ever out of the cache -/

def SInv (s : State κ) : Prop :=
  s.strict = true → ∀ (f : Nat) (fl : Flight κ), s.flights[f]? = some fl → fl.removed = true → fl.done = true

omit [DecidableEq κ] in
theorem sinv_same {s s' : State κ} (hS : SInv s) (hf : s'.flights = s.flights) (hs : s'.strict = s.strict) : SInv s' := by
  intro h f fl hx
  rw [hf] at hx
  exact hS (hs ▸ h) f fl hx

omit [DecidableEq κ] in
theorem sinv_set {s s' : State κ} (hS : SInv s) (f : Nat) (fl fl' : Flight κ) (hf : s.flights[f]? = some fl)
    (hr : fl'.removed = true → fl'.done = true ∨ fl.removed = true) (hd : fl.done = true → fl'.done = true)
    (hfl : s'.flights = s.flights.set f fl') (hs : s'.strict = s.strict) : SInv s' := by
  intro h g x hx hxr
  rw [hfl] at hx
  rcases getElem?_set_cases _ _ _ _ _ hx with ⟨h1, h2⟩ | ⟨_, h2⟩
  · subst h1; subst h2
    rcases hr hxr with h3 | h3
    · exact h3
    · exact hd (hS (hs ▸ h) f fl hf h3)
  · exact hS (hs ▸ h) g x h2 hxr

omit [DecidableEq κ] in
theorem sinv_append {s s' : State κ} (hS : SInv s) (x : Flight κ) (hx : x.removed = false)
    (hfl : s'.flights = s.flights ++ [x]) (hs : s'.strict = s.strict) : SInv s' := by
  intro h g y hy hyr
  rw [hfl] at hy
  rcases getElem?_snoc_cases _ _ _ _ hy with ⟨_, h2⟩ | ⟨_, h2⟩
  · exact hS (hs ▸ h) g y h2 hyr
  · subst h2; rw [hx] at hyr; cases hyr

theorem removeKey_strict (s : State κ) (k : κ) : (removeKey s k).1.strict = s.strict := by
  unfold removeKey
  split
  · rfl
  · split <;> rfl

/-- removing the entry of a finished flight -/
theorem sinv_removeKey {s : State κ} (hS : SInv s) (k : κ)
    (hd : ∀ g fl, s.cache k = some g → s.flights[g]? = some fl → fl.done = true) : SInv (removeKey s k).1 := by
  cases hck : s.cache k with
  | none => simp only [removeKey, hck]; exact hS
  | some g =>
    cases hg : s.flights[g]? with
    | none => simp only [removeKey, hck, hg]; exact hS
    | some fl =>
      simp only [removeKey, hck, hg]
      exact sinv_set hS g fl { fl with removed := true } hg (fun _ => Or.inl (hd g fl hck hg)) id rfl rfl

omit [DecidableEq κ] in
theorem setDone_strict (s : State κ) (f : Nat) : (setDone s f).strict = s.strict := by
  unfold setDone
  split <;> rfl

omit [DecidableEq κ] in
theorem sinv_setDone {s : State κ} (hS : SInv s) (f : Nat) : SInv (setDone s f) := by
  unfold setDone
  cases hf : s.flights[f]? with
  | none => exact hS
  | some fl =>
    simp only []
    exact sinv_set hS f fl { fl with done := true } hf (fun _ => Or.inl rfl) (fun _ => rfl) rfl rfl

/-- the failing completion: the key is removed, then the flight is done — with a cache that never purges, the entry
    removed is the failing flight's own -/
theorem sinv_complete_fail {s : State κ} (hI : Inv s) (hS : SInv s) (f : Nat) (fl : Flight κ) (hf : s.flights[f]? = some fl)
    (hd : fl.done = false) : SInv (setDone (removeKey s fl.key).1 f) := by
  intro hst
  have hst' : s.strict = true := by rw [setDone_strict, removeKey_strict] at hst; exact hst
  have hnr : fl.removed = false := by
    cases hr : fl.removed with
    | false => rfl
    | true => have := hS hst' f fl hf hr; rw [hd] at this; cases this
  have hc := hI.uncached f fl hf hnr
  have hlt : f < s.flights.length := (List.getElem?_eq_some_iff.1 hf).1
  have h1 : (removeKey s fl.key).1.flights = s.flights.set f { fl with removed := true } := by
    unfold removeKey; simp only [hc, hf]
  have h2 : (removeKey s fl.key).1.flights[f]? = some { fl with removed := true } := by rw [h1]; simp [hlt]
  have h3 : (setDone (removeKey s fl.key).1 f).flights = (s.flights.set f { fl with removed := true }).set f { fl with removed := true, done := true } := by
    unfold setDone; simp only [h2]; rw [h1]
  intro g x hx hxr
  rw [h3] at hx
  rcases getElem?_set_cases _ _ _ _ _ hx with ⟨_, h5⟩ | ⟨h4, h5⟩
  · subst h5; rfl
  · rw [List.getElem?_set_ne h4] at h5
    exact hS hst' g x h5 hxr

theorem sinv_evictIfMatch {s : State κ} (hS : SInv s) (k : κ) (id : Id) : SInv (evictIfMatch s k id).1 := by
  cases hck : s.cache k with
  | none => simp only [evictIfMatch, hck]; exact hS
  | some g =>
    cases hg : s.flights[g]? with
    | none => simp only [evictIfMatch, hck, hg]; exact hS
    | some fl =>
      by_cases hd : fl.done = true
      · cases ha : fl.ans with
        | none => simp only [evictIfMatch, hck, hg, hd, ha, if_true]; exact hS
        | some r =>
          cases r with
          | none => simp only [evictIfMatch, hck, hg, hd, ha, if_true]; exact hS
          | some p =>
            obtain ⟨id', n⟩ := p
            by_cases hid : id = id'
            · simp only [evictIfMatch, hck, hg, hd, ha, hid, if_true]
              refine sinv_removeKey hS k ?_
              intro g' fl' h1 h2
              rw [hck] at h1; injection h1 with h1; subst h1
              rw [hg] at h2; injection h2 with h2; subst h2
              exact hd
            · simp only [evictIfMatch, hck, hg, hd, ha, hid, if_true, if_false]; exact hS
      · simp only [evictIfMatch, hck, hg, hd]; exact hS

theorem evictIfMatch_strict (s : State κ) (k : κ) (id : Id) : (evictIfMatch s k id).1.strict = s.strict := by
  unfold evictIfMatch
  split
  · rfl
  · split
    · rfl
    · split
      · split
        · split
          · exact removeKey_strict s k
          · rfl
        · rfl
      · rfl

/-! ### evictPreparedID -/

theorem evictIfMatch_refines {s : State κ} {o : OState κ} (k : κ) (id : Id) (hI : Inv s) (hR : Rel s o)
    (hw : o.callers.any (fun cl => decide (cl.pc = .awaiting (.unprep id)) && hasKey cl.entries k) = true) :
    ∃ o', Obs.run o (evictIfMatch s k id).2 = some o' ∧ Inv (evictIfMatch s k id).1 ∧ Rel (evictIfMatch s k id).1 o' ∧
      (evictIfMatch s k id).1.callers = s.callers := by
  unfold evictIfMatch
  cases hck : s.cache k with
  | none => exact ⟨o, rfl, hI, hR, rfl⟩
  | some g =>
    obtain ⟨fl, hg, hkey, hrem⟩ := hI.cached k g hck
    simp only [hg]
    by_cases hd : fl.done = true
    · simp only [hd, if_true]
      cases ha : fl.ans with
      | none => exact absurd ha (hI.doneAns g fl hg hd)
      | some r =>
        cases r with
        | none =>
          have := hI.failRem g fl hg hd ha
          rw [hrem] at this; cases this
        | some p =>
          obtain ⟨id', n⟩ := p
          simp only []
          by_cases hid : id = id'
          · simp only [hid, if_true]
            have hj : s.strict = true → ∀ g', s.cache k = some g' → justified o k g' = true := by
              intro _ g' hg'
              rw [hck] at hg'; injection hg' with hg'; subst hg'
              unfold justified
              rw [hR.flight g, absFlight_ans hg (by rw [ha]; simp), ha]
              simp only []
              rw [← hid]; exact hw
            obtain ⟨o', h1, h2, h3⟩ := removeKey_refines k hI hR hj
            exact ⟨o', h1, h2, h3, removeKey_callers s k⟩
          · rw [if_neg hid]
            exact ⟨o, rfl, hI, hR, rfl⟩
    · rw [if_neg hd]
      exact ⟨o, rfl, hI, hR, rfl⟩

/-- no schedule reaches the nil dereference of evictPreparedID -/
theorem evictIfMatch_no_crash {s : State κ} (k : κ) (id : Id) (hI : Inv s) : Ev.crash ∉ (evictIfMatch s k id).2 := by
  unfold evictIfMatch
  cases hck : s.cache k with
  | none => simp
  | some g =>
    obtain ⟨fl, hg, hkey, hrem⟩ := hI.cached k g hck
    simp only [hg]
    by_cases hd : fl.done = true
    · simp only [hd, if_true]
      cases ha : fl.ans with
      | none => exact absurd ha (hI.doneAns g fl hg hd)
      | some r =>
        cases r with
        | none =>
          have := hI.failRem g fl hg hd ha
          rw [hrem] at this; cases this
        | some p =>
          obtain ⟨id', n⟩ := p
          simp only []
          by_cases hid : id = id'
          · simp only [hid, if_true]
            unfold removeKey
            simp [hck, hg]
          · simp [hid]
    · simp [hd]

/-! ### the actions -/

theorem call_refines {s : State κ} {o : OState κ} (b : Bool) (es : List (κ × Nat)) (hes : es ≠ []) (hI : Inv s) (hR : Rel s o) :
    ∃ o', Obs.run o [.start s.callers.length b es] = some o' ∧
      Inv { s with callers := s.callers ++ [{ batch := b, entries := es, got := [], pc := .start, banned := isRemoved s }] } ∧
      Rel { s with callers := s.callers ++ [{ batch := b, entries := es, got := [], pc := .start, banned := isRemoved s }] } o' := by
  refine ⟨{ o with callers := o.callers ++ [{ entries := es, pc := .active, banned := removedNow o }] }, ?_, ?_, ?_⟩
  · simp [Obs.run, Obs.step, hR.ncall, hes]
  · refine ⟨hI.cached, hI.uncached, hI.doneAns, hI.failRem, ?_, ?_, ?_⟩
    · intro c cl hc
      rcases getElem?_snoc_cases _ _ _ _ hc with ⟨_, h2⟩ | ⟨_, h2⟩
      · exact hI.callers c cl h2
      · subst h2
        refine ⟨hes, fun f hf => hf, ?_⟩
        show ([] : List Nat).length < es.length ∧ GotOK s.flights (isRemoved s) es []
        refine ⟨?_, by simp [GotOK]⟩
        cases es with
        | nil => exact absurd rfl hes
        | cons _ _ => simp
    · intro f fl hf ha
      obtain ⟨c0, cl0, h0, hk0, hp0⟩ := hI.waiter f fl hf ha
      have hlt : c0 < s.callers.length := (List.getElem?_eq_some_iff.1 h0).1
      exact ⟨c0, cl0, by simp only []; rw [List.getElem?_append_left hlt]; exact h0, hk0, hp0⟩
    · intro f fl hf ha
      obtain ⟨c0, cl0, h0, hp0⟩ := hI.unspawned f fl hf ha
      have hlt : c0 < s.callers.length := (List.getElem?_eq_some_iff.1 h0).1
      exact ⟨c0, cl0, by simp only []; rw [List.getElem?_append_left hlt]; exact h0, hp0⟩
  · refine ⟨by simp [hR.ncall], ?_, hR.flight, hR.known, hR.credit, hR.canc, hR.strict⟩
    intro c cl hc
    rcases getElem?_snoc_cases _ _ _ _ hc with ⟨h1, h2⟩ | ⟨h1, h2⟩
    · obtain ⟨ocl, g1, g2⟩ := hR.call c cl h2
      have hlt : c < o.callers.length := by rw [hR.ncall]; exact h1
      exact ⟨ocl, by simp only []; rw [List.getElem?_append_left hlt]; exact g1, g2⟩
    · subst h2
      refine ⟨{ entries := es, pc := .active, banned := removedNow o }, ?_, rfl, removedNow_eq hR, rfl⟩
      simp only []
      rw [h1, ← hR.ncall]
      exact List.getElem?_concat_length

theorem lookup_hit_refines {s : State κ} {o : OState κ} (c : Nat) (cl : Caller κ) (e : κ × Nat) (f : Nat) (hI : Inv s) (hR : Rel s o)
    (hc : s.callers[c]? = some cl) (hpc : cl.pc = .start) (he : cl.entries[cl.got.length]? = some e)
    (hck : s.cache e.1 = some f) :
    Inv { s with callers := s.callers.set c { cl with pc := .waiting f } } ∧
    Rel { s with callers := s.callers.set c { cl with pc := .waiting f } } o := by
  have hok := hI.callers c cl hc
  have hp := hok.pcs
  rw [hpc] at hp
  obtain ⟨fl, hf, hk, hr⟩ := hI.cached e.1 f hck
  have hban : cl.banned f = false := by
    cases hb : cl.banned f with
    | false => rfl
    | true =>
      have := hok.ban f hb
      unfold isRemovedL at this
      simp [hf, hr] at this
  refine ⟨inv_updCaller hI hc ⟨hok.ne, hok.ban, ?_⟩ rfl ?_ ?_, rel_updCaller_same hR hc rfl rfl ?_⟩
  · exact ⟨hp.1, hp.2, fl, e, hf, he, hk, hban⟩
  · intro f' fl' hw; exact absurd hw (not_owns_start hpc)
  · intro f' fl' hw; rw [hpc] at hw; cases hw
  · intro p hp'; rw [hpc] at hp'; exact hp'

theorem unann_append (fls : List (Flight κ)) (x : Flight κ) (k : κ) :
    unann (fls ++ [x]) k = unann fls k + (if x.key = k ∧ x.ans = none then 1 else 0) := by
  unfold unann
  rw [List.countP_append]
  by_cases h1 : x.key = k <;> cases h2 : x.ans <;> simp [List.countP_cons, h1, h2]

theorem lookup_miss_refines {s : State κ} {o : OState κ} (c : Nat) (cl : Caller κ) (e : κ × Nat) (hI : Inv s) (hR : Rel s o)
    (hc : s.callers[c]? = some cl) (hpc : cl.pc = .start) (he : cl.entries[cl.got.length]? = some e)
    (hck : s.cache e.1 = none) :
    Inv { s with cache := fun k' => if k' = e.1 then some s.flights.length else s.cache k',
                 flights := s.flights ++ [{ key := e.1, ans := none, done := false, removed := false, spawned := false }],
                 callers := s.callers.set c { cl with pc := .won s.flights.length } } ∧
    Rel { s with cache := fun k' => if k' = e.1 then some s.flights.length else s.cache k',
                 flights := s.flights ++ [{ key := e.1, ans := none, done := false, removed := false, spawned := false }],
                 callers := s.callers.set c { cl with pc := .won s.flights.length } } o := by
  have hok := hI.callers c cl hc
  have hp := hok.pcs
  rw [hpc] at hp
  have hclt : c < s.callers.length := (List.getElem?_eq_some_iff.1 hc).1
  have hmono := flmono_append s.flights { key := e.1, ans := none, done := false, removed := false, spawned := false }
  have hban : cl.banned s.flights.length = false := by
    cases hb : cl.banned s.flights.length with
    | false => rfl
    | true =>
      have := hok.ban _ hb
      unfold isRemovedL at this
      simp at this
  constructor
  · refine ⟨?_, ?_, ?_, ?_, ?_, ?_, ?_⟩
    · intro k f hcf
      simp only [] at hcf ⊢
      by_cases hk : k = e.1
      · simp [hk] at hcf
        subst hcf
        exact ⟨_, List.getElem?_concat_length, hk.symm, rfl⟩
      · simp [hk] at hcf
        obtain ⟨fl, h1, h2, h3⟩ := hI.cached k f hcf
        obtain ⟨fl', g1, g2, _, _⟩ := hmono f fl h1
        have hlt : f < s.flights.length := (List.getElem?_eq_some_iff.1 h1).1
        exact ⟨fl, by rw [List.getElem?_append_left hlt]; exact h1, h2, h3⟩
    · intro f x hx hxr
      simp only [] at hx ⊢
      rcases getElem?_snoc_cases _ _ _ _ hx with ⟨_, h2⟩ | ⟨h1, h2⟩
      · have hcx := hI.uncached f x h2 hxr
        have hne : x.key ≠ e.1 := by
          intro h; rw [h, hck] at hcx; cases hcx
        simp [hne, hcx]
      · subst h2; simp [h1]
    · intro f x hx hd
      simp only [] at hx
      rcases getElem?_snoc_cases _ _ _ _ hx with ⟨_, h2⟩ | ⟨_, h2⟩
      · exact hI.doneAns f x h2 hd
      · subst h2; cases hd
    · intro f x hx hd hax
      simp only [] at hx
      rcases getElem?_snoc_cases _ _ _ _ hx with ⟨_, h2⟩ | ⟨_, h2⟩
      · exact hI.failRem f x h2 hd hax
      · subst h2; cases hd
    · intro c' x hx
      simp only [] at hx ⊢
      rcases getElem?_set_cases _ _ _ _ _ hx with ⟨_, h2⟩ | ⟨_, h2⟩
      · subst h2
        refine ⟨hok.ne, fun f hf => isRemovedL_mono hmono f (hok.ban f hf), ?_⟩
        exact ⟨hp.1, gotOK_mono hmono _ _ _ hp.2, _, e, List.getElem?_concat_length, he, rfl, hban⟩
      · exact callerOK_mono hmono x (hI.callers c' x h2)
    · intro f x hx hax
      simp only [] at hx ⊢
      rcases getElem?_snoc_cases _ _ _ _ hx with ⟨_, h2⟩ | ⟨h1, h2⟩
      · obtain ⟨c0, cl0, h0, hk0, hp0⟩ := hI.waiter f x h2 hax
        have hne : c ≠ c0 := by
          intro h; subst h
          rw [hc] at h0; injection h0 with h0; subst h0
          exact not_owns_start hpc hp0
        exact ⟨c0, cl0, by rw [List.getElem?_set_ne hne]; exact h0, hk0, hp0⟩
      · subst h1; subst h2
        exact ⟨c, { cl with pc := .won s.flights.length }, by simp [hclt], hasKey_of_getElem? he, Or.inl rfl⟩
    · intro f x hx hax
      simp only [] at hx ⊢
      rcases getElem?_snoc_cases _ _ _ _ hx with ⟨_, h2⟩ | ⟨h1, _⟩
      · obtain ⟨c0, cl0, h0, hp0⟩ := hI.unspawned f x h2 hax
        have hne : c ≠ c0 := by
          intro h; subst h
          rw [hc] at h0; injection h0 with h0; subst h0
          rw [hpc] at hp0; cases hp0
        exact ⟨c0, cl0, by rw [List.getElem?_set_ne hne]; exact h0, hp0⟩
      · subst h1
        exact ⟨c, { cl with pc := .won s.flights.length }, by simp [hclt], rfl⟩
  · refine ⟨by simp [hR.ncall], ?_, ?_, hR.known, ?_, hR.canc, hR.strict⟩
    · intro c' x hx
      simp only [] at hx
      rcases getElem?_set_cases _ _ _ _ _ hx with ⟨h1, h2⟩ | ⟨_, h2⟩
      · subst h1; subst h2
        obtain ⟨ocl, g1, g2, g3, g4⟩ := hR.call c cl hc
        rw [hpc] at g4
        exact ⟨ocl, g1, g2, g3, g4⟩
      · exact hR.call c' x h2
    · intro f
      rw [hR.flight f]
      unfold absFlight
      simp only []
      by_cases hlt : f < s.flights.length
      · rw [List.getElem?_append_left hlt]
      · have hge : s.flights.length ≤ f := Nat.le_of_not_lt hlt
        rw [List.getElem?_eq_none hge]
        by_cases hfe : f = s.flights.length
        · subst hfe; simp
        · rw [List.getElem?_eq_none (by simp; omega)]
    · intro k
      simp only []
      rw [hR.credit k, unann_append]
      by_cases hk : k = e.1
      · subst hk; simp [hck]
      · have : ¬ e.1 = k := fun h => hk h.symm
        simp [hk, this]

theorem srvPrepare_refines {s : State κ} {o : OState κ} (f : Nat) (fl : Flight κ) (r : PAns) (hI : Inv s) (hR : Rel s o)
    (hf : s.flights[f]? = some fl) (ha : fl.ans = none) :
    ∃ o', Obs.run o [.prep f fl.key r] = some o' ∧
      Inv { s with flights := s.flights.set f { fl with ans := some r } } ∧
      Rel { s with flights := s.flights.set f { fl with ans := some r } } o' := by
  have hlt : f < s.flights.length := (List.getElem?_eq_some_iff.1 hf).1
  have hmono : FlMono s.flights (s.flights.set f { fl with ans := some r }) :=
    flmono_set _ f fl _ hf rfl (fun h => absurd ha h) (fun h => h)
  -- enabledness in the specification
  have hun : 0 < unann s.flights fl.key := by
    unfold unann
    exact List.countP_pos_iff.2 ⟨fl, mem_of_getElem? hf, by simp [ha]⟩
  have hcr : 0 < o.credit fl.key := by rw [hR.credit]; omega
  have hany : o.callers.any (fun cl => (cl.pc.live || cl.pc.gaveUp) && hasKey cl.entries fl.key) = true := by
    obtain ⟨c0, cl0, h0, hk0, hp0⟩ := hI.waiter f fl hf ha
    obtain ⟨ocl, q1, q2, _, q4⟩ := hR.call c0 cl0 h0
    refine List.any_eq_true.2 ⟨ocl, mem_of_getElem? q1, ?_⟩
    have : hasKey ocl.entries fl.key = true := by rw [q2]; exact hk0
    rw [this, Bool.and_true, Bool.or_eq_true]
    rcases hp0 with hp0 | hp0 | hp0 <;> rw [hp0] at q4
    · exact Or.inl q4
    · exact Or.inl q4
    · exact Or.inr q4
  have hInv : Inv { s with flights := s.flights.set f { fl with ans := some r } } := by
    refine ⟨?_, ?_, ?_, ?_, ?_, ?_, ?_⟩
    · intro k g hc
      obtain ⟨x, h1, h2, h3⟩ := hI.cached k g hc
      by_cases hfg : f = g
      · subst hfg
        rw [hf] at h1; injection h1 with h1; subst h1
        exact ⟨{ fl with ans := some r }, by simp [hlt], h2, h3⟩
      · exact ⟨x, by simp only []; rw [List.getElem?_set_ne hfg]; exact h1, h2, h3⟩
    · intro g x hx hxr
      simp only [] at hx
      rcases getElem?_set_cases _ _ _ _ _ hx with ⟨h1, h2⟩ | ⟨_, h2⟩
      · subst h1; subst h2
        exact hI.uncached f fl hf hxr
      · exact hI.uncached g x h2 hxr
    · intro g x hx hd
      simp only [] at hx
      rcases getElem?_set_cases _ _ _ _ _ hx with ⟨_, h2⟩ | ⟨_, h2⟩
      · subst h2; simp
      · exact hI.doneAns g x h2 hd
    · intro g x hx hd hax
      simp only [] at hx
      rcases getElem?_set_cases _ _ _ _ _ hx with ⟨h1, h2⟩ | ⟨_, h2⟩
      · subst h1; subst h2
        exact absurd ha (hI.doneAns f fl hf hd)
      · exact hI.failRem g x h2 hd hax
    · intro c cl hc
      exact callerOK_mono hmono cl (hI.callers c cl hc)
    · intro g x hx hax
      simp only [] at hx
      rcases getElem?_set_cases _ _ _ _ _ hx with ⟨_, h2⟩ | ⟨_, h2⟩
      · subst h2; simp at hax
      · exact hI.waiter g x h2 hax
    · intro g x hx hax
      simp only [] at hx
      rcases getElem?_set_cases _ _ _ _ _ hx with ⟨h1, h2⟩ | ⟨_, h2⟩
      · subst h1; subst h2; exact hI.unspawned f fl hf hax
      · exact hI.unspawned g x h2 hax
  have hcredit : ∀ k', (if k' = fl.key then o.credit fl.key - 1 else o.credit k') =
      unann (s.flights.set f { fl with ans := some r }) k' + (if s.cache k' = none then 1 else 0) := by
    intro k'
    by_cases hk : k' = fl.key
    · subst hk
      have hdec : unann (s.flights.set f { fl with ans := some r }) fl.key + 1 = unann s.flights fl.key := by
        unfold unann
        exact countP_set_dec _ s.flights f fl _ hf (by simp [ha]) (by simp)
      simp only [if_true]
      rw [hR.credit fl.key]
      omega
    · simp only [hk, if_false]
      rw [hR.credit k']
      have : unann (s.flights.set f { fl with ans := some r }) k' = unann s.flights k' := by
        unfold unann
        have hne : ¬ fl.key = k' := fun h => hk h.symm
        exact countP_set_same _ s.flights f fl _ hf (by simp [hne])
      rw [this]
  have hflight : ∀ g, (if g = f then some (⟨fl.key, some r, fl.removed⟩ : OFlight κ) else o.flights g) =
      absFlight (s.flights.set f { fl with ans := some r }) g := by
    intro g
    unfold absFlight
    by_cases hg : g = f
    · subst hg; simp [hlt]
    · have : f ≠ g := fun e => hg e.symm
      simp only [hg, if_false, List.getElem?_set_ne this]
      exact hR.flight g
  have hcond : 0 < o.credit fl.key ∧ o.callers.any (fun cl => (cl.pc.live || cl.pc.gaveUp) && hasKey cl.entries fl.key) = true := ⟨hcr, hany⟩
  by_cases hrem : fl.removed = false
  · have ho : o.flights f = none := by rw [hR.flight f]; unfold absFlight; simp [hf, ha, hrem]
    refine ⟨_, by simp only [Obs.run, Obs.step]; rw [if_pos hcond]; simp only [ho]; rfl, hInv, ?_⟩
    refine ⟨hR.ncall, hR.call, ?_, ?_, hcredit, hR.canc, hR.strict⟩
    · intro g; rw [← hflight g, hrem]
    · intro g hg
      simp only [] at hg ⊢
      by_cases hgf : g = f
      · simp [hgf]
      · simp only [hgf, if_false] at hg
        exact List.mem_cons_of_mem _ (hR.known g hg)
  · have hrem : fl.removed = true := by cases h : fl.removed <;> simp_all
    have ho : o.flights f = some ⟨fl.key, none, true⟩ := by rw [hR.flight f]; unfold absFlight; simp [hf, ha, hrem]
    refine ⟨_, by simp only [Obs.run, Obs.step]; rw [if_pos hcond]; simp only [ho, and_self, if_true]; rfl, hInv, ?_⟩
    refine ⟨hR.ncall, hR.call, ?_, ?_, hcredit, hR.canc, hR.strict⟩
    · intro g; rw [← hflight g, hrem]
    · intro g hg
      simp only [] at hg ⊢
      by_cases hgf : g = f
      · subst hgf; exact hR.known g (by rw [ho]; simp)
      · simp only [hgf, if_false] at hg
        exact hR.known g hg

/-! ### completion of a flight -/

theorem removeKey_flmono (s : State κ) (k : κ) : FlMono s.flights (removeKey s k).1.flights := by
  unfold removeKey
  split
  · exact flmono_refl _
  · rename_i g _
    split
    · exact flmono_refl _
    · rename_i fl hg
      exact flmono_set _ g fl _ hg rfl (fun _ => rfl) (fun _ => rfl)

theorem removeKey_marks {s : State κ} (f : Nat) (fl : Flight κ) (hI : Inv s) (hf : s.flights[f]? = some fl) :
    ∃ fl1, (removeKey s fl.key).1.flights[f]? = some fl1 ∧ fl1.ans = fl.ans ∧ fl1.removed = true := by
  cases hr : fl.removed with
  | true =>
    obtain ⟨fl1, h1, _, _, h4⟩ := removeKey_flmono s fl.key f fl hf
    -- the answer is not touched by removeKey
    unfold removeKey at h1 ⊢
    cases hck : s.cache fl.key with
    | none => simp only [hck] at h1 ⊢; exact ⟨fl, hf, rfl, hr⟩
    | some g =>
      simp only [hck] at h1 ⊢
      cases hg : s.flights[g]? with
      | none => simp only [hg] at h1 ⊢; exact ⟨fl, hf, rfl, hr⟩
      | some x =>
        simp only [hg] at h1 ⊢
        by_cases hgf : g = f
        · subst hgf
          rw [hf] at hg; injection hg with hg; subst hg
          have hlt : g < s.flights.length := (List.getElem?_eq_some_iff.1 hf).1
          exact ⟨{ fl with removed := true }, by simp [hlt], rfl, rfl⟩
        · exact ⟨fl, by rw [List.getElem?_set_ne hgf]; exact hf, rfl, hr⟩
  | false =>
    have hc := hI.uncached f fl hf hr
    have hlt : f < s.flights.length := (List.getElem?_eq_some_iff.1 hf).1
    unfold removeKey
    simp only [hc, hf]
    exact ⟨{ fl with removed := true }, by simp [hlt], rfl, rfl⟩

theorem complete_ok_refines {s : State κ} {o : OState κ} (f : Nat) (fl : Flight κ) (p : Id × Nat) (hI : Inv s) (hR : Rel s o)
    (hf : s.flights[f]? = some fl) (ha : fl.ans = some (some p)) :
    Inv (setDone s f) ∧ Rel (setDone s f) o :=
  setDone_refines f fl hI hR hf (by rw [ha]; simp) (by rw [ha]; intro h; cases h)

theorem complete_fail_refines {s : State κ} {o : OState κ} (f : Nat) (fl : Flight κ) (hI : Inv s) (hR : Rel s o)
    (hS : SInv s) (hd : fl.done = false)
    (hf : s.flights[f]? = some fl) (ha : fl.ans = some none) :
    ∃ o', Obs.run o (removeKey s fl.key).2 = some o' ∧ Inv (setDone (removeKey s fl.key).1 f) ∧
      Rel (setDone (removeKey s fl.key).1 f) o' := by
  have hj : s.strict = true → ∀ g, s.cache fl.key = some g → justified o fl.key g = true := by
    intro hst g hg
    have hnr : fl.removed = false := by
      cases hr : fl.removed with
      | false => rfl
      | true => have := hS hst f fl hf hr; rw [hd] at this; cases this
    have hc := hI.uncached f fl hf hnr
    rw [hc] at hg; injection hg with hg; subst hg
    unfold justified
    rw [hR.flight f, absFlight_ans hf (by rw [ha]; simp), ha]
  obtain ⟨o', h1, h2, h3⟩ := removeKey_refines fl.key hI hR hj
  obtain ⟨fl1, g1, g2, g3⟩ := removeKey_marks f fl hI hf
  obtain ⟨q1, q2⟩ := setDone_refines f fl1 h2 h3 g1 (by rw [g2, ha]; simp) (fun _ => g3)
  exact ⟨o', h1, q1, q2⟩

/-! ### a waiter observes its flight -/

theorem waiting_facts {s : State κ} {c f : Nat} {cl : Caller κ} {fl : Flight κ} {e : κ × Nat} (hI : Inv s)
    (hc : s.callers[c]? = some cl) (hpc : cl.pc = .waiting f) (hf : s.flights[f]? = some fl)
    (he : cl.entries[cl.got.length]? = some e) :
    cl.got.length < cl.entries.length ∧ GotOK s.flights cl.banned cl.entries cl.got ∧ fl.key = e.1 ∧ cl.banned f = false := by
  have hp := (hI.callers c cl hc).pcs
  rw [hpc] at hp
  obtain ⟨h1, h2, fl', e', g1, g2, g3, g4⟩ := hp
  rw [hf] at g1; injection g1 with g1; subst g1
  rw [he] at g2; injection g2 with g2; subst g2
  exact ⟨h1, h2, g3, g4⟩

theorem observe_fail_refines {s : State κ} {o : OState κ} (c f : Nat) (cl : Caller κ) (fl : Flight κ) (e : κ × Nat)
    (hI : Inv s) (hR : Rel s o) (hc : s.callers[c]? = some cl) (hpc : cl.pc = .waiting f)
    (hf : s.flights[f]? = some fl) (he : cl.entries[cl.got.length]? = some e) (hd : fl.done = true) (ha : fl.ans = some none) :
    ∃ o', Obs.run o [.ret c (.prepErr f)] = some o' ∧
      Inv { s with callers := s.callers.set c { cl with pc := .returned } } ∧
      Rel { s with callers := s.callers.set c { cl with pc := .returned } } o' := by
  obtain ⟨_, _, hk, hb⟩ := waiting_facts hI hc hpc hf he
  have hok := hI.callers c cl hc
  obtain ⟨ocl, q1, q2, q3, q4⟩ := hR.call c cl hc
  rw [hpc] at q4
  have ho : o.flights f = some ⟨fl.key, some none, true⟩ := by
    rw [hR.flight f, absFlight_ans hf (by rw [ha]; simp), ha, hI.failRem f fl hf hd ha]
  have hkey : hasKey ocl.entries fl.key = true := by rw [q2, hk]; exact hasKey_of_getElem? he
  refine ⟨{ o with callers := o.callers.set c { ocl with pc := .returned } }, ?_, ?_, ?_⟩
  · simp only [Obs.run, Obs.step, q1]
    rw [if_pos ⟨q4, by rw [q3]; exact hb⟩]
    simp only [ho, hkey, and_self, if_true]
    rfl
  · refine inv_updCaller hI hc ⟨hok.ne, hok.ban, trivial⟩ rfl ?_ ?_
    · intro f' fl' hw hf' ha'
      have := owns_waiting hpc hw; subst this
      rw [hf] at hf'; injection hf' with hf'; subst hf'
      rw [ha] at ha'; cases ha'
    · intro f' fl' hw; rw [hpc] at hw; cases hw
  · exact rel_updCaller { ocl with pc := .returned } hR hc q2 q3 rfl

theorem observe_count_refines {s : State κ} {o : OState κ} (c f : Nat) (cl : Caller κ) (fl : Flight κ) (e : κ × Nat)
    (id : Id) (nc : Nat)
    (hI : Inv s) (hR : Rel s o) (hc : s.callers[c]? = some cl) (hpc : cl.pc = .waiting f)
    (hf : s.flights[f]? = some fl) (he : cl.entries[cl.got.length]? = some e)
    (ha : fl.ans = some (some (id, nc))) (hne : e.2 ≠ nc) :
    ∃ o', Obs.run o [.ret c .countErr] = some o' ∧
      Inv { s with callers := s.callers.set c { cl with pc := .returned } } ∧
      Rel { s with callers := s.callers.set c { cl with pc := .returned } } o' := by
  obtain ⟨_, _, hk, hb⟩ := waiting_facts hI hc hpc hf he
  have hok := hI.callers c cl hc
  obtain ⟨ocl, q1, q2, q3, q4⟩ := hR.call c cl hc
  rw [hpc] at q4
  have ho : o.flights f = some ⟨fl.key, some (some (id, nc)), fl.removed⟩ := by
    rw [hR.flight f, absFlight_ans hf (by rw [ha]; simp), ha]
  have hmis : countMismatch o ocl = true := by
    unfold countMismatch
    rw [q2]
    refine List.any_eq_true.2 ⟨e, mem_of_getElem? he, List.any_eq_true.2 ⟨f, hR.known f (by rw [ho]; simp), ?_⟩⟩
    rw [q3, hb, ho]
    have : nc ≠ e.2 := fun h => hne h.symm
    simp [hk, this]
  refine ⟨{ o with callers := o.callers.set c { ocl with pc := .returned } }, ?_, ?_, ?_⟩
  · simp only [Obs.run, Obs.step, q1]
    rw [if_pos ⟨q4, hmis⟩]
    rfl
  · refine inv_updCaller hI hc ⟨hok.ne, hok.ban, trivial⟩ rfl ?_ ?_
    · intro f' fl' hw hf' ha'
      have := owns_waiting hpc hw; subst this
      rw [hf] at hf'; injection hf' with hf'; subst hf'
      rw [ha] at ha'; cases ha'
    · intro f' fl' hw; rw [hpc] at hw; cases hw
  · exact rel_updCaller { ocl with pc := .returned } hR hc q2 q3 rfl

omit [DecidableEq κ] in
theorem idOf_eq {s : State κ} {f : Nat} {fl : Flight κ} {id : Id} {n : Nat} (hf : s.flights[f]? = some fl)
    (ha : fl.ans = some (some (id, n))) : idOf s f = id := by
  unfold idOf
  simp [hf, ha]

theorem okEntries_of_gotOK {s : State κ} {o : OState κ} (hR : Rel s o) (b : Nat → Bool) :
    ∀ (es : List (κ × Nat)) (fs : List Nat), GotOK s.flights b es fs → fs.length = es.length →
      okEntries o b es (fs.map (idOf s)) = true
  | [], [], _, _ => rfl
  | [], _ :: _, h, _ => by simp [GotOK] at h
  | _ :: _, [], _, hl => by simp at hl
  | e :: es, f :: fs, ⟨⟨fl, id, h1, h2, h3, h4⟩, hr⟩, hl => by
    have hrec := okEntries_of_gotOK hR b es fs hr (by simpa using hl)
    have ho : o.flights f = some ⟨fl.key, fl.ans, fl.removed⟩ := by
      rw [hR.flight f, absFlight_ans h1 (by rw [h3]; simp)]
    have hj : justifies o b e.1 e.2 (idOf s f) f = true := by
      unfold justifies
      rw [ho, idOf_eq h1 h3]
      simp [h4, h2, h3]
    have hany : o.known.any (justifies o b e.1 e.2 (idOf s f)) = true :=
      List.any_eq_true.2 ⟨f, hR.known f (by rw [ho]; simp), hj⟩
    simp only [List.map_cons, okEntries, hany, hrec, Bool.and_self]

theorem observe_next_ok {s : State κ} {c f : Nat} {cl : Caller κ} {fl : Flight κ} {e : κ × Nat} {id : Id} (hI : Inv s)
    (hc : s.callers[c]? = some cl) (hpc : cl.pc = .waiting f) (hf : s.flights[f]? = some fl)
    (he : cl.entries[cl.got.length]? = some e) (ha : fl.ans = some (some (id, e.2))) :
    GotOK s.flights cl.banned cl.entries (cl.got ++ [f]) := by
  obtain ⟨_, h2, hk, hb⟩ := waiting_facts hI hc hpc hf he
  exact gotOK_snoc _ _ _ _ f e h2 he ⟨fl, id, hf, hk, ha, hb⟩

theorem observe_exec_refines {s : State κ} {o : OState κ} (c f : Nat) (cl : Caller κ) (fl : Flight κ) (e : κ × Nat)
    (id : Id) (a : XAns)
    (hI : Inv s) (hR : Rel s o) (hc : s.callers[c]? = some cl) (hpc : cl.pc = .waiting f)
    (hf : s.flights[f]? = some fl) (he : cl.entries[cl.got.length]? = some e)
    (ha : fl.ans = some (some (id, e.2))) (hlen : (cl.got ++ [f]).length = cl.entries.length) :
    ∃ o', Obs.run o [.exec c ((cl.got ++ [f]).map (idOf s)) a] = some o' ∧
      Inv { s with callers := s.callers.set c { cl with got := cl.got ++ [f], pc := .answered a, banned := isRemoved s } } ∧
      Rel { s with callers := s.callers.set c { cl with got := cl.got ++ [f], pc := .answered a, banned := isRemoved s } } o' := by
  have hgot := observe_next_ok hI hc hpc hf he ha
  have hok := hI.callers c cl hc
  obtain ⟨ocl, q1, q2, q3, q4⟩ := hR.call c cl hc
  rw [hpc] at q4
  have hoke : okEntries o ocl.banned ocl.entries ((cl.got ++ [f]).map (idOf s)) = true := by
    rw [q2, q3]; exact okEntries_of_gotOK hR _ _ _ hgot hlen
  refine ⟨{ o with callers := o.callers.set c { ocl with pc := .awaiting a, banned := removedNow o } }, ?_, ?_, ?_⟩
  · simp only [Obs.run, Obs.step, q1]
    rw [if_pos ⟨q4, hoke⟩]
  · refine inv_updCaller hI hc ⟨hok.ne, fun g hg => hg, trivial⟩ rfl ?_ ?_
    · intro f' fl' hw hf' ha'
      have := owns_waiting hpc hw; subst this
      rw [hf] at hf'; injection hf' with hf'; subst hf'
      rw [ha] at ha'; cases ha'
    · intro f' fl' hw; rw [hpc] at hw; cases hw
  · exact rel_updCaller { ocl with pc := .awaiting a, banned := removedNow o } hR hc q2 (removedNow_eq hR) rfl

theorem observe_more_refines {s : State κ} {o : OState κ} (c f : Nat) (cl : Caller κ) (fl : Flight κ) (e : κ × Nat) (id : Id)
    (hI : Inv s) (hR : Rel s o) (hc : s.callers[c]? = some cl) (hpc : cl.pc = .waiting f)
    (hf : s.flights[f]? = some fl) (he : cl.entries[cl.got.length]? = some e)
    (ha : fl.ans = some (some (id, e.2))) (hlen : (cl.got ++ [f]).length ≠ cl.entries.length) :
    Inv { s with callers := s.callers.set c { cl with got := cl.got ++ [f], pc := .start } } ∧
    Rel { s with callers := s.callers.set c { cl with got := cl.got ++ [f], pc := .start } } o := by
  have hgot := observe_next_ok hI hc hpc hf he ha
  obtain ⟨h1, _, _, _⟩ := waiting_facts hI hc hpc hf he
  have hok := hI.callers c cl hc
  refine ⟨inv_updCaller hI hc ⟨hok.ne, hok.ban, ?_⟩ rfl ?_ ?_, rel_updCaller_same hR hc rfl rfl ?_⟩
  · refine ⟨?_, hgot⟩
    simp at hlen ⊢
    omega
  · intro f' fl' hw hf' ha'
    have := owns_waiting hpc hw; subst this
    rw [hf] at hf'; injection hf' with hf'; subst hf'
    rw [ha] at ha'; cases ha'
  · intro f' fl' hw; rw [hpc] at hw; cases hw
  · intro p hp; rw [hpc] at hp; exact hp

/-! ### the answer to the frame -/

theorem finish_ret_refines {s : State κ} {o : OState κ} (c : Nat) (cl : Caller κ) (a : XAns) (out : Outcome)
    (hao : (a = .ok ∧ out = .ok) ∨ (a = .err ∧ out = .execErr))
    (hI : Inv s) (hR : Rel s o) (hc : s.callers[c]? = some cl) (hpc : cl.pc = .answered a) :
    ∃ o', Obs.run o [.ret c out] = some o' ∧
      Inv { s with callers := s.callers.set c { cl with pc := .returned } } ∧
      Rel { s with callers := s.callers.set c { cl with pc := .returned } } o' := by
  have hok := hI.callers c cl hc
  obtain ⟨ocl, q1, q2, q3, q4⟩ := hR.call c cl hc
  rw [hpc] at q4
  have q4' : ocl.pc = .awaiting a := q4
  refine ⟨{ o with callers := o.callers.set c { ocl with pc := .returned } }, ?_, ?_, ?_⟩
  · rcases hao with ⟨h1, h2⟩ | ⟨h1, h2⟩ <;> subst h1 <;> subst h2 <;>
      (simp only [Obs.run, Obs.step, q1]; rw [if_pos q4']; rfl)
  · refine inv_updCaller hI hc ⟨hok.ne, hok.ban, trivial⟩ rfl ?_ ?_
    · intro f' fl' hw; exact absurd hw (not_owns_answered hpc)
    · intro f' fl' hw; rw [hpc] at hw; cases hw
  · exact rel_updCaller { ocl with pc := .returned } hR hc q2 q3 rfl

theorem mem_zip_left {α β : Type} : ∀ (l1 : List α) (l2 : List β) (p : α × β), p ∈ l1.zip l2 → p.1 ∈ l1
  | [], _, p, h => by simp at h
  | _ :: _, [], p, h => by simp at h
  | a :: l1, b :: l2, p, h => by
    simp only [List.zip_cons_cons, List.mem_cons] at h
    rcases h with h | h
    · subst h; simp
    · exact List.mem_cons_of_mem _ (mem_zip_left l1 l2 p h)

/-- the key that an UNPREPARED answer makes the caller evict is the key of one of its own entries -/
theorem unprepKey_hasKey (s : State κ) (cl : Caller κ) (id : Id) (k : κ) (h : unprepKey s cl id = some k) :
    hasKey cl.entries k = true := by
  unfold unprepKey at h
  by_cases hb : cl.batch = true
  · simp only [hb, if_true] at h
    cases hfind : (cl.entries.zip cl.got).reverse.find? (fun e => idOf s e.2 = id) with
    | none => simp [hfind] at h
    | some p =>
      simp only [hfind, Option.map_some, Option.some.injEq] at h
      have hm : p ∈ (cl.entries.zip cl.got).reverse := List.mem_of_find?_eq_some hfind
      have hm' : p ∈ cl.entries.zip cl.got := List.mem_reverse.1 hm
      have := mem_zip_left _ _ p hm'
      unfold hasKey
      exact List.any_eq_true.2 ⟨p.1, this, by simp [h]⟩
  · simp only [hb] at h
    cases hes : cl.entries with
    | nil => simp [hes] at h
    | cons e es =>
      simp [hes] at h
      unfold hasKey
      simp [h]

theorem finish_unprep_refines {s : State κ} {o : OState κ} (c : Nat) (cl : Caller κ) (id : Id) (r : State κ × List (Ev κ))
    (hr : r = (match unprepKey s cl id with
      | some k => evictIfMatch s k id
      | none => (s, [])))
    (hI : Inv s) (hR : Rel s o) (hc : s.callers[c]? = some cl) (hpc : cl.pc = .answered (.unprep id)) :
    ∃ o', Obs.run o r.2 = some o' ∧
      Inv { r.1 with callers := r.1.callers.set c { cl with got := [], pc := .start } } ∧
      Rel { r.1 with callers := r.1.callers.set c { cl with got := [], pc := .start } } o' := by
  have hstep : ∃ o', Obs.run o r.2 = some o' ∧ Inv r.1 ∧ Rel r.1 o' ∧ r.1.callers = s.callers := by
    rw [hr]
    cases huk : unprepKey s cl id with
    | none => exact ⟨o, rfl, hI, hR, rfl⟩
    | some k =>
      refine evictIfMatch_refines k id hI hR ?_
      obtain ⟨ocl, q1, q2, _, q4⟩ := hR.call c cl hc
      rw [hpc] at q4
      have q4' : ocl.pc = .awaiting (.unprep id) := q4
      refine List.any_eq_true.2 ⟨ocl, mem_of_getElem? q1, ?_⟩
      rw [q2, unprepKey_hasKey s cl id k huk, q4']
      simp
  obtain ⟨o', h1, h2, h3, h4⟩ := hstep
  have hc' : r.1.callers[c]? = some cl := by rw [h4]; exact hc
  have hok := h2.callers c cl hc'
  refine ⟨o', h1, inv_updCaller h2 hc' ⟨hok.ne, hok.ban, ?_⟩ rfl ?_ ?_, rel_updCaller_same h3 hc' rfl rfl ?_⟩
  · refine ⟨?_, by simp [GotOK]⟩
    have := hok.ne
    cases hes : cl.entries with
    | nil => exact absurd hes this
    | cons _ _ => simp
  · intro f' fl' hw; exact absurd hw (not_owns_answered hpc)
  · intro f' fl' hw; rw [hpc] at hw; cases hw
  · intro p hp
    rw [hpc] at hp
    have hp' : p = .awaiting (.unprep id) := hp
    subst hp'
    rfl

/-! ### the publishing caller starts the flight's goroutine -/

theorem spawn_refines {s : State κ} {o : OState κ} (c f : Nat) (cl : Caller κ) (fl : Flight κ) (hI : Inv s) (hR : Rel s o)
    (hc : s.callers[c]? = some cl) (hpc : cl.pc = .won f) (hf : s.flights[f]? = some fl) :
    Inv { s with flights := s.flights.set f { fl with spawned := true },
                 callers := s.callers.set c { cl with pc := .waiting f } } ∧
    Rel { s with flights := s.flights.set f { fl with spawned := true },
                 callers := s.callers.set c { cl with pc := .waiting f } } o := by
  have hlt : f < s.flights.length := (List.getElem?_eq_some_iff.1 hf).1
  obtain ⟨hI1, hR1⟩ := setFlight_same f fl { fl with spawned := true } hI hR hf rfl rfl rfl
    (fun hd => hI.doneAns f fl hf hd) (fun hd ha => hI.failRem f fl hf hd ha) (fun h => by cases h)
  have hc1 : ({ s with flights := s.flights.set f { fl with spawned := true } } : State κ).callers[c]? = some cl := hc
  have hok := hI1.callers c cl hc1
  have hp := hok.pcs
  rw [hpc] at hp
  refine ⟨inv_updCaller hI1 hc1 ⟨hok.ne, hok.ban, hp⟩ rfl ?_ ?_, rel_updCaller_same hR1 hc1 rfl rfl ?_⟩
  · intro f' fl' hw _ _
    have := owns_won hpc hw; subst this
    exact Or.inr (Or.inl rfl)
  · intro f' fl' hw hf' hsp
    rw [hpc] at hw; injection hw with hw; subst hw
    simp only [] at hf'
    rw [List.getElem?_set] at hf'
    simp [hlt] at hf'
    subst hf'; cases hsp
  · intro p hp'; rw [hpc] at hp'; exact hp'

/-! ### caller contexts -/

theorem cancel_refines {s : State κ} {o : OState κ} (c : Nat) (hlt : c < s.callers.length) (hI : Inv s) (hR : Rel s o) :
    ∃ o', Obs.run o [.cancel c] = some o' ∧
      Inv { s with cancelled := fun c' => decide (c' = c) || s.cancelled c' } ∧
      Rel { s with cancelled := fun c' => decide (c' = c) || s.cancelled c' } o' := by
  refine ⟨{ o with cancelled := fun c' => decide (c' = c) || o.cancelled c' }, ?_, ?_, ?_⟩
  · have : c < o.callers.length := by rw [hR.ncall]; exact hlt
    simp [Obs.run, Obs.step, this]
  · exact ⟨hI.cached, hI.uncached, hI.doneAns, hI.failRem, hI.callers, hI.waiter, hI.unspawned⟩
  · exact ⟨hR.ncall, hR.call, hR.flight, hR.known, hR.credit, by simp only []; rw [hR.canc], hR.strict⟩

omit [DecidableEq κ] in
theorem live_running {pc : OPC} (h : pc.live = true) : pc.running = true := by
  cases pc with
  | active => rfl
  | awaiting a => rfl
  | returned => simp [OPC.live] at h
  | abandoned l => simp [OPC.live] at h

/-- `case <-ctx.Done(): return nil, ctx.Err()` while waiting for a flight, or while waiting for the answer to
    the frame: the caller returns its context error; cache and flights are untouched -/
theorem abandon_refines {s : State κ} {o : OState κ} (c : Nat) (cl : Caller κ) (hI : Inv s) (hR : Rel s o)
    (hc : s.callers[c]? = some cl) (hcan : s.cancelled c = true)
    (hpc : (∃ f, cl.pc = .waiting f) ∨ (∃ a, cl.pc = .answered a)) :
    ∃ o', Obs.run o [.ret c .ctxErr] = some o' ∧
      Inv { s with callers := s.callers.set c { cl with pc := .abandoned } } ∧
      Rel { s with callers := s.callers.set c { cl with pc := .abandoned } } o' := by
  have hok := hI.callers c cl hc
  obtain ⟨ocl, q1, q2, q3, q4⟩ := hR.call c cl hc
  have hrun : ocl.pc.running = true := by
    rcases hpc with ⟨f, hpc⟩ | ⟨a, hpc⟩ <;> rw [hpc] at q4
    · exact live_running q4
    · have q4' : ocl.pc = .awaiting a := q4
      rw [q4']; rfl
  have hoc : o.cancelled c = true := by rw [hR.canc]; exact hcan
  refine ⟨{ o with callers := o.callers.set c { ocl with pc := .abandoned ocl.pc.live } }, ?_, ?_, ?_⟩
  · simp only [Obs.run, Obs.step, q1]
    rw [if_pos ⟨hoc, hrun⟩]
    rfl
  · refine inv_updCaller hI hc ⟨hok.ne, hok.ban, trivial⟩ rfl ?_ ?_
    · intro f' fl' _ _ _; exact Or.inr (Or.inr rfl)
    · intro f' fl' hw
      rcases hpc with ⟨f, hpc⟩ | ⟨a, hpc⟩ <;> (rw [hpc] at hw; cases hw)
  · exact rel_updCaller { ocl with pc := .abandoned ocl.pc.live } hR hc q2 q3 rfl

/-- the same in `Conn.exec` right after the frame was written: the caller returns its context error, the frame
    is on its way -/
theorem abandonLate_refines {s : State κ} {o : OState κ} (c f : Nat) (cl : Caller κ) (fl : Flight κ) (e : κ × Nat) (id : Id)
    (hI : Inv s) (hR : Rel s o) (hc : s.callers[c]? = some cl) (hcan : s.cancelled c = true) (hpc : cl.pc = .waiting f)
    (hf : s.flights[f]? = some fl) (he : cl.entries[cl.got.length]? = some e)
    (ha : fl.ans = some (some (id, e.2))) (hlen : (cl.got ++ [f]).length = cl.entries.length) :
    ∃ o', Obs.run o [.ret c .ctxErr] = some o' ∧
      Inv { s with callers := s.callers.set c { cl with got := cl.got ++ [f], pc := .lagging } } ∧
      Rel { s with callers := s.callers.set c { cl with got := cl.got ++ [f], pc := .lagging } } o' := by
  have hgot := observe_next_ok hI hc hpc hf he ha
  have hok := hI.callers c cl hc
  obtain ⟨ocl, q1, q2, q3, q4⟩ := hR.call c cl hc
  rw [hpc] at q4
  have q4' : ocl.pc.live = true := q4
  have hoc : o.cancelled c = true := by rw [hR.canc]; exact hcan
  refine ⟨{ o with callers := o.callers.set c { ocl with pc := .abandoned true } }, ?_, ?_, ?_⟩
  · simp only [Obs.run, Obs.step, q1]
    rw [if_pos ⟨hoc, live_running q4'⟩]
    simp only [setPc, q4']
  · refine inv_updCaller hI hc ⟨hok.ne, hok.ban, ?_⟩ rfl ?_ ?_
    · exact ⟨hlen, hgot⟩
    · intro f' fl' hw hf' ha'
      have := owns_waiting hpc hw; subst this
      rw [hf] at hf'; injection hf' with hf'; subst hf'
      rw [ha] at ha'; cases ha'
    · intro f' fl' hw; rw [hpc] at hw; cases hw
  · exact rel_updCaller { ocl with pc := .abandoned true } hR hc q2 q3 rfl

/-- the server receives the frame of a caller that has already returned its context error -/
theorem srvLate_refines {s : State κ} {o : OState κ} (c : Nat) (cl : Caller κ) (a : XAns)
    (hI : Inv s) (hR : Rel s o) (hc : s.callers[c]? = some cl) (hpc : cl.pc = .lagging) :
    ∃ o', Obs.run o [.exec c (cl.got.map (idOf s)) a] = some o' ∧
      Inv { s with callers := s.callers.set c { cl with pc := .abandoned, banned := isRemoved s } } ∧
      Rel { s with callers := s.callers.set c { cl with pc := .abandoned, banned := isRemoved s } } o' := by
  have hok := hI.callers c cl hc
  have hp := hok.pcs
  rw [hpc] at hp
  obtain ⟨ocl, q1, q2, q3, q4⟩ := hR.call c cl hc
  rw [hpc] at q4
  have q4' : ocl.pc = .abandoned true := q4
  have hoke : okEntries o ocl.banned ocl.entries (cl.got.map (idOf s)) = true := by
    rw [q2, q3]; exact okEntries_of_gotOK hR _ _ _ hp.2 hp.1
  refine ⟨{ o with callers := o.callers.set c { ocl with pc := .abandoned false, banned := removedNow o } }, ?_, ?_, ?_⟩
  · simp only [Obs.run, Obs.step, q1]
    rw [if_neg (by rw [q4']; simp [OPC.live]), if_pos ⟨q4', hoke⟩]
  · refine inv_updCaller hI hc ⟨hok.ne, fun g hg => hg, trivial⟩ rfl ?_ ?_
    · intro f' fl' hw; exact absurd hw (not_owns_lagging hpc)
    · intro f' fl' hw; rw [hpc] at hw; cases hw
  · exact rel_updCaller { ocl with pc := .abandoned false, banned := removedNow o } hR hc q2 (removedNow_eq hR) rfl

/-! ### every step, every schedule -/

theorem step_refines {s s' : State κ} {o : OState κ} {a : Action κ} {evs : List (Ev κ)} (hI : Inv s) (hR : Rel s o)
    (hS : SInv s)
    (h : PConn.step s a = some (s', evs)) : ∃ o', Obs.run o evs = some o' ∧ Inv s' ∧ Rel s' o' ∧ SInv s' := by
  cases a with
  | call b es =>
    simp only [PConn.step] at h
    by_cases hes : es = []
    · simp [hes] at h
    · rw [if_neg hes] at h
      injection h with h; injection h with h1 h2; subst h1; subst h2
      obtain ⟨o', q1, q2, q3⟩ := call_refines b es hes hI hR
      exact ⟨o', q1, q2, q3, sinv_same hS rfl rfl⟩
  | lookup c =>
    simp only [PConn.step] at h
    cases hc : s.callers[c]? with
    | none => simp [hc] at h
    | some cl =>
      simp only [hc] at h
      by_cases hpc : cl.pc = .start
      · rw [if_pos hpc] at h
        cases he : cl.entries[cl.got.length]? with
        | none => simp [he] at h
        | some e =>
          simp only [he] at h
          cases hck : s.cache e.1 with
          | some f =>
            simp only [hck] at h
            injection h with h; injection h with h1 h2; subst h1; subst h2
            obtain ⟨q1, q2⟩ := lookup_hit_refines c cl e f hI hR hc hpc he hck
            exact ⟨o, rfl, q1, q2, sinv_same hS rfl rfl⟩
          | none =>
            simp only [hck] at h
            injection h with h; injection h with h1 h2; subst h1; subst h2
            obtain ⟨q1, q2⟩ := lookup_miss_refines c cl e hI hR hc hpc he hck
            exact ⟨o, rfl, q1, q2, sinv_append hS _ rfl rfl rfl⟩
      · rw [if_neg hpc] at h; cases h
  | evict k =>
    simp only [PConn.step] at h
    by_cases hstrict : s.strict = true
    · rw [if_pos hstrict] at h; cases h
    rw [if_neg hstrict] at h
    cases hck : s.cache k with
    | none => simp [hck] at h
    | some g =>
      simp only [hck] at h
      injection h with h
      have h1 : s' = (removeKey s k).1 := by rw [h]
      have h2 : evs = (removeKey s k).2 := by rw [h]
      subst h1; subst h2
      obtain ⟨o', q1, q2, q3⟩ := removeKey_refines k hI hR (fun hst => absurd hst hstrict)
      exact ⟨o', q1, q2, q3, fun hst => by rw [removeKey_strict] at hst; exact absurd hst hstrict⟩
  | srvPrepare f r =>
    simp only [PConn.step] at h
    cases hf : s.flights[f]? with
    | none => simp [hf] at h
    | some fl =>
      simp only [hf] at h
      by_cases ha : fl.ans = none ∧ fl.spawned = true
      · rw [if_pos ha] at h
        injection h with h; injection h with h1 h2; subst h1; subst h2
        obtain ⟨o', q1, q2, q3⟩ := srvPrepare_refines f fl r hI hR hf ha.1
        exact ⟨o', q1, q2, q3, sinv_set hS f fl { fl with ans := some r } hf (fun h => Or.inr h) id rfl rfl⟩
      · rw [if_neg ha] at h; cases h
  | complete f =>
    simp only [PConn.step] at h
    cases hf : s.flights[f]? with
    | none => simp [hf] at h
    | some fl =>
      simp only [hf] at h
      cases ha : fl.ans with
      | none => simp [ha] at h
      | some r =>
        simp only [ha] at h
        by_cases hd : fl.done = true
        · simp [hd] at h
        · rw [if_neg hd] at h
          cases r with
          | some p =>
            simp only [] at h
            injection h with h; injection h with h1 h2; subst h1; subst h2
            obtain ⟨q1, q2⟩ := complete_ok_refines f fl p hI hR hf ha
            exact ⟨o, rfl, q1, q2, sinv_setDone hS f⟩
          | none =>
            simp only [] at h
            injection h with h; injection h with h1 h2; subst h1; subst h2
            have hd' : fl.done = false := by cases hx : fl.done <;> simp_all
            obtain ⟨o', q1, q2, q3⟩ := complete_fail_refines f fl hI hR hS hd' hf ha
            exact ⟨o', q1, q2, q3, sinv_complete_fail hI hS f fl hf hd'⟩
  | observe c a =>
    simp only [PConn.step] at h
    cases hc : s.callers[c]? with
    | none => simp [hc] at h
    | some cl =>
      simp only [hc] at h
      cases hpc : cl.pc with
      | start => simp [hpc] at h
      | won _ => simp [hpc] at h
      | answered _ => simp [hpc] at h
      | returned => simp [hpc] at h
      | abandoned => simp [hpc] at h
      | lagging => simp [hpc] at h
      | waiting f =>
        simp only [hpc] at h
        cases hf : s.flights[f]? with
        | none => simp [hf] at h
        | some fl =>
          cases he : cl.entries[cl.got.length]? with
          | none => simp [hf, he] at h
          | some e =>
            simp only [hf, he] at h
            by_cases hd : fl.done = true
            · rw [if_pos hd] at h
              cases ha : fl.ans with
              | none => simp [ha] at h
              | some r =>
                cases r with
                | none =>
                  simp only [ha] at h
                  injection h with h; injection h with h1 h2; subst h1; subst h2
                  obtain ⟨o', q1, q2, q3⟩ := observe_fail_refines c f cl fl e hI hR hc hpc hf he hd ha
                  exact ⟨o', q1, q2, q3, sinv_same hS rfl rfl⟩
                | some p =>
                  obtain ⟨id, nc⟩ := p
                  simp only [ha] at h
                  by_cases hne : e.2 ≠ nc
                  · rw [if_pos hne] at h
                    injection h with h; injection h with h1 h2; subst h1; subst h2
                    obtain ⟨o', q1, q2, q3⟩ := observe_count_refines c f cl fl e id nc hI hR hc hpc hf he ha hne
                    exact ⟨o', q1, q2, q3, sinv_same hS rfl rfl⟩
                  · rw [if_neg hne] at h
                    have hnc : nc = e.2 := by
                      by_cases hq : e.2 = nc
                      · exact hq.symm
                      · exact absurd hq hne
                    subst hnc
                    by_cases hlen : (cl.got ++ [f]).length = cl.entries.length
                    · rw [if_pos hlen] at h
                      injection h with h; injection h with h1 h2; subst h1; subst h2
                      obtain ⟨o', q1, q2, q3⟩ := observe_exec_refines c f cl fl e id a hI hR hc hpc hf he ha hlen
                      exact ⟨o', q1, q2, q3, sinv_same hS rfl rfl⟩
                    · rw [if_neg hlen] at h
                      injection h with h; injection h with h1 h2; subst h1; subst h2
                      obtain ⟨q1, q2⟩ := observe_more_refines c f cl fl e id hI hR hc hpc hf he ha hlen
                      exact ⟨o, rfl, q1, q2, sinv_same hS rfl rfl⟩
            · rw [if_neg hd] at h; cases h
  | finish c =>
    simp only [PConn.step] at h
    cases hc : s.callers[c]? with
    | none => simp [hc] at h
    | some cl =>
      simp only [hc] at h
      cases hpc : cl.pc with
      | start => simp [hpc] at h
      | won _ => simp [hpc] at h
      | waiting _ => simp [hpc] at h
      | returned => simp [hpc] at h
      | abandoned => simp [hpc] at h
      | lagging => simp [hpc] at h
      | answered a =>
        cases a with
        | ok =>
          simp only [hpc] at h
          injection h with h; injection h with h1 h2; subst h1; subst h2
          obtain ⟨o', q1, q2, q3⟩ := finish_ret_refines c cl .ok .ok (Or.inl ⟨rfl, rfl⟩) hI hR hc hpc
          exact ⟨o', q1, q2, q3, sinv_same hS rfl rfl⟩
        | err =>
          simp only [hpc] at h
          injection h with h; injection h with h1 h2; subst h1; subst h2
          obtain ⟨o', q1, q2, q3⟩ := finish_ret_refines c cl .err .execErr (Or.inr ⟨rfl, rfl⟩) hI hR hc hpc
          exact ⟨o', q1, q2, q3, sinv_same hS rfl rfl⟩
        | unprep id =>
          simp only [hpc] at h
          injection h with h; injection h with h1 h2; subst h1; subst h2
          obtain ⟨o', q1, q2, q3⟩ := finish_unprep_refines c cl id _ rfl hI hR hc hpc
          refine ⟨o', q1, q2, q3, sinv_same (s := (match unprepKey s cl id with
            | some k => evictIfMatch s k id
            | none => (s, [])).1) ?_ rfl rfl⟩
          cases unprepKey s cl id with
          | none => exact hS
          | some k => exact sinv_evictIfMatch hS k id
  | spawn c =>
    simp only [PConn.step] at h
    cases hc : s.callers[c]? with
    | none => simp [hc] at h
    | some cl =>
      simp only [hc] at h
      cases hpc : cl.pc with
      | start => simp [hpc] at h
      | waiting _ => simp [hpc] at h
      | answered _ => simp [hpc] at h
      | returned => simp [hpc] at h
      | abandoned => simp [hpc] at h
      | lagging => simp [hpc] at h
      | won f =>
        simp only [hpc] at h
        cases hf : s.flights[f]? with
        | none => simp [hf] at h
        | some fl =>
          simp only [hf] at h
          injection h with h; injection h with h1 h2; subst h1; subst h2
          obtain ⟨q1, q2⟩ := spawn_refines c f cl fl hI hR hc hpc hf
          exact ⟨o, rfl, q1, q2, sinv_set hS f fl { fl with spawned := true } hf (fun h => Or.inr h) id rfl rfl⟩
  | cancel c =>
    simp only [PConn.step] at h
    by_cases hlt : c < s.callers.length
    · rw [if_pos hlt] at h
      injection h with h; injection h with h1 h2; subst h1; subst h2
      obtain ⟨o', q1, q2, q3⟩ := cancel_refines c hlt hI hR
      exact ⟨o', q1, q2, q3, sinv_same hS rfl rfl⟩
    · rw [if_neg hlt] at h; cases h
  | abandon c =>
    simp only [PConn.step] at h
    cases hc : s.callers[c]? with
    | none => simp [hc] at h
    | some cl =>
      simp only [hc] at h
      by_cases hcan : s.cancelled c = true
      · rw [if_pos hcan] at h
        cases hpc : cl.pc with
        | start => simp [hpc] at h
        | won _ => simp [hpc] at h
        | returned => simp [hpc] at h
        | abandoned => simp [hpc] at h
        | lagging => simp [hpc] at h
        | waiting f =>
          simp only [hpc] at h
          injection h with h; injection h with h1 h2; subst h1; subst h2
          obtain ⟨o', q1, q2, q3⟩ := abandon_refines c cl hI hR hc hcan (Or.inl ⟨f, hpc⟩)
          exact ⟨o', q1, q2, q3, sinv_same hS rfl rfl⟩
        | answered a =>
          simp only [hpc] at h
          injection h with h; injection h with h1 h2; subst h1; subst h2
          obtain ⟨o', q1, q2, q3⟩ := abandon_refines c cl hI hR hc hcan (Or.inr ⟨a, hpc⟩)
          exact ⟨o', q1, q2, q3, sinv_same hS rfl rfl⟩
      · rw [if_neg hcan] at h; cases h
  | abandonLate c =>
    simp only [PConn.step] at h
    cases hc : s.callers[c]? with
    | none => simp [hc] at h
    | some cl =>
      simp only [hc] at h
      by_cases hcan : s.cancelled c = true
      · rw [if_pos hcan] at h
        cases hpc : cl.pc with
        | start => simp [hpc] at h
        | won _ => simp [hpc] at h
        | answered _ => simp [hpc] at h
        | returned => simp [hpc] at h
        | abandoned => simp [hpc] at h
        | lagging => simp [hpc] at h
        | waiting f =>
          simp only [hpc] at h
          cases hf : s.flights[f]? with
          | none => simp [hf] at h
          | some fl =>
            cases he : cl.entries[cl.got.length]? with
            | none => simp [hf, he] at h
            | some e =>
              simp only [hf, he] at h
              by_cases hd : fl.done = true
              · rw [if_pos hd] at h
                cases ha : fl.ans with
                | none => simp [ha] at h
                | some r =>
                  cases r with
                  | none => simp [ha] at h
                  | some p =>
                    obtain ⟨id, nc⟩ := p
                    simp only [ha] at h
                    by_cases hq : e.2 = nc ∧ (cl.got ++ [f]).length = cl.entries.length
                    · rw [if_pos hq] at h
                      injection h with h; injection h with h1 h2; subst h1; subst h2
                      obtain ⟨hnc, hlen⟩ := hq
                      subst hnc
                      obtain ⟨o', q1, q2, q3⟩ := abandonLate_refines c f cl fl e id hI hR hc hcan hpc hf he ha hlen
                      exact ⟨o', q1, q2, q3, sinv_same hS rfl rfl⟩
                    · rw [if_neg hq] at h; cases h
              · rw [if_neg hd] at h; cases h
      · rw [if_neg hcan] at h; cases h
  | srvLate c a =>
    simp only [PConn.step] at h
    cases hc : s.callers[c]? with
    | none => simp [hc] at h
    | some cl =>
      simp only [hc] at h
      by_cases hpc : cl.pc = .lagging
      · rw [if_pos hpc] at h
        injection h with h; injection h with h1 h2; subst h1; subst h2
        obtain ⟨o', q1, q2, q3⟩ := srvLate_refines c cl a hI hR hc hpc
        exact ⟨o', q1, q2, q3, sinv_same hS rfl rfl⟩
      · rw [if_neg hpc] at h; cases h

theorem obs_run_append (o : OState κ) : ∀ (xs ys : List (Ev κ)) (o' o'' : OState κ),
    Obs.run o xs = some o' → Obs.run o' ys = some o'' → Obs.run o (xs ++ ys) = some o''
  | [], _, o', _, h1, h2 => by
    simp only [Obs.run] at h1; injection h1 with h1; subst h1; exact h2
  | x :: xs, ys, o', o'', h1, h2 => by
    simp only [Obs.run, List.cons_append] at h1 ⊢
    cases hs : Obs.step o x with
    | none => simp [hs] at h1
    | some o1 =>
      simp only [hs] at h1 ⊢
      exact obs_run_append o1 xs ys o' o'' h1 h2

theorem run_refines : ∀ (as : List (Action κ)) (s s' : State κ) (o : OState κ) (evs : List (Ev κ)),
    Inv s → Rel s o → SInv s → PConn.run s as = some (s', evs) → ∃ o', Obs.run o evs = some o' ∧ Inv s' ∧ Rel s' o' ∧ SInv s'
  | [], s, s', o, evs, hI, hR, hS, h => by
    simp only [PConn.run] at h
    injection h with h; injection h with h1 h2; subst h1; subst h2
    exact ⟨o, rfl, hI, hR, hS⟩
  | a :: as, s, s', o, evs, hI, hR, hS, h => by
    simp only [PConn.run] at h
    cases hs : PConn.step s a with
    | none => simp [hs] at h
    | some p =>
      obtain ⟨s1, e1⟩ := p
      simp only [hs] at h
      cases hr : PConn.run s1 as with
      | none => simp [hr] at h
      | some q =>
        obtain ⟨s2, e2⟩ := q
        simp only [hr] at h
        injection h with h; injection h with h1 h2; subst h1; subst h2
        obtain ⟨o1, g1, g2, g3, g4⟩ := step_refines hI hR hS hs
        obtain ⟨o2, k1, k2, k3, k4⟩ := run_refines as s1 s2 o1 e2 g2 g3 g4 hr
        exact ⟨o2, obs_run_append o e1 e2 o1 o2 g1 k1, k2, k3, k4⟩

theorem inv_init (b : Bool) : Inv (PConn.initB b : State κ) := by
  refine ⟨?_, ?_, ?_, ?_, ?_, ?_, ?_⟩ <;> intro a c h <;> simp [PConn.initB] at h

theorem rel_init (b : Bool) : Rel (PConn.initB b : State κ) (Obs.initB b : OState κ) := by
  refine ⟨rfl, ?_, ?_, ?_, ?_, rfl, rfl⟩
  · intro c cl h; simp [PConn.initB] at h
  · intro f; simp [Obs.initB, PConn.initB, absFlight]
  · intro f h; simp [Obs.initB] at h
  · intro k; simp [Obs.initB, PConn.initB, unann]

omit [DecidableEq κ] in
theorem sinv_init (b : Bool) : SInv (PConn.initB b : State κ) := by
  intro _ f fl h; simp [PConn.initB] at h

/-- reachable states satisfy the invariant, and the specification accepts the trace — with a cache that may purge
    for capacity (`b = false`) and with one that never does (`b = true`: every removal is justified) -/
theorem reachable {b : Bool} {as : List (Action κ)} {s : State κ} {tr : List (Ev κ)} (h : PConn.run (PConn.initB b) as = some (s, tr)) :
    ∃ o, Obs.run (Obs.initB b) tr = some o ∧ Inv s ∧ Rel s o := by
  obtain ⟨o, h1, h2, h3, _⟩ := run_refines as _ _ _ _ (inv_init b) (rel_init b) (sinv_init b) h
  exact ⟨o, h1, h2, h3⟩

end C14Conn
