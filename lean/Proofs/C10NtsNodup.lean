import Model.Placement
import Proofs.C10Nts
/-! C10 helper lemmas: networkTopology.replicaMap on a walk that meets every host at most once
(one token per node): replicas and skipped lists stay duplicate-free and disjoint. -/
namespace C10NtsNodup
open Placement C10Nts

/-- pigeonhole: a duplicate-free list contained in `r` is not longer than `r` -/
theorem nodup_subset_length_le {α : Type} [DecidableEq α] : ∀ (s r : List α), s.Nodup → (∀ x ∈ s, x ∈ r) →
    s.length ≤ r.length := by
  intro s
  induction s with
  | nil => intro r _ _; simp
  | cons a s ih =>
    intro r hnd hsub
    rw [List.nodup_cons] at hnd
    have ha : a ∈ r := hsub a (List.mem_cons_self ..)
    have := ih (r.erase a) hnd.2 (by
      intro x hx
      have hne : x ≠ a := by intro e; subst e; exact hnd.1 hx
      exact (List.mem_erase_of_ne hne).mpr (hsub x (List.mem_cons_of_mem _ hx)))
    rw [List.length_erase_of_mem ha] at this
    have hpos : 0 < r.length := List.length_pos_of_mem ha
    simp only [List.length_cons]; omega

structure J (pre : List Host) (st : NtsSt) : Prop where
  rnd : st.replicas.Nodup
  snd : ∀ d, (st.skipped d).Nodup
  dis : ∀ d, ∀ x ∈ st.skipped d, x ∉ st.replicas
  rp : ∀ x ∈ st.replicas, x ∈ pre
  sp : ∀ d, ∀ x ∈ st.skipped d, x ∈ pre

theorem j_init : J [] ntsInit :=
  ⟨by simp [ntsInit], by intro d; simp [ntsInit], by intro d x hx; simp [ntsInit] at hx,
   by intro x hx; simp [ntsInit] at hx, by intro d x hx; simp [ntsInit] at hx⟩

theorem j_mono (pre : List Host) (h : Host) (st : NtsSt) (j : J pre st) : J (pre ++ [h]) st :=
  ⟨j.rnd, j.snd, j.dis, fun x hx => List.mem_append_left _ (j.rp x hx),
   fun d x hx => List.mem_append_left _ (j.sp d x hx)⟩

theorem take_drop_disjoint {α : Type} (l : List α) (k : Nat) (hnd : l.Nodup) :
    ∀ x, x ∈ l.take k → x ∉ l.drop k := by
  intro x h1 h2
  have := hnd
  rw [← List.take_append_drop k l, List.nodup_append] at this
  exact this.2.2 x h1 x h2 rfl

theorem j_step (c : NtsCfg) (pre : List Host) (h : Host) (st : NtsSt) (g : Good c st) (j : J pre st)
    (hnew : h ∉ pre) : J (pre ++ [h]) (ntsStep c st h) := by
  have hnr : h ∉ st.replicas := fun hx => hnew (j.rp h hx)
  have hns : ∀ d, h ∉ st.skipped d := fun d hx => hnew (j.sp d h hx)
  rcases ntsStep_cases c st h with e | ⟨_, e⟩ | ⟨_, _, _, ⟨_, _, e⟩ | ⟨_, e⟩ | ⟨_, _, e⟩⟩
  · rw [e]; exact j_mono pre h st j
  · rw [e]; exact j_mono pre h _ ⟨j.rnd, j.snd, j.dis, j.rp, j.sp⟩
  · rw [e]
    refine ⟨?_, j.snd, ?_, ?_, fun d x hx => List.mem_append_left _ (j.sp d x hx)⟩
    · simp only [stA]
      rw [List.nodup_append]
      exact ⟨j.rnd, by simp, by intro a ha b hb; simp at hb; subst hb; intro e; subst e; exact hnr ha⟩
    · intro d x hx
      simp only [stA, List.mem_append, List.mem_singleton]
      rintro (hr | rfl)
      · exact j.dis d x hx hr
      · exact hns d hx
    · intro x hx
      simp only [stA, List.mem_append, List.mem_singleton] at hx
      rcases hx with hx | rfl
      · exact List.mem_append_left _ (j.rp x hx)
      · simp
  · rw [e]
    have hsk := j.snd h.dc
    refine ⟨?_, ?_, ?_, ?_, ?_⟩
    · simp only [stB]
      rw [List.nodup_append, List.nodup_append]
      refine ⟨⟨j.rnd, by simp, ?_⟩, List.Sublist.nodup (List.take_sublist _ _) hsk, ?_⟩
      · intro a ha b hb; simp at hb; subst hb; intro e; subst e; exact hnr ha
      · intro a ha b hb
        have hb' := List.mem_of_mem_take hb
        simp only [List.mem_append, List.mem_singleton] at ha
        rcases ha with ha | rfl
        · intro e; subst e; exact j.dis _ _ hb' ha
        · intro e; subst e; exact hns _ hb'
    · intro d
      by_cases hd : d = h.dc
      · subst hd; simp only [stB, upd_same]; exact List.Sublist.nodup (List.drop_sublist _ _) hsk
      · simp only [stB, upd_other _ _ _ _ hd]; exact j.snd d
    · intro d x hx
      simp only [stB, List.mem_append, List.mem_singleton]
      by_cases hd : d = h.dc
      · subst hd
        simp only [stB, upd_same] at hx
        have hx' := List.mem_of_mem_drop hx
        rintro ((hr | rfl) | ht)
        · exact j.dis _ x hx' hr
        · exact hns _ hx'
        · exact take_drop_disjoint _ _ hsk x ht hx
      · simp only [stB, upd_other _ _ _ _ hd] at hx
        rintro ((hr | rfl) | ht)
        · exact j.dis _ x hx hr
        · exact hns _ hx
        · have h1 := g.skdc _ x (List.mem_of_mem_take ht)
          have h2 := g.skdc d x hx
          exact hd (h2 ▸ h1)
    · intro x hx
      simp only [stB, List.mem_append, List.mem_singleton] at hx
      rcases hx with (hx | rfl) | hx
      · exact List.mem_append_left _ (j.rp x hx)
      · simp
      · exact List.mem_append_left _ (j.sp _ x (List.mem_of_mem_take hx))
    · intro d x hx
      by_cases hd : d = h.dc
      · subst hd
        simp only [stB, upd_same] at hx
        exact List.mem_append_left _ (j.sp _ x (List.mem_of_mem_drop hx))
      · simp only [stB, upd_other _ _ _ _ hd] at hx
        exact List.mem_append_left _ (j.sp d x hx)
  · rw [e]
    refine ⟨j.rnd, ?_, ?_, fun x hx => List.mem_append_left _ (j.rp x hx), ?_⟩
    · intro d
      by_cases hd : d = h.dc
      · subst hd
        simp only [stC, upd_same]
        rw [List.nodup_append]
        exact ⟨j.snd _, by simp, by intro a ha b hb; simp at hb; subst hb; intro e; subst e; exact hns _ ha⟩
      · simp only [stC, upd_other _ _ _ _ hd]; exact j.snd d
    · intro d x hx
      by_cases hd : d = h.dc
      · subst hd
        simp only [stC, upd_same, List.mem_append, List.mem_singleton] at hx
        rcases hx with hx | rfl
        · exact j.dis _ x hx
        · exact hnr
      · simp only [stC, upd_other _ _ _ _ hd] at hx
        exact j.dis d x hx
    · intro d x hx
      by_cases hd : d = h.dc
      · subst hd
        simp only [stC, upd_same, List.mem_append, List.mem_singleton] at hx
        rcases hx with hx | rfl
        · exact List.mem_append_left _ (j.sp _ x hx)
        · simp
      · simp only [stC, upd_other _ _ _ _ hd] at hx
        exact List.mem_append_left _ (j.sp d x hx)

theorem j_walk (c : NtsCfg) : ∀ (l pre : List Host) (st : NtsSt), (pre ++ l).Nodup → Good c st → J pre st →
    J (pre ++ l) (walk0 c st l) := by
  intro l
  induction l with
  | nil => intro pre st _ _ j; simpa [walk0] using j
  | cons h rest ih =>
    intro pre st hnd g j
    have hmono : ∀ s, J pre s → J (pre ++ h :: rest) s := fun s j =>
      ⟨j.rnd, j.snd, j.dis, fun x hx => List.mem_append_left _ (j.rp x hx),
       fun d x hx => List.mem_append_left _ (j.sp d x hx)⟩
    unfold walk0
    by_cases h1 : st.crash = true
    · simp only [h1, if_true]; exact hmono st j
    · simp only [h1, Bool.false_eq_true, if_false]
      by_cases h2 : st.replicas.length < c.totalRF ∧ haveRF c st = false
      · simp only [h2, and_self, if_true]
        have hnew : h ∉ pre := by
          intro hm
          rw [List.nodup_append] at hnd
          exact hnd.2.2 h hm h (List.mem_cons_self ..) rfl
        have := ih (pre ++ [h]) (ntsStep c st h) (by simpa using hnd) (good_step c st h g) (j_step c pre h st g j hnew)
        simpa using this
      · simp only [h2, if_false]; exact hmono st j

theorem rot_nodup {α : Type} (l : List α) (i : Nat) (h : l.Nodup) : (rot l i).Nodup := by
  unfold rot
  have h' := h
  rw [← List.take_append_drop i l, List.nodup_append] at h'
  rw [List.nodup_append]
  exact ⟨h'.2.1, h'.1, fun a ha b hb e => h'.2.2 b hb a ha e.symm⟩

theorem mem_rot {α : Type} (l : List α) (i : Nat) (x : α) : x ∈ rot l i ↔ x ∈ l := by
  unfold rot
  rw [List.mem_append]
  constructor
  · rintro (h | h); exact List.mem_of_mem_drop h; exact List.mem_of_mem_take h
  · intro h
    rw [← List.take_append_drop i l, List.mem_append] at h
    exact h.symm

end C10NtsNodup
