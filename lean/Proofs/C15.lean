import Proofs.C15Paging
/-!
# C15 — paged iteration yields every row exactly once, in order, and then stops

Model: `Model/Paging.lean` — conn.go executeQuery (request built from the Query, the rows / error /
UNPREPARED answers, the next-page query = copy with the received paging state), session.go
Scan/Scanner/MapScan/SliceMap page switching, the PageState manual-paging loop; the server is a script
(the k-th QUERY/EXECUTE is answered with the k-th reply; what each request carries is recorded).
Every theorem holds for every prefetch-position function `pp` (the float expression only decides WHEN
the one fetch of a page happens), for a cached or uncached prepared statement, prepared or unprepared,
skip-metadata or not, every page size.

Full property, request side:  ∀ script, the requests are `Spec.reqs` — each follow-up request carries
EXACTLY the paging state of the page before.  This does NOT hold on the unchanged code for a page
whose paging state is present but empty (`has_more_pages` set, `[bytes]` of length 0): conn.go sends a
paging state only `if len(qry.pageState) > 0`, so the follow-up request carries none (a server that
identifies pages by state would serve page 0 again: rows repeat for ever). Hence `C15_requests_partial`
with the hypothesis `NoEmptyState`, and the counterexample `C15_cex_empty_state` (KF-C15-1).
The row side (`C15_session_rows`) needs no exclusion.
-/
namespace C15
open Paging

/-- **Model = specification, rows and error, for every script** (any number of pages, EMPTY pages in
    any position, empty paging states, a failure or UNPREPARED anywhere): the application receives the
    pages' rows in order, each once, up to the first failure or the first page without has_more_pages;
    the final error is that failure (not a normal end). -/
theorem C15_session_rows (pp : Nat → Nat) (script : List Reply) (cached : Bool) (q : Qry)
    (hq : q.disableAutoPage = false) :
    (run pp script cached q).rows = Spec.rows script ∧ (run pp script cached q).err = Spec.err script :=
  run_rows_err pp script cached q hq

/-- **Model = specification, requests** (partial: no present-but-empty paging state in the script):
    the server receives exactly `Spec.reqs`: an optional PREPARE, the first request with the caller's
    state, then per page with has_more_pages ONE request that differs from the first only in carrying
    exactly that page's paging state (same statement/values/options `ident`, same opcode, same
    skip-metadata flag, same page size); the same request again after UNPREPARED; nothing after a
    failure or after the page that says it is last. -/
theorem C15_requests_partial (pp : Nat → Nat) (script : List Reply) (cached : Bool) (q : Qry)
    (hq : q.disableAutoPage = false) (hne : NoEmptyState script) :
    (run pp script cached q).reqs = Spec.reqs (template q) q.prepared script (!cached) (firstState q) :=
  run_reqs pp script cached q hq hne

/-- counterexample to the unrestricted request statement (KF-C15-1): page 0 = rows [1] with
    has_more_pages and an EMPTY paging state, page 1 = rows [2], last. The second request carries NO
    paging state although page 0 carried one (the empty string). Replay: `sessx v4 scan 0.25 10 q . 1:-;2:.` -/
theorem C15_cex_empty_state :
    let q : Qry := { ident := 0, prepared := false, skipMeta := false, pageSize := 10, pageState := [], disableAutoPage := false }
    let script := [Reply.page [1] (some []), Reply.page [2] none]
    (run (fun _ => 0) script false q).reqs = [template q none, template q none] ∧
    Spec.reqs (template q) q.prepared script true (firstState q) = [template q none, template q (some [])] ∧
    (run (fun _ => 0) script false q).reqs ≠ Spec.reqs (template q) q.prepared script true (firstState q) := by
  decide

/-- **Rows and requests, complete result.** For every list of pages with has_more_pages (any number,
    any of them EMPTY — first, middle — any paging states) followed by a last page (possibly empty):
    the rows delivered are the concatenation of all pages in order, each once, no error; and if no
    state is empty, request i+1 carries exactly the paging state of page i, there is exactly one
    request per page and none after the last page. -/
theorem C15_rows_requests (pp : Nat → Nat) (pages : List (List Int × Bytes)) (last : List Int) (tail : List Reply)
    (cached : Bool) (q : Qry) (hq : q.disableAutoPage = false) :
    let o := run pp (morePages pages ++ .page last none :: tail) cached q
    o.rows = (pages.map (·.1)).flatten ++ last ∧
    o.err = none ∧
    ((∀ p ∈ pages, p.2 ≠ []) → NoEmptyState tail →
      o.reqs = prep cached q ++ (firstState q :: pages.map (fun p => some p.2)).map (template q) ∧
      (o.reqs.filter Req.isExec).length = pages.length + 1) := by
  have h := run_rows_err pp (morePages pages ++ .page last none :: tail) cached q hq
  refine ⟨?_, ?_, ?_⟩
  · rw [h.1, spec_rows_more]; simp [Spec.rows]
  · rw [h.2, spec_err_more]; simp [Spec.err]
  · intro hp ht
    have hne : NoEmptyState (morePages pages ++ .page last none :: tail) :=
      noEmpty_more pages _ hp (by simpa [NoEmptyState] using ht)
    have hr := run_reqs pp _ cached q hq hne
    rw [spec_reqs_more (template q) q.prepared pages (.page last none) tail (Or.inl ⟨last, rfl⟩)] at hr
    have hreq : (run pp (morePages pages ++ .page last none :: tail) cached q).reqs
        = prep cached q ++ (firstState q :: pages.map (fun p => some p.2)).map (template q) := by
      rw [hr, prep_eq]
    refine ⟨hreq, ?_⟩
    rw [hreq, prep_eq]
    have hf : ∀ l : List (Option Bytes), ((l.map (template q)).filter Req.isExec).length = l.length := by
      intro l; induction l with
      | nil => rfl
      | cons a t ih =>
        have ha : Req.isExec (template q a) = true := rfl
        simp [List.filter_cons, ha, ih]
    rw [List.filter_append, List.length_append, hf]
    split <;> simp [Req.isExec]

/-- non-vacuity, with an EMPTY FIRST and an EMPTY MIDDLE page and an empty last page -/
example :
    let q : Qry := { ident := 7, prepared := true, skipMeta := true, pageSize := 2, pageState := [], disableAutoPage := false }
    let o := run (fun n => n / 2) [.page [] (some [9]), .page [1, 2] (some [0xaa]), .page [] (some [0xbb, 0]), .page [3] (some [0xcc]), .page [] none] false q
    o.rows = [1, 2, 3] ∧ o.err = none ∧
    o.reqs = [.prepare, template q none, template q (some [9]), template q (some [0xaa]), template q (some [0xbb, 0]), template q (some [0xcc])] := by
  decide

/-- **A failed fetch surfaces.** If the request for page j (after j pages with has_more_pages, any of
    them empty) fails — server error, connection closed, timeout, cancelled context — the consumer gets
    the rows of the pages before it, in order, and then THAT error (not a normal end); nothing is
    requested after the failure. -/
theorem C15_error_surfaces (pp : Nat → Nat) (pages : List (List Int × Bytes)) (f : Fail) (tail : List Reply)
    (cached : Bool) (q : Qry) (hq : q.disableAutoPage = false) :
    let o := run pp (morePages pages ++ .fail f :: tail) cached q
    o.rows = (pages.map (·.1)).flatten ∧
    o.err = some f ∧
    ((∀ p ∈ pages, p.2 ≠ []) → NoEmptyState tail →
      o.reqs = prep cached q ++ (firstState q :: pages.map (fun p => some p.2)).map (template q)) := by
  have h := run_rows_err pp (morePages pages ++ .fail f :: tail) cached q hq
  refine ⟨?_, ?_, ?_⟩
  · rw [h.1, spec_rows_more]; simp [Spec.rows]
  · rw [h.2, spec_err_more]; simp [Spec.err]
  · intro hp ht
    have hne : NoEmptyState (morePages pages ++ .fail f :: tail) :=
      noEmpty_more pages _ hp (by simpa [NoEmptyState] using ht)
    have hr := run_reqs pp _ cached q hq hne
    rw [spec_reqs_more (template q) q.prepared pages (.fail f) tail (Or.inr ⟨f, rfl⟩)] at hr
    rw [hr, prep_eq]

example :
    let q : Qry := { ident := 7, prepared := false, skipMeta := false, pageSize := 0, pageState := [], disableAutoPage := false }
    let o := run (fun n => n) [.page [1] (some [1]), .page [] (some [2]), .fail .timeout, .page [3] none] false q
    o.rows = [1] ∧ o.err = some .timeout ∧ o.reqs = [template q none, template q (some [1]), template q (some [2])] := by
  decide

/-- **Manual paging, one page.** With auto paging disabled (caller-supplied page state), whatever
    follows in the script: exactly one request, carrying the caller's state; the rows of that one
    page; no nextIter; the page's own state is exposed (`Iter.PageState`). A failure is the error. -/
theorem C15_manual (pp : Nat → Nat) (rest : List Reply) (cached : Bool) (q : Qry) (hq : q.disableAutoPage = true) :
    (∀ rows st,
      run pp (.page rows st :: rest) cached q = { rows := rows, reqs := prep cached q ++ [request q], err := none } ∧
      (pageIter pp q rows st).next = none ∧ (pageIter pp q rows st).pagingState = st.getD []) ∧
    (∀ f, run pp (.fail f :: rest) cached q = { rows := [], reqs := prep cached q ++ [request q], err := some f }) ∧
    request q = template q (firstState q) := by
  refine ⟨?_, ?_, request_eq q⟩
  · intro rows st
    cases st <;> simp [run, pageIter, hq]
  · intro f; simp [run, errIter]

/-- **Manual paging loop** (one Iter per page, `PageState(iter.PageState())` until empty): for every
    script without a present-but-empty state it delivers exactly what automatic paging delivers —
    all rows once in order, the failure as error — with exactly the specified requests. -/
theorem C15_manual_loop (pp : Nat → Nat) (script : List Reply) (cached : Bool) (q : Qry) (hne : NoEmptyState script) :
    (manual pp script cached q).rows = Spec.rows script ∧ (manual pp script cached q).err = Spec.err script ∧
    (manual pp script cached q).reqs = Spec.reqs (template q) q.prepared script (!cached) (firstState q) :=
  manual_spec pp script cached q hne

example :
    let q : Qry := { ident := 1, prepared := true, skipMeta := false, pageSize := 5, pageState := [0xcc, 0xdd], disableAutoPage := true }
    let o := manual (fun _ => 0) [.page [1, 2] (some [0xaa]), .page [] (some [0xbb]), .page [3] none] true q
    o.rows = [1, 2, 3] ∧ o.err = none ∧ o.reqs = [template q (some [0xcc, 0xdd]), template q (some [0xaa]), template q (some [0xbb])] := by
  decide

/-- the prefetch threshold is at least 1 for every value of the float expression, so the
    asynchronous fetch never starts before the first row of a page was consumed -/
theorem C15_prefetch_pos (pp : Nat → Nat) (n : Nat) : 1 ≤ clampPos pp n := by
  unfold clampPos; split <;> omega

/-- within a page, Scan delivers the row at `pos` and advances by one; it never skips or repeats -/
theorem C15_scan_row (it it' : Iter) (r : Int) (h : scanRow it = some (r, it')) :
    it.rows[it.pos]? = some r ∧ it'.pos = it.pos + 1 ∧ it'.rows = it.rows ∧ it.err = none := by
  unfold scanRow at h
  cases he : it.err with
  | some e => simp [he] at h
  | none =>
    simp only [he] at h
    cases hr : it.rows[it.pos]? with
    | none => simp [hr] at h
    | some r' =>
      simp only [hr] at h
      injection h with h; injection h with h1 h2
      subst h1; subst h2
      exact ⟨rfl, rfl, rfl, rfl⟩

end C15
