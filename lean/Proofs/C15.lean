import Proofs.C15Paging
/-!
# C15 — paged iteration yields every row exactly once, in order, and then stops (logical core)

Model: `Model/Paging.lean` (conn.go executeQuery's rows case, session.go Scan/Scanner/MapScan/SliceMap
page switching). Scripted cluster: page i carries paging state i+1 unless it is the last one; a
request with state i is answered with page i.
-/
namespace C15
open Paging

/-- **Rows and requests.** For every non-empty list of pages (any number, empty pages, empty last
    page), every prefetch-position function and enough fuel: the rows delivered are the concatenation
    of the pages in order, each once; request i+1 carries exactly the paging state of page i; there is
    exactly one request per page and none after the page without `has_more_pages`; no error. -/
theorem C15_rows_requests {ρ ε : Type} (pages : List (List ρ)) (hne : pages ≠ []) (e : ε) (pp : Nat → Nat)
    (fuel : Nat) (hf : pages.length ≤ fuel) :
    let o := iterate (script pages none e) pp false fuel none
    o.rows = pages.flatten ∧
    o.reqs = none :: (List.range' 1 (pages.length - 1)).map some ∧
    o.reqs.length = pages.length ∧
    o.err = none := by
  have hpos : 0 < pages.length := List.length_pos_iff.2 hne
  have h := drain_script pages e pp pages.length 0 (by omega) hpos fuel hf none rfl
  simp only [iterate]
  refine ⟨by simpa using h.1, by rw [h.2.1], ?_, h.2.2⟩
  rw [h.2.1]; simp; omega

example : (iterate (script [[1, 2], [], [3], []] none "boom") (fun _ => 0) false 10 none).rows = [1, 2, 3] ∧
          (iterate (script [[1, 2], [], [3], []] none "boom") (fun _ => 0) false 10 none).reqs = [none, some 1, some 2, some 3] := by
  decide

/-- **A failed fetch surfaces.** If fetching page j fails, the consumer gets the rows of the pages
    before j, in order, and then the error (not a normal end); nothing is requested after the failure. -/
theorem C15_error_surfaces {ρ ε : Type} (pages : List (List ρ)) (e : ε) (pp : Nat → Nat) (j : Nat)
    (hj : j < pages.length) (fuel : Nat) (hf : j + 1 ≤ fuel) :
    let o := iterate (script pages (some j) e) pp false fuel none
    o.rows = (pages.take j).flatten ∧
    o.reqs = none :: (List.range' 1 j).map some ∧
    o.err = some e := by
  have h := drain_script_fail pages e pp j hj j 0 (by omega) fuel hf none rfl
  simp only [iterate]
  exact ⟨by simpa using h.1, by rw [h.2.1], h.2.2⟩

example : (iterate (script [[1], [2], [3]] (some 1) "boom") (fun n => n) false 10 none).rows = [1] ∧
          (iterate (script [[1], [2], [3]] (some 1) "boom") (fun n => n) false 10 none).err = some "boom" := by decide

/-- **Manual paging.** With auto paging disabled (caller-supplied page state), whatever the cluster
    answers: exactly one request, carrying the caller's state; the rows of that one page; no nextIter
    (the page's own state stays available in the metadata, `Iter.PageState`). -/
theorem C15_manual {ρ σ ε : Type} (exec : Exec ρ σ ε) (pp : Nat → Nat) (fuel : Nat) (first : Option σ) :
    let it := executeQuery exec pp true first
    it.next = none ∧
    (iterate exec pp true (fuel + 1) first).reqs = [first] ∧
    (∀ rows st, exec first = .ok (rows, st) →
        (iterate exec pp true (fuel + 1) first).rows = rows ∧ (iterate exec pp true (fuel + 1) first).err = none) ∧
    (∀ e, exec first = .error e → (iterate exec pp true (fuel + 1) first).err = some e) := by
  refine ⟨?_, ?_, ?_, ?_⟩
  · unfold executeQuery; cases exec first with
    | error e => rfl
    | ok p => cases p with | mk rows st => cases st <;> rfl
  · unfold iterate executeQuery; cases exec first with
    | error e => simp [drain]
    | ok p => cases p with | mk rows st => cases st <;> simp [drain]
  · intro rows st h
    unfold iterate executeQuery; rw [h]; cases st <;> simp [drain]
  · intro e h
    unfold iterate executeQuery; rw [h]; simp [drain]

/-- the prefetch threshold is at least 1 for every value of the float expression, so the
    asynchronous fetch never starts before the first row of a page was consumed -/
theorem C15_prefetch_pos (pp : Nat → Nat) (n : Nat) : 1 ≤ clampPos pp n := by
  unfold clampPos; split <;> omega

/-- within a page, Scan delivers the row at `pos` and advances by one; it never skips or repeats -/
theorem C15_scan_row {ρ σ ε : Type} (it it' : Iter ρ σ ε) (r : ρ) (h : scanRow it = some (r, it')) :
    it.rows[it.pos]? = some r ∧ it'.pos = it.pos + 1 ∧ it'.rows = it.rows ∧ it.err = none := by
  unfold scanRow at h
  cases he : it.err with
  | some e => simp [he] at h
  | none =>
    simp only [he] at h
    cases hr : it.rows[it.pos]? with
    | none => simp [hr] at h
    | some r' =>
      simp only [hr] at h
      injection h with h; injection h with h1 h2
      subst h1; subst h2
      exact ⟨rfl, rfl, rfl, rfl⟩

end C15
