import Proofs.C15Paging
import Proofs.C15Hist
import Proofs.C15Retry
import Proofs.C15Walk
import Proofs.C15First
import Proofs.C15Prep
/-!
# C15 — paged iteration yields every row exactly once, in order, and then stops

Model: `Model/Paging.lean` — conn.go executeQuery (request built from the Query, the rows / error /
UNPREPARED answers, the next-page query = copy with the received paging state), session.go
Scan/Scanner/MapScan/SliceMap page switching, the PageState manual-paging loop; the server is a script
(the k-th QUERY/EXECUTE is answered with the k-th reply; what each request carries is recorded).
Every theorem holds for every prefetch-position function `pp` (the float expression only decides WHEN
the one fetch of a page happens), for a cached or uncached prepared statement, prepared or unprepared,
skip-metadata or not, every page size.

Full property, request side:  ∀ script, the requests are `Spec.reqs` — each follow-up request carries
EXACTLY the paging state of the page before.  This does NOT hold on the unchanged code for a page
whose paging state is present but empty (`has_more_pages` set, `[bytes]` of length 0): conn.go sends a
paging state only `if len(qry.pageState) > 0`, so the follow-up request carries none (a server that
identifies pages by state would serve page 0 again: rows repeat for ever). Hence `C15_requests_partial`
with the hypothesis `NoEmptyState`, and the counterexample `C15_cex_empty_state` (KF-C15-1).
The row side (`C15_session_rows`) needs no exclusion.
-/
namespace C15
open Paging

/-- **Model = specification, rows and error, for every script** (any number of pages, EMPTY pages in
    any position, empty paging states, a failure or UNPREPARED anywhere): the application receives the
    pages' rows in order, each once, up to the first failure or the first page without has_more_pages;
    the final error is that failure (not a normal end). -/
theorem C15_session_rows (pp : Nat → Nat) (script : List Reply) (cached : Bool) (q : Qry)
    (hq : q.disableAutoPage = false) :
    (run pp script cached q).rows = Spec.rows script ∧ (run pp script cached q).err = Spec.err script :=
  run_rows_err pp script cached q hq

/-- **Model = specification, requests** (partial: no present-but-empty paging state in the script):
    the server receives exactly `Spec.reqs`: an optional PREPARE, the first request with the caller's
    state, then per page with has_more_pages ONE request that differs from the first only in carrying
    exactly that page's paging state (same statement/values/options `ident`, same opcode, same
    skip-metadata flag, same page size); the same request again after UNPREPARED; nothing after a
    failure or after the page that says it is last. -/
theorem C15_requests_partial (pp : Nat → Nat) (script : List Reply) (cached : Bool) (q : Qry)
    (hq : q.disableAutoPage = false) (hne : NoEmptyState script) :
    (run pp script cached q).reqs = Spec.reqs (template q) q.prepared script (!cached) (firstState q) :=
  run_reqs pp script cached q hq hne

/-- counterexample to the unrestricted request statement (KF-C15-1): page 0 = rows [1] with
    has_more_pages and an EMPTY paging state, page 1 = rows [2], last. The second request carries NO
    paging state although page 0 carried one (the empty string). Replay: `sessx v4 scan 0.25 10 q . 1:-;2:.` -/
theorem C15_cex_empty_state :
    let q : Qry := { ident := 0, prepared := false, skipMeta := false, pageSize := 10, pageState := [], disableAutoPage := false }
    let script := [Reply.page [1] (some []), Reply.page [2] none]
    (run (fun _ => 0) script false q).reqs = [template q none, template q none] ∧
    Spec.reqs (template q) q.prepared script true (firstState q) = [template q none, template q (some [])] ∧
    (run (fun _ => 0) script false q).reqs ≠ Spec.reqs (template q) q.prepared script true (firstState q) := by
  decide

/-- **Rows and requests, complete result.** For every list of pages with has_more_pages (any number,
    any of them EMPTY — first, middle — any paging states) followed by a last page (possibly empty):
    the rows delivered are the concatenation of all pages in order, each once, no error; and if no
    state is empty, request i+1 carries exactly the paging state of page i, there is exactly one
    request per page and none after the last page. -/
theorem C15_rows_requests (pp : Nat → Nat) (pages : List (List Int × Bytes)) (last : List Int) (tail : List Reply)
    (cached : Bool) (q : Qry) (hq : q.disableAutoPage = false) :
    let o := run pp (morePages pages ++ .page last none :: tail) cached q
    o.rows = (pages.map (·.1)).flatten ++ last ∧
    o.err = none ∧
    ((∀ p ∈ pages, p.2 ≠ []) → NoEmptyState tail →
      o.reqs = prep cached q ++ (firstState q :: pages.map (fun p => some p.2)).map (template q) ∧
      (o.reqs.filter Req.isExec).length = pages.length + 1) := by
  have h := run_rows_err pp (morePages pages ++ .page last none :: tail) cached q hq
  refine ⟨?_, ?_, ?_⟩
  · rw [h.1, spec_rows_more]; simp [Spec.rows]
  · rw [h.2, spec_err_more]; simp [Spec.err]
  · intro hp ht
    have hne : NoEmptyState (morePages pages ++ .page last none :: tail) :=
      noEmpty_more pages _ hp (by simpa [NoEmptyState] using ht)
    have hr := run_reqs pp _ cached q hq hne
    rw [spec_reqs_more (template q) q.prepared pages (.page last none) tail (Or.inl ⟨last, rfl⟩)] at hr
    have hreq : (run pp (morePages pages ++ .page last none :: tail) cached q).reqs
        = prep cached q ++ (firstState q :: pages.map (fun p => some p.2)).map (template q) := by
      rw [hr, prep_eq]
    refine ⟨hreq, ?_⟩
    rw [hreq, prep_eq]
    have hf : ∀ l : List (Option Bytes), ((l.map (template q)).filter Req.isExec).length = l.length := by
      intro l; induction l with
      | nil => rfl
      | cons a t ih =>
        have ha : Req.isExec (template q a) = true := rfl
        simp [List.filter_cons, ha, ih]
    rw [List.filter_append, List.length_append, hf]
    split <;> simp [Req.isExec]

/-- non-vacuity, with an EMPTY FIRST and an EMPTY MIDDLE page and an empty last page -/
example :
    let q : Qry := { ident := 7, prepared := true, skipMeta := true, pageSize := 2, pageState := [], disableAutoPage := false }
    let o := run (fun n => n / 2) [.page [] (some [9]), .page [1, 2] (some [0xaa]), .page [] (some [0xbb, 0]), .page [3] (some [0xcc]), .page [] none] false q
    o.rows = [1, 2, 3] ∧ o.err = none ∧
    o.reqs = [.prepare, template q none, template q (some [9]), template q (some [0xaa]), template q (some [0xbb, 0]), template q (some [0xcc])] := by
  decide

/-- **A failed fetch surfaces.** If the request for page j (after j pages with has_more_pages, any of
    them empty) fails — server error, connection closed, timeout, cancelled context — the consumer gets
    the rows of the pages before it, in order, and then THAT error (not a normal end); nothing is
    requested after the failure. -/
theorem C15_error_surfaces (pp : Nat → Nat) (pages : List (List Int × Bytes)) (f : Fail) (tail : List Reply)
    (cached : Bool) (q : Qry) (hq : q.disableAutoPage = false) :
    let o := run pp (morePages pages ++ .fail f :: tail) cached q
    o.rows = (pages.map (·.1)).flatten ∧
    o.err = some f ∧
    ((∀ p ∈ pages, p.2 ≠ []) → NoEmptyState tail →
      o.reqs = prep cached q ++ (firstState q :: pages.map (fun p => some p.2)).map (template q)) := by
  have h := run_rows_err pp (morePages pages ++ .fail f :: tail) cached q hq
  refine ⟨?_, ?_, ?_⟩
  · rw [h.1, spec_rows_more]; simp [Spec.rows]
  · rw [h.2, spec_err_more]; simp [Spec.err]
  · intro hp ht
    have hne : NoEmptyState (morePages pages ++ .fail f :: tail) :=
      noEmpty_more pages _ hp (by simpa [NoEmptyState] using ht)
    have hr := run_reqs pp _ cached q hq hne
    rw [spec_reqs_more (template q) q.prepared pages (.fail f) tail (Or.inr ⟨f, rfl⟩)] at hr
    rw [hr, prep_eq]

example :
    let q : Qry := { ident := 7, prepared := false, skipMeta := false, pageSize := 0, pageState := [], disableAutoPage := false }
    let o := run (fun n => n) [.page [1] (some [1]), .page [] (some [2]), .fail .timeout, .page [3] none] false q
    o.rows = [1] ∧ o.err = some .timeout ∧ o.reqs = [template q none, template q (some [1]), template q (some [2])] := by
  decide

/-- **Manual paging, one page.** With auto paging disabled (caller-supplied page state), whatever
    follows in the script: exactly one request, carrying the caller's state; the rows of that one
    page; no nextIter; the page's own state is exposed (`Iter.PageState`). A failure is the error. -/
theorem C15_manual (pp : Nat → Nat) (rest : List Reply) (cached : Bool) (q : Qry) (hq : q.disableAutoPage = true) :
    (∀ rows st,
      run pp (.page rows st :: rest) cached q = { rows := rows, reqs := prep cached q ++ [request q], err := none } ∧
      (pageIter pp q rows st).next = none ∧ (pageIter pp q rows st).pagingState = st.getD []) ∧
    (∀ f, run pp (.fail f :: rest) cached q = { rows := [], reqs := prep cached q ++ [request q], err := some f }) ∧
    request q = template q (firstState q) := by
  refine ⟨?_, ?_, request_eq q⟩
  · intro rows st
    cases st <;> simp [run, pageIter, hq]
  · intro f; simp [run, errIter]

/-- **Manual paging loop** (one Iter per page, `PageState(iter.PageState())` until empty): for every
    script without a present-but-empty state it delivers exactly what automatic paging delivers —
    all rows once in order, the failure as error — with exactly the specified requests. -/
theorem C15_manual_loop (pp : Nat → Nat) (script : List Reply) (cached : Bool) (q : Qry) (hne : NoEmptyState script) :
    (manual pp script cached q).rows = Spec.rows script ∧ (manual pp script cached q).err = Spec.err script ∧
    (manual pp script cached q).reqs = Spec.reqs (template q) q.prepared script (!cached) (firstState q) :=
  manual_spec pp script cached q hne

example :
    let q : Qry := { ident := 1, prepared := true, skipMeta := false, pageSize := 5, pageState := [0xcc, 0xdd], disableAutoPage := true }
    let o := manual (fun _ => 0) [.page [1, 2] (some [0xaa]), .page [] (some [0xbb]), .page [3] none] true q
    o.rows = [1, 2, 3] ∧ o.err = none ∧ o.reqs = [template q (some [0xcc, 0xdd]), template q (some [0xaa]), template q (some [0xbb])] := by
  decide

/-- the prefetch threshold is at least 1 for every value of the float expression, so the
    asynchronous fetch never starts before the first row of a page was consumed -/
theorem C15_prefetch_pos (pp : Nat → Nat) (n : Nat) : 1 ≤ clampPos pp n := by
  unfold clampPos; split <;> omega

/-- within a page, Scan delivers the row at `pos` and advances by one; it never skips or repeats -/
theorem C15_scan_row (it it' : Iter) (r : Int) (h : scanRow it = some (r, it')) :
    it.rows[it.pos]? = some r ∧ it'.pos = it.pos + 1 ∧ it'.rows = it.rows ∧ it.err = none := by
  unfold scanRow at h
  cases he : it.err with
  | some e => simp [he] at h
  | none =>
    simp only [he] at h
    cases hr : it.rows[it.pos]? with
    | none => simp [hr] at h
    | some r' =>
      simp only [hr] at h
      injection h with h; injection h with h1 h2
      subst h1; subst h2
      exact ⟨rfl, rfl, rfl, rfl⟩

/-! ## Histories on one Query object (`Model/PagingHist.lean`): object reuse, decorations of the query and
    of its context, interleaved iterators, the asynchronous prefetch as a scheduler step

Full property: ∀ history of setter calls (Bind, PageSize, Prefetch, PageState, NoSkipMetadata, WithContext,
Idempotent, SetSpeculativeExecutionPolicy, every verbatim option, Release + new Query), Iter() calls, Scan
calls on any iterator in any interleaving, prefetch completions at any moment: every iterator delivers
exactly the rows of ITS snapshot's result, requests its pages with ITS values/options and states, and ends
with the failure of its own fetch — whatever happened to the Query object after its Iter() call. This holds
on the unchanged code (no `_partial` needed): every setter replaces a field of the object, the next-page
query is a copy taken when the page arrived. (A caller that mutates IN PLACE the slice it passed as
`values...` or the map it passed to CustomPayload changes what later pages send: the copy is shallow. That
is outside the model: values and options are immutable numbers here.) -/
open Paging.Hist in
/-- **An iterator depends only on its snapshot.** For every history without cancellation, from a world
    with no iterators: an iterator that has ended (Scan returned false) has delivered exactly the rows, has
    sent exactly the QUERY/EXECUTE requests and has exactly the final error of `run` on the Query as it was
    at ITS Iter() call (`snap`) against the node's answers to that snapshot (`script`) — none of which
    mentions the rest of the history: later Bind / PageSize / PageState / Consistency / Prefetch /
    WithContext / Release, other iterators started from the same object and consumed in any interleaving,
    and the moments at which prefetches complete are all irrelevant. -/
theorem C15_iter_independent_of_rebind (srv : Nat → Bytes → List Reply) (ppOf : Int → Nat → Nat)
    (w0 : World) (h : List Step) (h0 : w0.its = []) (hc : w0.env.cancelled = []) (hnc : ∀ s ∈ h, noCancel s) :
    ∀ it ∈ (exec srv ppOf w0 h).its, finished it →
      it.out = (run (ppOf it.snap.pf) it.script false it.snap).rows ∧
      it.cur.err = (run (ppOf it.snap.pf) it.script false it.snap).err ∧
      it.reqs.filter Req.isExec = (run (ppOf it.snap.pf) it.script false it.snap).reqs.filter Req.isExec := by
  intro it hit hfin
  have hinv : Inv ppOf w0 := ⟨hc, by intro y hy; rw [h0] at hy; cases hy⟩
  have h1 := (exec_inv srv ppOf h w0 hinv hnc).2 it hit
  rw [tot_finished ppOf it hfin] at h1
  simp only [target, obs3, Prod.mk.injEq] at h1
  exact ⟨h1.1, h1.2.2, h1.2.1⟩

open Paging.Hist in
/-- the same against the independent specification: with automatic paging the rows are the pages of the
    snapshot's script in order, each once, up to its first failure, the error is that failure, and (no
    present-but-empty state, KF-C15-1) the requests are the first one plus one per page carrying exactly
    that page's state and otherwise the snapshot's statement, values, options and page size -/
theorem C15_history_rows_spec (srv : Nat → Bytes → List Reply) (ppOf : Int → Nat → Nat)
    (w0 : World) (h : List Step) (h0 : w0.its = []) (hc : w0.env.cancelled = []) (hnc : ∀ s ∈ h, noCancel s) :
    ∀ it ∈ (exec srv ppOf w0 h).its, finished it → it.snap.disableAutoPage = false →
      it.out = Spec.rows it.script ∧ it.cur.err = Spec.err it.script ∧
      (NoEmptyState it.script → it.reqs.filter Req.isExec =
        (Spec.reqs (template it.snap) it.snap.prepared it.script true (firstState it.snap)).filter Req.isExec) := by
  intro it hit hfin hq
  have h1 := C15_iter_independent_of_rebind srv ppOf w0 h h0 hc hnc it hit hfin
  have h2 := run_rows_err (ppOf it.snap.pf) it.script false it.snap hq
  refine ⟨h1.1.trans h2.1, h1.2.1.trans h2.2, ?_⟩
  intro hne
  rw [h1.2.2, run_reqs (ppOf it.snap.pf) it.script false it.snap hq hne]
  rfl

open Paging.Hist in
/-- **Where the snapshot comes from, and that nothing touches it.** Iter() appends an iterator whose
    snapshot is the object as it is at that moment (with the context of `q.WithContext(c).Iter()`) and whose
    script is the node's answer list for exactly that snapshot; every other step leaves the number of
    iterators unchanged; no step ever changes the snapshot or the script of an existing iterator. -/
theorem C15_snapshot (srv : Nat → Bytes → List Reply) (ppOf : Int → Nat → Nat) (w : World) (s : Step) :
    (∀ c, s = .iter c → ∃ it : It, (step srv ppOf w s).its = w.its ++ [it] ∧ it.snap = iterQry w.obj c ∧
        it.script = srv it.snap.ident it.snap.pageState ∧ it.out = []) ∧
    ((∀ c, s ≠ .iter c) → (step srv ppOf w s).its.length = w.its.length) ∧
    (∀ (i : Nat) (it : It), w.its[i]? = some it →
      ∃ it' : It, (step srv ppOf w s).its[i]? = some it' ∧ it'.snap = it.snap ∧ it'.script = it.script) := by
  refine ⟨?_, ?_, ?_⟩
  · intro c hs; subst hs
    exact ⟨_, rfl, rfl, rfl, rfl⟩
  · intro hs
    cases s with
    | iter c => exact absurd rfl (hs c)
    | scan i n => simp only [step]; cases w.its[i]? <;> simp
    | prefetched i => simp only [step]; cases w.its[i]? <;> simp
    | _ => rfl
  · intro i it hi
    cases s with
    | iter c =>
      refine ⟨it, ?_, rfl, rfl⟩
      simp only [step]
      rw [List.getElem?_append_left (List.getElem?_eq_some_iff.1 hi).1]; exact hi
    | scan j n =>
      simp only [step]
      cases hj : w.its[j]? with
      | none => exact ⟨it, hi, rfl, rfl⟩
      | some itj =>
        by_cases hij : j = i
        · subst hij
          rw [hi] at hj; cases hj
          have hlt := (List.getElem?_eq_some_iff.1 hi).1
          have hs := (scanN_same ppOf n w.env it)
          refine ⟨(scanN ppOf n w.env it).1, by simp [hlt], ?_, ?_⟩
          · exact scanN_snap ppOf n w.env it |>.1
          · exact scanN_snap ppOf n w.env it |>.2
        · refine ⟨it, ?_, rfl, rfl⟩
          simp [List.getElem?_set_ne hij, hi]
    | prefetched j =>
      simp only [step]
      cases hj : w.its[j]? with
      | none => exact ⟨it, hi, rfl, rfl⟩
      | some itj =>
        by_cases hij : j = i
        · subst hij
          rw [hi] at hj; cases hj
          have hlt := (List.getElem?_eq_some_iff.1 hi).1
          refine ⟨(force ppOf w.env it).1, by simp [hlt], ?_, ?_⟩
          · exact (force_snap ppOf w.env it).1
          · exact (force_snap ppOf w.env it).2
        · refine ⟨it, ?_, rfl, rfl⟩
          simp [List.getElem?_set_ne hij, hi]
    | _ => exact ⟨it, hi, rfl, rfl⟩

open Paging.Hist in
/-- **Frame.** A step that is neither a Scan on iterator `i` nor the completion of ITS prefetch — every
    setter, Bind, Release, Iter(), Scan calls and prefetches of OTHER iterators, even a cancellation —
    leaves iterator `i` exactly as it was (current page, position, pending next-page query, rows delivered,
    requests sent). -/
theorem C15_history_frame (srv : Nat → Bytes → List Reply) (ppOf : Int → Nat → Nat) (w : World) (s : Step) (i : Nat)
    (hi : i < w.its.length) (hs : (∀ n, s ≠ .scan i n) ∧ s ≠ .prefetched i) :
    (step srv ppOf w s).its[i]? = w.its[i]? := by
  cases s with
  | iter c => simp only [step]; exact List.getElem?_append_left hi
  | scan j n =>
    have hij : j ≠ i := fun h => hs.1 n (by rw [h])
    simp only [step]
    cases w.its[j]? with
    | none => rfl
    | some itj => simp [List.getElem?_set_ne hij]
  | prefetched j =>
    have hij : j ≠ i := fun h => hs.2 (by rw [h])
    simp only [step]
    cases w.its[j]? with
    | none => rfl
    | some itj => simp [List.getElem?_set_ne hij]
  | _ => rfl

open Paging.Hist in
/-- **Both executor paths fetch the same.** Whether queryExecutor.executeQuery takes the plain path or the
    speculative one (idempotent query, Attempts() > 0: executions run with a cancellable CHILD of the
    query's context that is dead once executeQuery has returned), the fetch is: nothing sent and
    `context canceled` if the caller's context is done, otherwise conn.executeQuery of the unchanged query.
    And the next-page query of the page it returns is the executed query with ONLY the paging state
    replaced — in particular its context is the caller's, not the executor's child. -/
theorem C15_executor_paths_agree (ppOf : Int → Nat → Nat) (e : Env) (script : List Reply) (q : Qry) :
    (sessExec ppOf e script q).1 =
      (if callerDead e q.ctx then ⟨errIter .ctx, script, []⟩ else connExec (ppOf q.pf) script e.cached q) ∧
    (∀ n, (sessExec ppOf e script q).1.iter.next = some n → n.qry = { q with pageState := n.qry.pageState }) := by
  have hfetch := sessExec_fst ppOf e script q
  refine ⟨hfetch, ?_⟩
  rw [hfetch]
  cases hd : callerDead e q.ctx with
  | true => intro n hn; simp [errIter] at hn
  | false =>
    simp only [Bool.false_eq_true, if_false]
    exact connExec_next_copy (ppOf q.pf) script e.cached q

open Paging.Hist in
/-- **A cancellation between pages surfaces.** If the caller's context of the pending next-page query is
    cancelled before that page was fetched (no prefetch has happened), the one fetch of the next page sends
    nothing and yields `context canceled`; from there the iterator delivers the remaining rows of the
    current page and then ends with THAT error, not normally (`fut`), and no further request is sent; in
    particular when the current page is exhausted the next Scan returns false with the error set. -/
theorem C15_cancel_surfaces (ppOf : Int → Nat → Nat) (e : Env) (it : It) (n : NextIter)
    (he : it.cur.err = none) (hp : it.pre = none) (hn : it.cur.next = some n) (hd : callerDead e n.qry.ctx = true) :
    (force ppOf e it).1.pre = some (errIter .ctx) ∧ (force ppOf e it).1.reqs = it.reqs ∧
    (force ppOf e it).1.rest = it.rest ∧
    fut ppOf (force ppOf e it).1 = ⟨it.cur.rows.drop it.cur.pos, [], some .ctx⟩ ∧
    (it.cur.rows[it.cur.pos]? = none → ∀ k,
      (scanF ppOf (k + 2) e it).2.2 = false ∧ (scanF ppOf (k + 2) e it).1.cur.err = some .ctx ∧
      (scanF ppOf (k + 2) e it).1.out = it.out ∧ (scanF ppOf (k + 2) e it).1.reqs = it.reqs) := by
  have hx := (C15_executor_paths_agree ppOf e it.rest n.qry).1
  rw [hd] at hx
  simp only [if_true] at hx
  rw [force_eq ppOf e it n he hp hn, hx]
  refine ⟨rfl, by simp, rfl, ?_, ?_⟩
  · simp [fut, he, hn, futPage, errIter]
  · intro hrow k
    have hsr : scanRow it.cur = none := by simp [scanRow, he, hrow]
    have hsr2 : scanRow { err := some Fail.ctx, pos := 0, rows := [], next := none, pagingState := [] } = none := by
      simp [scanRow]
    simp [scanF, hsr, he, hn, force_eq ppOf e it n he hp hn, hx, hsr2, errIter]

open Paging.Hist in
/-- **A Scan that returns false has ended the iterator** (the recursion of Scan through page switches —
    empty pages, a prefetched page, failed fetches — always terminates within the model's fuel): after it,
    the iterator carries its error or has neither a row nor a next page left. This is the `finished` of
    `C15_iter_independent_of_rebind`: every drained iterator satisfies it. -/
theorem C15_scan_false_is_finished (ppOf : Int → Nat → Nat) (e : Env) (it : It)
    (h : (scanF ppOf (scanFuel it) e it).2.2 = false) : finished (scanF ppOf (scanFuel it) e it).1 :=
  scanF_fuel ppOf e it h

/-- non-vacuity: Bind(1).Iter(), one row consumed, Bind(2) + Idempotent + speculative policy on the SAME
    object, a second Iter() drained first, a prefetch of the first iterator, then the first drained: each
    iterator delivers the rows of its own key and asks for its page 2 with its own values and state -/
example :
    let srv : Nat → Bytes → List Reply := fun k st =>
      let sc : List Reply := [.page [(k : Int) * 100 + 1, (k : Int) * 100 + 2] (some [UInt8.ofNat k, 1]), .page [(k : Int) * 100 + 3] none]
      if st = [] then sc else sc.drop 1
    let q0 : Qry := { ident := 1, prepared := true, skipMeta := true, pageSize := 2, pageState := [], disableAutoPage := false }
    let w0 : Hist.World := { obj := q0, its := [], env := { cancelled := [], execs := 0, cached := false } }
    let w := Hist.exec srv (fun _ n => n) w0
      [.iter none, .scan 0 1, .bind 2, .idem true, .spec 1, .iter none, .scan 1 9, .prefetched 0, .scan 0 9]
    w.its.map (·.out) = [[101, 102, 103], [201, 202, 203]] ∧ w.its.map (·.cur.err) = [none, none] ∧
    w.its.map (·.reqs) = [[.prepare, .exec 1 true true none (some 2), .exec 1 true true (some [1, 1]) (some 2)],
                          [.exec 2 true true none (some 2), .exec 2 true true (some [2, 1]) (some 2)]] ∧
    w.env.execs = 2 := by
  decide

/-- non-vacuity of the cancellation statement: context 7 is cancelled after the first page arrived -/
example :
    let srv : Nat → Bytes → List Reply := fun _ _ => [.page [1, 2] (some [9]), .page [3] none]
    let q0 : Qry := { ident := 1, prepared := false, skipMeta := false, pageSize := 0, pageState := [], disableAutoPage := false, ctx := some 7 }
    let w0 : Hist.World := { obj := q0, its := [], env := { cancelled := [], execs := 0, cached := false } }
    let w := Hist.exec srv (fun _ n => n) w0 [.iter none, .scan 0 1, .cancel 7, .scan 0 9]
    w.its.map (·.out) = [[1, 2]] ∧ w.its.map (·.cur.err) = [some .ctx] ∧
    w.its.map (·.reqs) = [[.exec 1 false false none none]] := by
  decide

/-! ## Retry tier: faults at page fetches × the executor's retry decisions (Model/PagingRetry.lean)

Full property: ∀ script (every fault at every fetch, every decision about every failed attempt, every
policy, 1..n hosts, every consumer incl. the manual loop): the rows delivered are a PREFIX of the full
result and EITHER all of it was delivered OR the consumer is told an error. On the unchanged code this
does NOT hold when a fetch is answered with a RESULT that is not rows (conn.go `case *resultVoidFrame`:
an Iter without rows, error and next page — the iteration ends normally): hypothesis `NoVoid`,
counterexample `C15_cex_wrong_kind` (proposed finding KF-C15-3); and, for the manual loop only, with a
present-but-empty paging state (KF-C15-1, the application's loop stops at an empty `PageState()`).
What `Ignore` means for a page fetch: policies.go documents it as "ignore error and return result"; a
failed page fetch has no result, and queryExecutor.do hands the Iter back WITH its error for Ignore exactly
as for Rethrow (`C15_ignore_is_rethrow`), so the unchanged code never ends silently under Ignore. -/
open PagingRetry in
/-- **No silent truncation, for all fault / decision sequences.** Whatever the script (failures of any
    kind before any page, UNPREPARED anywhere), whatever the policy does (any function of Attempts(), the
    failure and the scripted decision; or no policy), any number of hosts, automatic or manual paging: the
    rows the consumer receives are a prefix of the full result, and if it is told no error they ARE the
    full result. -/
theorem C15_no_silent_truncation (pol : Option Policy) (nodes : Nat) (q0 : Qry) (manualC : Bool)
    (script : List RReply) (cached : Bool) (att hosts : Nat) (q : Qry)
    (hv : NoVoid script) (he : manualC = false ∨ NoEmptyStateR script) :
    let o := runR pol nodes q0 manualC script cached att hosts q
    o.rows <+: full script ∧ (o.err = none → o.rows = full script) :=
  C15Retry.rows_prefix_full pol nodes q0 manualC script cached att hosts q hv he

open PagingRetry in
/-- **A retried fetch asks for the same page.** Every QUERY/EXECUTE the cluster receives carries the paging
    state of the last page served before it (none before the first page): a retry — same host or next host,
    with or without a changed consistency — repeats the state of the failed attempt, the fetch after a page
    carries that page's state (script without present-but-empty states, KF-C15-1). -/
theorem C15_retry_same_state (pol : Option Policy) (nodes : Nat) (q0 : Qry) (manualC : Bool)
    (script : List RReply) (cached : Bool) (att hosts : Nat) (q : Qry) (he : NoEmptyStateR script) :
    (runR pol nodes q0 manualC script cached att hosts q).reqs.filterMap reqState <+: stateSeq script (firstState q) :=
  C15Retry.req_states pol nodes q0 manualC script cached att hosts q he

open PagingRetry in
/-- **Without a retry policy the retry model IS the base model** (so every theorem about `run` above speaks
    about it), and the policy is never asked. -/
theorem C15_retry_none_is_base (pp : Nat → Nat) (nodes : Nat) (q0 : Qry) (script : List Reply) (cached : Bool)
    (att hosts : Nat) (q : Qry) (hq : q.disableAutoPage = false) :
    let o := runR none nodes q0 false (script.map emb) cached att hosts q
    (⟨o.rows, o.reqs, o.err⟩ : Out) = run pp script cached q ∧ o.atts = [] :=
  C15Retry.none_is_base pp nodes q0 script cached att hosts q hq

open PagingRetry in
/-- **Ignore = Rethrow for a fetch.** Replacing every scripted Ignore by Rethrow changes nothing the
    application or the cluster can observe (any budget). -/
theorem C15_ignore_is_rethrow (budget : Option Nat) (nodes : Nat) (q0 : Qry) (manualC : Bool)
    (script : List RReply) (cached : Bool) (att hosts : Nat) (q : Qry) :
    runR (some (scripted budget)) nodes q0 manualC (script.map C15Retry.ignoreToRethrow) cached att hosts q =
    runR (some (scripted budget)) nodes q0 manualC script cached att hosts q :=
  C15Retry.ignore_same budget nodes q0 manualC script cached att hosts q

open PagingRetry in
/-- **Counterexample (unchanged code), wrong kind**: page 1 has rows 1,2 and has_more_pages; the fetch of
    page 2 is answered with a RESULT of kind void; the consumer gets 1,2 and NO error although the result
    is 1,2,3. -/
theorem C15_cex_wrong_kind :
    let q : Qry := { ident := 1, prepared := false, skipMeta := false, pageSize := 0, pageState := [], disableAutoPage := false }
    let script : List RReply := [.page [1, 2] (some [1]), .void, .page [3] none]
    let o := runR none 1 q false script false 0 0 q
    o.rows = [1, 2] ∧ o.err = none ∧ full script = [1, 2, 3] ∧ ¬ (o.err = none → o.rows = full script) := by
  decide

/-- non-vacuity: 2 hosts; the fetch of page 2 fails with a read timeout (Retry), an overloaded error
    (RetryNextHost), then succeeds; the fetch of page 3 fails with a write timeout and the policy says
    Ignore: rows 1,2,3 and THAT error; the policy saw Attempts() = 1, 2 and then 1 again (fresh metrics per page) -/
example :
    let q : Qry := { ident := 1, prepared := false, skipMeta := false, pageSize := 0, pageState := [], disableAutoPage := false }
    let script : List PagingRetry.RReply := [.page [1, 2] (some [1]), .fail (.srv 0x1200) .retry, .fail (.srv 0x1001) .nextHost,
      .page [3] (some [2]), .fail (.srv 0x1100) .ignore, .page [4] none]
    let o := PagingRetry.runR (some (PagingRetry.scripted none)) 2 q false script false 0 1 q
    o.rows = [1, 2, 3] ∧ o.err = some (.srv 0x1100) ∧ o.atts = [1, 2, 1] ∧ PagingRetry.full script = [1, 2, 3, 4] ∧
    o.reqs.filterMap PagingRetry.reqState = [none, some [1], some [1], some [1], some [2]] := by
  decide


/-! ## Walking one iterator (`Model/PagingWalk.lean`): single Scan / MapScan / Scanner.Next calls, observers,
    abandonment, the asynchronous prefetch launched by Iter.Scan's trigger and running at any moment

Full property for an application that does NOT drain: at every moment of every walk the rows handed over so
far are an initial piece of the result, in order, each once; the requests sent so far — including the one a
prefetch may have sent ahead — are an initial piece of the requests of the full iteration (nothing is ever
requested that the full iteration would not request, in particular nothing after the last page); and
continuing to the end from there yields exactly the rest. Holds on the unchanged code (no `_partial`). -/

open Paging.Hist Paging.Walk in
/-- **Wherever the application stands, delivered ++ still to come = the result.** For every script, every
    query, every prefetch-position function and EVERY walk (strides of single calls through Iter.Scan/MapScan or
    Scanner.Next stopping at a false, observers, probes of the prefetch, the launched prefetch getting to run
    at any moment): the rows delivered so far followed by what a drain would still deliver, the QUERY/EXECUTE
    requests sent so far followed by those a drain would still send, and the error a drain would end with are
    those of the query run alone in one go (`run`, which is the specification by `C15_session_rows` /
    `C15_requests_partial`). -/
theorem C15_walk_total (ppOf : Int → Nat → Nat) (script : List Reply) (q : Qry) (steps : List Walk.Step) :
    tot ppOf (Walk.exec ppOf (Walk.start ppOf script q) steps).it = obs3 (run (ppOf q.pf) script false q) := by
  have h1 := exec_winv ppOf steps _ (start_winv ppOf script q)
  have h2 := exec_target ppOf steps (Walk.start ppOf script q) (start_winv ppOf script q).1
  rw [h1.2, h2.1]
  exact start_target ppOf script q

open Paging.Hist Paging.Walk in
/-- **An abandoned iteration has received a prefix, and has asked for nothing the full iteration would not
    ask for.** With automatic paging, at every moment of every walk: the rows handed over are an initial
    segment of the specification's rows (in order, each once, nothing skipped), and the QUERY/EXECUTE requests
    the node has received or will receive from a prefetch already running are an initial segment of the
    requests of the complete iteration — so no page after the last one, and no page twice, is ever requested
    by an early stop, a Close, or the prefetch. -/
theorem C15_walk_abandon_prefix (ppOf : Int → Nat → Nat) (script : List Reply) (q : Qry) (steps : List Walk.Step)
    (hq : q.disableAutoPage = false) :
    (Walk.exec ppOf (Walk.start ppOf script q) steps).it.out <+: Spec.rows script ∧
    (Walk.exec ppOf (Walk.start ppOf script q) steps).it.reqs.filter Req.isExec <+:
      (run (ppOf q.pf) script false q).reqs.filter Req.isExec := by
  have h := C15_walk_total ppOf script q steps
  have hs := (C15_session_rows (ppOf q.pf) script false q hq).1
  simp only [tot, obs3, Prod.mk.injEq] at h
  refine ⟨⟨(fut ppOf (Walk.exec ppOf (Walk.start ppOf script q) steps).it).rows, by rw [h.1, hs]⟩,
    ⟨(fut ppOf (Walk.exec ppOf (Walk.start ppOf script q) steps).it).reqs.filter Req.isExec, ?_⟩⟩
  rw [← h.2.1, List.filter_append]

open Paging.Hist Paging.Walk in
/-- **The prefetch never runs ahead of its threshold, and never more than one page.** At every moment of every
    walk: if the page after the current one has been fetched before the consumer asked for it (`pre`), then
    Iter.Scan had launched the prefetch, and it did so only after the consumer had taken MORE than `next.pos`
    rows of the current page (`next.pos` = the clamped `int((1 - prefetch) * numRows)` ≥ 1, `C15_prefetch_pos`):
    in particular never before a row of the current page was taken, and never through a Scanner. (The model
    state has room for one page ahead only; that the real code sends no second one is the tie's matter: op
    `walk` compares the node's request log at the moment of abandonment.) -/
theorem C15_walk_prefetch_threshold (ppOf : Int → Nat → Nat) (script : List Reply) (q : Qry) (steps : List Walk.Step) :
    let w := Walk.exec ppOf (Walk.start ppOf script q) steps
    w.it.pre.isSome → (w.async = .launched ∨ w.async = .awaited) ∧ ∃ n, w.it.cur.next = some n ∧ n.pos < w.it.cur.pos := by
  intro w h
  have hi := exec_tinv ppOf steps _ (start_tinv ppOf script q)
  exact ⟨hi.1 h, hi.2 (hi.1 h)⟩

open Paging.Hist Paging.Walk in
/-- **Iter.Scan launches the prefetch as soon as the threshold is passed** (the converse of
    `C15_walk_prefetch_threshold`; Query.Prefetch's documentation: "the next page will be requested
    automatically"). For every walk through Iter.Scan / MapScan with observers and any scheduling (no Scanner
    strides — a Scanner never prefetches —, no probe disarming it): whenever the consumer has taken more than
    `next.pos` rows of a page that has a next page, the asynchronous prefetch of that next page HAS been
    launched. Together with the threshold theorem: launched if and only if past the threshold. -/
theorem C15_walk_prefetch_launched (ppOf : Int → Nat → Nat) (script : List Reply) (q : Qry) (steps : List Walk.Step)
    (hs : ∀ s ∈ steps, scanOnly s) :
    let w := Walk.exec ppOf (Walk.start ppOf script q) steps
    ∀ n, w.it.cur.err = none → w.it.cur.next = some n → n.pos < w.it.cur.pos → w.async = .launched := by
  intro w
  exact (exec_cinv ppOf steps _ (start_cinv ppOf script q) hs).2

/-- non-vacuity of both directions (prefetch 0.5 of a 4-row page: threshold 2): after 2 rows not launched, after 3 launched -/
example :
    let q : Qry := { ident := 1, prepared := false, skipMeta := false, pageSize := 0, pageState := [], disableAutoPage := false }
    let script : List Reply := [.page [1, 2, 3, 4] (some [7]), .page [5] none]
    let ppOf : Int → Nat → Nat := fun _ n => n / 2
    (Walk.exec ppOf (Walk.start ppOf script q) [.scan .scan 2]).async = .idle ∧
    (Walk.exec ppOf (Walk.start ppOf script q) [.scan .scan 2, .observe, .scan .scan 1]).async = .launched ∧
    (Walk.exec ppOf (Walk.start ppOf script q) [.scan .scanner 4]).async = .idle := by
  decide

open Paging.Hist Paging.Walk in
/-- **A stride that ends with `false` has ended the iteration, with everything delivered**: if the last call
    of a stride returned false, the rows handed over since Iter() are the whole specification result, the
    error is the specification's, and every request of the full iteration has been sent (no more, no fewer). -/
theorem C15_walk_false_is_complete (ppOf : Int → Nat → Nat) (script : List Reply) (q : Qry) (steps : List Walk.Step)
    (api : Walk.Api) (hq : q.disableAutoPage = false)
    (hf : (scan1 ppOf api (Walk.exec ppOf (Walk.start ppOf script q) steps)).2 = false) :
    let w := (scan1 ppOf api (Walk.exec ppOf (Walk.start ppOf script q) steps)).1
    w.it.out = Spec.rows script ∧ w.it.cur.err = Spec.err script ∧
    w.it.reqs.filter Req.isExec = (run (ppOf q.pf) script false q).reqs.filter Req.isExec := by
  intro w
  have hfin : finished w.it := scanF_fuel ppOf _ _ hf
  have ht := C15_walk_total ppOf script q (steps ++ [Walk.Step.scan api 1])
  have hexec : ∀ (l : List Walk.Step) (w0 : W) (s : Walk.Step), Walk.exec ppOf w0 (l ++ [s]) = Walk.step ppOf (Walk.exec ppOf w0 l) s := by
    intro l
    induction l with
    | nil => intro w0 s; rfl
    | cons a l ih => intro w0 s; exact ih _ s
  rw [hexec] at ht
  have hstep : Walk.step ppOf (Walk.exec ppOf (Walk.start ppOf script q) steps) (Walk.Step.scan api 1) = w := by
    show (scanK ppOf api 1 _).1 = w
    unfold scanK
    simp only [scanK]
    split <;> rfl
  rw [hstep, tot_finished ppOf w.it hfin] at ht
  have hs := C15_session_rows (ppOf q.pf) script false q hq
  simp only [obs3, Prod.mk.injEq] at ht
  exact ⟨ht.1.trans hs.1, ht.2.2.trans hs.2, ht.2.1⟩

open Paging.Hist Paging.Walk in
/-- **Every stride hands over exactly the next rows of the result.** For every script, query, prefetch
    position and every walk (strides of any lengths through either API, with observers, probes and the prefetch
    running at any moment in between): the rows each stride hands over and the result of its last call are
    what the SPECIFICATION says for an application that takes the result `Spec.rows script` in pieces of those
    lengths — the next `k` rows (fewer only where the result ends), `true` iff there were `k`. Nothing is
    skipped or repeated at a page boundary, whether the next page was prefetched, is being fetched, or is
    fetched by the switch; an empty page never ends a stride early. This is what makes op `walk` spec-backed. -/
theorem C15_walk_rows_spec (ppOf : Int → Nat → Nat) (script : List Reply) (q : Qry) (steps : List Walk.Step)
    (hq : q.disableAutoPage = false) :
    strideLog ppOf (Walk.start ppOf script q) steps = Walk.Spec.strides (Spec.rows script) 0 (strideKs steps) := by
  have hj : J ppOf (Spec.rows script) (Walk.start ppOf script q) :=
    ⟨start_winv ppOf script q, by
      rw [start_target]; exact (C15_session_rows (ppOf q.pf) script false q hq).1⟩
  exact strideLog_spec ppOf (Spec.rows script) steps _ hj

/-- non-vacuity: pages [1,2] / [] / [3] / last []: strides 1, 0, 3 (crossing the empty page and reaching the
    empty last page: false), 1 -/
example :
    let q : Qry := { ident := 1, prepared := false, skipMeta := false, pageSize := 0, pageState := [], disableAutoPage := false }
    let script : List Reply := [.page [1, 2] (some [7]), .page [] (some [8]), .page [3] (some [9]), .page [] none]
    Walk.strideLog (fun _ n => n / 2) (Walk.start (fun _ n => n / 2) script q)
      [.scan .scan 1, .observe, .scan .scanner 0, .await, .scan .scan 3, .scan .scan 1] =
      [([1], true), ([], true), ([2, 3], false), ([], false)] := by
  decide

open Paging.Walk in
/-- **WillSwitchPage() = false at the end of a page means the iteration is over**: no row left on the current
    page and no next page — the next call returns false and sends nothing (`finished`); and WillSwitchPage() =
    true means exactly that the current page is used up and carries has_more_pages (auto paging on). -/
theorem C15_willswitch (w : W) (hrow : w.it.cur.rows.length ≤ w.it.cur.pos) :
    (willSwitch w = false → Hist.finished w.it) ∧ (willSwitch w = true ↔ w.it.cur.next.isSome) := by
  unfold willSwitch Hist.finished
  have hr : w.it.cur.rows[w.it.cur.pos]? = none := List.getElem?_eq_none_iff.2 hrow
  constructor
  · intro h
    right
    refine ⟨hr, ?_⟩
    cases hn : w.it.cur.next with
    | none => rfl
    | some n => simp [hn, hrow] at h
  · simp [hrow]

/-- non-vacuity (prefetch 0.25 of a 4-row page: threshold 3): after 3 rows nothing has been asked for ahead,
    the 4th Scan launches the prefetch, it runs, and the node has then received exactly the two first requests;
    WillSwitchPage is true, NumRows is 4, PageState is the state of page 1; draining from there gives the rest -/
example :
    let q : Qry := { ident := 1, prepared := false, skipMeta := false, pageSize := 0, pageState := [], disableAutoPage := false }
    let script : List Reply := [.page [1, 2, 3, 4] (some [7]), .page [5] (some [8]), .page [6] none]
    let ppOf : Int → Nat → Nat := fun _ n => 3 * n / 4
    let w3 := Walk.exec ppOf (Walk.start ppOf script q) [.scan .scan 3, .arrive]
    let w4 := Walk.exec ppOf (Walk.start ppOf script q) [.scan .scan 3, .arrive, .scan .scan 1, .arrive]
    let w9 := Walk.exec ppOf (Walk.start ppOf script q) [.scan .scan 3, .arrive, .scan .scan 1, .arrive, .scan .scan 9]
    w3.async = .idle ∧ w3.it.pre.isSome = false ∧ w3.it.reqs.length = 1 ∧
    w4.async = .launched ∧ w4.it.pre.isSome = true ∧ w4.it.reqs.length = 2 ∧ w4.it.out = [1, 2, 3, 4] ∧
    Walk.willSwitch w4 = true ∧ Walk.numRows w4 = 4 ∧ Walk.pageState w4 = [7] ∧
    w9.it.out = [1, 2, 3, 4, 5, 6] ∧ w9.it.reqs.length = 3 ∧
    (Walk.scan1 ppOf .scan w9).2 = false := by
  decide


/-! ## The single-row helpers Query.Scan / Query.MapScan / Query.Exec on a paged statement (`Model/PagingFirst.lean`)

Full property:  ∀ script q,  Query.Scan / MapScan hand over the FIRST ROW OF THE RESULT (`Spec.rows script`) with
a nil error, and report ErrNotFound only if the result has no row at all (a failure that ends an empty
result is reported as that failure).  On the code as repaired for KF-C15-4 (props/C15.fix-4.diff:
Iter.checkErrAndNotFound walks over empty pages that say has_more_pages before it tests the row count) this
holds for EVERY script: `C15_query_scan`. (Before the repair it failed for an empty first page with
has_more_pages — ErrNotFound although rows followed; the former `C15_query_scan_partial` /
`C15_cex_first_empty_page`.) -/

open Paging.First in
/-- **Query.Scan / Query.MapScan = first row of the result**, for every script (UNPREPARED answers, a failure,
    any pages — EMPTY pages with has_more_pages in front included), every query with automatic paging: the row
    handed over is the head of the specification's rows and the error is nil; no row in the whole result: the
    failure that ended it, else ErrNotFound. -/
theorem C15_query_scan (pp : Nat → Nat) (script : List Reply) (cached : Bool) (q : Qry) (hq : q.disableAutoPage = false) :
    ((queryScan pp script cached q).row, (queryScan pp script cached q).err) = First.Spec.first script :=
  queryScan_spec pp script cached q hq

/-- non-vacuity, and the former counterexample of KF-C15-4 as a regression: page 1 empty with has_more_pages,
    page 2 holds row 5 — row 5 with a nil error, two requests; an all-empty result: ErrNotFound -/
example :
    let q : Qry := { ident := 1, prepared := false, skipMeta := false, pageSize := 0, pageState := [], disableAutoPage := false }
    First.queryScan (fun _ => 0) [.page [] (some [1]), .page [5] none] false q =
      ⟨some 5, none, [.exec 1 false false none none, .exec 1 false false (some [1]) none]⟩ ∧
    (First.queryScan (fun _ => 0) [.page [] (some [1]), .page [] none] false q).err = some .notFound := by
  decide

open Paging.First in
/-- **Query.Exec reports the outcome of the first fetch** (after any UNPREPARED round trips), for every script -/
theorem C15_exec_first_fetch (pp : Nat → Nat) (script : List Reply) (q : Qry) :
    (queryExec pp script q).err = (First.Spec.execErr script).map .fail ∧ (queryExec pp script q).row = none := by
  refine ⟨?_, rfl⟩
  unfold queryExec
  simp only []
  rw [queryExec_spec pp script false q]

/-- non-vacuity: UNPREPARED first, then a page with rows 7,8 and has_more_pages: row 7, no error, and the
    requests are PREPARE, EXECUTE, PREPARE, EXECUTE — nothing is asked for page 2 -/
example :
    let q : Qry := { ident := 1, prepared := true, skipMeta := true, pageSize := 10, pageState := [], disableAutoPage := false }
    let script : List Reply := [.unprepared, .page [7, 8] (some [1]), .page [9] none]
    First.queryScan (fun n => n / 2) script false q =
      ⟨some 7, none, [.prepare, .exec 1 true true none (some 10), .prepare, .exec 1 true true none (some 10)]⟩ := by
  decide


/-! ## Cancellation at ANY moment (`Proofs/C15Cancel.lean`): with a prefetch pending, running or done, before an
    Iter(), between pages — the invariant `Hist.K` survives every step of every history -/

open Paging.Hist in
/-- **Cancelling a context never truncates a result silently, whenever it happens.** For EVERY history on one
    Query object — the steps of `C15_iter_independent_of_rebind` AND cancellations of caller contexts at any
    moment, in any order with prefetch completions, Scans and further Iter() calls — every iterator with automatic
    paging has, at every moment, handed over an initial segment of its snapshot's result (in order, each row
    once: a cancellation loses no row of a page already fetched and duplicates none), and an iterator that has
    ended WITHOUT an error has handed over the whole result and sent every request of the full iteration. So a
    cancelled fetch always surfaces as the iteration's error, never as an early normal end. -/
theorem C15_history_cancel_no_truncation (srv : Nat → Bytes → List Reply) (ppOf : Int → Nat → Nat)
    (w0 : World) (h : List Step) (h0 : w0.its = []) :
    ∀ it ∈ (exec srv ppOf w0 h).its, it.snap.disableAutoPage = false →
      it.out <+: Spec.rows it.script ∧
      (finished it → it.cur.err = none →
        it.out = Spec.rows it.script ∧ Spec.err it.script = none ∧
        it.reqs.filter Req.isExec = (run (ppOf it.snap.pf) it.script false it.snap).reqs.filter Req.isExec) := by
  intro it hit hq
  have hkw : KW ppOf w0 := by intro y hy; rw [h0] at hy; cases hy
  have hk := exec_KW srv ppOf h w0 hkw it hit
  have hr := K_rows ppOf _ it hk
  have hs := C15_session_rows (ppOf it.snap.pf) it.script false it.snap hq
  have ht : (target ppOf it).1 = Spec.rows it.script := hs.1
  refine ⟨by rw [← ht]; exact hr.1, ?_⟩
  intro hfin he
  have h2 := hr.2 hfin he
  refine ⟨by rw [← ht]; exact h2.1, ?_, h2.2⟩
  -- ended without error and on the whole result: the specification has no error either
  rcases hk with hon | ⟨⟨f, hf⟩, _⟩ | ⟨_, hnx, _, _⟩
  · rw [tot_finished ppOf it hfin] at hon
    have : it.cur.err = (target ppOf it).2.2 := by rw [← hon]
    rw [← hs.2]
    exact this.symm.trans he
  · rw [he] at hf; cases hf
  · unfold finished at hfin
    rcases hfin with h | ⟨_, h⟩
    · rw [he] at h; cases h
    · rw [h] at hnx; cases hnx

open Paging.Hist Paging.Walk in
/-- the same for a walk of one iterator with the query's context cancelled anywhere in between (the walk tier's
    `x` steps: after the prefetch was awaited, or with none started) -/
theorem C15_walk_cancel_no_truncation (ppOf : Int → Nat → Nat) (script : List Reply) (q : Qry) (steps : List Walk.StepX)
    (hq : q.disableAutoPage = false) :
    let w := Walk.execX ppOf (Walk.start ppOf script q) steps
    w.it.out <+: Spec.rows script ∧ (finished w.it → w.it.cur.err = none → w.it.out = Spec.rows script) := by
  intro w
  have hk := execX_WK ppOf _ steps _ (start_WK ppOf script q)
  have hr := K_rows ppOf _ w.it hk
  have hs := (C15_session_rows (ppOf q.pf) script false q hq).1
  simp only [obs3] at hr
  rw [hs] at hr
  exact ⟨hr.1, fun hf he => (hr.2 hf he).1⟩

/-- non-vacuity: three pages; two rows of page 1 taken, its prefetch completes (page 2 is in hand), THEN the
    context is cancelled: the drain hands over the rest of page 1 and all of page 2 and ends with `context
    canceled` — rows 1..5 of 1..6, a prefix, not a normal end; two requests were sent, none for page 3 -/
example :
    let q : Qry := { ident := 1, prepared := false, skipMeta := false, pageSize := 0, pageState := [], disableAutoPage := false, ctx := some 1 }
    let script : List Reply := [.page [1, 2, 3] (some [7]), .page [4, 5] (some [8]), .page [6] none]
    let ppOf : Int → Nat → Nat := fun _ n => n / 2
    let w := Walk.execX ppOf (Walk.start ppOf script q)
      [.base (.scan .scan 2), .base .arrive, .cancel 1, .base (.scan .scan 9)]
    w.it.out = [1, 2, 3, 4, 5] ∧ w.it.cur.err = some .ctx ∧ w.it.reqs.length = 2 := by
  decide


/-! ## A failing PREPARE at a page fetch (`Model/PagingPrep.lean`): the first fetch of an uncached statement, or
    any page after an UNPREPARED answer -/

open Paging.Prep in
/-- **A failed PREPARE surfaces like a failed fetch, and nothing is sent after it.** For every script over
    fetch attempts in which the PREPARE of any attempt may fail (`prepFail`), every query with automatic paging:
    rows and final error are the specification's for the script read with "failed PREPARE = failed fetch" —
    the rows of the pages before, then THAT error, never a normal end; and (no present-but-empty state) the
    requests are exactly `Prep.Spec.reqs`: as without the failure up to and including the PREPARE that failed,
    and then neither the EXECUTE of that attempt nor any later request. -/
theorem C15_prepare_failure_surfaces (pp : Nat → Nat) (script : List PReply) (cached : Bool) (q : Qry)
    (hq : q.disableAutoPage = false) :
    (runP pp script cached q).rows = Spec.rows (script.map toBase) ∧
    (runP pp script cached q).err = Spec.err (script.map toBase) ∧
    (NoEmptyStateP script →
      (runP pp script cached q).reqs = Prep.Spec.reqs (template q) q.prepared script (!cached) (firstState q)) :=
  ⟨(runP_rows_err pp script cached q hq).1, (runP_rows_err pp script cached q hq).2,
   fun hne => runP_reqs pp script cached q hq hne⟩

open Paging.Prep in
/-- without a failing PREPARE this model IS the base model (every theorem about `run` speaks about it) -/
theorem C15_prepare_none_is_base (pp : Nat → Nat) (script : List Reply) (cached : Bool) (q : Qry) :
    runP pp (script.map PReply.base) cached q = run pp script cached q :=
  runP_base pp script cached q

/-- non-vacuity: page 1 (rows 1,2), the fetch of page 2 is answered UNPREPARED, the re-PREPARE fails with
    0x2000: rows 1,2 and THAT error; sent: PREPARE, EXECUTE, EXECUTE(state 07), PREPARE — and no third EXECUTE -/
example :
    let q : Qry := { ident := 1, prepared := true, skipMeta := false, pageSize := 0, pageState := [], disableAutoPage := false }
    let script : List Prep.PReply := [.base (.page [1, 2] (some [7])), .base .unprepared, .prepFail (.srv 0x2000), .base (.page [3] none)]
    Prep.valid true script true = true ∧
    Prep.runP (fun _ => 0) script false q =
      ⟨[1, 2], [.prepare, .exec 1 true false none none, .exec 1 true false (some [7]) none, .prepare], some (.srv 0x2000)⟩ := by
  decide


end C15
