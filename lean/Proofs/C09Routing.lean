import Model.Routing
import Proofs.C09Token
/-!
# C09 — routing key from the prepared metadata; token ring order (helper lemmas)
-/
namespace Routing

variable {τ ν : Type}

theorem encAt_ok_lt {enc : τ → ν → Enc} {vals : List ν} {t : τ} {i : Nat} {b : Option Bytes}
    (h : encAt enc vals t i = .ok b) : i < vals.length := by
  unfold encAt at h
  cases hv : vals[i]? with
  | none => simp [hv] at h
  | some v => exact (List.getElem?_eq_some_iff.mp hv).1

/-- when the composite loop ends with a key, every index it used had a bound value -/
theorem compositeLoop_key_bound (enc : τ → ν → Enc) (vals : List ν) :
    ∀ (is : List Nat) (ts : List τ) (acc : Bytes) (b : Option Bytes),
      compositeLoop enc vals is ts acc = .key b → ∀ i ∈ is, i < vals.length
  | [], _, _, _, _ => by intro i hi; cases hi
  | _ :: _, [], _, _, h => by simp [compositeLoop] at h
  | i :: is, t :: ts, acc, b, h => by
    simp only [compositeLoop] at h
    cases he : encAt enc vals t i with
    | ok x =>
      simp only [he] at h
      intro j hj
      rcases List.mem_cons.mp hj with hj | hj
      · subst hj; exact encAt_ok_lt he
      · exact compositeLoop_key_bound enc vals is ts _ b h j hj
    | err => simp [he] at h
    | crash => simp [he] at h

/-- the guard of the repaired `createRoutingKey` passes when every key marker has a bound value -/
theorem createRoutingKey_eq_core (enc : τ → ν → Enc) (info : Info τ) (vals : List ν)
    (h : ∀ i ∈ info.indexes, i < vals.length) :
    createRoutingKey enc info vals = createRoutingKeyCore enc info vals := by
  unfold createRoutingKey
  have : info.indexes.any (fun i => decide (vals.length ≤ i)) = false := by
    rw [List.any_eq_false]
    intro i hi
    have := h i hi
    simp; omega
  simp [this]

/-- **KF-C09-1 repaired**: a key marker without a bound value is an ERROR (no index panic), whatever else is bound -/
theorem createRoutingKey_short (enc : τ → ν → Enc) (info : Info τ) (vals : List ν) (i : Nat)
    (hi : i ∈ info.indexes) (hshort : vals.length ≤ i) : createRoutingKey enc info vals = .errValues := by
  unfold createRoutingKey
  have : info.indexes.any (fun i => decide (vals.length ≤ i)) = true := by
    rw [List.any_eq_true]
    exact ⟨i, hi, by simpa using hshort⟩
  simp [this]

/-- with a bound value at every index, the loop panics only if Marshal does or a type is missing -/
theorem compositeLoop_no_crash (enc : τ → ν → Enc) (vals : List ν) (hen : ∀ t v, enc t v ≠ .crash) :
    ∀ (is : List Nat) (ts : List τ) (acc : Bytes), is.length ≤ ts.length → (∀ i ∈ is, i < vals.length) →
      compositeLoop enc vals is ts acc ≠ .crash
  | [], _, _, _, _ => by simp [compositeLoop]
  | _ :: _, [], _, hl, _ => by simp at hl
  | i :: is, t :: ts, acc, hl, hb => by
    simp only [compositeLoop]
    have hi : i < vals.length := hb i (by simp)
    have hv : vals[i]? = some vals[i] := List.getElem?_eq_getElem hi
    cases he : encAt enc vals t i with
    | ok x =>
      simp only
      exact compositeLoop_no_crash enc vals hen is ts _ (by simpa using hl) (fun j hj => hb j (by simp [hj]))
    | err => simp
    | crash => simp [encAt, hv] at he; exact absurd he (hen t _)

/-- **the repaired `createRoutingKey` is total**: no index panic for ANY number of bound values - a panic can only come
    from Marshal itself or from an info with fewer types than indexes (routingKeyInfo never builds one) -/
theorem createRoutingKey_no_crash (enc : τ → ν → Enc) (info : Info τ) (vals : List ν)
    (hen : ∀ t v, enc t v ≠ .crash) (hl : info.indexes.length ≤ info.types.length) :
    createRoutingKey enc info vals ≠ .crash := by
  unfold createRoutingKey
  split
  · simp
  · rename_i hany
    have hb : ∀ i ∈ info.indexes, i < vals.length := by
      simpa using hany
    unfold createRoutingKeyCore
    split
    · rename_i i t _ hidx _
      have hi : i < vals.length := hb i (by simp [hidx])
      have hv : vals[i]? = some vals[i] := List.getElem?_eq_getElem hi
      cases he : encAt enc vals t i with
      | ok x => simp
      | err => simp
      | crash => simp [encAt, hv] at he; exact absurd he (hen t _)
    · rename_i hidx hts
      simp [hidx, hts] at hl
    · exact compositeLoop_no_crash enc vals hen _ _ [] hl hb

/-- SPEC: the components of the partition key, in partition-key order, for the marker indexes `pk` -/
def Spec.components (enc : τ → ν → Enc) (cols : List (Col τ)) (vals : List ν) : List Nat → Option (List Bytes)
  | [] => some []
  | i :: is =>
    match Spec.component enc cols vals i, Spec.components enc cols vals is with
    | some c, some cs => some (c :: cs)
    | _, _ => none

/-- SPEC: the same when the key columns are identified by NAME (schema metadata): the first marker of each -/
def Spec.componentsByName (enc : τ → ν → Enc) (cols : List (Col τ)) (vals : List ν) : List String → Option (List Bytes)
  | [] => some []
  | n :: ns =>
    match (Spec.firstMarker n cols).bind (Spec.component enc cols vals), Spec.componentsByName enc cols vals ns with
    | some c, some cs => some (c :: cs)
    | _, _ => none

theorem component_some {enc : τ → ν → Enc} {cols : List (Col τ)} {vals : List ν} {i : Nat} {c : Bytes}
    (h : Spec.component enc cols vals i = some c) :
    ∃ col v, cols[i]? = some col ∧ vals[i]? = some v ∧ enc col.ty v = .ok (some c) := by
  unfold Spec.component at h
  split at h
  · rename_i col v hc hv
    refine ⟨col, v, hc, hv, ?_⟩
    split at h
    · rename_i b hb; simp at h; subst h; exact hb
    · simp at h
  · simp at h

theorem encAt_of_component {enc : τ → ν → Enc} {cols : List (Col τ)} {vals : List ν} {i : Nat} {c : Bytes}
    (h : Spec.component enc cols vals i = some c) :
    ∃ col, cols[i]? = some col ∧ encAt enc vals col.ty i = .ok (some c) := by
  obtain ⟨col, v, hc, hv, he⟩ := component_some h
  exact ⟨col, hc, by simp [encAt, hv, he]⟩

/-- the loop of the composite branch appends the CompositeType framing of the components, when indexes
    and types are the ones of the key columns -/
theorem compositeLoop_spec (enc : τ → ν → Enc) (cols : List (Col τ)) (vals : List ν) :
    ∀ (pk : List Nat) (cs : List Bytes), Spec.components enc cols vals pk = some cs →
      ∃ ts, typesAt cols pk = some ts ∧
        ∀ acc, compositeLoop enc vals pk ts acc = .key (some (acc ++ Token.composite cs))
  | [], cs, h => by
    simp [Spec.components] at h; subst h
    exact ⟨[], rfl, by intro acc; simp [compositeLoop, Token.composite]⟩
  | i :: is, cs, h => by
    unfold Spec.components at h
    split at h
    · rename_i c cs' hc hcs
      simp at h; subst h
      obtain ⟨col, hcol, he⟩ := encAt_of_component hc
      obtain ⟨ts, hts, hloop⟩ := compositeLoop_spec enc cols vals is cs' hcs
      refine ⟨col.ty :: ts, by simp [typesAt, hcol, hts], ?_⟩
      intro acc
      simp only [compositeLoop, he, bytesOf, hloop, Token.composite, List.append_assoc]
    · simp at h

/-- `findBound` is "first marker with that name" -/
theorem findBound_eq (name : String) : ∀ (cols : List (Col τ)) (k : Nat),
    findBound name cols k =
      match Spec.firstMarker name cols with
      | some i => (cols[i]?).map (fun c => (i + k, c.ty))
      | none => none
  | [], k => by simp [findBound, Spec.firstMarker]
  | c :: cs, k => by
    unfold findBound
    by_cases h : c.name = name
    · simp [Spec.firstMarker, List.findIdx?_cons, h]
    · have ih := findBound_eq name cs (k + 1)
      simp only [h, if_false, ih]
      simp only [Spec.firstMarker, List.findIdx?_cons, h, decide_false, Bool.false_eq_true, if_false]
      cases hf : cs.findIdx? (fun c => decide (c.name = name)) with
      | none => simp
      | some i => simp [Nat.add_assoc, Nat.add_comm 1 k]

theorem compositeLoop_byName (enc : τ → ν → Enc) (cols : List (Col τ)) (vals : List ν) :
    ∀ (names : List String) (cs : List Bytes), Spec.componentsByName enc cols vals names = some cs →
      ∃ is ts, byName cols names = some (is, ts) ∧ is.length = names.length ∧
        (∀ acc, compositeLoop enc vals is ts acc = .key (some (acc ++ Token.composite cs))) ∧
        (∀ i c, is = [i] → cs = [c] → ∃ t, ts = [t] ∧ encAt enc vals t i = .ok (some c))
  | [], cs, h => by
    simp [Spec.componentsByName] at h; subst h
    exact ⟨[], [], rfl, rfl, by intro acc; simp [compositeLoop, Token.composite], by intro i c h; simp at h⟩
  | n :: ns, cs, h => by
    unfold Spec.componentsByName at h
    split at h
    · rename_i c cs' hc hcs
      simp at h; subst h
      cases hf : Spec.firstMarker n cols with
      | none => simp [hf] at hc
      | some i =>
        simp [hf] at hc
        obtain ⟨col, hcol, he⟩ := encAt_of_component hc
        obtain ⟨is, ts, hb, hlen, hloop, _⟩ := compositeLoop_byName enc cols vals ns cs' hcs
        have hfb : findBound n cols 0 = some (i, col.ty) := by
          rw [findBound_eq, hf]; simp [hcol]
        refine ⟨i :: is, col.ty :: ts, by simp [byName, hfb, hb], by simp [hlen], ?_, ?_⟩
        · intro acc
          simp only [compositeLoop, he, bytesOf, hloop, Token.composite, List.append_assoc]
        · intro i' c' hi hc'
          simp at hi hc'
          obtain ⟨hi1, hi2⟩ := hi
          obtain ⟨hc1, hc2⟩ := hc'
          subst hi1 hc1 hi2
          have : ts = [] := by
            cases ts with
            | nil => rfl
            | cons t ts' =>
              -- byName returns lists of equal length; `is = []` forces `ns = []`
              cases ns with
              | nil => simp [byName] at hb
              | cons n' ns' => simp at hlen
          subst this
          exact ⟨col.ty, rfl, he⟩
    · simp at h

theorem byName_none_of_missing (cols : List (Col τ)) :
    ∀ (names : List String) (name : String), name ∈ names → (∀ c ∈ cols, c.name ≠ name) →
      byName cols names = none
  | [], _, hm, _ => by simp at hm
  | n :: ns, name, hm, hmiss => by
    unfold byName
    by_cases hn : n = name
    · subst hn
      have : findBound n cols 0 = none := by
        rw [findBound_eq]
        have : Spec.firstMarker n cols = none := by
          simp only [Spec.firstMarker, List.findIdx?_eq_none_iff]
          intro c hc; simpa using hmiss c hc
        simp [this]
      simp [this]
    · have hm' : name ∈ ns := by
        cases hm with
        | head => exact absurd rfl hn
        | tail _ h => exact h
      have ih := byName_none_of_missing cols ns name hm' hmiss
      cases findBound n cols 0 with
      | none => rfl
      | some p => simp [ih]

theorem componentsByName_length (enc : τ → ν → Enc) (cols : List (Col τ)) (vals : List ν) :
    ∀ (names : List String) (cs : List Bytes), Spec.componentsByName enc cols vals names = some cs →
      cs.length = names.length
  | [], cs, h => by simp [Spec.componentsByName] at h; subst h; rfl
  | n :: ns, cs, h => by
    unfold Spec.componentsByName at h
    split at h
    · rename_i c cs' _ hcs
      simp at h; subst h
      simp [componentsByName_length enc cols vals ns cs' hcs]
    · simp at h

/-! ### the partition key of a table from the schema rows -/

theorem place_length {α : Type} : ∀ (pk : List (α × Nat)) (a : List (Option α)), (place pk a).length = a.length
  | [], a => rfl
  | (n, p) :: r, a => by simp [place, place_length r]

theorem place_other {α : Type} : ∀ (pk : List (α × Nat)) (a : List (Option α)) (i : Nat),
    (∀ x ∈ pk, x.2 ≠ i) → (place pk a)[i]? = a[i]?
  | [], a, i, _ => rfl
  | (n, p) :: r, a, i, h => by
    have hp : p ≠ i := h (n, p) (by simp)
    rw [place, place_other r _ i (fun x hx => h x (by simp [hx]))]
    simp [hp]

theorem place_get {α : Type} : ∀ (pk : List (α × Nat)) (a : List (Option α)),
    (pk.map (·.2)).Nodup → (∀ x ∈ pk, x.2 < a.length) →
    ∀ x ∈ pk, (place pk a)[x.2]? = some (some x.1)
  | [], _, _, _, x, hx => by simp at hx
  | (n, p) :: r, a, hnd, hlt, x, hx => by
    simp only [List.map_cons, List.nodup_cons] at hnd
    rw [place]
    cases hx with
    | head =>
      have hno : ∀ y ∈ r, y.2 ≠ p := by
        intro y hy hyp
        exact hnd.1 (by simpa [hyp.symm] using List.mem_map_of_mem (f := (·.2)) hy)
      rw [place_other r _ p hno]
      have : p < a.length := hlt (n, p) (by simp)
      simp [this]
    | tail _ hx' =>
      exact place_get r _ hnd.2 (by intro y hy; simpa using hlt y (by simp [hy])) x hx'

theorem pkCount_gt {α : Type} : ∀ (pk : List (α × Nat)), ∀ x ∈ pk, x.2 < pkCount pk
  | [], x, hx => by simp at hx
  | (n, p) :: r, x, hx => by
    simp only [pkCount]
    cases hx with
    | head => omega
    | tail _ hx' => have := pkCount_gt r x hx'; omega

/-! ### order -/

theorem intLe_trans (a b c : Int) : intLe a b = true → intLe b c = true → intLe a c = true := by
  simp only [intLe, decide_eq_true_eq]; omega
theorem intLe_total (a b : Int) : (intLe a b || intLe b a) = true := by
  simp only [intLe, Bool.or_eq_true, decide_eq_true_eq]; omega
theorem natLe_trans (a b c : Nat) : natLe a b = true → natLe b c = true → natLe a c = true := by
  simp only [natLe, decide_eq_true_eq]; omega
theorem natLe_total (a b : Nat) : (natLe a b || natLe b a) = true := by
  simp only [natLe, Bool.or_eq_true, decide_eq_true_eq]; omega

theorem lexLe_total (a b : List UInt8) : (lexLe a b || lexLe b a) = true := by
  simp only [lexLe, Bool.or_eq_true, Bool.not_eq_true']
  cases h : Token.lexLt b a with
  | false => exact Or.inl rfl
  | true => exact Or.inr (Token.lexLt_asymm b a h)

theorem lexLe_trans (a b c : List UInt8) : lexLe a b = true → lexLe b c = true → lexLe a c = true := by
  simp only [lexLe, Bool.not_eq_true']
  intro hab hbc
  -- ¬ b < a, ¬ c < b ⊢ ¬ c < a
  cases hca : Token.lexLt c a with
  | false => rfl
  | true =>
    -- c < a; by totality on a b: a < b or a = b (b < a excluded)
    rcases Token.lexLt_total a b with h | h | h
    · have := Token.lexLt_trans c a b hca h; rw [this] at hbc; exact absurd hbc (by simp)
    · subst h; rw [hca] at hbc; exact absurd hbc (by simp)
    · rw [h] at hab; exact absurd hab (by simp)

end Routing
