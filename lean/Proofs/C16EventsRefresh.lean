import Model.ClusterView
import Proofs.C16Ring
import Proofs.C16Refresh
import Proofs.C16Index
import Proofs.C16RefreshIdx
/-! helper lemmas: `View.refresh` (refreshRing with its session-level effects) — its ring is the ring of
`Ring.refresh`; properties kept by its two primitive steps are kept by the refresh -/
namespace C16
open Ring ClusterView

theorem startPoolFill_ring (env : Env) (v : View) (h : RHost) : (v.startPoolFill env h).ring = v.ring := rfl
theorem removeHost_ring (env : Env) (v : View) (h : RHost) : (v.removeHost env h).ring = (v.ring.remove h.id).1 := rfl

/-- the ring, prevHosts and result of one step of the view-level loop are those of the ring-level loop -/
theorem stepV_sim (env : Env) (st : RState) (eff : Effects) (h : RHost) :
    ∃ eff', (refreshStep env.filter (st.v.ring, st.prev, eff) h) =
      (((refreshStepV env st h).1.v.ring, (refreshStepV env st h).1.prev, eff'), (refreshStepV env st h).2) := by
  unfold refreshStep refreshStepV
  cases hf : env.filter h with
  | true => exact ⟨eff, by simp⟩
  | false =>
    simp only [Bool.false_eq_true, ↓reduceIte]
    cases hl : lookup st.v.ring.byId h.id with
    | none =>
      rw [addIfMissing_of_none _ h hl]
      exact ⟨_, rfl⟩
    | some e0 =>
      rw [addIfMissing_of_some _ h e0 hl]
      dsimp only
      cases hlp : lookup st.prev h.id with
      | none => exact ⟨eff, rfl⟩
      | some ex =>
        dsimp only
        by_cases hcond : (h.caddr == ex.caddr && h.addr == ex.addr) = true
        · rw [if_pos hcond, if_pos hcond]; exact ⟨eff, rfl⟩
        · rw [if_neg hcond, if_neg hcond]
          rw [removeHost_ring]
          cases hl2 : lookup (st.v.ring.remove ex.id).1.byId h.id with
          | none =>
            rw [addIfMissing_of_none _ h hl2]
            exact ⟨_, rfl⟩
          | some e3 =>
            rw [addIfMissing_of_some _ h e3 hl2]
            exact ⟨_, rfl⟩

theorem loopV_sim (env : Env) (reported : List RHost) : ∀ (st : RState) (eff : Effects),
    ∃ eff', (refreshLoop env.filter reported (st.v.ring, st.prev, eff)) =
      (((refreshLoopV env reported st).1.v.ring, (refreshLoopV env reported st).1.prev, eff'), (refreshLoopV env reported st).2) := by
  induction reported with
  | nil => intro st eff; exact ⟨eff, rfl⟩
  | cons h t ih =>
    intro st eff
    unfold refreshLoop refreshLoopV
    obtain ⟨eff1, h1⟩ := stepV_sim env st eff h
    rw [h1]
    generalize refreshStepV env st h = res
    obtain ⟨st', res'⟩ := res
    dsimp only
    by_cases hr : res' = .ok
    · rw [if_pos hr, if_pos hr]; exact ih st' eff1
    · rw [if_neg hr, if_neg hr]; exact ⟨eff1, rfl⟩

theorem removeAllV_ring (env : Env) (prev : List (Nat × RHost)) : ∀ (v : View),
    (removeAllV env v prev).ring = removeAll v.ring prev := by
  induction prev with
  | nil => intro v; rfl
  | cons p t ih => intro v; obtain ⟨k, x⟩ := p; simp only [removeAllV, removeAll]; rw [ih, removeHost_ring]

/-- the ring after `View.refresh` and its result are those of `Ring.refresh` -/
theorem refreshV_ring (env : Env) (v : View) (reported : List RHost) :
    (v.refresh env reported).1.ring = (v.ring.refresh env.filter reported).1 ∧
    (v.refresh env reported).2 = (v.ring.refresh env.filter reported).2.1 := by
  unfold View.refresh Ring.refresh
  obtain ⟨eff', h1⟩ := loopV_sim env reported ⟨v, v.ring.byId⟩ {}
  dsimp only at h1
  rw [h1]
  generalize refreshLoopV env reported ⟨v, v.ring.byId⟩ = res
  obtain ⟨st', res'⟩ := res
  cases res' with
  | ok => exact ⟨removeAllV_ring env st'.prev st'.v, rfl⟩
  | errCannotFind => exact ⟨rfl, rfl⟩
  | errAlreadyExists => exact ⟨rfl, rfl⟩

/-! ### any property kept by the two primitive steps is kept by a refresh -/

/-- a reported host with a new id is stored and its pool fill started -/
def View.addNew (env : Env) (v : View) (h : RHost) : View :=
  ({ v with ring := (v.ring.addIfMissing h).1 }).startPoolFill env h

theorem stepV_preserves (env : Env) (P : View → Prop)
    (hadd : ∀ v h, P v → lookup v.ring.byId h.id = none → P (View.addNew env v h))
    (hrm : ∀ v h, P v → P (v.removeHost env h))
    (st : RState) (h : RHost) (hp : P st.v) : P (refreshStepV env st h).1.v := by
  unfold refreshStepV
  cases hf : env.filter h with
  | true => simpa using hp
  | false =>
    simp only [Bool.false_eq_true, ↓reduceIte]
    cases hl : lookup st.v.ring.byId h.id with
    | none =>
      have := hadd st.v h hp hl
      unfold View.addNew at this
      rw [addIfMissing_of_none _ h hl] at this ⊢
      exact this
    | some e0 =>
      rw [addIfMissing_of_some _ h e0 hl]
      dsimp only
      cases hlp : lookup st.prev h.id with
      | none => exact hp
      | some ex =>
        dsimp only
        by_cases hcond : (h.caddr == ex.caddr && h.addr == ex.addr) = true
        · rw [if_pos hcond]; exact hp
        · rw [if_neg hcond]
          have hp2 := hrm st.v ex hp
          cases hl2 : lookup (st.v.removeHost env ex).ring.byId h.id with
          | none =>
            have := hadd _ h hp2 hl2
            unfold View.addNew at this
            rw [addIfMissing_of_none _ h hl2] at this ⊢
            exact this
          | some e3 =>
            rw [addIfMissing_of_some _ h e3 hl2]
            exact hp2

theorem loopV_preserves (env : Env) (P : View → Prop)
    (hadd : ∀ v h, P v → lookup v.ring.byId h.id = none → P (View.addNew env v h))
    (hrm : ∀ v h, P v → P (v.removeHost env h)) (reported : List RHost) :
    ∀ (st : RState), P st.v → P (refreshLoopV env reported st).1.v := by
  induction reported with
  | nil => intro st hp; exact hp
  | cons h t ih =>
    intro st hp
    unfold refreshLoopV
    have := stepV_preserves env P hadd hrm st h hp
    generalize refreshStepV env st h = res at this
    obtain ⟨st', res'⟩ := res
    dsimp only at this ⊢
    split
    · exact ih st' this
    · exact this

theorem removeAllV_preserves (env : Env) (P : View → Prop) (hrm : ∀ v h, P v → P (v.removeHost env h))
    (prev : List (Nat × RHost)) : ∀ v, P v → P (removeAllV env v prev) := by
  induction prev with
  | nil => intro v hp; exact hp
  | cons p t ih => intro v hp; obtain ⟨k, x⟩ := p; exact ih _ (hrm v x hp)

theorem refreshV_preserves (env : Env) (P : View → Prop)
    (hadd : ∀ v h, P v → lookup v.ring.byId h.id = none → P (View.addNew env v h))
    (hrm : ∀ v h, P v → P (v.removeHost env h)) (v : View) (hp : P v) (reported : List RHost) :
    P (v.refresh env reported).1 := by
  have := loopV_preserves env P hadd hrm reported ⟨v, v.ring.byId⟩ hp
  unfold View.refresh
  generalize refreshLoopV env reported ⟨v, v.ring.byId⟩ = res at this
  obtain ⟨st', res'⟩ := res
  dsimp only at this
  cases res' with
  | ok => exact removeAllV_preserves env P hrm st'.prev st'.v this
  | errCannotFind => exact this
  | errAlreadyExists => exact this

end C16
