import Model.ClusterView
import Proofs.C16Ring
import Proofs.C16Refresh
import Proofs.C16Index
import Proofs.C16RefreshIdx
/-! helper lemmas: `View.refresh` (refreshRing with its session-level effects; repaired: removals first, then
additions) — its ring is the ring of `Ring.refresh`; properties kept by its two primitive steps are kept by
the refresh -/
namespace C16
open Ring ClusterView

theorem startPoolFill_ring (env : Env) (v : View) (h : RHost) : (v.startPoolFill env h).ring = v.ring := rfl
theorem removeHost_ring (env : Env) (v : View) (h : RHost) : (v.removeHost env h).ring = (v.ring.remove h.id).1 := rfl

theorem removeAllV_ring (env : Env) (prev : List (Nat × RHost)) : ∀ (v : View),
    (removeAllV env v prev).ring = removeAll v.ring prev := by
  induction prev with
  | nil => intro v; rfl
  | cons p t ih => intro v; obtain ⟨k, x⟩ := p; simp only [removeAllV, removeAll]; rw [ih, removeHost_ring]

theorem addStepV_ring (env : Env) (v : View) (h : RHost) : (addStepV env v h).ring = (v.ring.addIfMissing h).1 := by
  unfold addStepV
  cases hl : lookup v.ring.byId h.id with
  | none => rw [addIfMissing_of_none _ h hl]; rfl
  | some e => rw [addIfMissing_of_some _ h e hl]

theorem foldl_addStepV_ring (env : Env) (l : List RHost) : ∀ (v : View),
    (l.foldl (addStepV env) v).ring = l.foldl (fun r h => (r.addIfMissing h).1) v.ring := by
  induction l with
  | nil => intro v; rfl
  | cons h t ih => intro v; simp only [List.foldl_cons]; rw [ih, addStepV_ring]

/-- the accepted (not filtered) reported hosts -/
def accepted (env : Env) (reported : List RHost) : List RHost := reported.filter (fun h => !env.filter h)

/-- the hosts removed by pass 1 of `View.refresh` -/
def goneV (env : Env) (v : View) (reported : List RHost) : List (Nat × RHost) := goneOf v.ring env.filter reported

theorem refreshV_eq (env : Env) (v : View) (reported : List RHost) :
    v.refresh env reported = (accepted env reported).foldl (addStepV env) (removeAllV env v (goneV env v reported)) := rfl

/-- the ring after `View.refresh` is the ring of `Ring.refresh` -/
theorem refreshV_ring (env : Env) (v : View) (reported : List RHost) :
    (v.refresh env reported).ring = (v.ring.refresh env.filter reported).1 := by
  rw [refreshV_eq, foldl_addStepV_ring, removeAllV_ring, refresh_ring]
  rfl

/-! ### any property kept by the two primitive steps is kept by a refresh -/

/-- a reported host with a new id is stored and its pool fill started -/
def View.addNew (env : Env) (v : View) (h : RHost) : View :=
  ({ v with ring := (v.ring.addIfMissing h).1 }).startPoolFill env h

theorem addStepV_of_none (env : Env) (v : View) (h : RHost) (hl : lookup v.ring.byId h.id = none) :
    addStepV env v h = View.addNew env v h := by
  unfold addStepV View.addNew
  rw [addIfMissing_of_none _ h hl]

theorem addStepV_of_some (env : Env) (v : View) (h e : RHost) (hl : lookup v.ring.byId h.id = some e) :
    addStepV env v h = v := by
  unfold addStepV
  rw [addIfMissing_of_some _ h e hl]

theorem removeAllV_preserves (env : Env) (P : View → Prop) (hrm : ∀ v h, P v → P (v.removeHost env h))
    (prev : List (Nat × RHost)) : ∀ v, P v → P (removeAllV env v prev) := by
  induction prev with
  | nil => intro v hp; exact hp
  | cons p t ih => intro v hp; obtain ⟨k, x⟩ := p; exact ih _ (hrm v x hp)

theorem addAllV_preserves (env : Env) (P : View → Prop)
    (hadd : ∀ v h, P v → lookup v.ring.byId h.id = none → P (View.addNew env v h)) (l : List RHost) :
    ∀ v, P v → P (l.foldl (addStepV env) v) := by
  induction l with
  | nil => intro v hp; exact hp
  | cons h t ih =>
    intro v hp
    simp only [List.foldl_cons]
    apply ih
    cases hl : lookup v.ring.byId h.id with
    | none => rw [addStepV_of_none env v h hl]; exact hadd v h hp hl
    | some e => rw [addStepV_of_some env v h e hl]; exact hp

theorem refreshV_preserves (env : Env) (P : View → Prop)
    (hadd : ∀ v h, P v → lookup v.ring.byId h.id = none → P (View.addNew env v h))
    (hrm : ∀ v h, P v → P (v.removeHost env h)) (v : View) (hp : P v) (reported : List RHost) :
    P (v.refresh env reported) := by
  rw [refreshV_eq]
  exact addAllV_preserves env P hadd _ _ (removeAllV_preserves env P hrm _ v hp)

end C16
