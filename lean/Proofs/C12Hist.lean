import Model.MarshalMemo
/-!
# C12: history independence of Marshal inside one process (helpers for `C12_history_independent`, `C12_memo_sound`)
-/
namespace C12Hist
open MarshalMemo
variable {α β ρ κ : Type}

theorem pureRun_eq (F : α → β) : ∀ (s : Unit) (as : List α), pureRun F s as = as.map F
  | _, [] => rfl
  | s, a :: as => by simp [pureRun, pureStep, pureRun_eq F () as]

/-- every cache entry is the resolution of SOME earlier call with that key -/
def CacheInv [DecidableEq κ] (M : Memo α β ρ κ) (c : List (κ × ρ)) : Prop :=
  ∀ k r, lookupK k c = some r → ∃ a', M.key a' = k ∧ M.resolve a' = r

theorem inv_nil [DecidableEq κ] (M : Memo α β ρ κ) : CacheInv M [] := by
  intro k r h; simp [lookupK] at h

theorem inv_cons [DecidableEq κ] (M : Memo α β ρ κ) (c : List (κ × ρ)) (a : α) (h : CacheInv M c) :
    CacheInv M ((M.key a, M.resolve a) :: c) := by
  intro k r hl
  simp only [lookupK] at hl
  split at hl
  · rename_i hk
    injection hl with hl
    exact ⟨a, hk, hl⟩
  · exact h k r hl

/-- a memo whose ACCEPTED cache hits give the stateless answer answers every call of every sequence statelessly -/
theorem memo_run [DecidableEq κ] (M : Memo α β ρ κ)
    (hs : ∀ a a', M.key a' = M.key a → M.valid (M.resolve a') a = true → M.apply (M.resolve a') a = M.direct a) :
    ∀ (as : List α) (c : List (κ × ρ)), CacheInv M c → M.run c as = as.map M.direct
  | [], _, _ => rfl
  | a :: as, c, hc => by
    have hstep : (M.step c a).2 = M.direct a ∧ CacheInv M (M.step c a).1 := by
      unfold Memo.step
      cases hl : lookupK (M.key a) c with
      | none => exact ⟨rfl, inv_cons M c a hc⟩
      | some r =>
        obtain ⟨a', hk, hr⟩ := hc _ r hl
        by_cases hv : M.valid r a = true
        · simp only [hv, if_true]
          exact ⟨by rw [← hr] at hv ⊢; exact hs a a' hk hv, hc⟩
        · simp only [hv]
          exact ⟨rfl, inv_cons M c a hc⟩
    simp only [Memo.run, List.map_cons, hstep.1, memo_run M hs as _ hstep.2]

end C12Hist
