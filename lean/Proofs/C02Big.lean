import Proofs.C02Cross
/-!
# C02 — arbitrary-precision integers: `decBigInt2C (encBigInt2C n) = n` for every integer (helpers)

encBigInt2C (marshal.go) writes a big.Int as big-endian two's complement; decBigInt2C reads it back.  Both are the
model's transliterations (Model/MarshalScalar.lean).  Used by the varint → *big.Int and decimal → *inf.Dec round trips.
-/
namespace C02Big
open ValueSpec Marshal C12Bytes C12Varint C12Vint C02Cross

theorem natBytes_zero : natBytes 0 = [] := by rw [natBytes]; simp

theorem natBytes_pos (n : Nat) (h : n ≠ 0) : natBytes n = natBytes (n / 256) ++ [byteOfNat n] := by
  rw [natBytes]; simp [h]

/-- big.Int.Bytes() is the big-endian magnitude -/
theorem beNat_natBytes (n : Nat) : beNat (natBytes n) = n := by
  induction n using Nat.strongRecOn with
  | _ n ih =>
    by_cases h : n = 0
    · subst h; rw [natBytes_zero]; rfl
    · rw [natBytes_pos n h, beNat_snoc, ih (n / 256) (by omega), byteOfNat_toNat]; omega

/-- … without leading zeros: exactly k+1 bytes for 256^k ≤ n < 256^(k+1) -/
theorem natBytes_length (k : Nat) : ∀ n : Nat, 256 ^ k ≤ n → n < 256 ^ (k + 1) → (natBytes n).length = k + 1 := by
  induction k with
  | zero =>
    intro n h1 h2
    have h0 : n / 256 = 0 := by omega
    rw [natBytes_pos n (by omega), h0, natBytes_zero]; rfl
  | succ k ih =>
    intro n h1 h2
    have hp : 256 ^ (k + 1) = 256 ^ k * 256 := Nat.pow_succ _ _
    have hp2 : 256 ^ (k + 1 + 1) = 256 ^ (k + 1) * 256 := Nat.pow_succ _ _
    have hn : n ≠ 0 := by have := pow256_pos (k + 1); omega
    rw [natBytes_pos n hn, List.length_append, ih (n / 256) (by omega) (by omega)]; rfl

theorem natBytes_ne_nil (n : Nat) (h : n ≠ 0) : natBytes n ≠ [] := by
  rw [natBytes_pos n h]; simp

/-- every positive number lies in exactly one byte-length class -/
theorem exists_class (n : Nat) (h : n ≠ 0) : ∃ k, 256 ^ k ≤ n ∧ n < 256 ^ (k + 1) := by
  induction n using Nat.strongRecOn with
  | _ n ih =>
    by_cases hs : n < 256
    · exact ⟨0, by omega, by omega⟩
    · obtain ⟨k, h1, h2⟩ := ih (n / 256) (by omega) (by omega)
      refine ⟨k + 1, ?_, ?_⟩
      · rw [Nat.pow_succ]; omega
      · rw [Nat.pow_succ] at h2 ⊢; omega

theorem tcDec_pos_small (x : UInt8) (r : Bytes) (hx : ¬ x.toNat ≥ 128) : tcDec (x :: r) = beNat (x :: r) := by
  unfold tcDec
  rw [if_neg (fun h => hx ((sign_iff_head x r).mp h))]

theorem tcDec_zero_cons (b : Bytes) : tcDec (0 :: b) = beNat b := by
  rw [tcDec_pos_small 0 b (by decide), beNat_cons]
  simp

theorem bitLen_bound (m : Nat) : m < 2 ^ bitLen m := (bitLen_le_iff m (bitLen m)).mp (Nat.le_refl _)

/-- the width encBigInt2C chooses for a negative number holds it: |n| < 256^k / 2 for k = BitLen/8 + 1 -/
theorem neg_width (m : Nat) : 2 * m < 256 ^ (bitLen m / 8 + 1) := by
  have h := bitLen_bound m
  have h256 : (256:Nat) ^ (bitLen m / 8 + 1) = 2 ^ (8 * (bitLen m / 8 + 1)) := by
    rw [Nat.pow_mul]
  rw [h256]
  have hle : bitLen m + 1 ≤ 8 * (bitLen m / 8 + 1) := by omega
  have : 2 ^ (bitLen m + 1) ≤ 2 ^ (8 * (bitLen m / 8 + 1)) := Nat.pow_le_pow_right (by decide) hle
  rw [Nat.pow_succ] at this
  omega

/-- encBigInt2C never returns the empty string -/
theorem encBigInt2C_ne_nil (n : Int) : encBigInt2C n ≠ [] := by
  unfold encBigInt2C
  split
  · simp
  · split
    · have hne := natBytes_ne_nil n.toNat (by omega)
      cases hb : natBytes n.toNat with
      | nil => exact absurd hb hne
      | cons x r => simp only; split <;> simp
    · rename_i h0 hpos
      have hw := neg_width n.natAbs
      have hpp := pow256_pos (bitLen n.natAbs / 8 + 1)
      have hN : (n + (2:Int) ^ ((bitLen n.natAbs / 8 + 1) * 8)).toNat ≠ 0 := by
        rw [two_pow_mul8, ← cast_pow256]
        omega
      have hne := natBytes_ne_nil _ hN
      simp only
      generalize natBytes (n + (2:Int) ^ ((bitLen n.natAbs / 8 + 1) * 8)).toNat = b at hne
      match b, hne with
      | [x], _ => simp
      | x :: y :: r, _ => simp only; split <;> simp

/-- the value of what encBigInt2C writes, read as two's complement, is the number — EVERY integer -/
theorem tcDec_encBigInt2C (n : Int) : tcDec (encBigInt2C n) = n := by
  unfold encBigInt2C
  split
  · rename_i h; subst h; decide
  · rename_i h0
    split
    · rename_i hpos
      have hne := natBytes_ne_nil n.toNat (by omega)
      have hv := beNat_natBytes n.toNat
      cases hb : natBytes n.toNat with
      | nil => exact absurd hb hne
      | cons x r =>
        rw [hb] at hv
        simp only
        split
        · rw [tcDec_zero_cons, hv]; omega
        · rename_i hx
          rw [tcDec_pos_small x r hx, hv]; omega
    · rename_i hpos
      have hw := neg_width n.natAbs
      generalize hk : bitLen n.natAbs / 8 = k at hw
      have hpp := pow256_pos (k + 1)
      have hps : 256 ^ (k + 1) = 256 ^ k * 256 := Nat.pow_succ _ _
      -- N = n + 256^(k+1) as a natural number
      have hN : (n + (2:Int) ^ ((k + 1) * 8)).toNat = 256 ^ (k + 1) - n.natAbs := by
        rw [two_pow_mul8, ← cast_pow256]; omega
      simp only
      rw [hN]
      generalize hNN : 256 ^ (k + 1) - n.natAbs = N
      have hN1 : 256 ^ k ≤ N := by omega
      have hN2 : N < 256 ^ (k + 1) := by omega
      have hlen := natBytes_length k N hN1 hN2
      have hv := beNat_natBytes N
      have htc : tcDec (natBytes N) = n := by
        unfold tcDec
        rw [hlen, hv, if_pos (by omega), ← cast_pow256]
        omega
      generalize natBytes N = b at hlen hv htc
      match b, hlen with
      | [x], _ => simpa using htc
      | x :: y :: r, _ =>
        simp only
        split
        · rename_i hc
          obtain ⟨hx, hy⟩ := hc
          subst hx
          rw [← htc, tcDec_ff_ext y r hy]
        · exact htc

/-- `*big.Int` gets back exactly the number Marshal was given -/
theorem decBigInt2C_encBigInt2C (n : Int) : decBigInt2C (encBigInt2C n) = n := by
  rw [decBigInt2C_eq_tcDec, tcDec_encBigInt2C]

/-- marshalVarint on a big.Int writes the specification's varint (shortest two's complement) -/
theorem marshalVarintBig_spec (n : Int) : marshalVarintBig n = specVarint n := by
  unfold marshalVarintBig
  rw [trimTC_spec _ (encBigInt2C_ne_nil n), tcDec_encBigInt2C]

end C02Big
