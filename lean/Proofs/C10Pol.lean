import Model.PlacementPol
import Model.PlacementConc
import Proofs.C10
import Proofs.C10Conc
/-!
# C10 — the replica map as a function of the history of policy events

Model: `Model/PlacementPol.lean` (`polStep` mirrors tokenAwareHostPolicy's AddHost / AddHosts / RemoveHost / HostUp /
HostDown / SetPartitioner / KeyspaceChanged with cowHostList, resetTokenRing, updateReplicas and — the repair of
KF-C10-4 — updateAllReplicas; the environment event `setSchema` changes what getKeyspaceMetadata answers).  Helper
lemmas in namespace `C10Pol`, the property theorems in namespace `C10` at the end of the file.  All theorems are by
induction over the event list (invariant `Inv`).
-/
namespace C10Pol
open Placement PlacementPol C10Lookup C10Simple C10Nts C10NtsNodup C10NtsSpec C10SpecDedup C10NtsLookup

/-! ## the replica-map computation never panics -/

theorem replicaMapOf_ok (ring : List Entry) (strat : Strat) (e : Crash) :
    replicaMapOf ring strat ≠ some (.error e) := by
  cases strat with
  | simple rf => simp [replicaMapOf]
  | nts rfs => simp [replicaMapOf, C10.C10_no_panic]
  | unusable => simp [replicaMapOf]

theorem getKs_dropKs (f : RepTab) (ks k : Nat) : getKs (dropKs f ks) k = if k = ks then none else getKs f k := by
  induction f with
  | nil => simp [dropKs, getKs]
  | cons e rest ih =>
    obtain ⟨a, v⟩ := e
    unfold dropKs at ih ⊢
    by_cases ha : a = ks
    · subst ha
      have : List.filter (fun e : Nat × (Part × ReplicaRing) => !(e.1 == a)) ((a, v) :: rest)
          = List.filter (fun e => !(e.1 == a)) rest := by simp
      rw [this, ih]
      by_cases hk : k = a
      · simp [hk]
      · have : ¬ a = k := fun h => hk h.symm
        simp [hk, getKs, this]
    · have : List.filter (fun e : Nat × (Part × ReplicaRing) => !(e.1 == ks)) ((a, v) :: rest)
          = (a, v) :: List.filter (fun e => !(e.1 == ks)) rest := by simp [ha]
      rw [this]
      unfold getKs
      rw [ih]
      by_cases hak : a = k
      · subst hak; simp [ha]
      · simp [hak]

theorem getKs_setKs (f : RepTab) (ks k : Nat) (v : Part × ReplicaRing) :
    getKs (setKs f ks v) k = if k = ks then some v else getKs f k := by
  have h0 : getKs (setKs f ks v) k = if ks = k then some v else getKs (dropKs f ks) k := rfl
  rw [h0]
  by_cases hk : k = ks
  · subst hk; simp
  · have : ¬ ks = k := fun h => hk h.symm
    simp only [this, if_false, hk, getKs_dropKs]

theorem getKs_none_of_not_key (f : RepTab) (k : Nat) (h : k ∉ keysOf f) : getKs f k = none := by
  induction f with
  | nil => rfl
  | cons e rest ih =>
    obtain ⟨a, v⟩ := e
    simp only [keysOf, List.map_cons, List.mem_cons, not_or] at h
    unfold getKs
    have : ¬ a = k := fun h' => h.1 h'.symm
    simp only [this, if_false]
    exact ih h.2

def addFresh (fr : List Nat) (ks : Nat) : List Nat := if ks ∈ fr then fr else fr ++ [ks]

theorem mem_addFresh (fr : List Nat) (ks k : Nat) : k ∈ addFresh fr ks ↔ (k ∈ fr ∨ k = ks) := by
  unfold addFresh
  by_cases h : ks ∈ fr
  · simp only [h, if_true]
    constructor
    · exact Or.inl
    · rintro (h1 | h1)
      · exact h1
      · exact h1 ▸ h
  · simp [h]

/-- the two shapes of the result of `updateReplicas` (the panic branch is impossible) -/
theorem update_cases (s : PolState) (ks : Nat) :
    updateReplicas s ks = { s with replicas := dropKs s.replicas ks, fresh := addFresh s.fresh ks } ∨
    ∃ v, updateReplicas s ks = { s with replicas := setKs s.replicas ks v, fresh := addFresh s.fresh ks } := by
  unfold updateReplicas addFresh
  cases s.schema ks with
  | none => exact Or.inl rfl
  | some strat =>
    cases s.ring with
    | none => exact Or.inl rfl
    | some pr =>
      obtain ⟨p, ring⟩ := pr
      simp only
      cases hm : replicaMapOf ring strat with
      | none => exact Or.inl rfl
      | some r =>
        cases r with
        | error e => exact absurd hm (replicaMapOf_ok ring strat e)
        | ok rr => exact Or.inr ⟨(p, rr), rfl⟩

theorem update_frame (s : PolState) (ks : Nat) :
    (updateReplicas s ks).crashed = s.crashed ∧
    (updateReplicas s ks).ring = s.ring ∧ (updateReplicas s ks).part = s.part ∧
    (updateReplicas s ks).hosts = s.hosts ∧ (updateReplicas s ks).schema = s.schema ∧
    (updateReplicas s ks).sessKs = s.sessKs ∧
    (∀ k, k ≠ ks → (updateReplicas s ks).entry k = s.entry k) ∧
    (∀ k, k ∈ (updateReplicas s ks).fresh ↔ (k ∈ s.fresh ∨ k = ks)) := by
  rcases update_cases s ks with h | ⟨v, h⟩
  · rw [h]
    refine ⟨rfl, rfl, rfl, rfl, rfl, rfl, ?_, mem_addFresh s.fresh ks⟩
    intro k hk
    simp only [PolState.entry, getKs_dropKs, hk, if_false]
  · rw [h]
    refine ⟨rfl, rfl, rfl, rfl, rfl, rfl, ?_, mem_addFresh s.fresh ks⟩
    intro k hk
    simp only [PolState.entry, getKs_setKs, hk, if_false]

/-! ## what an entry has to be, from the current environment -/

def curRingOf (part : Part) (hosts : List PHost) : Option (List Entry) :=
  if part.supported then some (buildRing (ownersOf hosts)) else none

theorem curRing_eq (s : PolState) : PlacementPol.Spec.curRing s = curRingOf s.part s.hosts := rfl

/-- the entry the policy has to hold for a keyspace whose schema currently reads `sch`: the replica map of the schema's
strategy on the ring of the CURRENT hosts; NO entry when the schema is unreadable, has no usable strategy, or there is
no ring -/
def expectedOf (part : Part) (hosts : List PHost) (sch : Option Strat) : Option (Part × ReplicaRing) :=
  match curRingOf part hosts, sch with
  | some ring, some strat =>
    (match replicaMapOf ring strat with
     | some (.ok rr) => some (part, rr)
     | _ => none)
  | _, _ => none

def expected (s : PolState) (ks : Nat) : Option (Part × ReplicaRing) := expectedOf s.part s.hosts (s.schema ks)

def tagged (part : Part) (hosts : List PHost) : Option (Part × List Entry) :=
  (curRingOf part hosts).map (fun r => (part, r))

/-! ## updateReplicas, updateAllReplicas -/

/-- on the ring of the current hosts `updateReplicas` leaves exactly the expected entry for its keyspace -/
theorem update_entry (s : PolState) (ks : Nat) (hr : s.ring = tagged s.part s.hosts) :
    (updateReplicas s ks).entry ks = expected s ks := by
  unfold updateReplicas expected expectedOf
  unfold tagged at hr
  cases hsch : s.schema ks with
  | none =>
    simp only [PolState.entry, getKs_dropKs, if_true]
    cases curRingOf s.part s.hosts <;> rfl
  | some strat =>
    cases hcr : curRingOf s.part s.hosts with
    | none =>
      rw [hcr] at hr
      simp only [Option.map_none] at hr
      simp only [hr, PolState.entry, getKs_dropKs, if_true]
    | some ring =>
      rw [hcr] at hr
      simp only [Option.map_some] at hr
      simp only [hr]
      cases hm : replicaMapOf ring strat with
      | none => simp only [PolState.entry, getKs_dropKs, if_true]
      | some r =>
        cases r with
        | error e => exact absurd hm (replicaMapOf_ok ring strat e)
        | ok rr => simp only [PolState.entry, getKs_setKs, if_true]

theorem expected_congr (s' s : PolState) (h3 : s'.part = s.part) (h4 : s'.hosts = s.hosts) (h5 : s'.schema = s.schema)
    (k : Nat) : expected s' k = expected s k := by
  simp only [expected, h3, h4, h5]

/-- `updateReplicas` for every keyspace of a list, on the ring of the current hosts: the listed keyspaces get exactly the
expected entry, every other entry is untouched -/
theorem fold_spec (L : List Nat) : ∀ (s : PolState), s.ring = tagged s.part s.hosts →
    (L.foldl updateReplicas s).crashed = s.crashed ∧
    (L.foldl updateReplicas s).ring = s.ring ∧ (L.foldl updateReplicas s).part = s.part ∧
    (L.foldl updateReplicas s).hosts = s.hosts ∧ (L.foldl updateReplicas s).schema = s.schema ∧
    (L.foldl updateReplicas s).sessKs = s.sessKs ∧
    (∀ k, (L.foldl updateReplicas s).entry k = if k ∈ L then expected s k else s.entry k) ∧
    (∀ k, k ∈ (L.foldl updateReplicas s).fresh ↔ (k ∈ s.fresh ∨ k ∈ L)) := by
  induction L with
  | nil => intro s _; simp
  | cons a rest ih =>
    intro s hr
    obtain ⟨h1, h2, h3, h4, h5, h6, h7, h8⟩ := update_frame s a
    have hr1 : (updateReplicas s a).ring = tagged (updateReplicas s a).part (updateReplicas s a).hosts := by
      rw [h2, h3, h4]; exact hr
    obtain ⟨i1, i2, i3, i4, i5, i6, i7, i8⟩ := ih (updateReplicas s a) hr1
    simp only [List.foldl_cons]
    refine ⟨i1.trans h1, i2.trans h2, i3.trans h3, i4.trans h4, i5.trans h5, i6.trans h6, ?_, ?_⟩
    · intro k
      rw [i7 k, expected_congr _ s h3 h4 h5]
      by_cases hk : k ∈ rest
      · simp [hk]
      · by_cases hka : k = a
        · subst hka
          simp only [hk, if_false, List.mem_cons, true_or, if_true]
          exact update_entry s k hr
        · simp only [hk, if_false, List.mem_cons, hka, or_self]
          exact h7 k hka
    · intro k
      rw [i8 k, h8 k]
      simp only [List.mem_cons]
      constructor
      · rintro ((h | h) | h)
        · exact Or.inl h
        · exact Or.inr (Or.inl h)
        · exact Or.inr (Or.inr h)
      · rintro (h | h | h)
        · exact Or.inl (Or.inl h)
        · exact Or.inl (Or.inr h)
        · exact Or.inr h

/-- without any assumption on the ring: what `updateReplicas` over a list never touches, and the ghost field -/
theorem fold_frame (L : List Nat) : ∀ (s : PolState),
    (L.foldl updateReplicas s).crashed = s.crashed ∧ (L.foldl updateReplicas s).schema = s.schema ∧
    (L.foldl updateReplicas s).sessKs = s.sessKs ∧
    (∀ k, k ∉ L → (L.foldl updateReplicas s).entry k = s.entry k) ∧
    (∀ k, k ∈ (L.foldl updateReplicas s).fresh ↔ (k ∈ s.fresh ∨ k ∈ L)) := by
  induction L with
  | nil => intro s; simp
  | cons a rest ih =>
    intro s
    obtain ⟨h1, _, _, _, h5, h6, h7, h8⟩ := update_frame s a
    obtain ⟨i1, i5, i6, i7, i8⟩ := ih (updateReplicas s a)
    simp only [List.foldl_cons]
    refine ⟨i1.trans h1, i5.trans h5, i6.trans h6, ?_, ?_⟩
    · intro k hk
      simp only [List.mem_cons, not_or] at hk
      rw [i7 k hk.2, h7 k hk.1]
    · intro k
      rw [i8 k, h8 k]
      simp only [List.mem_cons]
      constructor
      · rintro ((h | h) | h)
        · exact Or.inl h
        · exact Or.inr (Or.inl h)
        · exact Or.inr (Or.inr h)
      · rintro (h | h | h)
        · exact Or.inl (Or.inl h)
        · exact Or.inl (Or.inr h)
        · exact Or.inr h

/-- `updateAllReplicas` reaches the session keyspace and every keyspace with an entry -/
theorem mem_allKeyspaces (s : PolState) (k : Nat) :
    k ∈ allKeyspaces s ↔ (k = s.sessKs ∨ k ∈ keysOf s.replicas) := by
  unfold allKeyspaces
  simp only [List.mem_cons, List.mem_filter, Bool.not_eq_true', beq_eq_false_iff_ne, ne_eq]
  constructor
  · rintro (h | h)
    · exact Or.inl h
    · exact Or.inr h.1
  · rintro (h | h)
    · exact Or.inl h
    · by_cases hk : k = s.sessKs
      · exact Or.inl hk
      · exact Or.inr ⟨h, hk⟩

theorem entry_none_of_not_all (s : PolState) (k : Nat) (h : k ∉ allKeyspaces s) : s.entry k = none := by
  rw [mem_allKeyspaces] at h
  exact getKs_none_of_not_key s.replicas k (fun hk => h (Or.inr hk))

theorem held_mem_allKeyspaces (s : PolState) (k : Nat) (h : (s.entry k).isSome = true) : k ∈ allKeyspaces s := by
  by_cases hk : k ∈ allKeyspaces s
  · exact hk
  · rw [entry_none_of_not_all s k hk] at h; simp at h

/-! ## the invariant -/

def EvOK : PolEvent → Prop
  | .setPartitioner p => p.supported = true
  | _ => True

/-- the entry of keyspace `ks` is absent or the replica map of SOME strategy on the ring of the current hosts, with
tokens of the current partitioner's type -/
def OnRing (s : PolState) (ks : Nat) : Prop :=
  s.entry ks = none ∨
  ∃ strat ring rr, curRingOf s.part s.hosts = some ring ∧ replicaMapOf ring strat = some (.ok rr) ∧
    s.entry ks = some (s.part, rr)

structure Inv (s : PolState) : Prop where
  nocrash : s.crashed = false
  ring : s.ring = tagged s.part s.hosts
  /-- a keyspace whose schema has not changed since the policy last read it: NO entry, or exactly the expected one -/
  fresh : ∀ ks ∈ s.fresh, s.entry ks = none ∨ s.entry ks = expected s ks
  sess : s.sessKs ∈ s.fresh → s.entry s.sessKs = expected s s.sessKs
  /-- EVERY keyspace, fresh or not: no entry computed for a previous ring survives -/
  onring : ∀ ks, OnRing s ks

theorem inv_init (sk : Nat) (sch : Nat → Option Strat) : Inv (polInit sk sch) :=
  ⟨rfl, rfl, by intro ks h; simp [polInit] at h, by intro h; simp [polInit] at h, fun _ => Or.inl rfl⟩

theorem onring_of_expected (s : PolState) (ks : Nat) (h : s.entry ks = expected s ks) : OnRing s ks := by
  unfold OnRing
  rw [h]
  unfold expected expectedOf
  cases hcr : curRingOf s.part s.hosts with
  | none => exact Or.inl rfl
  | some ring =>
    cases hsch : s.schema ks with
    | none => exact Or.inl rfl
    | some strat =>
      cases hm : replicaMapOf ring strat with
      | none => left; simp only [hm]
      | some r =>
        cases r with
        | error e => left; simp only [hm]
        | ok rr => right; exact ⟨strat, ring, rr, rfl, hm, by simp only [hm]⟩

theorem reset_tagged (s : PolState) (hp : s.part.supported = true ∨ s.ring = none) :
    resetTokenRing s = tagged s.part s.hosts := by
  unfold resetTokenRing tagged curRingOf
  rcases hp with hp | hp
  · simp [hp]
  · by_cases h : s.part.supported = true
    · simp [h]
    · simp [h, hp]

/-- what a ring-changing event leaves (`hosts` / `part` already updated): the ring of the current hosts, and for the
session keyspace and EVERY keyspace that had an entry exactly the expected entry; no other keyspace has an entry -/
theorem recompute_spec (s : PolState) (hc : s.crashed = false)
    (hp : s.part.supported = true ∨ s.ring = none) :
    (recompute s).crashed = false ∧ (recompute s).ring = tagged s.part s.hosts ∧
    (recompute s).part = s.part ∧ (recompute s).hosts = s.hosts ∧ (recompute s).schema = s.schema ∧
    (recompute s).sessKs = s.sessKs ∧
    (∀ k, (recompute s).entry k = if k ∈ allKeyspaces s then expected s k else none) ∧
    (∀ k, k ∈ (recompute s).fresh ↔ (k ∈ s.fresh ∨ k ∈ allKeyspaces s)) := by
  have hreset := reset_tagged s hp
  obtain ⟨h1, h2, h3, h4, h5, h6, h7, h8⟩ :=
    fold_spec (allKeyspaces s) { s with ring := resetTokenRing s } hreset
  have hnc : (updateAllReplicas { s with ring := resetTokenRing s }).crashed = false := by
    unfold updateAllReplicas
    exact h1.trans hc
  have hrec : recompute s = (allKeyspaces s).foldl updateReplicas { s with ring := resetTokenRing s } := by
    unfold recompute
    simp only [hnc, Bool.false_eq_true, if_false]
    rfl
  rw [hrec]
  refine ⟨h1.trans hc, h2.trans hreset, h3, h4, h5, h6, ?_, h8⟩
  intro k
  have h7k := h7 k
  by_cases hk : k ∈ allKeyspaces s
  · rw [if_pos hk] at h7k ⊢
    exact h7k
  · rw [if_neg hk] at h7k ⊢
    rw [h7k]
    exact entry_none_of_not_all s k hk

theorem inv_recompute (s : PolState) (hc : s.crashed = false)
    (hp : s.part.supported = true ∨ s.ring = none) : Inv (recompute s) := by
  obtain ⟨h1, h2, h3, h4, h5, h6, h7, h8⟩ := recompute_spec s hc hp
  have hexp : ∀ k, expected (recompute s) k = expected s k := fun k => expected_congr _ s h3 h4 h5 k
  have hent : ∀ k, (recompute s).entry k = none ∨ (recompute s).entry k = expected (recompute s) k := by
    intro k
    rw [h7 k, hexp k]
    by_cases hk : k ∈ allKeyspaces s
    · rw [if_pos hk]; exact Or.inr rfl
    · rw [if_neg hk]; exact Or.inl rfl
  refine ⟨h1, ?_, fun k _ => hent k, ?_, ?_⟩
  · rw [h2, h3, h4]
  · intro _
    rw [h6, h7, hexp, if_pos ((mem_allKeyspaces s s.sessKs).mpr (Or.inl rfl))]
  · intro k
    rcases hent k with h | h
    · exact Or.inl h
    · exact onring_of_expected _ k h

theorem polStep_nocrash (s : PolState) (e : PolEvent) (hc : s.crashed = false) :
    polStep s e = (match e with
      | .addHost p => if hasAddr s.hosts p.addr then s else recompute { s with hosts := s.hosts ++ [p] }
      | .addHosts ps => recompute { s with hosts := ps.foldl cowAdd s.hosts }
      | .removeHost a => if hasAddr s.hosts a then recompute { s with hosts := cowRemove s.hosts a } else s
      | .hostUp _ => s
      | .hostDown _ => s
      | .setPartitioner p => if s.part = p then s else recompute { s with part := p }
      | .keyspaceChanged ks =>
        let s2 := updateReplicas s ks
        if s2.crashed then { s with crashed := true } else s2
      | .setSchema ks v =>
        { s with schema := fun k => if k = ks then v else s.schema k,
                 fresh := s.fresh.filter (fun k => !(k == ks)) }) := by
  unfold polStep
  rw [if_neg (by rw [hc]; simp)]
  cases e <;> rfl

theorem inv_step (s : PolState) (e : PolEvent) (hI : Inv s) (he : EvOK e) : Inv (polStep s e) := by
  have hsup : s.part.supported = true ∨ s.ring = none := by
    by_cases h : s.part.supported = true
    · exact Or.inl h
    · right; rw [hI.ring]; simp [tagged, curRingOf, h]
  rw [polStep_nocrash s e hI.nocrash]
  cases e with
  | addHost p =>
    dsimp only
    by_cases h : hasAddr s.hosts p.addr = true
    · rw [if_pos h]; exact hI
    · rw [if_neg h]
      exact inv_recompute _ hI.nocrash hsup
  | addHosts ps => exact inv_recompute _ hI.nocrash hsup
  | removeHost a =>
    dsimp only
    by_cases h : hasAddr s.hosts a = true
    · rw [if_pos h]
      exact inv_recompute _ hI.nocrash hsup
    · rw [if_neg h]; exact hI
  | hostUp a => exact hI
  | hostDown a => exact hI
  | setPartitioner p =>
    dsimp only
    by_cases h : s.part = p
    · rw [if_pos h]; exact hI
    · rw [if_neg h]
      exact inv_recompute _ hI.nocrash (Or.inl he)
  | keyspaceChanged ks =>
    dsimp only
    obtain ⟨h1, h2, h3, h4, h5, h6, h8, h9⟩ := update_frame s ks
    have h7 := update_entry s ks hI.ring
    have hnc : (updateReplicas s ks).crashed = false := by rw [h1]; exact hI.nocrash
    rw [if_neg (by rw [hnc]; simp)]
    have hexp : ∀ k, expected (updateReplicas s ks) k = expected s k := fun k => expected_congr _ s h3 h4 h5 k
    refine ⟨hnc, ?_, ?_, ?_, ?_⟩
    · rw [h2, h3, h4]; exact hI.ring
    · intro k hk
      rw [hexp]
      by_cases hkk : k = ks
      · subst hkk; exact Or.inr h7
      · rw [h8 k hkk]
        rcases (h9 k).mp hk with h | h
        · exact hI.fresh k h
        · exact absurd h hkk
    · intro hs
      rw [h6] at hs ⊢
      rw [hexp]
      by_cases hkk : s.sessKs = ks
      · rw [hkk]; exact h7
      · rw [h8 _ hkk]
        rcases (h9 _).mp hs with h | h
        · exact hI.sess h
        · exact absurd h hkk
    · intro k
      by_cases hkk : k = ks
      · subst hkk
        exact onring_of_expected _ k (by rw [hexp]; exact h7)
      · unfold OnRing
        rw [h3, h4, h8 k hkk]
        exact hI.onring k
  | setSchema ks v =>
    dsimp only
    refine ⟨hI.nocrash, hI.ring, ?_, ?_, hI.onring⟩
    · intro k hk
      simp only [List.mem_filter, Bool.not_eq_true', beq_eq_false_iff_ne, ne_eq] at hk
      simp only [expected, hk.2, if_false]
      exact hI.fresh k hk.1
    · intro hk
      simp only [List.mem_filter, Bool.not_eq_true', beq_eq_false_iff_ne, ne_eq] at hk
      simp only [expected, hk.2, if_false]
      exact hI.sess hk.1

theorem inv_run (evs : List PolEvent) : ∀ (s : PolState), Inv s → (∀ e ∈ evs, EvOK e) → Inv (polRun s evs) := by
  induction evs with
  | nil => intro s h _; exact h
  | cons e rest ih =>
    intro s h hev
    unfold polRun
    simp only [List.foldl_cons]
    exact ih (polStep s e) (inv_step s e h (hev e (by simp))) (fun x hx => hev x (by simp [hx]))

/-! ## no panic escapes, for EVERY history (also with unsupported partitioners) -/

theorem update_crashed (s : PolState) (ks : Nat) : (updateReplicas s ks).crashed = s.crashed :=
  (update_frame s ks).1

theorem recompute_crashed (s : PolState) (hc : s.crashed = false) : (recompute s).crashed = false := by
  have h := (fold_frame (allKeyspaces { s with ring := resetTokenRing s }) { s with ring := resetTokenRing s }).1
  have hnc : (updateAllReplicas { s with ring := resetTokenRing s }).crashed = false := by
    unfold updateAllReplicas
    rw [h]; exact hc
  unfold recompute
  simp only [hnc, Bool.false_eq_true, if_false]

theorem step_crashed (s : PolState) (e : PolEvent) (hc : s.crashed = false) : (polStep s e).crashed = false := by
  rw [polStep_nocrash s e hc]
  cases e with
  | addHost p =>
    dsimp only
    by_cases h : hasAddr s.hosts p.addr = true
    · rw [if_pos h]; exact hc
    · rw [if_neg h]; exact recompute_crashed _ hc
  | addHosts ps => exact recompute_crashed _ hc
  | removeHost a =>
    dsimp only
    by_cases h : hasAddr s.hosts a = true
    · rw [if_pos h]; exact recompute_crashed _ hc
    · rw [if_neg h]; exact hc
  | hostUp a => exact hc
  | hostDown a => exact hc
  | setPartitioner p =>
    dsimp only
    by_cases h : s.part = p
    · rw [if_pos h]; exact hc
    · rw [if_neg h]; exact recompute_crashed _ hc
  | keyspaceChanged ks =>
    dsimp only
    have hnc : (updateReplicas s ks).crashed = false := by rw [update_crashed]; exact hc
    rw [if_neg (by rw [hnc]; simp)]
    exact hnc
  | setSchema ks v => exact hc

theorem run_crashed (evs : List PolEvent) : ∀ (s : PolState), s.crashed = false → (polRun s evs).crashed = false := by
  induction evs with
  | nil => intro s h; exact h
  | cons e rest ih =>
    intro s h
    unfold polRun
    simp only [List.foldl_cons]
    exact ih (polStep s e) (step_crashed s e h)

/-! ## the lookup Pick makes = the specification, on a fresh keyspace -/

theorem pick_none_eq_owner (ring : List Entry) (rr : ReplicaRing) (t : Int) (hs : Sorted ring)
    (hn : replicasFor rr t = none) : pickReplicas ring rr t = PlacementPol.Spec.owner ring t := by
  unfold pickReplicas PlacementPol.Spec.owner
  rw [hn]
  simp only
  unfold getHostForToken
  by_cases hl : ring.length = 0
  · have : ring = [] := List.eq_nil_of_length_eq_zero hl
    subst this
    simp
  · rw [if_neg hl, C10.C10_lookup ring t hs]
    cases ring[Placement.Spec.ownerIdx ring t]? <;> rfl

theorem replicasFor_nil (t : Int) : replicasFor [] t = none := by
  unfold replicasFor; simp

theorem pick_simple (ring : List Entry) (rf : Nat) (t : Int) (hs : Sorted ring) :
    pickReplicas ring (simpleReplicaMap rf ring) t = Placement.Spec.simple ring rf t := by
  by_cases hne : ring = []
  · subst hne
    have h0 : simpleReplicaMap rf [] = [] := by simp [simpleReplicaMap, sortReps]
    rw [h0, pick_none_eq_owner [] [] t hs (replicasFor_nil t), (C10.C10_simple_empty rf t).2]
    simp [PlacementPol.Spec.owner]
  · have h := C10.C10_simple ring rf t hs hne
    unfold pickReplicas
    cases hr : replicasFor (simpleReplicaMap rf ring) t with
    | none => rw [hr] at h; simp at h
    | some e =>
      rw [hr] at h
      simp only [Option.map_some, Option.some.injEq] at h
      simp only [h]

theorem pick_nts (ring : List Entry) (rfs : List (Nat × Nat)) (t : Int) (hs : Sorted ring)
    (hk : (rfs.map (·.1)).Nodup) :
    pickReplicas ring (C10.ntsDesc rfs ring) t =
      PlacementPol.Spec.orOwner (Placement.Spec.nts ring rfs t) (PlacementPol.Spec.owner ring t) := by
  have h := C10.C10_nts_lookup rfs ring t hs hk
  rw [C10.C10_no_panic] at h
  simp only at h
  cases hr : replicasFor (C10.ntsDesc rfs ring) t with
  | none =>
    rw [hr] at h
    simp only [Option.some.injEq] at h
    rw [← h, pick_none_eq_owner ring _ t hs hr]
    rfl
  | some e =>
    rw [hr] at h
    simp only [Option.some.injEq] at h
    have hmem : e ∈ C10.ntsDesc rfs ring := by
      unfold replicasFor at hr
      split at hr
      · exact absurd hr (by simp)
      · exact List.mem_of_getElem? hr
    obtain ⟨th, _, _, hhd⟩ := C10.C10_nts_primary_first rfs ring e hmem
    have hne : e.2 ≠ [] := by
      intro h0; rw [h0] at hhd; simp at hhd
    unfold pickReplicas
    rw [hr, ← h]
    simp only
    unfold PlacementPol.Spec.orOwner
    cases he : e.2 with
    | nil => exact absurd he hne
    | cons a r => rfl


/-- the lookup Pick makes equals the specification whenever the entry is the expected one -/
theorem lookup_of_expected (s : PolState) (hI : Inv s) (ks : Nat) (hrep : s.entry ks = expected s ks) (t : Int)
    (hs : ∀ ring, PlacementPol.Spec.curRing s = some ring → Sorted ring)
    (hk : ∀ k rfs, s.schema k = some (.nts rfs) → (rfs.map (·.1)).Nodup) :
    polLookup s ks t = PlacementPol.Spec.lookup s ks t := by
  have hring := hI.ring
  unfold polLookup PlacementPol.Spec.lookup
  rw [curRing_eq] at hs ⊢
  unfold expected expectedOf at hrep
  unfold tagged at hring
  cases hcr : curRingOf s.part s.hosts with
  | none =>
    rw [hcr] at hring
    simp only [Option.map_none] at hring
    simp only [hring]
  | some ring =>
    have hsr : Sorted ring := hs ring hcr
    rw [hcr] at hring hrep
    simp only [Option.map_some] at hring
    simp only [hring]
    cases hsch : s.schema ks with
    | none =>
      rw [hsch] at hrep
      simp only [hrep]
      rw [pick_none_eq_owner ring [] t hsr (replicasFor_nil t)]
    | some strat =>
      rw [hsch] at hrep
      cases strat with
      | unusable =>
        simp only [replicaMapOf] at hrep
        simp only [hrep]
        rw [pick_none_eq_owner ring [] t hsr (replicasFor_nil t)]
      | simple rf =>
        simp only [replicaMapOf] at hrep
        simp only [hrep, ne_eq, not_true_eq_false, and_false, if_false]
        rw [pick_simple ring rf t hsr]
      | nts rfs =>
        simp only [replicaMapOf, C10.C10_no_panic] at hrep
        simp only [hrep, ne_eq, not_true_eq_false, and_false, if_false]
        rw [pick_nts ring rfs t hsr (hk ks rfs hsch)]

/-- no entry is ever searched with a token of another partitioner's type: for EVERY keyspace -/
theorem lookup_no_type_panic (s : PolState) (hI : Inv s) (ks : Nat) (t : Int) : polLookup s ks t ≠ .typePanic := by
  have hring := hI.ring
  unfold polLookup
  unfold tagged at hring
  cases hcr : curRingOf s.part s.hosts with
  | none =>
    rw [hcr] at hring
    simp only [Option.map_none] at hring
    simp [hring]
  | some ring =>
    rw [hcr] at hring
    simp only [Option.map_some] at hring
    simp only [hring]
    rcases hI.onring ks with h | ⟨strat, ring', rr, _, _, h⟩
    · simp [h]
    · simp [h]

/-- the specification expects NO entry: no ring, or the schema is unreadable / has no usable strategy -/
theorem expected_none_of_noEntry (s : PolState) (ks : Nat) (h : PlacementPol.Spec.noEntryExpected s ks = true) :
    expected s ks = none := by
  unfold PlacementPol.Spec.noEntryExpected at h
  rw [curRing_eq] at h
  unfold expected expectedOf
  cases hcr : curRingOf s.part s.hosts with
  | none => rfl
  | some ring =>
    rw [hcr] at h
    cases hsch : s.schema ks with
    | none => rfl
    | some strat =>
      rw [hsch] at h
      cases strat with
      | unusable => simp [replicaMapOf]
      | simple rf => simp at h
      | nts rfs => simp at h

/-- a settled keyspace holds exactly the expected entry -/
theorem settled_expected (s : PolState) (hI : Inv s) (ks : Nat) (h : settled s ks = true) :
    s.entry ks = expected s ks := by
  unfold settled at h
  simp only [Bool.and_eq_true, Bool.or_eq_true, List.contains_iff_mem, beq_iff_eq] at h
  obtain ⟨hf, hc⟩ := h
  rcases hc with (hc | hc) | hc
  · rcases hI.fresh ks hf with h0 | h0
    · rw [h0] at hc; simp at hc
    · exact h0
  · subst hc; exact hI.sess hf
  · have he := expected_none_of_noEntry s ks hc
    rcases hI.fresh ks hf with h0 | h0
    · rw [h0, he]
    · exact h0

/-! ## every host of a replica map is a host of the ring it was computed on; every host of the ring is a current host -/

theorem mem_insertRep (e x : Int × List Host) (l : ReplicaRing) : x ∈ insertRep e l ↔ x = e ∨ x ∈ l := by
  induction l with
  | nil => simp [insertRep]
  | cons y ys ih =>
    unfold insertRep
    by_cases h : e.1 ≤ y.1
    · simp [h]
    · simp only [h, if_false, List.mem_cons, ih]
      constructor
      · rintro (h1 | h1 | h1)
        · exact Or.inr (Or.inl h1)
        · exact Or.inl h1
        · exact Or.inr (Or.inr h1)
      · rintro (h1 | h1 | h1)
        · exact Or.inr (Or.inl h1)
        · exact Or.inl h1
        · exact Or.inr (Or.inr h1)

theorem mem_sortReps (x : Int × List Host) (l : ReplicaRing) : x ∈ sortReps l ↔ x ∈ l := by
  induction l with
  | nil => simp [sortReps]
  | cons y ys ih =>
    have : sortReps (y :: ys) = insertRep y (sortReps ys) := rfl
    rw [this, mem_insertRep, ih]
    simp

theorem mem_insertEntry (e x : Entry) (l : List Entry) : x ∈ insertEntry e l ↔ x = e ∨ x ∈ l := by
  induction l with
  | nil => simp [insertEntry]
  | cons y ys ih =>
    unfold insertEntry
    by_cases h : e.1 ≤ y.1
    · simp [h]
    · simp only [h, if_false, List.mem_cons, ih]
      constructor
      · rintro (h1 | h1 | h1)
        · exact Or.inr (Or.inl h1)
        · exact Or.inl h1
        · exact Or.inr (Or.inr h1)
      · rintro (h1 | h1 | h1)
        · exact Or.inr (Or.inl h1)
        · exact Or.inl h1
        · exact Or.inr (Or.inr h1)

theorem mem_sortEntries (x : Entry) (l : List Entry) : x ∈ sortEntries l ↔ x ∈ l := by
  induction l with
  | nil => simp [sortEntries]
  | cons y ys ih =>
    have : sortEntries (y :: ys) = insertEntry y (sortEntries ys) := rfl
    rw [this, mem_insertEntry, ih]
    simp

/-- a host of the ring built from the policy's host list is one of those hosts -/
theorem ring_host_current (hosts : List PHost) (e : Entry) (he : e ∈ buildRing (ownersOf hosts)) :
    ∃ p ∈ hosts, p.h = e.2 := by
  unfold buildRing at he
  rw [mem_sortEntries] at he
  simp only [ownersOf, List.mem_flatMap, List.mem_map] at he
  obtain ⟨ht, ⟨p, hp, rfl⟩, t, _, rfl⟩ := he
  exact ⟨p, hp, rfl⟩

theorem simple_hosts_on_ring (rf : Nat) (ring : List Entry) (e : Int × List Host)
    (he : e ∈ simpleReplicaMap rf ring) (h : Host) (hh : h ∈ e.2) : h ∈ ring.map (·.2) := by
  unfold simpleReplicaMap at he
  rw [mem_sortReps] at he
  obtain ⟨i, _, rfl⟩ := List.mem_map.mp he
  simp only [simpleReplicasAt] at hh
  rw [simpleWalk_init] at hh
  have h1 := (mem_firsts _ h).mp (List.mem_of_mem_take hh)
  obtain ⟨x, hx, rfl⟩ := List.mem_map.mp h1
  exact List.mem_map.mpr ⟨x, (mem_rot ring i x).mp hx, rfl⟩

theorem nts_hosts_on_ring (rfs : List (Nat × Nat)) (ring : List Entry) (e : Int × List Host)
    (he : e ∈ C10.ntsDesc rfs ring) (h : Host) (hh : h ∈ e.2) : h ∈ ring.map (·.2) := by
  unfold C10.ntsDesc at he
  obtain ⟨p, _, rfl⟩ := List.mem_map.mp he
  have j := C10.nts_entry_j rfs ring p.1
  exact (mem_rot _ _ h).mp ((mem_firsts _ h).mp (j.rp h hh))

theorem replicaMapOf_hosts (ring : List Entry) (strat : Strat) (rr : ReplicaRing)
    (hm : replicaMapOf ring strat = some (.ok rr)) (e : Int × List Host) (he : e ∈ rr) (h : Host) (hh : h ∈ e.2) :
    h ∈ ring.map (·.2) := by
  cases strat with
  | unusable => simp [replicaMapOf] at hm
  | simple rf =>
    simp only [replicaMapOf, Option.some.injEq, Except.ok.injEq] at hm
    subst hm
    exact simple_hosts_on_ring rf ring e he h hh
  | nts rfs =>
    simp only [replicaMapOf, C10.C10_no_panic, Option.some.injEq, Except.ok.injEq] at hm
    subst hm
    exact nts_hosts_on_ring rfs ring e he h hh

theorem curRing_hosts (s : PolState) (ring : List Entry) (hc : curRingOf s.part s.hosts = some ring)
    (h : Host) (hh : h ∈ ring.map (·.2)) : ∃ p ∈ s.hosts, p.h = h := by
  unfold curRingOf at hc
  split at hc
  · simp only [Option.some.injEq] at hc
    subst hc
    obtain ⟨e, he, rfl⟩ := List.mem_map.mp hh
    exact ring_host_current s.hosts e he
  · simp at hc

theorem expected_hosts (s : PolState) (ks : Nat) (q : Part) (rr : ReplicaRing)
    (hx : expected s ks = some (q, rr)) (e : Int × List Host) (he : e ∈ rr) (h : Host) (hh : h ∈ e.2) :
    ∃ p ∈ s.hosts, p.h = h := by
  unfold expected expectedOf at hx
  cases hcr : curRingOf s.part s.hosts with
  | none => rw [hcr] at hx; simp at hx
  | some ring =>
    rw [hcr] at hx
    cases hsch : s.schema ks with
    | none => rw [hsch] at hx; simp at hx
    | some strat =>
      rw [hsch] at hx
      simp only at hx
      cases hm : replicaMapOf ring strat with
      | none => rw [hm] at hx; simp at hx
      | some r =>
        cases r with
        | error c => rw [hm] at hx; simp at hx
        | ok rr' =>
          rw [hm] at hx
          simp only [Option.some.injEq, Prod.mk.injEq] at hx
          obtain ⟨_, rfl⟩ := hx
          exact curRing_hosts s ring hcr h (replicaMapOf_hosts ring strat rr' hm e he h hh)


end C10Pol

/-! # Property theorems -/
namespace C10
open Placement PlacementPol C10Lookup C10Pol

/-- a history is admissible when every SetPartitioner event names a supported partitioner (Murmur3 / Random /
ByteOrdered); everything else — any order of AddHost, AddHosts, RemoveHost, HostUp, HostDown, KeyspaceChanged and of
changes of the schema the policy reads (readable, unreadable, altered, dropped), any hosts, tokens, addresses — is free -/
def Admissible (evs : List PolEvent) : Prop := ∀ e ∈ evs, EvOK e

/-- the policy state after a history, started as Init leaves it (no hosts, no partitioner, no metadata) -/
abbrev after (sk : Nat) (sch : Nat → Option Strat) (evs : List PolEvent) : PolState := polRun (polInit sk sch) evs

/-- `C10_policy_no_panic`: after ANY history (unsupported partitioners included) no panic of the replica-map
computation has escaped into AddHost / RemoveHost / SetPartitioner / KeyspaceChanged. -/
theorem C10_policy_no_panic (sk : Nat) (sch : Nat → Option Strat) (evs : List PolEvent) :
    (after sk sch evs).crashed = false :=
  run_crashed evs _ rfl

/-- `C10_ring_follows_hosts`: after any admissible history the token ring Pick consults is the ring of the CURRENT
host list under the CURRENT partitioner (nil while no partitioner is known). -/
theorem C10_ring_follows_hosts (sk : Nat) (sch : Nat → Option Strat) (evs : List PolEvent) (hev : Admissible evs) :
    ((after sk sch evs).ring).map (·.2) = PlacementPol.Spec.curRing (after sk sch evs) := by
  have hI : Inv (after sk sch evs) := inv_run evs _ (inv_init sk sch) hev
  rw [hI.ring, curRing_eq]
  unfold tagged
  cases curRingOf (after sk sch evs).part (after sk sch evs).hosts <;> rfl

/-- `C10_replicas_follow_ring` (EVERY keyspace, every admissible history, no freshness needed): the entry the policy
holds for a keyspace is ABSENT or the replica map of some strategy ON THE RING OF THE CURRENT HOSTS, with tokens of the
current partitioner — it is never a map computed for an earlier ring (KF-C10-4 repaired: every ring change recomputes
the session keyspace and every keyspace with an entry). -/
theorem C10_replicas_follow_ring (sk : Nat) (sch : Nat → Option Strat) (evs : List PolEvent) (hev : Admissible evs)
    (ks : Nat) : OnRing (after sk sch evs) ks :=
  (inv_run evs _ (inv_init sk sch) hev).onring ks

/-- `C10_replicas_all_keyspaces` (the FULL property; was `_partial`, restricted to keyspaces recomputed after the last
ring change): after any admissible history, EVERY entry the policy holds — session keyspace or not — whose keyspace's
schema has not changed behind the policy's back (`fresh`: no schema change without a KeyspaceChanged or ring change
since) is exactly the replica map of the keyspace's CURRENT strategy on the ring of the CURRENT hosts. -/
theorem C10_replicas_all_keyspaces (sk : Nat) (sch : Nat → Option Strat) (evs : List PolEvent)
    (hev : Admissible evs) (ks : Nat) (hf : ks ∈ (after sk sch evs).fresh)
    (hheld : ((after sk sch evs).entry ks).isSome = true) :
    (after sk sch evs).entry ks = expected (after sk sch evs) ks := by
  rcases (inv_run evs _ (inv_init sk sch) hev).fresh ks hf with h | h
  · rw [h] at hheld; simp at hheld
  · exact h

/-- `C10_replicas_settled`: the same for the keyspaces WITHOUT entry where the specification is definite — the session
keyspace (recomputed on every ring change whether it has an entry or not) and every keyspace for which no entry is
expected (no ring / schema unreadable / no usable strategy): `settled` keyspaces hold exactly the expected entry. -/
theorem C10_replicas_settled (sk : Nat) (sch : Nat → Option Strat) (evs : List PolEvent)
    (hev : Admissible evs) (ks : Nat) (hst : settled (after sk sch evs) ks = true) :
    (after sk sch evs).entry ks = expected (after sk sch evs) ks :=
  settled_expected _ (inv_run evs _ (inv_init sk sch) hev) ks hst

/-- `C10_unreadable_no_entry`: a fresh keyspace whose schema cannot be read holds no entry (Pick falls back to the
primary owner taken from the current ring, `C10_pick_spec`). -/
theorem C10_unreadable_no_entry (sk : Nat) (sch : Nat → Option Strat) (evs : List PolEvent)
    (hev : Admissible evs) (ks : Nat) (hf : ks ∈ (after sk sch evs).fresh)
    (hu : (after sk sch evs).schema ks = none) :
    (after sk sch evs).entry ks = none := by
  rcases (inv_run evs _ (inv_init sk sch) hev).fresh ks hf with h | h
  · exact h
  · rw [h]
    unfold expected expectedOf
    rw [hu]
    cases curRingOf (after sk sch evs).part (after sk sch evs).hosts <;> rfl

/-- `C10_no_departed_host`: after any admissible history, every host named in any replica list of ANY entry the
policy holds (every keyspace, fresh or not) is in the policy's CURRENT host list — a host that left (RemoveHost) is
never returned, a map computed for a previous ring is never consulted. -/
theorem C10_no_departed_host (sk : Nat) (sch : Nat → Option Strat) (evs : List PolEvent) (hev : Admissible evs)
    (ks : Nat) (q : Part) (rr : ReplicaRing) (hrr : (after sk sch evs).entry ks = some (q, rr))
    (e : Int × List Host) (he : e ∈ rr) (h : Host) (hh : h ∈ e.2) :
    ∃ p ∈ (after sk sch evs).hosts, p.h = h := by
  have hI : Inv (after sk sch evs) := inv_run evs _ (inv_init sk sch) hev
  rcases hI.onring ks with hn | ⟨strat, ring, rr', hcr, hm, hrep⟩
  · rw [hn] at hrr; simp at hrr
  · rw [hrep] at hrr
    simp only [Option.some.injEq, Prod.mk.injEq] at hrr
    obtain ⟨_, rfl⟩ := hrr
    exact curRing_hosts _ ring hcr h (replicaMapOf_hosts ring strat rr' hm e he h hh)

/-- `C10_pick_no_type_panic`: after any admissible history — partitioner changes included — the lookup Pick makes never
hits `token.Less`'s type assertion, for EVERY keyspace and token (the panic of KF-C10-4's partitioner variant). -/
theorem C10_pick_no_type_panic (sk : Nat) (sch : Nat → Option Strat) (evs : List PolEvent) (hev : Admissible evs)
    (ks : Nat) (t : Int) : polLookup (after sk sch evs) ks t ≠ .typePanic :=
  lookup_no_type_panic _ (inv_run evs _ (inv_init sk sch) hev) ks t

/-- `C10_pick_spec` (the spec-backed ops `prepl` / `spick`): after any admissible history, for every settled keyspace —
in particular EVERY keyspace the policy holds an entry for and whose schema has not changed behind its back — and every
token, what Pick reads from the policy's snapshot — `meta.replicas[ks].replicasFor(token)`, else
`meta.tokenRing.GetHostForToken(token)` — is what the specification computes from the CURRENT environment alone:
Cassandra's SimpleStrategy / NetworkTopologyStrategy placement for the strategy of the schema readable NOW on the ring
of the CURRENT hosts, the primary owner of the current ring when the schema is unreadable / unusable / Cassandra places
the token on no node, and "no ring" exactly while no partitioner is known.  In particular the lookup never panics.
Standing hypotheses of all C10 theorems: ring tokens pairwise distinct (`Sorted`), rf maps with distinct keys. -/
theorem C10_pick_spec (sk : Nat) (sch : Nat → Option Strat) (evs : List PolEvent) (hev : Admissible evs)
    (ks : Nat) (hst : settled (after sk sch evs) ks = true) (t : Int)
    (hs : ∀ ring, PlacementPol.Spec.curRing (after sk sch evs) = some ring → Sorted ring)
    (hk : ∀ k rfs, (after sk sch evs).schema k = some (.nts rfs) → (rfs.map (·.1)).Nodup) :
    polLookup (after sk sch evs) ks t = PlacementPol.Spec.lookup (after sk sch evs) ks t :=
  have hI := inv_run evs _ (inv_init sk sch) hev
  lookup_of_expected _ hI ks (settled_expected _ hI ks hst) t hs hk

theorem polStep_sessKs (s : PolState) (e : PolEvent) : (polStep s e).sessKs = s.sessKs := by
  have hrec : ∀ s : PolState, (recompute s).sessKs = s.sessKs := by
    intro s
    unfold recompute
    simp only
    split
    · rfl
    · exact (fold_frame _ _).2.2.1
  unfold polStep
  split
  · rfl
  · cases e with
    | addHost p =>
      dsimp only
      split
      · rfl
      · exact hrec _
    | addHosts ps => exact hrec _
    | removeHost a =>
      dsimp only
      split
      · exact hrec _
      · rfl
    | hostUp a => rfl
    | hostDown a => rfl
    | setPartitioner p =>
      dsimp only
      split
      · rfl
      · exact hrec _
    | keyspaceChanged ks =>
      dsimp only
      split
      · rfl
      · exact (update_frame _ _).2.2.2.2.2.1
    | setSchema ks v => rfl

/-- the session keyspace is the one given to Init -/
theorem sessKs_after (sk : Nat) (sch : Nat → Option Strat) (evs : List PolEvent) : (after sk sch evs).sessKs = sk := by
  have : ∀ (evs : List PolEvent) (s : PolState), (polRun s evs).sessKs = s.sessKs := by
    intro evs
    induction evs with
    | nil => intro s; rfl
    | cons e rest ih =>
      intro s
      have h1 := ih (polStep s e)
      unfold polRun at h1 ⊢
      simp only [List.foldl_cons]
      rw [h1, polStep_sessKs]
  exact this evs _

/-! ## freshness made concrete, and the seeded family as a theorem over all histories -/

/-- every ring recomputation re-reads the session keyspace and every keyspace with an entry; nothing else changes the
schema or loses freshness; a keyspace outside those keeps its (absent) entry -/
theorem recompute_frame (s : PolState) (hc : s.crashed = false) :
    (recompute s).schema = s.schema ∧
    (∀ k, k ∈ (recompute s).fresh ↔ (k ∈ s.fresh ∨ k ∈ allKeyspaces s)) := by
  obtain ⟨h1, h5, _, _, h8⟩ :=
    fold_frame (allKeyspaces { s with ring := resetTokenRing s }) { s with ring := resetTokenRing s }
  have hnc : (updateAllReplicas { s with ring := resetTokenRing s }).crashed = false := by
    unfold updateAllReplicas
    rw [h1]; exact hc
  unfold recompute
  simp only [hnc, Bool.false_eq_true, if_false]
  exact ⟨h5, h8⟩

/-- `C10_fresh_after_keyspace_changed`: right after KeyspaceChanged(ks) the keyspace is fresh (any history) -/
theorem C10_fresh_after_keyspace_changed (sk : Nat) (sch : Nat → Option Strat) (evs : List PolEvent) (ks : Nat) :
    ks ∈ (after sk sch (evs ++ [.keyspaceChanged ks])).fresh := by
  have hc : (after sk sch evs).crashed = false := C10_policy_no_panic sk sch evs
  have : after sk sch (evs ++ [.keyspaceChanged ks]) = polStep (after sk sch evs) (.keyspaceChanged ks) := by
    simp [after, polRun, List.foldl_append]
  rw [this, polStep_nocrash _ _ hc]
  dsimp only
  have hnc : (updateReplicas (after sk sch evs) ks).crashed = false := by rw [update_crashed]; exact hc
  rw [if_neg (by rw [hnc]; simp)]
  exact ((update_frame _ ks).2.2.2.2.2.2.2 ks).mpr (Or.inr rfl)

/-- the events that rebuild the token ring in state `s` -/
def RingEvent (s : PolState) : PolEvent → Prop
  | .addHost p => hasAddr s.hosts p.addr = false
  | .addHosts _ => True
  | .removeHost a => hasAddr s.hosts a = true
  | .setPartitioner p => s.part ≠ p
  | _ => False

/-- a ring event is a recomputation on a state with the same session keyspace, schema, entries, ghost field and ring,
and the same partitioner unless the event is SetPartitioner -/
theorem ringEvent_recompute (s : PolState) (e : PolEvent) (hc : s.crashed = false) (hr : RingEvent s e) :
    ∃ s', polStep s e = recompute s' ∧ s'.crashed = false ∧ s'.sessKs = s.sessKs ∧ s'.schema = s.schema ∧
      s'.replicas = s.replicas ∧ s'.fresh = s.fresh ∧ s'.ring = s.ring ∧
      (s'.part = s.part ∨ e = .setPartitioner s'.part) := by
  rw [polStep_nocrash s e hc]
  cases e with
  | addHost p =>
    dsimp only
    simp only [RingEvent] at hr
    rw [if_neg (by rw [hr]; simp)]
    exact ⟨_, rfl, hc, rfl, rfl, rfl, rfl, rfl, Or.inl rfl⟩
  | addHosts ps => exact ⟨_, rfl, hc, rfl, rfl, rfl, rfl, rfl, Or.inl rfl⟩
  | removeHost a =>
    dsimp only
    simp only [RingEvent] at hr
    rw [if_pos hr]
    exact ⟨_, rfl, hc, rfl, rfl, rfl, rfl, rfl, Or.inl rfl⟩
  | setPartitioner p =>
    dsimp only
    simp only [RingEvent] at hr
    rw [if_neg hr]
    exact ⟨_, rfl, hc, rfl, rfl, rfl, rfl, rfl, Or.inr rfl⟩
  | hostUp a => exact absurd hr (by simp [RingEvent])
  | hostDown a => exact absurd hr (by simp [RingEvent])
  | keyspaceChanged ks => exact absurd hr (by simp [RingEvent])
  | setSchema ks v => exact absurd hr (by simp [RingEvent])

/-- `C10_fresh_after_ring_event`: right after any event that rebuilds the ring, the session keyspace AND every keyspace
the policy held an entry for are fresh (their schema was re-read), and no keyspace lost its freshness -/
theorem C10_fresh_after_ring_event (sk : Nat) (sch : Nat → Option Strat) (evs : List PolEvent) (e : PolEvent)
    (hr : RingEvent (after sk sch evs) e) (ks : Nat)
    (hks : ks = sk ∨ ((after sk sch evs).entry ks).isSome = true ∨ ks ∈ (after sk sch evs).fresh) :
    ks ∈ (after sk sch (evs ++ [e])).fresh := by
  have hc : (after sk sch evs).crashed = false := C10_policy_no_panic sk sch evs
  have : after sk sch (evs ++ [e]) = polStep (after sk sch evs) e := by
    simp [after, polRun, List.foldl_append]
  obtain ⟨s', h1, h2, h3, _, h5, h6, _, _⟩ := ringEvent_recompute _ e hc hr
  rw [this, h1, (recompute_frame s' h2).2 ks]
  rcases hks with h | h | h
  · right
    rw [mem_allKeyspaces, h3, sessKs_after]
    exact Or.inl h
  · right
    apply held_mem_allKeyspaces
    unfold PolState.entry at h ⊢
    rw [h5]; exact h
  · left; rw [h6]; exact h

/-- `C10_unreadable_then_ring_change_drops_entry` (the seeded family, for ALL histories and now for EVERY keyspace):
whatever happened before, once the schema of a keyspace `ks` cannot be read, the FIRST event that rebuilds the ring — a
node joins, nodes are added in bulk, a node leaves, the partitioner is set — leaves the policy WITHOUT an entry for `ks`:
the replica map computed for the previous ring does not survive (Pick then starts from the primary owner of the new
ring, `C10_pick_spec`). -/
theorem C10_unreadable_then_ring_change_drops_entry (sk : Nat) (sch : Nat → Option Strat) (evs : List PolEvent)
    (ks : Nat) (e : PolEvent) (hev : Admissible evs) (he : EvOK e)
    (hr : RingEvent (after sk sch (evs ++ [.setSchema ks none])) e) :
    (after sk sch (evs ++ [.setSchema ks none] ++ [e])).entry ks = none := by
  have hadm : Admissible (evs ++ [.setSchema ks none]) := by
    intro x hx
    simp only [List.mem_append, List.mem_cons, List.mem_nil_iff, or_false] at hx
    rcases hx with hx | hx
    · exact hev x hx
    · subst hx; trivial
  have hI : Inv (after sk sch (evs ++ [.setSchema ks none])) := inv_run _ _ (inv_init sk sch) hadm
  have hstep : after sk sch (evs ++ [.setSchema ks none] ++ [e])
      = polStep (after sk sch (evs ++ [.setSchema ks none])) e := by
    simp [after, polRun, List.foldl_append]
  -- the schema of ks is unreadable before the ring event
  have hsch : (after sk sch (evs ++ [.setSchema ks none])).schema ks = none := by
    have hc0 : (after sk sch evs).crashed = false := C10_policy_no_panic sk sch evs
    have hstep0 : after sk sch (evs ++ [.setSchema ks none]) = polStep (after sk sch evs) (.setSchema ks none) := by
      simp [after, polRun, List.foldl_append]
    rw [hstep0, polStep_nocrash _ _ hc0]
    simp
  obtain ⟨s', h1, h2, _, h4, _, _, h7, h8⟩ := ringEvent_recompute _ e hI.nocrash hr
  have hsup : s'.part.supported = true ∨ s'.ring = none := by
    rcases h8 with h8 | h8
    · by_cases h : s'.part.supported = true
      · exact Or.inl h
      · right
        rw [h7, hI.ring]
        rw [h8] at h
        simp [tagged, curRingOf, h]
    · left
      rw [h8] at he
      exact he
  obtain ⟨_, _, _, _, _, _, r7, _⟩ := recompute_spec s' h2 hsup
  rw [hstep, h1, r7 ks]
  split
  · unfold expected expectedOf
    rw [h4, hsch]
    cases curRingOf s'.part s'.hosts <;> rfl
  · rfl

/-! ## witnesses: non-vacuity, the repaired finding as regression, the limits of the hypotheses (kernel-checked, replayable) -/

def hA : PHost := ⟨⟨1, 1, 1⟩, 1, [10]⟩
def hB : PHost := ⟨⟨2, 1, 1⟩, 2, [30]⟩
def hC : PHost := ⟨⟨3, 1, 1⟩, 3, [20]⟩

/-- keyspace `k0` is SimpleStrategy rf 2, every other keyspace unreadable -/
def schS2 (k0 : Nat) : Nat → Option Strat := fun k => if k = k0 then some (.simple 2) else none

/-- the seeded family: session keyspace ks0 (SimpleStrategy 2) mapped on ring a=10, b=30; the schema becomes unreadable;
c=20 joins and b leaves -/
def histUnreadable : List PolEvent :=
  [.addHost hA, .addHost hB, .setPartitioner .ordered, .keyspaceChanged 0, .setSchema 0 none, .addHost hC, .removeHost 2]

example : Admissible histUnreadable := by
  intro e he
  simp only [histUnreadable, List.mem_cons, List.mem_nil_iff, or_false] at he
  rcases he with h | h | h | h | h | h | h <;> subst h <;> simp [EvOK, Part.supported]

/-- before the schema became unreadable the entry is there: 15 ↦ [b, a] on ring a=10, b=30 -/
example : polLookup (after 0 (schS2 0) (histUnreadable.take 4)) 0 15 = .hosts [⟨2, 1, 1⟩, ⟨1, 1, 1⟩] := by decide

/-- afterwards: the keyspace is fresh and settled, holds NO entry, and the lookups follow the new ring a=10, c=20 -/
example : 0 ∈ (after 0 (schS2 0) histUnreadable).fresh ∧ settled (after 0 (schS2 0) histUnreadable) 0 = true ∧
    ((after 0 (schS2 0) histUnreadable).entry 0).isNone = true ∧
    polLookup (after 0 (schS2 0) histUnreadable) 0 15 = .hosts [⟨3, 1, 1⟩] ∧
    polLookup (after 0 (schS2 0) histUnreadable) 0 25 = .hosts [⟨1, 1, 1⟩] ∧
    PlacementPol.Spec.lookup (after 0 (schS2 0) histUnreadable) 0 25 = .hosts [⟨1, 1, 1⟩] := by decide

/-- and once the schema is readable again and the policy is told, the map of the new ring: 15 ↦ [c, a] -/
example : polLookup (after 0 (schS2 0) (histUnreadable ++ [.setSchema 0 (some (.simple 2)), .keyspaceChanged 0])) 0 15
    = .hosts [⟨3, 1, 1⟩, ⟨1, 1, 1⟩] := by decide

/-- the history of KF-C10-4: ks1 (SimpleStrategy 2) is NOT the session keyspace (ks0); its entry is computed by
KeyspaceChanged(ks1) on ring a=10, b=30; then c=20 joins and b leaves -/
def histOtherKs : List PolEvent :=
  [.setPartitioner .ordered, .addHost hA, .addHost hB, .keyspaceChanged 1, .addHost hC, .removeHost 2]

example : Admissible histOtherKs := by
  intro e he
  simp only [histOtherKs, List.mem_cons, List.mem_nil_iff, or_false] at he
  rcases he with h | h | h | h | h | h <;> subst h <;> simp [EvOK, Part.supported]

/-- KF-C10-4 repaired (non-vacuity of `C10_replicas_all_keyspaces` / `C10_pick_spec` on a keyspace other than the
session keyspace): the entry of ks1 followed the ring — ks1 is fresh and settled, holds the map of the current ring
a=10, c=20, names no departed host, and tokens 15 / 25 are routed to [c, a] / [a, c] as the specification says -/
theorem C10_other_keyspace_follows_ring :
    1 ∈ (after 0 (schS2 1) histOtherKs).fresh ∧ settled (after 0 (schS2 1) histOtherKs) 1 = true ∧
    (after 0 (schS2 1) histOtherKs).hosts.map (·.h.id) = [1, 3] ∧
    ((after 0 (schS2 1) histOtherKs).entry 1).map (·.2) =
      some [(10, [⟨1, 1, 1⟩, ⟨3, 1, 1⟩]), (20, [⟨3, 1, 1⟩, ⟨1, 1, 1⟩])] ∧
    polLookup (after 0 (schS2 1) histOtherKs) 1 15 = .hosts [⟨3, 1, 1⟩, ⟨1, 1, 1⟩] ∧
    polLookup (after 0 (schS2 1) histOtherKs) 1 25 = .hosts [⟨1, 1, 1⟩, ⟨3, 1, 1⟩] ∧
    PlacementPol.Spec.lookup (after 0 (schS2 1) histOtherKs) 1 25 = .hosts [⟨1, 1, 1⟩, ⟨3, 1, 1⟩] := by decide

/-- KF-C10-4 repaired, partitioner variant: after SetPartitioner(Murmur3) the entry of ks1 is recomputed with tokens of
the new partitioner: no type panic, 25 ↦ [b, a] on ring a=10, b=30 -/
theorem C10_other_keyspace_partitioner_change :
    polLookup (after 0 (schS2 1)
      [.setPartitioner .ordered, .addHost hA, .addHost hB, .keyspaceChanged 1, .setPartitioner .murmur]) 1 25
      = .hosts [⟨2, 1, 1⟩, ⟨1, 1, 1⟩] := by decide

/-- regression, the code BEFORE the repair (`updateReplicas(meta, getKeyspaceName())` only): the same histories gave the
stale answer [b, a] for token 25 with b departed, and the type panic -/
def oldRecompute (s : PolState) : PolState :=
  let s2 := updateReplicas { s with ring := resetTokenRing s } s.sessKs
  if s2.crashed then { s with crashed := true } else s2

def oldStep (s : PolState) (e : PolEvent) : PolState :=
  if s.crashed then s else
  match e with
  | .addHost p => if hasAddr s.hosts p.addr then s else oldRecompute { s with hosts := s.hosts ++ [p] }
  | .addHosts ps => oldRecompute { s with hosts := ps.foldl cowAdd s.hosts }
  | .removeHost a => if hasAddr s.hosts a then oldRecompute { s with hosts := cowRemove s.hosts a } else s
  | .setPartitioner p => if s.part = p then s else oldRecompute { s with part := p }
  | e => polStep s e

example : polLookup (histOtherKs.foldl oldStep (polInit 0 (schS2 1))) 1 25 = .hosts [⟨2, 1, 1⟩, ⟨1, 1, 1⟩] ∧
    (histOtherKs.foldl oldStep (polInit 0 (schS2 1))).hosts.map (·.h.id) = [1, 3] ∧
    polLookup (([.setPartitioner .ordered, .addHost hA, .addHost hB, .keyspaceChanged 1, .setPartitioner .murmur] :
      List PolEvent).foldl oldStep (polInit 0 (schS2 1))) 1 25 = .typePanic := by decide

/-- why `C10_pick_spec` asks for `settled` and not only `fresh`: KeyspaceChanged(ks1) processed while the policy has no
token ring yet leaves no entry, and the later ring events recompute only the session keyspace and the keyspaces WITH an
entry — ks1 (fresh, schema usable) is served from the primary owner [b] where Cassandra places [b, a], until its next
KeyspaceChanged; like a keyspace no KeyspaceChanged ever arrived for.  (A Session sets the partitioner before it
registers for schema events.) -/
theorem C10_cex_read_before_ring_no_entry :
    let s := after 0 (schS2 1) [.keyspaceChanged 1, .setPartitioner .ordered, .addHost hA, .addHost hB]
    1 ∈ s.fresh ∧ settled s 1 = false ∧ s.entry 1 = none ∧
    polLookup s 1 25 = .hosts [⟨2, 1, 1⟩] ∧
    PlacementPol.Spec.lookup s 1 25 = .hosts [⟨2, 1, 1⟩, ⟨1, 1, 1⟩] := by decide

/-- outside `Admissible`: SetPartitioner with an unsupported name AFTER a supported one leaves the old ring in place
(resetTokenRing returns early), so a host added later is not on the ring Pick consults -/
theorem C10_cex_unsupported_partitioner_keeps_ring :
    let s := after 0 (schS2 0) [.setPartitioner .murmur, .addHost hA, .setPartitioner .unknown, .addHost hB]
    s.hosts.map (·.h.id) = [1, 2] ∧ s.ring.map (·.2) = some [(10, ⟨1, 1, 1⟩)] ∧
    polLookup s 0 25 = .hosts [⟨1, 1, 1⟩] ∧ PlacementPol.Spec.lookup s 0 25 = .noring := by decide

/-- `C10_pick_spec_layout`: `C10_pick_spec` with its ring hypothesis discharged from the cluster layout — after any
admissible history in which the hosts the policy currently knows claim pairwise distinct tokens (any number of tokens
per host), Pick's lookup for every settled keyspace and every token equals Cassandra's placement on the current
environment; the ring Pick consults is strictly ascending (`C10_ring_sorted`). -/
theorem C10_pick_spec_layout (sk : Nat) (sch : Nat → Option Strat) (evs : List PolEvent) (hev : Admissible evs)
    (ks : Nat) (hst : settled (after sk sch evs) ks = true) (t : Int)
    (hd : C10Ring.DistinctTokens (ownersOf (after sk sch evs).hosts))
    (hk : ∀ k rfs, (after sk sch evs).schema k = some (.nts rfs) → (rfs.map (·.1)).Nodup) :
    polLookup (after sk sch evs) ks t = PlacementPol.Spec.lookup (after sk sch evs) ks t := by
  apply C10_pick_spec sk sch evs hev ks hst t _ hk
  intro ring hr
  unfold PlacementPol.Spec.curRing at hr
  split at hr
  · cases hr
    exact (C10_ring_sorted _ hd).1
  · cases hr

/-! ## two mutators on two goroutines: the mutators are atomic -/

open PlacementConc in
/-- the one critical section of a mutator as policies.go has it -/
def secOf : PolEvent → List (Micro PolState (Option PolState))
  | .keyspaceChanged ks => [fun sh l => if sh.crashed then (sh, none) else snapshot sh l, compute ks, store]
  | e => [whole e]

theorem progOf_eq (e : PolEvent) : PlacementConc.progOf e = [secOf e] := by
  cases e <;> rfl

theorem updateReplicas_frame (s : PolState) (ks : Nat) (h : (updateReplicas s ks).crashed = false) :
    updateReplicas s ks = { s with ring := (updateReplicas s ks).ring, replicas := (updateReplicas s ks).replicas,
                                   fresh := (updateReplicas s ks).fresh } := by
  cases hsch : s.schema ks with
  | none => simp [updateReplicas, hsch]
  | some strat =>
    cases hr : s.ring with
    | none => simp [updateReplicas, hsch, hr]
    | some pr =>
      obtain ⟨p, ring⟩ := pr
      cases hm : replicaMapOf ring strat with
      | none => simp [updateReplicas, hsch, hr, hm]
      | some res =>
        cases res with
        | ok rr => simp [updateReplicas, hsch, hr, hm]
        | error e => simp [updateReplicas, hsch, hr, hm] at h

/-- run alone, a mutator's critical section is the model's event step -/
theorem exec_secOf (e : PolEvent) (s : PolState) : (PlacementConc.exec (secOf e) (s, none)).1 = polStep s e := by
  cases e with
  | keyspaceChanged ks =>
    by_cases hc : s.crashed = true
    · have h1 : (PlacementConc.exec (secOf (.keyspaceChanged ks)) (s, none)).1 = s := by
        simp [secOf, PlacementConc.exec, hc, PlacementConc.compute, PlacementConc.store]
      rw [h1]
      simp [polStep, hc]
    · have hfirst : (if s.crashed = true then (s, (none : Option PolState)) else PlacementConc.snapshot s none)
          = (s, some s) := by rw [if_neg hc]; rfl
      have h1 : (PlacementConc.exec (secOf (.keyspaceChanged ks)) (s, none)).1
          = (PlacementConc.store s (some (updateReplicas s ks))).1 := by
        simp only [secOf, PlacementConc.exec, List.foldl_cons, List.foldl_nil, hfirst]
        rfl
      rw [h1]
      unfold polStep PlacementConc.store
      rw [if_neg hc]
      by_cases h2 : (updateReplicas s ks).crashed = true
      · simp only [h2, if_true]
      · have h2' : (updateReplicas s ks).crashed = false := by simpa using h2
        simp only [h2', Bool.false_eq_true, if_false]
        exact (updateReplicas_frame s ks h2').symm
  | _ => rfl

/-- `C10_mutators_linearizable` (op `pconc`): two goroutines each run one mutator of the policy — AddHost, AddHosts,
RemoveHost, HostUp, HostDown, SetPartitioner, KeyspaceChanged (with its snapshot / schema read / Store micro-steps), in
any combination — interleaved step by step in ANY schedule under the policy mutex: once both have returned, the
policy's state (hosts, partitioner, token ring, every replica map) is exactly the state after one of the two SERIAL
orders of the two events.  So every theorem about event histories (ring of the current hosts, replicas = Cassandra's
placement, Pick's lookup) holds after concurrent mutators as well. -/
theorem C10_mutators_linearizable (s : PolState) (ea eb : PolEvent) (sched : List Bool)
    (hd : ∀ z, ((PlacementConc.run (PlacementConc.start s none
        (fun x => PlacementConc.progOf (if x then eb else ea))) sched).thr z).secs = []) :
    (PlacementConc.run (PlacementConc.start s none (fun x => PlacementConc.progOf (if x then eb else ea))) sched).sh
        = polStep (polStep s ea) eb ∨
    (PlacementConc.run (PlacementConc.start s none (fun x => PlacementConc.progOf (if x then eb else ea))) sched).sh
        = polStep (polStep s eb) ea := by
  have hp : (fun x : Bool => PlacementConc.progOf (if x then eb else ea))
      = (fun x : Bool => [secOf (if x then eb else ea)]) := by
    funext x; exact progOf_eq _
  rw [hp] at hd ⊢
  have := C10Conc.mutex_serial s none (fun x => secOf (if x then eb else ea)) sched hd
  simpa [C10Conc.S2, C10Conc.S1, exec_secOf] using this

/-- … and therefore, after any admissible history followed by two concurrent mutators, the policy is in the state of
the history extended by the two events in one of the two orders -/
theorem C10_concurrent_history (sk : Nat) (sch : Nat → Option Strat) (evs : List PolEvent) (ea eb : PolEvent)
    (sched : List Bool)
    (hd : ∀ z, ((PlacementConc.run (PlacementConc.start (after sk sch evs) none
        (fun x => PlacementConc.progOf (if x then eb else ea))) sched).thr z).secs = []) :
    (PlacementConc.run (PlacementConc.start (after sk sch evs) none
        (fun x => PlacementConc.progOf (if x then eb else ea))) sched).sh = after sk sch (evs ++ [ea, eb]) ∨
    (PlacementConc.run (PlacementConc.start (after sk sch evs) none
        (fun x => PlacementConc.progOf (if x then eb else ea))) sched).sh = after sk sch (evs ++ [eb, ea]) := by
  have := C10_mutators_linearizable (after sk sch evs) ea eb sched hd
  simpa [after, polRun, List.foldl_append] using this

/-- non-vacuity: a schedule in which B tries to start while A is inside (and is blocked), both complete -/
example :
    let m := PlacementConc.run (PlacementConc.start
      (after 0 (schS2 0) [.setPartitioner .ordered, .addHost hA, .addHost hB, .keyspaceChanged 0]) none
      (fun x => PlacementConc.progOf (if x then .addHost hC else .keyspaceChanged 0)))
      [false, false, true, true, false, false, false, true, true, true]
    (∀ z, (m.thr z).secs = []) ∧ m.sh.hosts.map (·.h.id) = [1, 2, 3] ∧
      m.sh.ring.map (fun r => r.2.map (fun e => (e.1, e.2.id))) = some [(10, 1), (20, 3), (30, 2)] := by
  refine ⟨by decide, by decide, by decide⟩

/-- `C10_cex_snapshot_outside_lock`: KeyspaceChanged in the variant that gives the mutex up between its snapshot and
its Store (Lock; snapshot; Unlock; read schema, compute; Lock; Store; Unlock).  Ring a=10, b=30, keyspace ks0
SimpleStrategy 2; KeyspaceChanged(ks0) takes its snapshot, AddHost(c=20) runs completely, KeyspaceChanged stores its
older copy: the policy knows the hosts a, b, c but keeps the ring a, b and the replica map computed on it — the state of
NEITHER serial order; token 15 belongs to c, the policy answers [b, a], Cassandra places it on [c, b]. -/
theorem C10_cex_snapshot_outside_lock :
    let s0 := after 0 (schS2 0) [.setPartitioner .ordered, .addHost hA, .addHost hB, .keyspaceChanged 0]
    let m := PlacementConc.run (PlacementConc.start s0 none
      (fun x => if x then PlacementConc.progOf (.addHost hC) else PlacementConc.kcUnlocked 0))
      [false, false, false, true, true, true, false, false, false, false]
    (∀ z, (m.thr z).secs = []) ∧
    m.sh.hosts.map (·.h.id) = [1, 2, 3] ∧
    m.sh.ring.map (fun r => r.2.map (fun e => (e.1, e.2.id))) = some [(10, 1), (30, 2)] ∧
    (polStep (polStep s0 (.keyspaceChanged 0)) (.addHost hC)).ring.map (fun r => r.2.map (fun e => (e.1, e.2.id)))
      = some [(10, 1), (20, 3), (30, 2)] ∧
    (polStep (polStep s0 (.addHost hC)) (.keyspaceChanged 0)).ring.map (fun r => r.2.map (fun e => (e.1, e.2.id)))
      = some [(10, 1), (20, 3), (30, 2)] ∧
    polLookup m.sh 0 15 = .hosts [⟨2, 1, 1⟩, ⟨1, 1, 1⟩] ∧
    PlacementPol.Spec.lookup m.sh 0 15 = .hosts [⟨3, 1, 1⟩, ⟨2, 1, 1⟩] := by
  refine ⟨by decide, by decide, by decide, by decide, by decide, by decide, by decide⟩

end C10
