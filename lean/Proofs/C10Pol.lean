import Model.PlacementPol
import Proofs.C10
/-!
# C10 — the replica map as a function of the history of policy events

Model: `Model/PlacementPol.lean` (`polStep` mirrors tokenAwareHostPolicy's AddHost / AddHosts / RemoveHost / HostUp /
HostDown / SetPartitioner / KeyspaceChanged with cowHostList, resetTokenRing and updateReplicas; the environment event
`setSchema` changes what getKeyspaceMetadata answers).  Helper lemmas in namespace `C10Pol`, the property theorems in
namespace `C10` at the end of the file.  All theorems are by induction over the event list (invariant `Inv`).
-/
namespace C10Pol
open Placement PlacementPol C10Lookup C10Simple C10Nts C10NtsNodup C10NtsSpec C10SpecDedup C10NtsLookup

/-! ## the replica-map computation never panics -/

theorem replicaMapOf_ok (ring : List Entry) (strat : Strat) (e : Crash) :
    replicaMapOf ring strat ≠ some (.error e) := by
  cases strat with
  | simple rf => simp [replicaMapOf]
  | nts rfs => simp [replicaMapOf, C10.C10_no_panic]
  | unusable => simp [replicaMapOf]

/-! ## what an entry has to be, from the current environment -/

def curRingOf (part : Part) (hosts : List PHost) : Option (List Entry) :=
  if part.supported then some (buildRing (ownersOf hosts)) else none

theorem curRing_eq (s : PolState) : PlacementPol.Spec.curRing s = curRingOf s.part s.hosts := rfl

/-- the entry the policy has to hold for a keyspace whose schema currently reads `sch`: the replica map of the schema's
strategy on the ring of the CURRENT hosts; NO entry when the schema is unreadable, has no usable strategy, or there is
no ring -/
def expectedOf (part : Part) (hosts : List PHost) (sch : Option Strat) : Option (Part × ReplicaRing) :=
  match curRingOf part hosts, sch with
  | some ring, some strat =>
    (match replicaMapOf ring strat with
     | some (.ok rr) => some (part, rr)
     | _ => none)
  | _, _ => none

def expected (s : PolState) (ks : Nat) : Option (Part × ReplicaRing) := expectedOf s.part s.hosts (s.schema ks)

def tagged (part : Part) (hosts : List PHost) : Option (Part × List Entry) :=
  (curRingOf part hosts).map (fun r => (part, r))

/-! ## updateReplicas -/

theorem update_spec (s : PolState) (ks : Nat) (hr : s.ring = tagged s.part s.hosts) :
    (updateReplicas s ks).crashed = s.crashed ∧
    (updateReplicas s ks).ring = s.ring ∧ (updateReplicas s ks).part = s.part ∧
    (updateReplicas s ks).hosts = s.hosts ∧ (updateReplicas s ks).schema = s.schema ∧
    (updateReplicas s ks).sessKs = s.sessKs ∧
    (updateReplicas s ks).replicas ks = expected s ks ∧
    (∀ k, k ≠ ks → (updateReplicas s ks).replicas k = s.replicas k) ∧
    (∀ k, k ∈ (updateReplicas s ks).fresh ↔ (k ∈ s.fresh ∨ k = ks)) := by
  have hfr : ∀ k, k ∈ (if ks ∈ s.fresh then s.fresh else s.fresh ++ [ks]) ↔ (k ∈ s.fresh ∨ k = ks) := by
    intro k
    by_cases h : ks ∈ s.fresh
    · simp only [h, if_true]
      constructor
      · exact Or.inl
      · rintro (h1 | h1)
        · exact h1
        · exact h1 ▸ h
    · simp [h]
  unfold updateReplicas expected expectedOf
  unfold tagged at hr
  cases hsch : s.schema ks with
  | none =>
    simp only [dropKs, if_true, true_and]
    refine ⟨?_, ?_, hfr⟩
    · cases curRingOf s.part s.hosts <;> rfl
    · intro k hk; simp [hk]
  | some strat =>
    cases hcr : curRingOf s.part s.hosts with
    | none =>
      rw [hcr] at hr
      simp only [Option.map_none] at hr
      simp only [hr, dropKs, if_true, true_and]
      refine ⟨?_, hfr⟩
      intro k hk; simp [hk]
    | some ring =>
      rw [hcr] at hr
      simp only [Option.map_some] at hr
      simp only [hr]
      cases hm : replicaMapOf ring strat with
      | none =>
        simp only [dropKs, if_true, true_and]
        refine ⟨?_, hfr⟩
        intro k hk; simp [hk]
      | some r =>
        cases r with
        | error e => exact absurd hm (replicaMapOf_ok ring strat e)
        | ok rr =>
          simp only [setKs, if_true, true_and]
          refine ⟨?_, hfr⟩
          intro k hk; simp [hk]

/-! ## the invariant -/

def EvOK : PolEvent → Prop
  | .setPartitioner p => p.supported = true
  | _ => True

/-- the session keyspace's entry is absent or the replica map of SOME strategy on the ring of the current hosts -/
def SessOnRing (s : PolState) : Prop :=
  s.replicas s.sessKs = none ∨
  ∃ strat ring rr, curRingOf s.part s.hosts = some ring ∧ replicaMapOf ring strat = some (.ok rr) ∧
    s.replicas s.sessKs = some (s.part, rr)

structure Inv (s : PolState) : Prop where
  nocrash : s.crashed = false
  ring : s.ring = tagged s.part s.hosts
  fresh : ∀ ks ∈ s.fresh, s.replicas ks = expected s ks
  sess : SessOnRing s

theorem inv_init (sk : Nat) (sch : Nat → Option Strat) : Inv (polInit sk sch) :=
  ⟨rfl, rfl, by intro ks h; simp [polInit] at h, Or.inl rfl⟩

theorem sess_of_expected (s : PolState) (h : s.replicas s.sessKs = expected s s.sessKs) : SessOnRing s := by
  unfold SessOnRing
  rw [h]
  unfold expected expectedOf
  cases hcr : curRingOf s.part s.hosts with
  | none => exact Or.inl rfl
  | some ring =>
    cases hsch : s.schema s.sessKs with
    | none => exact Or.inl rfl
    | some strat =>
      cases hm : replicaMapOf ring strat with
      | none => left; simp only [hm]
      | some r =>
        cases r with
        | error e => left; simp only [hm]
        | ok rr => right; exact ⟨strat, ring, rr, rfl, hm, by simp only [hm]⟩

/-- the ring-changing events: `hosts` / `part` already updated, then resetTokenRing + updateReplicas(session keyspace) -/
theorem inv_recompute (s : PolState) (hc : s.crashed = false)
    (hp : s.part.supported = true ∨ s.ring = none) : Inv (recompute s) := by
  have hreset : resetTokenRing s = tagged s.part s.hosts := by
    unfold resetTokenRing tagged curRingOf
    rcases hp with hp | hp
    · simp [hp]
    · by_cases h : s.part.supported = true
      · simp [h]
      · simp [h, hp]
  obtain ⟨h1, h2, h3, h4, h5, h6, h7, _, h9⟩ :=
    update_spec { s with ring := resetTokenRing s, fresh := [] } s.sessKs hreset
  have hnc : (updateReplicas { s with ring := resetTokenRing s, fresh := [] } s.sessKs).crashed = false := by
    rw [h1]; exact hc
  unfold recompute
  simp only [hnc, Bool.false_eq_true, if_false]
  refine ⟨hnc, ?_, ?_, ?_⟩
  · rw [h2, h3, h4]; exact hreset
  · intro ks hks
    have : ks = s.sessKs := by simpa using (h9 ks).mp hks
    subst this
    rw [h7]; simp only [expected, h3, h4, h5]
  · apply sess_of_expected
    rw [h6, h7]; simp only [expected, h3, h4, h5, h6]

theorem polStep_nocrash (s : PolState) (e : PolEvent) (hc : s.crashed = false) :
    polStep s e = (match e with
      | .addHost p => if hasAddr s.hosts p.addr then s else recompute { s with hosts := s.hosts ++ [p] }
      | .addHosts ps => recompute { s with hosts := ps.foldl cowAdd s.hosts }
      | .removeHost a => if hasAddr s.hosts a then recompute { s with hosts := cowRemove s.hosts a } else s
      | .hostUp _ => s
      | .hostDown _ => s
      | .setPartitioner p => if s.part = p then s else recompute { s with part := p }
      | .keyspaceChanged ks =>
        let s2 := updateReplicas s ks
        if s2.crashed then { s with crashed := true } else s2
      | .setSchema ks v =>
        { s with schema := fun k => if k = ks then v else s.schema k,
                 fresh := s.fresh.filter (fun k => !(k == ks)) }) := by
  unfold polStep
  rw [if_neg (by rw [hc]; simp)]
  cases e <;> rfl

theorem inv_step (s : PolState) (e : PolEvent) (hI : Inv s) (he : EvOK e) : Inv (polStep s e) := by
  have hsup : s.part.supported = true ∨ s.ring = none := by
    by_cases h : s.part.supported = true
    · exact Or.inl h
    · right; rw [hI.ring]; simp [tagged, curRingOf, h]
  rw [polStep_nocrash s e hI.nocrash]
  cases e with
  | addHost p =>
    dsimp only
    by_cases h : hasAddr s.hosts p.addr = true
    · rw [if_pos h]; exact hI
    · rw [if_neg h]
      exact inv_recompute _ hI.nocrash hsup
  | addHosts ps => exact inv_recompute _ hI.nocrash hsup
  | removeHost a =>
    dsimp only
    by_cases h : hasAddr s.hosts a = true
    · rw [if_pos h]
      exact inv_recompute _ hI.nocrash hsup
    · rw [if_neg h]; exact hI
  | hostUp a => exact hI
  | hostDown a => exact hI
  | setPartitioner p =>
    dsimp only
    by_cases h : s.part = p
    · rw [if_pos h]; exact hI
    · rw [if_neg h]
      exact inv_recompute _ hI.nocrash (Or.inl he)
  | keyspaceChanged ks =>
    dsimp only
    obtain ⟨h1, h2, h3, h4, h5, h6, h7, h8, h9⟩ := update_spec s ks hI.ring
    have hnc : (updateReplicas s ks).crashed = false := by rw [h1]; exact hI.nocrash
    rw [if_neg (by rw [hnc]; simp)]
    have hexp : ∀ k, expected (updateReplicas s ks) k = expected s k := by
      intro k; simp only [expected, h3, h4, h5]
    refine ⟨hnc, ?_, ?_, ?_⟩
    · rw [h2, h3, h4]; exact hI.ring
    · intro k hk
      rw [hexp]
      by_cases hkk : k = ks
      · subst hkk; exact h7
      · rw [h8 k hkk]
        rcases (h9 k).mp hk with h | h
        · exact hI.fresh k h
        · exact absurd h hkk
    · by_cases hkk : s.sessKs = ks
      · apply sess_of_expected
        rw [h6, hexp, hkk]; exact h7
      · unfold SessOnRing
        rw [h6, h3, h4, h8 _ hkk]
        exact hI.sess
  | setSchema ks v =>
    dsimp only
    refine ⟨hI.nocrash, hI.ring, ?_, hI.sess⟩
    intro k hk
    simp only [List.mem_filter, Bool.not_eq_true', beq_eq_false_iff_ne, ne_eq] at hk
    simp only [expected, hk.2, if_false]
    exact hI.fresh k hk.1

theorem inv_run (evs : List PolEvent) : ∀ (s : PolState), Inv s → (∀ e ∈ evs, EvOK e) → Inv (polRun s evs) := by
  induction evs with
  | nil => intro s h _; exact h
  | cons e rest ih =>
    intro s h hev
    unfold polRun
    simp only [List.foldl_cons]
    exact ih (polStep s e) (inv_step s e h (hev e (by simp))) (fun x hx => hev x (by simp [hx]))

/-! ## no panic escapes, for EVERY history (also with unsupported partitioners) -/

theorem update_crashed (s : PolState) (ks : Nat) : (updateReplicas s ks).crashed = s.crashed := by
  unfold updateReplicas
  cases s.schema ks with
  | none => rfl
  | some strat =>
    cases hr : s.ring with
    | none => rfl
    | some pr =>
      obtain ⟨p, ring⟩ := pr
      simp only
      cases hm : replicaMapOf ring strat with
      | none => rfl
      | some r =>
        cases r with
        | error e => exact absurd hm (replicaMapOf_ok ring strat e)
        | ok rr => rfl

theorem recompute_crashed (s : PolState) (hc : s.crashed = false) : (recompute s).crashed = false := by
  have h := update_crashed { s with ring := resetTokenRing s, fresh := [] } s.sessKs
  have hnc : (updateReplicas { s with ring := resetTokenRing s, fresh := [] } s.sessKs).crashed = false := by
    rw [h]; exact hc
  unfold recompute
  simp only [hnc, Bool.false_eq_true, if_false]

theorem step_crashed (s : PolState) (e : PolEvent) (hc : s.crashed = false) : (polStep s e).crashed = false := by
  rw [polStep_nocrash s e hc]
  cases e with
  | addHost p =>
    dsimp only
    by_cases h : hasAddr s.hosts p.addr = true
    · rw [if_pos h]; exact hc
    · rw [if_neg h]; exact recompute_crashed _ hc
  | addHosts ps => exact recompute_crashed _ hc
  | removeHost a =>
    dsimp only
    by_cases h : hasAddr s.hosts a = true
    · rw [if_pos h]; exact recompute_crashed _ hc
    · rw [if_neg h]; exact hc
  | hostUp a => exact hc
  | hostDown a => exact hc
  | setPartitioner p =>
    dsimp only
    by_cases h : s.part = p
    · rw [if_pos h]; exact hc
    · rw [if_neg h]; exact recompute_crashed _ hc
  | keyspaceChanged ks =>
    dsimp only
    have hnc : (updateReplicas s ks).crashed = false := by rw [update_crashed]; exact hc
    rw [if_neg (by rw [hnc]; simp)]
    exact hnc
  | setSchema ks v => exact hc

theorem run_crashed (evs : List PolEvent) : ∀ (s : PolState), s.crashed = false → (polRun s evs).crashed = false := by
  induction evs with
  | nil => intro s h; exact h
  | cons e rest ih =>
    intro s h
    unfold polRun
    simp only [List.foldl_cons]
    exact ih (polStep s e) (step_crashed s e h)

end C10Pol
