import Model.PlacementPol
import Proofs.C10
/-!
# C10 — the replica map as a function of the history of policy events

Model: `Model/PlacementPol.lean` (`polStep` mirrors tokenAwareHostPolicy's AddHost / AddHosts / RemoveHost / HostUp /
HostDown / SetPartitioner / KeyspaceChanged with cowHostList, resetTokenRing and updateReplicas; the environment event
`setSchema` changes what getKeyspaceMetadata answers).  Helper lemmas in namespace `C10Pol`, the property theorems in
namespace `C10` at the end of the file.  All theorems are by induction over the event list (invariant `Inv`).
-/
namespace C10Pol
open Placement PlacementPol C10Lookup C10Simple C10Nts C10NtsNodup C10NtsSpec C10SpecDedup C10NtsLookup

/-! ## the replica-map computation never panics -/

theorem replicaMapOf_ok (ring : List Entry) (strat : Strat) (e : Crash) :
    replicaMapOf ring strat ≠ some (.error e) := by
  cases strat with
  | simple rf => simp [replicaMapOf]
  | nts rfs => simp [replicaMapOf, C10.C10_no_panic]
  | unusable => simp [replicaMapOf]

/-! ## what an entry has to be, from the current environment -/

def curRingOf (part : Part) (hosts : List PHost) : Option (List Entry) :=
  if part.supported then some (buildRing (ownersOf hosts)) else none

theorem curRing_eq (s : PolState) : PlacementPol.Spec.curRing s = curRingOf s.part s.hosts := rfl

/-- the entry the policy has to hold for a keyspace whose schema currently reads `sch`: the replica map of the schema's
strategy on the ring of the CURRENT hosts; NO entry when the schema is unreadable, has no usable strategy, or there is
no ring -/
def expectedOf (part : Part) (hosts : List PHost) (sch : Option Strat) : Option (Part × ReplicaRing) :=
  match curRingOf part hosts, sch with
  | some ring, some strat =>
    (match replicaMapOf ring strat with
     | some (.ok rr) => some (part, rr)
     | _ => none)
  | _, _ => none

def expected (s : PolState) (ks : Nat) : Option (Part × ReplicaRing) := expectedOf s.part s.hosts (s.schema ks)

def tagged (part : Part) (hosts : List PHost) : Option (Part × List Entry) :=
  (curRingOf part hosts).map (fun r => (part, r))

/-! ## updateReplicas -/

theorem update_spec (s : PolState) (ks : Nat) (hr : s.ring = tagged s.part s.hosts) :
    (updateReplicas s ks).crashed = s.crashed ∧
    (updateReplicas s ks).ring = s.ring ∧ (updateReplicas s ks).part = s.part ∧
    (updateReplicas s ks).hosts = s.hosts ∧ (updateReplicas s ks).schema = s.schema ∧
    (updateReplicas s ks).sessKs = s.sessKs ∧
    (updateReplicas s ks).replicas ks = expected s ks ∧
    (∀ k, k ≠ ks → (updateReplicas s ks).replicas k = s.replicas k) ∧
    (∀ k, k ∈ (updateReplicas s ks).fresh ↔ (k ∈ s.fresh ∨ k = ks)) := by
  have hfr : ∀ k, k ∈ (if ks ∈ s.fresh then s.fresh else s.fresh ++ [ks]) ↔ (k ∈ s.fresh ∨ k = ks) := by
    intro k
    by_cases h : ks ∈ s.fresh
    · simp only [h, if_true]
      constructor
      · exact Or.inl
      · rintro (h1 | h1)
        · exact h1
        · exact h1 ▸ h
    · simp [h]
  unfold updateReplicas expected expectedOf
  unfold tagged at hr
  cases hsch : s.schema ks with
  | none =>
    simp only [dropKs, if_true, true_and]
    refine ⟨?_, ?_, hfr⟩
    · cases curRingOf s.part s.hosts <;> rfl
    · intro k hk; simp [hk]
  | some strat =>
    cases hcr : curRingOf s.part s.hosts with
    | none =>
      rw [hcr] at hr
      simp only [Option.map_none] at hr
      simp only [hr, dropKs, if_true, true_and]
      refine ⟨?_, hfr⟩
      intro k hk; simp [hk]
    | some ring =>
      rw [hcr] at hr
      simp only [Option.map_some] at hr
      simp only [hr]
      cases hm : replicaMapOf ring strat with
      | none =>
        simp only [dropKs, if_true, true_and]
        refine ⟨?_, hfr⟩
        intro k hk; simp [hk]
      | some r =>
        cases r with
        | error e => exact absurd hm (replicaMapOf_ok ring strat e)
        | ok rr =>
          simp only [setKs, if_true, true_and]
          refine ⟨?_, hfr⟩
          intro k hk; simp [hk]

/-! ## the invariant -/

def EvOK : PolEvent → Prop
  | .setPartitioner p => p.supported = true
  | _ => True

/-- the session keyspace's entry is absent or the replica map of SOME strategy on the ring of the current hosts -/
def SessOnRing (s : PolState) : Prop :=
  s.replicas s.sessKs = none ∨
  ∃ strat ring rr, curRingOf s.part s.hosts = some ring ∧ replicaMapOf ring strat = some (.ok rr) ∧
    s.replicas s.sessKs = some (s.part, rr)

structure Inv (s : PolState) : Prop where
  nocrash : s.crashed = false
  ring : s.ring = tagged s.part s.hosts
  fresh : ∀ ks ∈ s.fresh, s.replicas ks = expected s ks
  sess : SessOnRing s

theorem inv_init (sk : Nat) (sch : Nat → Option Strat) : Inv (polInit sk sch) :=
  ⟨rfl, rfl, by intro ks h; simp [polInit] at h, Or.inl rfl⟩

theorem sess_of_expected (s : PolState) (h : s.replicas s.sessKs = expected s s.sessKs) : SessOnRing s := by
  unfold SessOnRing
  rw [h]
  unfold expected expectedOf
  cases hcr : curRingOf s.part s.hosts with
  | none => exact Or.inl rfl
  | some ring =>
    cases hsch : s.schema s.sessKs with
    | none => exact Or.inl rfl
    | some strat =>
      cases hm : replicaMapOf ring strat with
      | none => left; simp only [hm]
      | some r =>
        cases r with
        | error e => left; simp only [hm]
        | ok rr => right; exact ⟨strat, ring, rr, rfl, hm, by simp only [hm]⟩

/-- the ring-changing events: `hosts` / `part` already updated, then resetTokenRing + updateReplicas(session keyspace) -/
theorem inv_recompute (s : PolState) (hc : s.crashed = false)
    (hp : s.part.supported = true ∨ s.ring = none) : Inv (recompute s) := by
  have hreset : resetTokenRing s = tagged s.part s.hosts := by
    unfold resetTokenRing tagged curRingOf
    rcases hp with hp | hp
    · simp [hp]
    · by_cases h : s.part.supported = true
      · simp [h]
      · simp [h, hp]
  obtain ⟨h1, h2, h3, h4, h5, h6, h7, _, h9⟩ :=
    update_spec { s with ring := resetTokenRing s, fresh := [] } s.sessKs hreset
  have hnc : (updateReplicas { s with ring := resetTokenRing s, fresh := [] } s.sessKs).crashed = false := by
    rw [h1]; exact hc
  unfold recompute
  simp only [hnc, Bool.false_eq_true, if_false]
  refine ⟨hnc, ?_, ?_, ?_⟩
  · rw [h2, h3, h4]; exact hreset
  · intro ks hks
    have : ks = s.sessKs := by simpa using (h9 ks).mp hks
    subst this
    rw [h7]; simp only [expected, h3, h4, h5]
  · apply sess_of_expected
    rw [h6, h7]; simp only [expected, h3, h4, h5, h6]

theorem polStep_nocrash (s : PolState) (e : PolEvent) (hc : s.crashed = false) :
    polStep s e = (match e with
      | .addHost p => if hasAddr s.hosts p.addr then s else recompute { s with hosts := s.hosts ++ [p] }
      | .addHosts ps => recompute { s with hosts := ps.foldl cowAdd s.hosts }
      | .removeHost a => if hasAddr s.hosts a then recompute { s with hosts := cowRemove s.hosts a } else s
      | .hostUp _ => s
      | .hostDown _ => s
      | .setPartitioner p => if s.part = p then s else recompute { s with part := p }
      | .keyspaceChanged ks =>
        let s2 := updateReplicas s ks
        if s2.crashed then { s with crashed := true } else s2
      | .setSchema ks v =>
        { s with schema := fun k => if k = ks then v else s.schema k,
                 fresh := s.fresh.filter (fun k => !(k == ks)) }) := by
  unfold polStep
  rw [if_neg (by rw [hc]; simp)]
  cases e <;> rfl

theorem inv_step (s : PolState) (e : PolEvent) (hI : Inv s) (he : EvOK e) : Inv (polStep s e) := by
  have hsup : s.part.supported = true ∨ s.ring = none := by
    by_cases h : s.part.supported = true
    · exact Or.inl h
    · right; rw [hI.ring]; simp [tagged, curRingOf, h]
  rw [polStep_nocrash s e hI.nocrash]
  cases e with
  | addHost p =>
    dsimp only
    by_cases h : hasAddr s.hosts p.addr = true
    · rw [if_pos h]; exact hI
    · rw [if_neg h]
      exact inv_recompute _ hI.nocrash hsup
  | addHosts ps => exact inv_recompute _ hI.nocrash hsup
  | removeHost a =>
    dsimp only
    by_cases h : hasAddr s.hosts a = true
    · rw [if_pos h]
      exact inv_recompute _ hI.nocrash hsup
    · rw [if_neg h]; exact hI
  | hostUp a => exact hI
  | hostDown a => exact hI
  | setPartitioner p =>
    dsimp only
    by_cases h : s.part = p
    · rw [if_pos h]; exact hI
    · rw [if_neg h]
      exact inv_recompute _ hI.nocrash (Or.inl he)
  | keyspaceChanged ks =>
    dsimp only
    obtain ⟨h1, h2, h3, h4, h5, h6, h7, h8, h9⟩ := update_spec s ks hI.ring
    have hnc : (updateReplicas s ks).crashed = false := by rw [h1]; exact hI.nocrash
    rw [if_neg (by rw [hnc]; simp)]
    have hexp : ∀ k, expected (updateReplicas s ks) k = expected s k := by
      intro k; simp only [expected, h3, h4, h5]
    refine ⟨hnc, ?_, ?_, ?_⟩
    · rw [h2, h3, h4]; exact hI.ring
    · intro k hk
      rw [hexp]
      by_cases hkk : k = ks
      · subst hkk; exact h7
      · rw [h8 k hkk]
        rcases (h9 k).mp hk with h | h
        · exact hI.fresh k h
        · exact absurd h hkk
    · by_cases hkk : s.sessKs = ks
      · apply sess_of_expected
        rw [h6, hexp, hkk]; exact h7
      · unfold SessOnRing
        rw [h6, h3, h4, h8 _ hkk]
        exact hI.sess
  | setSchema ks v =>
    dsimp only
    refine ⟨hI.nocrash, hI.ring, ?_, hI.sess⟩
    intro k hk
    simp only [List.mem_filter, Bool.not_eq_true', beq_eq_false_iff_ne, ne_eq] at hk
    simp only [expected, hk.2, if_false]
    exact hI.fresh k hk.1

theorem inv_run (evs : List PolEvent) : ∀ (s : PolState), Inv s → (∀ e ∈ evs, EvOK e) → Inv (polRun s evs) := by
  induction evs with
  | nil => intro s h _; exact h
  | cons e rest ih =>
    intro s h hev
    unfold polRun
    simp only [List.foldl_cons]
    exact ih (polStep s e) (inv_step s e h (hev e (by simp))) (fun x hx => hev x (by simp [hx]))

/-! ## no panic escapes, for EVERY history (also with unsupported partitioners) -/

theorem update_crashed (s : PolState) (ks : Nat) : (updateReplicas s ks).crashed = s.crashed := by
  unfold updateReplicas
  cases s.schema ks with
  | none => rfl
  | some strat =>
    cases hr : s.ring with
    | none => rfl
    | some pr =>
      obtain ⟨p, ring⟩ := pr
      simp only
      cases hm : replicaMapOf ring strat with
      | none => rfl
      | some r =>
        cases r with
        | error e => exact absurd hm (replicaMapOf_ok ring strat e)
        | ok rr => rfl

theorem recompute_crashed (s : PolState) (hc : s.crashed = false) : (recompute s).crashed = false := by
  have h := update_crashed { s with ring := resetTokenRing s, fresh := [] } s.sessKs
  have hnc : (updateReplicas { s with ring := resetTokenRing s, fresh := [] } s.sessKs).crashed = false := by
    rw [h]; exact hc
  unfold recompute
  simp only [hnc, Bool.false_eq_true, if_false]

theorem step_crashed (s : PolState) (e : PolEvent) (hc : s.crashed = false) : (polStep s e).crashed = false := by
  rw [polStep_nocrash s e hc]
  cases e with
  | addHost p =>
    dsimp only
    by_cases h : hasAddr s.hosts p.addr = true
    · rw [if_pos h]; exact hc
    · rw [if_neg h]; exact recompute_crashed _ hc
  | addHosts ps => exact recompute_crashed _ hc
  | removeHost a =>
    dsimp only
    by_cases h : hasAddr s.hosts a = true
    · rw [if_pos h]; exact recompute_crashed _ hc
    · rw [if_neg h]; exact hc
  | hostUp a => exact hc
  | hostDown a => exact hc
  | setPartitioner p =>
    dsimp only
    by_cases h : s.part = p
    · rw [if_pos h]; exact hc
    · rw [if_neg h]; exact recompute_crashed _ hc
  | keyspaceChanged ks =>
    dsimp only
    have hnc : (updateReplicas s ks).crashed = false := by rw [update_crashed]; exact hc
    rw [if_neg (by rw [hnc]; simp)]
    exact hnc
  | setSchema ks v => exact hc

theorem run_crashed (evs : List PolEvent) : ∀ (s : PolState), s.crashed = false → (polRun s evs).crashed = false := by
  induction evs with
  | nil => intro s h; exact h
  | cons e rest ih =>
    intro s h
    unfold polRun
    simp only [List.foldl_cons]
    exact ih (polStep s e) (step_crashed s e h)

/-! ## the lookup Pick makes = the specification, on a fresh keyspace -/

theorem pick_none_eq_owner (ring : List Entry) (rr : ReplicaRing) (t : Int) (hs : Sorted ring)
    (hn : replicasFor rr t = none) : pickReplicas ring rr t = PlacementPol.Spec.owner ring t := by
  unfold pickReplicas PlacementPol.Spec.owner
  rw [hn]
  simp only
  unfold getHostForToken
  by_cases hl : ring.length = 0
  · have : ring = [] := List.eq_nil_of_length_eq_zero hl
    subst this
    simp
  · rw [if_neg hl, C10.C10_lookup ring t hs]
    cases ring[Placement.Spec.ownerIdx ring t]? <;> rfl

theorem replicasFor_nil (t : Int) : replicasFor [] t = none := by
  unfold replicasFor; simp

theorem pick_simple (ring : List Entry) (rf : Nat) (t : Int) (hs : Sorted ring) :
    pickReplicas ring (simpleReplicaMap rf ring) t = Placement.Spec.simple ring rf t := by
  by_cases hne : ring = []
  · subst hne
    have h0 : simpleReplicaMap rf [] = [] := by simp [simpleReplicaMap, sortReps]
    rw [h0, pick_none_eq_owner [] [] t hs (replicasFor_nil t), (C10.C10_simple_empty rf t).2]
    simp [PlacementPol.Spec.owner]
  · have h := C10.C10_simple ring rf t hs hne
    unfold pickReplicas
    cases hr : replicasFor (simpleReplicaMap rf ring) t with
    | none => rw [hr] at h; simp at h
    | some e =>
      rw [hr] at h
      simp only [Option.map_some, Option.some.injEq] at h
      simp only [h]

theorem pick_nts (ring : List Entry) (rfs : List (Nat × Nat)) (t : Int) (hs : Sorted ring)
    (hk : (rfs.map (·.1)).Nodup) :
    pickReplicas ring (C10.ntsDesc rfs ring) t =
      PlacementPol.Spec.orOwner (Placement.Spec.nts ring rfs t) (PlacementPol.Spec.owner ring t) := by
  have h := C10.C10_nts_lookup rfs ring t hs hk
  rw [C10.C10_no_panic] at h
  simp only at h
  cases hr : replicasFor (C10.ntsDesc rfs ring) t with
  | none =>
    rw [hr] at h
    simp only [Option.some.injEq] at h
    rw [← h, pick_none_eq_owner ring _ t hs hr]
    rfl
  | some e =>
    rw [hr] at h
    simp only [Option.some.injEq] at h
    have hmem : e ∈ C10.ntsDesc rfs ring := by
      unfold replicasFor at hr
      split at hr
      · exact absurd hr (by simp)
      · exact List.mem_of_getElem? hr
    obtain ⟨th, _, _, hhd⟩ := C10.C10_nts_primary_first rfs ring e hmem
    have hne : e.2 ≠ [] := by
      intro h0; rw [h0] at hhd; simp at hhd
    unfold pickReplicas
    rw [hr, ← h]
    simp only
    unfold PlacementPol.Spec.orOwner
    cases he : e.2 with
    | nil => exact absurd he hne
    | cons a r => rfl

theorem lookup_of_inv (s : PolState) (hI : Inv s) (ks : Nat) (hf : ks ∈ s.fresh) (t : Int)
    (hs : ∀ ring, PlacementPol.Spec.curRing s = some ring → Sorted ring)
    (hk : ∀ k rfs, s.schema k = some (.nts rfs) → (rfs.map (·.1)).Nodup) :
    polLookup s ks t = PlacementPol.Spec.lookup s ks t := by
  have hrep := hI.fresh ks hf
  have hring := hI.ring
  unfold polLookup PlacementPol.Spec.lookup
  rw [curRing_eq] at hs ⊢
  unfold expected expectedOf at hrep
  unfold tagged at hring
  cases hcr : curRingOf s.part s.hosts with
  | none =>
    rw [hcr] at hring
    simp only [Option.map_none] at hring
    simp only [hring]
  | some ring =>
    have hsr : Sorted ring := hs ring hcr
    rw [hcr] at hring hrep
    simp only [Option.map_some] at hring
    simp only [hring]
    cases hsch : s.schema ks with
    | none =>
      rw [hsch] at hrep
      simp only [hrep]
      rw [pick_none_eq_owner ring [] t hsr (replicasFor_nil t)]
    | some strat =>
      rw [hsch] at hrep
      cases strat with
      | unusable =>
        simp only [replicaMapOf] at hrep
        simp only [hrep]
        rw [pick_none_eq_owner ring [] t hsr (replicasFor_nil t)]
      | simple rf =>
        simp only [replicaMapOf] at hrep
        simp only [hrep, ne_eq, not_true_eq_false, and_false, if_false]
        rw [pick_simple ring rf t hsr]
      | nts rfs =>
        simp only [replicaMapOf, C10.C10_no_panic] at hrep
        simp only [hrep, ne_eq, not_true_eq_false, and_false, if_false]
        rw [pick_nts ring rfs t hsr (hk ks rfs hsch)]

/-! ## every host of a replica map is a host of the ring it was computed on; every host of the ring is a current host -/

theorem mem_insertRep (e x : Int × List Host) (l : ReplicaRing) : x ∈ insertRep e l ↔ x = e ∨ x ∈ l := by
  induction l with
  | nil => simp [insertRep]
  | cons y ys ih =>
    unfold insertRep
    by_cases h : e.1 ≤ y.1
    · simp [h]
    · simp only [h, if_false, List.mem_cons, ih]
      constructor
      · rintro (h1 | h1 | h1)
        · exact Or.inr (Or.inl h1)
        · exact Or.inl h1
        · exact Or.inr (Or.inr h1)
      · rintro (h1 | h1 | h1)
        · exact Or.inr (Or.inl h1)
        · exact Or.inl h1
        · exact Or.inr (Or.inr h1)

theorem mem_sortReps (x : Int × List Host) (l : ReplicaRing) : x ∈ sortReps l ↔ x ∈ l := by
  induction l with
  | nil => simp [sortReps]
  | cons y ys ih =>
    have : sortReps (y :: ys) = insertRep y (sortReps ys) := rfl
    rw [this, mem_insertRep, ih]
    simp

theorem mem_insertEntry (e x : Entry) (l : List Entry) : x ∈ insertEntry e l ↔ x = e ∨ x ∈ l := by
  induction l with
  | nil => simp [insertEntry]
  | cons y ys ih =>
    unfold insertEntry
    by_cases h : e.1 ≤ y.1
    · simp [h]
    · simp only [h, if_false, List.mem_cons, ih]
      constructor
      · rintro (h1 | h1 | h1)
        · exact Or.inr (Or.inl h1)
        · exact Or.inl h1
        · exact Or.inr (Or.inr h1)
      · rintro (h1 | h1 | h1)
        · exact Or.inr (Or.inl h1)
        · exact Or.inl h1
        · exact Or.inr (Or.inr h1)

theorem mem_sortEntries (x : Entry) (l : List Entry) : x ∈ sortEntries l ↔ x ∈ l := by
  induction l with
  | nil => simp [sortEntries]
  | cons y ys ih =>
    have : sortEntries (y :: ys) = insertEntry y (sortEntries ys) := rfl
    rw [this, mem_insertEntry, ih]
    simp

/-- a host of the ring built from the policy's host list is one of those hosts -/
theorem ring_host_current (hosts : List PHost) (e : Entry) (he : e ∈ buildRing (ownersOf hosts)) :
    ∃ p ∈ hosts, p.h = e.2 := by
  unfold buildRing at he
  rw [mem_sortEntries] at he
  simp only [ownersOf, List.mem_flatMap, List.mem_map] at he
  obtain ⟨ht, ⟨p, hp, rfl⟩, t, _, rfl⟩ := he
  exact ⟨p, hp, rfl⟩

theorem simple_hosts_on_ring (rf : Nat) (ring : List Entry) (e : Int × List Host)
    (he : e ∈ simpleReplicaMap rf ring) (h : Host) (hh : h ∈ e.2) : h ∈ ring.map (·.2) := by
  unfold simpleReplicaMap at he
  rw [mem_sortReps] at he
  obtain ⟨i, _, rfl⟩ := List.mem_map.mp he
  simp only [simpleReplicasAt] at hh
  rw [simpleWalk_init] at hh
  have h1 := (mem_firsts _ h).mp (List.mem_of_mem_take hh)
  obtain ⟨x, hx, rfl⟩ := List.mem_map.mp h1
  exact List.mem_map.mpr ⟨x, (mem_rot ring i x).mp hx, rfl⟩

theorem nts_hosts_on_ring (rfs : List (Nat × Nat)) (ring : List Entry) (e : Int × List Host)
    (he : e ∈ C10.ntsDesc rfs ring) (h : Host) (hh : h ∈ e.2) : h ∈ ring.map (·.2) := by
  unfold C10.ntsDesc at he
  obtain ⟨p, _, rfl⟩ := List.mem_map.mp he
  have j := C10.nts_entry_j rfs ring p.1
  exact (mem_rot _ _ h).mp ((mem_firsts _ h).mp (j.rp h hh))

theorem replicaMapOf_hosts (ring : List Entry) (strat : Strat) (rr : ReplicaRing)
    (hm : replicaMapOf ring strat = some (.ok rr)) (e : Int × List Host) (he : e ∈ rr) (h : Host) (hh : h ∈ e.2) :
    h ∈ ring.map (·.2) := by
  cases strat with
  | unusable => simp [replicaMapOf] at hm
  | simple rf =>
    simp only [replicaMapOf, Option.some.injEq, Except.ok.injEq] at hm
    subst hm
    exact simple_hosts_on_ring rf ring e he h hh
  | nts rfs =>
    simp only [replicaMapOf, C10.C10_no_panic, Option.some.injEq, Except.ok.injEq] at hm
    subst hm
    exact nts_hosts_on_ring rfs ring e he h hh

theorem curRing_hosts (s : PolState) (ring : List Entry) (hc : curRingOf s.part s.hosts = some ring)
    (h : Host) (hh : h ∈ ring.map (·.2)) : ∃ p ∈ s.hosts, p.h = h := by
  unfold curRingOf at hc
  split at hc
  · simp only [Option.some.injEq] at hc
    subst hc
    obtain ⟨e, he, rfl⟩ := List.mem_map.mp hh
    exact ring_host_current s.hosts e he
  · simp at hc

theorem expected_hosts (s : PolState) (ks : Nat) (q : Part) (rr : ReplicaRing)
    (hx : expected s ks = some (q, rr)) (e : Int × List Host) (he : e ∈ rr) (h : Host) (hh : h ∈ e.2) :
    ∃ p ∈ s.hosts, p.h = h := by
  unfold expected expectedOf at hx
  cases hcr : curRingOf s.part s.hosts with
  | none => rw [hcr] at hx; simp at hx
  | some ring =>
    rw [hcr] at hx
    cases hsch : s.schema ks with
    | none => rw [hsch] at hx; simp at hx
    | some strat =>
      rw [hsch] at hx
      simp only at hx
      cases hm : replicaMapOf ring strat with
      | none => rw [hm] at hx; simp at hx
      | some r =>
        cases r with
        | error c => rw [hm] at hx; simp at hx
        | ok rr' =>
          rw [hm] at hx
          simp only [Option.some.injEq, Prod.mk.injEq] at hx
          obtain ⟨_, rfl⟩ := hx
          exact curRing_hosts s ring hcr h (replicaMapOf_hosts ring strat rr' hm e he h hh)

end C10Pol

/-! # Property theorems -/
namespace C10
open Placement PlacementPol C10Lookup C10Pol

/-- a history is admissible when every SetPartitioner event names a supported partitioner (Murmur3 / Random /
ByteOrdered); everything else — any order of AddHost, AddHosts, RemoveHost, HostUp, HostDown, KeyspaceChanged and of
changes of the schema the policy reads (readable, unreadable, altered, dropped), any hosts, tokens, addresses — is free -/
def Admissible (evs : List PolEvent) : Prop := ∀ e ∈ evs, EvOK e

/-- the policy state after a history, started as Init leaves it (no hosts, no partitioner, no metadata) -/
abbrev after (sk : Nat) (sch : Nat → Option Strat) (evs : List PolEvent) : PolState := polRun (polInit sk sch) evs

/-- `C10_policy_no_panic`: after ANY history (unsupported partitioners included) no panic of the replica-map
computation has escaped into AddHost / RemoveHost / SetPartitioner / KeyspaceChanged. -/
theorem C10_policy_no_panic (sk : Nat) (sch : Nat → Option Strat) (evs : List PolEvent) :
    (after sk sch evs).crashed = false :=
  run_crashed evs _ rfl

/-- `C10_ring_follows_hosts`: after any admissible history the token ring Pick consults is the ring of the CURRENT
host list under the CURRENT partitioner (nil while no partitioner is known). -/
theorem C10_ring_follows_hosts (sk : Nat) (sch : Nat → Option Strat) (evs : List PolEvent) (hev : Admissible evs) :
    ((after sk sch evs).ring).map (·.2) = PlacementPol.Spec.curRing (after sk sch evs) := by
  have hI : Inv (after sk sch evs) := inv_run evs _ (inv_init sk sch) hev
  rw [hI.ring, curRing_eq]
  unfold tagged
  cases curRingOf (after sk sch evs).part (after sk sch evs).hosts <;> rfl

/-- `C10_replicas_follow_ring` (session keyspace, every admissible history): the entry the policy holds for the
session keyspace is ABSENT or the replica map of some strategy ON THE RING OF THE CURRENT HOSTS — it is never a map
computed for an earlier ring; and when the keyspace's schema has not changed behind the policy's back since the last
event that read it (`sessKs ∈ fresh`) the entry is exactly what the CURRENT schema and the CURRENT ring give: the
replica map of the current strategy, and NO entry when the schema is unreadable / unusable / there is no ring. -/
theorem C10_replicas_follow_ring (sk : Nat) (sch : Nat → Option Strat) (evs : List PolEvent) (hev : Admissible evs) :
    SessOnRing (after sk sch evs) ∧
    ((after sk sch evs).sessKs ∈ (after sk sch evs).fresh →
      (after sk sch evs).replicas (after sk sch evs).sessKs = expected (after sk sch evs) (after sk sch evs).sessKs) := by
  have hI : Inv (after sk sch evs) := inv_run evs _ (inv_init sk sch) hev
  exact ⟨hI.sess, hI.fresh _⟩

theorem updateReplicas_sessKs (s : PolState) (ks : Nat) : (updateReplicas s ks).sessKs = s.sessKs := by
  unfold updateReplicas
  cases s.schema ks with
  | none => rfl
  | some strat =>
    cases s.ring with
    | none => rfl
    | some pr =>
      obtain ⟨p, ring⟩ := pr
      simp only
      cases replicaMapOf ring strat with
      | none => rfl
      | some r => cases r <;> rfl

theorem recompute_sessKs (s : PolState) : (recompute s).sessKs = s.sessKs := by
  unfold recompute
  simp only
  split
  · rfl
  · exact updateReplicas_sessKs _ _

theorem polStep_sessKs (s : PolState) (e : PolEvent) : (polStep s e).sessKs = s.sessKs := by
  unfold polStep
  split
  · rfl
  · cases e with
    | addHost p =>
      dsimp only
      split
      · rfl
      · exact recompute_sessKs _
    | addHosts ps => exact recompute_sessKs _
    | removeHost a =>
      dsimp only
      split
      · exact recompute_sessKs _
      · rfl
    | hostUp a => rfl
    | hostDown a => rfl
    | setPartitioner p =>
      dsimp only
      split
      · rfl
      · exact recompute_sessKs _
    | keyspaceChanged ks =>
      dsimp only
      split
      · rfl
      · exact updateReplicas_sessKs _ _
    | setSchema ks v => rfl

/-- the session keyspace is the one given to Init -/
theorem sessKs_after (sk : Nat) (sch : Nat → Option Strat) (evs : List PolEvent) : (after sk sch evs).sessKs = sk := by
  have : ∀ (evs : List PolEvent) (s : PolState), (polRun s evs).sessKs = s.sessKs := by
    intro evs
    induction evs with
    | nil => intro s; rfl
    | cons e rest ih =>
      intro s
      have h1 := ih (polStep s e)
      unfold polRun at h1 ⊢
      simp only [List.foldl_cons]
      rw [h1, polStep_sessKs]
  exact this evs _

/-
FULL PROPERTY (does NOT hold for the unchanged code): after any admissible history, for EVERY keyspace the policy holds
an entry for, the entry is the replica map of the keyspace's current strategy on the ring of the current hosts.
The code recomputes only the SESSION keyspace's entry when the ring changes (updateReplicas(meta, getKeyspaceName()) in
AddHost / AddHosts / RemoveHost / SetPartitioner): the entry of any other keyspace — created by KeyspaceChanged(ks) —
survives every later ring change unchanged (KF-C10-4, the replica-map side of KF-C11-5a): counterexamples
`C10_cex_other_keyspace_stale`, `C10_cex_other_keyspace_departed_host`, `C10_cex_other_keyspace_type_panic`.
The `_partial` theorem excludes exactly that: keyspace not in `fresh` = its schema changed without a KeyspaceChanged
since, or it is not the session keyspace and the ring was recomputed after its last KeyspaceChanged.
-/

/-- `C10_replicas_all_keyspaces_partial`: for every keyspace that is fresh — last (re)read by the policy after the last
change of its schema and, unless it is the session keyspace, after the last recomputation of the ring — the entry is
exactly the replica map of the CURRENT strategy on the ring of the CURRENT hosts, and there is NO entry when the
schema is currently unreadable, has no usable strategy, or there is no ring. -/
theorem C10_replicas_all_keyspaces_partial (sk : Nat) (sch : Nat → Option Strat) (evs : List PolEvent)
    (hev : Admissible evs) (ks : Nat) (hf : ks ∈ (after sk sch evs).fresh) :
    (after sk sch evs).replicas ks = expected (after sk sch evs) ks :=
  (inv_run evs _ (inv_init sk sch) hev).fresh ks hf

/-- `C10_unreadable_no_entry`: a fresh keyspace whose schema cannot be read holds no entry (Pick falls back to the
primary owner taken from the current ring, `C10_pick_spec`). -/
theorem C10_unreadable_no_entry (sk : Nat) (sch : Nat → Option Strat) (evs : List PolEvent)
    (hev : Admissible evs) (ks : Nat) (hf : ks ∈ (after sk sch evs).fresh)
    (hu : (after sk sch evs).schema ks = none) :
    (after sk sch evs).replicas ks = none := by
  rw [C10_replicas_all_keyspaces_partial sk sch evs hev ks hf]
  unfold expected expectedOf
  rw [hu]
  cases curRingOf (after sk sch evs).part (after sk sch evs).hosts <;> rfl

/-- `C10_no_departed_host`: after any admissible history, every host named in any replica list of the SESSION
keyspace's entry (fresh or not), and of the entry of any fresh keyspace, is in the policy's CURRENT host list — a host
that left (RemoveHost) is never returned, a map computed for a previous ring is never consulted. -/
theorem C10_no_departed_host (sk : Nat) (sch : Nat → Option Strat) (evs : List PolEvent) (hev : Admissible evs)
    (ks : Nat) (hks : ks = (after sk sch evs).sessKs ∨ ks ∈ (after sk sch evs).fresh)
    (q : Part) (rr : ReplicaRing) (hrr : (after sk sch evs).replicas ks = some (q, rr))
    (e : Int × List Host) (he : e ∈ rr) (h : Host) (hh : h ∈ e.2) :
    ∃ p ∈ (after sk sch evs).hosts, p.h = h := by
  have hI : Inv (after sk sch evs) := inv_run evs _ (inv_init sk sch) hev
  rcases hks with hks | hks
  · subst hks
    rcases hI.sess with hn | ⟨strat, ring, rr', hcr, hm, hrep⟩
    · rw [hn] at hrr; simp at hrr
    · rw [hrep] at hrr
      simp only [Option.some.injEq, Prod.mk.injEq] at hrr
      obtain ⟨_, rfl⟩ := hrr
      exact curRing_hosts _ ring hcr h (replicaMapOf_hosts ring strat rr' hm e he h hh)
  · rw [hI.fresh ks hks] at hrr
    exact expected_hosts _ ks q rr hrr e he h hh

/-- `C10_pick_spec` (the spec-backed op `prepl`): after any admissible history, for every fresh keyspace and every
token, what Pick reads from the policy's snapshot — `meta.replicas[ks].replicasFor(token)`, else
`meta.tokenRing.GetHostForToken(token)` — is what the specification computes from the CURRENT environment alone:
Cassandra's SimpleStrategy / NetworkTopologyStrategy placement for the strategy of the schema readable NOW on the ring
of the CURRENT hosts, the primary owner of the current ring when the schema is unreadable / unusable / Cassandra places
the token on no node, and "no ring" exactly while no partitioner is known.  In particular the lookup never panics.
Standing hypotheses of all C10 theorems: ring tokens pairwise distinct (`Sorted`), rf maps with distinct keys. -/
theorem C10_pick_spec (sk : Nat) (sch : Nat → Option Strat) (evs : List PolEvent) (hev : Admissible evs)
    (ks : Nat) (hf : ks ∈ (after sk sch evs).fresh) (t : Int)
    (hs : ∀ ring, PlacementPol.Spec.curRing (after sk sch evs) = some ring → Sorted ring)
    (hk : ∀ k rfs, (after sk sch evs).schema k = some (.nts rfs) → (rfs.map (·.1)).Nodup) :
    polLookup (after sk sch evs) ks t = PlacementPol.Spec.lookup (after sk sch evs) ks t :=
  lookup_of_inv _ (inv_run evs _ (inv_init sk sch) hev) ks hf t hs hk

/-! ## freshness made concrete, and the seeded family as a theorem over all histories -/

theorem update_fresh_schema (s : PolState) (ks : Nat) :
    ks ∈ (updateReplicas s ks).fresh ∧ (updateReplicas s ks).schema = s.schema := by
  have hfr : ks ∈ (if ks ∈ s.fresh then s.fresh else s.fresh ++ [ks]) := by
    by_cases h : ks ∈ s.fresh
    · simp [h]
    · simp [h]
  unfold updateReplicas
  cases s.schema ks with
  | none => exact ⟨hfr, rfl⟩
  | some strat =>
    cases hr : s.ring with
    | none => exact ⟨hfr, rfl⟩
    | some pr =>
      obtain ⟨p, ring⟩ := pr
      simp only
      cases hm : replicaMapOf ring strat with
      | none => exact ⟨hfr, rfl⟩
      | some r =>
        cases r with
        | error e => exact absurd hm (replicaMapOf_ok ring strat e)
        | ok rr => exact ⟨hfr, rfl⟩

/-- every ring recomputation re-reads the session keyspace: it is fresh afterwards -/
theorem recompute_fresh_schema (s : PolState) (hc : s.crashed = false) :
    s.sessKs ∈ (recompute s).fresh ∧ (recompute s).schema = s.schema := by
  have h := update_crashed { s with ring := resetTokenRing s, fresh := [] } s.sessKs
  have hnc : (updateReplicas { s with ring := resetTokenRing s, fresh := [] } s.sessKs).crashed = false := by
    rw [h]; exact hc
  unfold recompute
  simp only [hnc, Bool.false_eq_true, if_false]
  exact update_fresh_schema { s with ring := resetTokenRing s, fresh := [] } s.sessKs

/-- `C10_fresh_after_keyspace_changed`: right after KeyspaceChanged(ks) the keyspace is fresh (any history) -/
theorem C10_fresh_after_keyspace_changed (sk : Nat) (sch : Nat → Option Strat) (evs : List PolEvent) (ks : Nat) :
    ks ∈ (after sk sch (evs ++ [.keyspaceChanged ks])).fresh := by
  have hc : (after sk sch evs).crashed = false := C10_policy_no_panic sk sch evs
  have : after sk sch (evs ++ [.keyspaceChanged ks]) = polStep (after sk sch evs) (.keyspaceChanged ks) := by
    simp [after, polRun, List.foldl_append]
  rw [this, polStep_nocrash _ _ hc]
  dsimp only
  have hnc : (updateReplicas (after sk sch evs) ks).crashed = false := by rw [update_crashed]; exact hc
  rw [if_neg (by rw [hnc]; simp)]
  exact (update_fresh_schema _ ks).1

/-- the events that rebuild the token ring in state `s` -/
def RingEvent (s : PolState) : PolEvent → Prop
  | .addHost p => hasAddr s.hosts p.addr = false
  | .addHosts _ => True
  | .removeHost a => hasAddr s.hosts a = true
  | .setPartitioner p => s.part ≠ p
  | _ => False

/-- a ring event is a recomputation on a state with the same session keyspace and schema -/
theorem ringEvent_recompute (s : PolState) (e : PolEvent) (hc : s.crashed = false) (hr : RingEvent s e) :
    ∃ s', polStep s e = recompute s' ∧ s'.crashed = false ∧ s'.sessKs = s.sessKs ∧ s'.schema = s.schema := by
  rw [polStep_nocrash s e hc]
  cases e with
  | addHost p =>
    dsimp only
    simp only [RingEvent] at hr
    rw [if_neg (by rw [hr]; simp)]
    exact ⟨_, rfl, hc, rfl, rfl⟩
  | addHosts ps => exact ⟨_, rfl, hc, rfl, rfl⟩
  | removeHost a =>
    dsimp only
    simp only [RingEvent] at hr
    rw [if_pos hr]
    exact ⟨_, rfl, hc, rfl, rfl⟩
  | setPartitioner p =>
    dsimp only
    simp only [RingEvent] at hr
    rw [if_neg hr]
    exact ⟨_, rfl, hc, rfl, rfl⟩
  | hostUp a => exact absurd hr (by simp [RingEvent])
  | hostDown a => exact absurd hr (by simp [RingEvent])
  | keyspaceChanged ks => exact absurd hr (by simp [RingEvent])
  | setSchema ks v => exact absurd hr (by simp [RingEvent])

/-- `C10_fresh_session_after_ring_event`: right after any event that rebuilds the ring the session keyspace is fresh -/
theorem C10_fresh_session_after_ring_event (sk : Nat) (sch : Nat → Option Strat) (evs : List PolEvent) (e : PolEvent)
    (hr : RingEvent (after sk sch evs) e) : sk ∈ (after sk sch (evs ++ [e])).fresh := by
  have hc : (after sk sch evs).crashed = false := C10_policy_no_panic sk sch evs
  have : after sk sch (evs ++ [e]) = polStep (after sk sch evs) e := by
    simp [after, polRun, List.foldl_append]
  obtain ⟨s', h1, h2, h3, _⟩ := ringEvent_recompute _ e hc hr
  rw [this, h1]
  have := (recompute_fresh_schema s' h2).1
  rw [h3, sessKs_after] at this
  exact this

/-- `C10_unreadable_then_ring_change_drops_entry` (the seeded family, for ALL histories): whatever happened before,
once the schema of the session keyspace cannot be read, the FIRST event that rebuilds the ring — a node joins, nodes are
added in bulk, a node leaves, the partitioner is set — leaves the policy WITHOUT an entry for the session keyspace:
the replica map computed for the previous ring does not survive (Pick then starts from the primary owner of the new
ring, `C10_pick_spec`). -/
theorem C10_unreadable_then_ring_change_drops_entry (sk : Nat) (sch : Nat → Option Strat) (evs : List PolEvent)
    (e : PolEvent) (hev : Admissible evs) (he : EvOK e)
    (hr : RingEvent (after sk sch (evs ++ [.setSchema sk none])) e) :
    (after sk sch (evs ++ [.setSchema sk none] ++ [e])).replicas sk = none := by
  have hadm : Admissible (evs ++ [.setSchema sk none] ++ [e]) := by
    intro x hx
    simp only [List.mem_append, List.mem_cons, List.mem_nil_iff, or_false] at hx
    rcases hx with (hx | hx) | hx
    · exact hev x hx
    · subst hx; trivial
    · subst hx; exact he
  have hfresh := C10_fresh_session_after_ring_event sk sch (evs ++ [.setSchema sk none]) e hr
  apply C10_unreadable_no_entry sk sch _ hadm sk hfresh
  -- the schema of sk is unreadable in the final state
  have hc1 : (after sk sch (evs ++ [.setSchema sk none])).crashed = false := C10_policy_no_panic sk sch _
  have hstep : after sk sch (evs ++ [.setSchema sk none] ++ [e])
      = polStep (after sk sch (evs ++ [.setSchema sk none])) e := by
    simp [after, polRun, List.foldl_append]
  obtain ⟨s', h1, h2, _, h4⟩ := ringEvent_recompute _ e hc1 hr
  rw [hstep, h1, (recompute_fresh_schema s' h2).2, h4]
  have hc0 : (after sk sch evs).crashed = false := C10_policy_no_panic sk sch evs
  have hstep0 : after sk sch (evs ++ [.setSchema sk none]) = polStep (after sk sch evs) (.setSchema sk none) := by
    simp [after, polRun, List.foldl_append]
  rw [hstep0, polStep_nocrash _ _ hc0]
  simp

/-! ## witnesses: non-vacuity, and the counterexamples of the full property (kernel-checked, replayable) -/

def hA : PHost := ⟨⟨1, 1, 1⟩, 1, [10]⟩
def hB : PHost := ⟨⟨2, 1, 1⟩, 2, [30]⟩
def hC : PHost := ⟨⟨3, 1, 1⟩, 3, [20]⟩

/-- keyspace `k0` is SimpleStrategy rf 2, every other keyspace unreadable -/
def schS2 (k0 : Nat) : Nat → Option Strat := fun k => if k = k0 then some (.simple 2) else none

/-- the seeded family: session keyspace ks0 (SimpleStrategy 2) mapped on ring a=10, b=30; the schema becomes unreadable;
c=20 joins and b leaves -/
def histUnreadable : List PolEvent :=
  [.addHost hA, .addHost hB, .setPartitioner .ordered, .keyspaceChanged 0, .setSchema 0 none, .addHost hC, .removeHost 2]

example : Admissible histUnreadable := by
  intro e he
  simp only [histUnreadable, List.mem_cons, List.mem_nil_iff, or_false] at he
  rcases he with h | h | h | h | h | h | h <;> subst h <;> simp [EvOK, Part.supported]

/-- before the schema became unreadable the entry is there: 15 ↦ [b, a] on ring a=10, b=30 -/
example : polLookup (after 0 (schS2 0) (histUnreadable.take 4)) 0 15 = .hosts [⟨2, 1, 1⟩, ⟨1, 1, 1⟩] := by decide

/-- afterwards: the keyspace is fresh, holds NO entry, and the lookups follow the new ring a=10, c=20 -/
example : 0 ∈ (after 0 (schS2 0) histUnreadable).fresh ∧
    ((after 0 (schS2 0) histUnreadable).replicas 0).isNone = true ∧
    polLookup (after 0 (schS2 0) histUnreadable) 0 15 = .hosts [⟨3, 1, 1⟩] ∧
    polLookup (after 0 (schS2 0) histUnreadable) 0 25 = .hosts [⟨1, 1, 1⟩] ∧
    PlacementPol.Spec.lookup (after 0 (schS2 0) histUnreadable) 0 25 = .hosts [⟨1, 1, 1⟩] := by decide

/-- and once the schema is readable again and the policy is told, the map of the new ring: 15 ↦ [c, a] -/
example : polLookup (after 0 (schS2 0) (histUnreadable ++ [.setSchema 0 (some (.simple 2)), .keyspaceChanged 0])) 0 15
    = .hosts [⟨3, 1, 1⟩, ⟨1, 1, 1⟩] := by decide

/-- KF-C10-4: ks1 (SimpleStrategy 2) is NOT the session keyspace (ks0); its entry is computed by KeyspaceChanged(ks1) on
ring a=10, b=30; then c=20 joins and b leaves -/
def histOtherKs : List PolEvent :=
  [.setPartitioner .ordered, .addHost hA, .addHost hB, .keyspaceChanged 1, .addHost hC, .removeHost 2]

/-- … token 25 of ks1 is still routed to the departed b first, whereas the current ring a=10, c=20 gives [a, c] -/
theorem C10_cex_other_keyspace_stale :
    polLookup (after 0 (schS2 1) histOtherKs) 1 25 = .hosts [⟨2, 1, 1⟩, ⟨1, 1, 1⟩] ∧
    PlacementPol.Spec.lookup (after 0 (schS2 1) histOtherKs) 1 25 = .hosts [⟨1, 1, 1⟩, ⟨3, 1, 1⟩] ∧
    1 ∉ (after 0 (schS2 1) histOtherKs).fresh := by decide

/-- … and the departed host b is named although the policy's host list is [a, c] -/
theorem C10_cex_other_keyspace_departed_host :
    (after 0 (schS2 1) histOtherKs).hosts.map (·.h.id) = [1, 3] ∧
    ((after 0 (schS2 1) histOtherKs).replicas 1).map (·.2) =
      some [(10, [⟨1, 1, 1⟩, ⟨2, 1, 1⟩]), (30, [⟨2, 1, 1⟩, ⟨1, 1, 1⟩])] := by decide

/-- the full property (every entry held = replica map of the current strategy on the current ring) is FALSE for the
code that exists -/
theorem C10_cex_full_property_fails :
    ¬ (∀ (sk : Nat) (sch : Nat → Option Strat) (evs : List PolEvent) (ks : Nat), Admissible evs →
        ((after sk sch evs).replicas ks).isSome = true →
        (after sk sch evs).replicas ks = expected (after sk sch evs) ks) := by
  intro h
  have h1 := h 0 (schS2 1) histOtherKs 1
    (by
      intro e he
      simp only [histOtherKs, List.mem_cons, List.mem_nil_iff, or_false] at he
      rcases he with h | h | h | h | h | h <;> subst h <;> simp [EvOK, Part.supported])
    (by decide)
  revert h1
  decide

/-- KF-C10-4, partitioner variant: the stale entry of ks1 holds tokens of the old partitioner's type; after
SetPartitioner(Murmur3) Pick's `replicasFor` panics in `token.Less` (interface conversion) -/
theorem C10_cex_other_keyspace_type_panic :
    polLookup (after 0 (schS2 1)
      [.setPartitioner .ordered, .addHost hA, .addHost hB, .keyspaceChanged 1, .setPartitioner .murmur]) 1 25
      = .typePanic := by decide

/-- outside `Admissible`: SetPartitioner with an unsupported name AFTER a supported one leaves the old ring in place
(resetTokenRing returns early), so a host added later is not on the ring Pick consults -/
theorem C10_cex_unsupported_partitioner_keeps_ring :
    let s := after 0 (schS2 0) [.setPartitioner .murmur, .addHost hA, .setPartitioner .unknown, .addHost hB]
    s.hosts.map (·.h.id) = [1, 2] ∧ s.ring.map (·.2) = some [(10, ⟨1, 1, 1⟩)] ∧
    polLookup s 0 25 = .hosts [⟨1, 1, 1⟩] ∧ PlacementPol.Spec.lookup s 0 25 = .noring := by decide

end C10
