import Proofs.C14Prepare
import Proofs.C14Key
import Proofs.C14Stmt
import Proofs.C14Conn
import Proofs.C14Obs
import Proofs.C14Live
import Proofs.C14ConnLRU
/-!
# C14 — prepared statements (property theorems; sequential + logical core, and the session tier)

Models: `Model/LRU.lean` (internal/lru/lru.go), `Model/Prepare.lean` (prepared_cache.go, conn.go
prepareStatement / evictPreparedID). "∀ schedule" = every finite list of actions accepted by `step`
(one action = one critical section of the cache mutex, or one flight completion).
-/
namespace C14
open LRU Prepare

/-- **LRU refines a finite map.** For every capacity and every sequence of Add/Get/Remove/RemoveOldest
    from the empty cache: keys are unique and `len ≤ cap` (cap > 0; cap = 0 is unbounded, as coded);
    Get returns the map's value and changes no binding; Remove deletes exactly its key; Add binds its key
    (cap ≥ 0), changes no other binding when the key was present, and otherwise purges nothing or — on a
    full cache — exactly the least recently used entry (the back of the recency list). -/
theorem C14_lru_refines_map {κ α : Type} [DecidableEq κ] (cap : Int) (ops : List (Op κ α)) :
    let c := (LRU.new cap : Cache κ α).run ops
    c.keys.Nodup ∧ c.cap = cap ∧ (0 < cap → (c.len : Int) ≤ cap) ∧
    (∀ k k', (c.get k).1 = c.find k ∧ (c.get k).2.find k' = c.find k') ∧
    (∀ k k', (c.remove k).1 = (c.find k).isSome ∧
             (c.remove k).2.1.find k' = if k' = k then none else c.find k') ∧
    (∀ k v, 0 ≤ cap → (c.add k v).1.find k = some v) ∧
    (∀ k v, (c.find k).isSome → (c.add k v).2 = [] ∧ ∀ k', k' ≠ k → (c.add k v).1.find k' = c.find k') ∧
    (∀ k v, (c.add k v).2 = [] ∨
            (c.find k = none ∧ cap ≠ 0 ∧ (c.len : Int) + 1 > cap ∧
             (c.add k v).2 = (((k, v) :: c.items).getLast?).toList)) := by
  intro c
  have hinv : c.Inv := (run_inv (LRU.new cap : Cache κ α) (inv_new cap) ops).1
  have hcap' : c.cap = cap := (run_inv (LRU.new cap : Cache κ α) (inv_new cap) ops).2
  refine ⟨hinv.1, hcap', fun h => by have := hinv.2 (by omega); omega, fun k k' => get_find c k k',
    fun k k' => remove_find c k k', fun k v h => add_find_same c k v (by omega), fun k v h => add_hit c k v h, ?_⟩
  intro k v
  have := add_evicts_lru c k v
  rw [hcap'] at this
  exact this

/-- non-vacuity / test: capacity 2, the least recently USED (not inserted) key goes -/
example :
    let c := (LRU.new 2 : Cache Nat Nat).run [.add 1 10, .add 2 20, .get 1, .add 3 30]
    c.items = [(3, 30), (1, 10)] := by decide

/-! ## The cache key as a function of (host id, keyspace, statement text)

Property (one cache entry per statement — what "an execution is never sent with an id belonging to a
different statement" needs from the key):

    ∀ h₁ k₁ s₁ h₂ k₂ s₂, keyFor h₁ k₁ s₁ = keyFor h₂ k₂ s₂ → h₁ = h₂ ∧ k₁ = k₂ ∧ s₁ = s₂

`keyFor` is the code after the repair of KF-C14-1 (decimal byte lengths of host id and keyspace, each followed by
'/', then the concatenation): the property holds for ALL byte strings, no excluded class. Nothing is identified:
not whitespace, not letter case, not a trailing semicolon, not unicode normalisation forms, not a moved
host|keyspace or keyspace|text border — the key determines the three byte strings. The plain concatenation the
code used before (`keyForOld`) is kept only in the regression examples at the end of this section. -/

/-- **The cache key is injective.** Two (host id, keyspace, statement text) triples with the same key are the
    same triple — for all byte strings ('/' , digits, NULs inside host ids / keyspaces / texts included). -/
theorem C14_keyFor_injective (h₁ k₁ s₁ h₂ k₂ s₂ : List UInt8)
    (he : keyFor h₁ k₁ s₁ = keyFor h₂ k₂ s₂) : h₁ = h₂ ∧ k₁ = k₂ ∧ s₁ = s₂ :=
  C14Key.keyFor_inj h₁ k₁ s₁ h₂ k₂ s₂ he

/-- the form the older texts cite (one keyspace): host and text are determined — now without any hypothesis on
    the host-id lengths -/
theorem C14_key_injective (h₁ h₂ ks s₁ s₂ : List UInt8)
    (he : keyFor h₁ ks s₁ = keyFor h₂ ks s₂) : h₁ = h₂ ∧ s₁ = s₂ :=
  have ⟨a, _, c⟩ := C14_keyFor_injective h₁ ks s₁ h₂ ks s₂ he
  ⟨a, c⟩

/-- as a statement about triples: `keyOf` is injective -/
theorem C14_keyOf_injective (t₁ t₂ : Triple) (he : keyOf t₁ = keyOf t₂) : t₁ = t₂ := by
  obtain ⟨a, b, c⟩ := C14_keyFor_injective _ _ _ _ _ _ he
  cases t₁; cases t₂; simp_all

/-- **Op `keypair` is spec-backed, for every pair.** The model of the code (`sameKey`: the two keys are equal
    strings) answers exactly as the specification (`sameStmt`: the two triples are the same statement). -/
theorem C14_keypair_spec (t₁ t₂ : Triple) : sameKey t₁ t₂ = sameStmt t₁ t₂ := by
  unfold sameKey sameStmt
  by_cases e : t₁ = t₂
  · subst e; simp
  · have : keyOf t₁ ≠ keyOf t₂ := fun he => e (C14_keyOf_injective t₁ t₂ he)
    simp [e, this]

/-- non-vacuity of the near-collisions the harness generates: whitespace runs, letter case, a trailing
    semicolon, NFC / NFD forms of 'é' and a NUL byte all give different keys; so do a moved keyspace|text border,
    a moved host|keyspace border, and what a join with the separator '/' or with a digit would identify -/
example :
    sameKey ⟨[1], [2], [0x61, 0x20, 0x62]⟩ ⟨[1], [2], [0x61, 0x20, 0x20, 0x62]⟩ = false ∧
    sameKey ⟨[1], [2], [0x61]⟩ ⟨[1], [2], [0x41]⟩ = false ∧
    sameKey ⟨[1], [2], [0x61]⟩ ⟨[1], [2], [0x61, 0x3b]⟩ = false ∧
    sameKey ⟨[1], [2], [0xc3, 0xa9]⟩ ⟨[1], [2], [0x65, 0xcc, 0x81]⟩ = false ∧
    sameKey ⟨[1], [2], [0x61]⟩ ⟨[1], [2], [0x61, 0x00]⟩ = false ∧
    sameKey ⟨[0x68], [0x61], [0x62, 0x58]⟩ ⟨[0x68], [0x61, 0x62], [0x58]⟩ = false ∧
    sameKey ⟨[0x68], [0x61], [0x58]⟩ ⟨[0x68, 0x61], [], [0x58]⟩ = false ∧
    sameKey ⟨[0x68], [0x61], [0x2f, 0x58]⟩ ⟨[0x68], [0x61, 0x2f], [0x58]⟩ = false ∧
    sameKey ⟨[0x31], [0x30, 0x2f], [0x58]⟩ ⟨[0x31, 0x30], [0x2f], [0x58]⟩ = false ∧
    sameKey ⟨[0x68], [0x61], [0x62, 0x58]⟩ ⟨[0x68], [0x61], [0x62, 0x58]⟩ = true := by decide

/-- the key text itself, byte for byte (op `keyfor`): "1/1/habX" and "1/2/habX";
    a 36-byte host id gives the prefix "36/" -/
example : keyFor [0x68] [0x61] [0x62, 0x58] = [0x31, 0x2f, 0x31, 0x2f, 0x68, 0x61, 0x62, 0x58] ∧
    keyFor [0x68] [0x61, 0x62] [0x58] = [0x31, 0x2f, 0x32, 0x2f, 0x68, 0x61, 0x62, 0x58] ∧
    (keyFor (List.replicate 36 0x30) [] []).take 5 = [0x33, 0x36, 0x2f, 0x30, 0x2f] := by decide

/-! ### Regression examples about the OLD key (`keyForOld`: `hostID + keyspace + statement`, KF-C14-1, repaired)

Not part of the model of the code that exists; they record why the plain concatenation had to go, and are the
Lean side of the replay `keypair 68 61 6258 68 6162 58` (answered `same` by an unrepaired tree). -/

/-- every triple with a non-empty keyspace shared its OLD key with a DIFFERENT triple -/
example {α : Type} (h k s : List α) (hk : k ≠ []) :
    keyForOld h k s = keyForOld h [] (k ++ s) ∧ (h, k, s) ≠ (h, [], k ++ s) ∧
    keyForOld h k s = keyForOld (h ++ k) [] s ∧ (h, k, s) ≠ (h ++ k, [], s) :=
  ⟨C14Key.keyForOld_move_ks h k s, fun e => hk (by injection e with _ e; injection e),
   C14Key.keyForOld_move_host h k s, fun e => hk (by injection e with _ e; injection e)⟩

/-- the concrete witness: ("h","a","bX") and ("h","ab","X") shared the OLD key and do not share the key -/
example :
    keyForOld [0x68] [0x61] [0x62, 0x58] = keyForOld [0x68] [0x61, 0x62] [(0x58 : UInt8)] ∧
    keyFor [0x68] [0x61] [0x62, 0x58] ≠ keyFor [0x68] [0x61, 0x62] [0x58] := by decide

/-- with the OLD key an executor of B = ("h","ab","X") was handed the flight published for A = ("h","a","bX")
    (hit on flight 0, one PREPARE in the log) -/
example :
    (run (init 1000 : State (List UInt8)) [.lookup (keyForOld [0x68] [0x61] [0x62, 0x58]), .complete 0 (some [0xAA]),
        .lookup (keyForOld [0x68] [0x61, 0x62] [0x58])]).map
      (fun s => (s.cache.find (keyForOld [0x68] [0x61, 0x62] [0x58]), s.flights.length, outcome s 0)) =
      some (some 0, 1, some (.ok [0xAA])) := by decide

/-- **Single flight.** For every cache size and every schedule: the number of PREPAREs caused for a key
    equals the number of times its entry left the cache (capacity eviction, failure, UNPREPARED) plus
    one if it is cached now. Hence `#PREPARE(k) ≤ 1 + #evictions(k) + #failures(k) + #unprepared(k)`,
    and a key whose entry never left the cache was prepared at most once, however many executors
    looked it up and whenever they did. -/
theorem C14_single_flight {κ : Type} [DecidableEq κ] (cap : Int) (as : List (Action κ)) (s : State κ)
    (h : run (init cap) as = some s) (k : κ) :
    prepares s.log k = removals s.log k + (if k ∈ s.cache.keys then 1 else 0) ∧
    prepares s.log k ≤ 1 + removals s.log k ∧
    (removals s.log k = 0 → prepares s.log k ≤ 1) := by
  obtain ⟨hinv, _, hc, _⟩ := run_good (init cap) s as (good_init cap) h
  have h1 := hc k
  rw [hinv.1.count] at h1
  refine ⟨h1, ?_, ?_⟩ <;> (split at h1 <;> omega)

/-- ten executors of the same statement, any interleaving with the completion: one PREPARE -/
example :
    (run (init 1000 : State Nat) ([.lookup 7, .lookup 7, .lookup 7, .complete 0 (some [1]), .lookup 7, .lookup 7])).map
      (fun s => prepares s.log 7) = some 1 := by decide

/-- **Failures are not cached; no stale or foreign flight.** In every reachable state every cached
    entry (k ↦ f) refers to an existing flight that was created for exactly the key k and has not
    failed — so a lookup after a failed PREPARE misses or finds a different flight, an id handed out
    for k comes from a PREPARE of k — and `evictPreparedID` never dereferences a flight without a
    prepared statement (`crashed = false`). -/
theorem C14_failure_not_cached {κ : Type} [DecidableEq κ] (cap : Int) (as : List (Action κ)) (s : State κ)
    (h : run (init cap) as = some s) :
    (∀ e ∈ s.cache.items, ∃ fl, s.flights[e.2]? = some fl ∧ fl.key = e.1 ∧ fl.status ≠ .failed) ∧
    s.crashed = false := by
  obtain ⟨_, hb, _, hcr⟩ := run_good (init cap) s as (good_init cap) h
  exact ⟨hb, hcr⟩

/-- **Waiters observe the flight's outcome.** Once a flight is done its outcome never changes (a
    completion is accepted only for an in-flight flight), so every waiter of a failed flight reads the
    failure and every waiter of a successful one reads the same id, whenever it looks. -/
theorem C14_outcome_stable {κ : Type} [DecidableEq κ] (s s' : State κ) (a : Action κ) (f : Nat) (st : Status)
    (hs : step s a = some s') (ho : outcome s f = some st) (hd : st ≠ .inflight) :
    outcome s' f = some st := by
  cases a with
  | lookup k =>
    simp only [step] at hs
    cases hget : s.cache.get k with
    | mk o c' =>
      cases o with
      | some g => simp only [hget] at hs; injection hs with hs; subst hs; exact ho
      | none =>
        simp only [hget] at hs; injection hs with hs; subst hs
        unfold outcome at ho ⊢
        cases hf : s.flights[f]? with
        | none => simp [hf] at ho
        | some fl =>
          have hlt : f < s.flights.length := (List.getElem?_eq_some_iff.1 hf).1
          simp only []
          rw [List.getElem?_append_left hlt, ← ho, hf]
  | complete g r =>
    simp only [step] at hs
    cases hfl : s.flights[g]? with
    | none => simp [hfl] at hs
    | some fl =>
      simp only [hfl] at hs
      by_cases hst : fl.status = .inflight
      · have hne : f ≠ g := by
          intro e; subst e
          unfold outcome at ho; rw [hfl] at ho; simp at ho
          exact hd (ho ▸ hst)
        simp only [hst, if_true] at hs
        cases r with
        | some id =>
          injection hs with hs; subst hs
          unfold outcome at ho ⊢; simp only []
          rw [flights_set_other _ _ _ _ hne]; exact ho
        | none =>
          injection hs with hs; subst hs
          unfold outcome at ho ⊢; simp only []
          rw [flights_set_other _ _ _ _ hne]; exact ho
      · simp [hst] at hs
  | unprepared k id =>
    simp only [step] at hs
    cases hget : s.cache.get k with
    | mk o c' =>
      cases o with
      | none => simp only [hget] at hs; injection hs with hs; subst hs; exact ho
      | some g =>
        simp only [hget] at hs
        split at hs
        · split at hs <;> (injection hs with hs; subst hs; exact ho)
        · injection hs with hs; subst hs; exact ho
        · injection hs with hs; subst hs; exact ho

/-- **Re-prepare.** An UNPREPARED answer carrying the cached id evicts the entry (so the retry's lookup
    misses, see `C14_miss_prepares`); with a different id the entry is kept. -/
theorem C14_reprepare {κ : Type} [DecidableEq κ] (s : State κ) (k : κ) (f : Nat) (id id' : List UInt8)
    (hf : s.cache.find k = some f) (ho : outcome s f = some (.ok id)) :
    (∃ s', step s (.unprepared k id) = some s' ∧ s'.cache.find k = none) ∧
    (id' ≠ id → ∃ s', step s (.unprepared k id') = some s' ∧ s'.cache.find k = some f) := by
  have hget : s.cache.get k = (some f, { s.cache with items := (k, f) :: without k s.cache.items }) := by
    simp [Cache.get, hf]
  have hst : (s.flights[f]?).map (·.status) = some (Status.ok id) := ho
  constructor
  · refine ⟨_, by simp only [step, hget, hst, if_true]; rfl, ?_⟩
    simp only []
    exact ((remove_find _ k k).2).trans (by simp)
  · intro hne
    refine ⟨_, by simp only [step, hget, hst, hne, if_false]; rfl, ?_⟩
    simp only []
    exact lfind_cons_same k f _

/-- a lookup that misses publishes a new flight, i.e. causes exactly one more PREPARE for that key -/
theorem C14_miss_prepares {κ : Type} [DecidableEq κ] (s : State κ) (k : κ) (hf : s.cache.find k = none) :
    ∃ s', step s (.lookup k) = some s' ∧ prepares s'.log k = prepares s.log k + 1 ∧
          s'.flights.length = s.flights.length + 1 ∧ outcome s' s.flights.length = some .inflight := by
  have hget : s.cache.get k = (none, s.cache) := by simp [Cache.get, hf]
  refine ⟨_, by simp only [step, hget]; rfl, ?_, by simp, by simp [outcome]⟩
  simp [prepares, List.countP_append, cntI_evicted, Event.isInsert]

/-- UNPREPARED → evict → retry prepares again and gets the new id: a concrete schedule -/
example :
    (run (init 10 : State Nat) [.lookup 1, .complete 0 (some [0xAA]), .lookup 1, .unprepared 1 [0xAA],
                                .lookup 1, .complete 1 (some [0xBB]), .lookup 1]).map
      (fun s => (prepares s.log 1, s.cache.find 1, outcome s 1)) = some (2, some 1, some (.ok [0xBB])) := by decide

/-- a failed PREPARE is not remembered: the next lookup prepares again -/
example :
    (run (init 10 : State Nat) [.lookup 1, .lookup 1, .complete 0 none, .lookup 1]).map
      (fun s => (prepares s.log 1, s.cache.find 1, outcome s 0)) = some (2, some 1, some .failed) := by decide

/-! ## Statement level: whose text was PREPAREd for the flight an executor is handed

Property ("an execution is never sent with an id/metadata belonging to a different statement"), for every cache
size and every schedule of lookups / completions / UNPREPARED answers over ARBITRARY triples:

    trun (tinit cap) as = some x → x.flightOf t = some f → x.sent[f]? = some t

i.e. the flight that `execIfMissing` hands to an executor of (host, keyspace, text) t was published for, and its
goroutine PREPAREd, exactly t. Key equality ⇒ statement identity comes from `C14_keyOf_injective` (the repaired
key), not from a hypothesis. -/

/-- **Ids belong to the statement.** In every reachable state, for every triple t: the flight cached under the key
    of t was published by a lookup of t itself, and it is t's text that the flight's goroutine PREPAREd. -/
theorem C14_id_belongs_stmt (cap : Int) (as : List TAction) (x : TState)
    (h : trun (tinit cap) as = some x) (t : Triple) (f : Nat) (hf : x.flightOf t = some f) :
    x.sent[f]? = some t := by
  have hI := C14Stmt.trun_inv as (tinit cap) x (C14Stmt.tinv_init cap) h
  have hr := C14Stmt.trun_run as (tinit cap) x h
  obtain ⟨_, hb, _, _⟩ := run_good (init cap) x.s _ (good_init cap) hr
  obtain ⟨fl, h1, h2, _⟩ := hb _ (find_some_mem x.s.cache (keyOf t) f hf)
  obtain ⟨t', h3, h4⟩ := hI.2 f fl h1
  rw [h3, C14_keyOf_injective t' t (h4.trans h2)]

/-- the pair that collided before the repair: A = ("h","a","bX") is executed and PREPAREd (id 0xAA); an executor
    of B = ("h","ab","X") now MISSES, publishes its own flight 1 and its own text is PREPAREd -/
example :
    let A : Triple := ⟨[0x68], [0x61], [0x62, 0x58]⟩
    let B : Triple := ⟨[0x68], [0x61, 0x62], [0x58]⟩
    (trun (tinit 1000) [.lookup A, .complete 0 (some [0xAA]), .lookup B]).map
      (fun x => (x.flightOf A, x.flightOf B, x.sent, outcome x.s 1, prepares x.s.log (keyOf B))) =
      some (some 0, some 1, [A, B], some .inflight, 1) := by decide

/-- non-vacuity: near-colliding texts (one space / two spaces inside a literal) get their own flights and texts -/
example :
    let A : Triple := ⟨[1], [2], [0x27, 0x61, 0x20, 0x62, 0x27]⟩
    let B : Triple := ⟨[1], [2], [0x27, 0x61, 0x20, 0x20, 0x62, 0x27]⟩
    (trun (tinit 1000) [.lookup A, .complete 0 (some [0xAA]), .lookup B, .complete 1 (some [0xBB]), .lookup A]).map
      (fun x => (x.flightOf A, x.flightOf B, x.sent)) = some (some 0, some 1, [A, B]) := by decide

/-! ## Session tier: executions on real connections (`PConn`), for every schedule

`PConn` (Model/Prepare.lean): any number of callers (queries and batches), the flights' goroutines, the
scripted server (any answers), capacity evictions at any time. A schedule is any list of actions accepted by
`PConn.step`; its trace is the list of observable events (`Ev`). `Obs` is the observable-level
specification that also judges the histories recorded on real Sessions (op `trace`). -/
section Conn
open PConn Obs C14Conn C14Obs C14Live
variable {κ : Type} [DecidableEq κ] {b : Bool}

/-- **Every schedule is accepted by the specification** — in particular no schedule contains a `crash`
    (nil dereference in evictPreparedID) and every enabledness condition of `Obs` (the clauses below) holds
    at every event of every schedule. -/
theorem C14_conn_refines (as : List (PConn.Action κ)) (s : PConn.State κ) (tr : List (Ev κ))
    (h : PConn.run (PConn.initB b) as = some (s, tr)) : ∃ o, Obs.run (Obs.initB b) tr = some o := by
  obtain ⟨o, h1, _, _⟩ := reachable h
  exact ⟨o, h1⟩

/-- state of the specification just before an event of a schedule's trace -/
theorem before_event {as : List (PConn.Action κ)} {s : PConn.State κ} {pre post : List (Ev κ)} {e : Ev κ}
    (h : PConn.run (PConn.initB b) as = some (s, pre ++ e :: post)) :
    ∃ o1 o2, Obs.run (Obs.initB b) pre = some o1 ∧ Hist pre o1 ∧ Obs.step o1 e = some o2 := by
  obtain ⟨o, ho⟩ := C14_conn_refines as s _ h
  obtain ⟨o1, o2, h1, h2⟩ := run_split (Obs.initB b) pre e post o ho
  have hH := hist_run pre [] (Obs.initB b) o1 (hist_init b) h1
  exact ⟨o1, o2, h1, by simpa using hH, h2⟩

/-- **Ids belong to the statement (and are not superseded).** Whenever, in any schedule, the server receives
    an EXECUTE / BATCH frame of call c: the call was started with entries `es`, the frame carries one id per
    entry, and the j-th id was returned by the server for a PREPARE of exactly the j-th entry's key (host,
    keyspace, statement), with as many bind columns as that entry has bound values (`e.2`), by a flight that
    had not left the cache when the call started / sent its previous frame. -/
theorem C14_id_belongs (as : List (PConn.Action κ)) (s : PConn.State κ) (pre post : List (Ev κ)) (c : Nat) (ids : List Id) (a : XAns)
    (h : PConn.run (PConn.initB b) as = some (s, pre ++ Ev.exec c ids a :: post)) :
    ∃ b es, Ev.start c b es ∈ pre ∧ ids.length = es.length ∧
      ∀ (j : Nat) (e : κ × Nat) (id : Id), es[j]? = some e → ids[j]? = some id →
        ∃ f, Ev.prep f e.1 (some (id, e.2)) ∈ pre ∧ removedBefore pre c f = false := by
  obtain ⟨o1, o2, _, hH, hs⟩ := before_event h
  simp only [Obs.step] at hs
  cases hc : o1.callers[c]? with
  | none => simp [hc] at hs
  | some cl =>
    simp only [hc] at hs
    -- a frame of a running call, or the one frame a call that gave up on its context had already written
    have hk : okEntries o1 cl.banned cl.entries ids = true := by
      by_cases hk1 : cl.pc.live = true ∧ okEntries o1 cl.banned cl.entries ids = true
      · exact hk1.2
      · rw [if_neg hk1] at hs
        by_cases hk2 : cl.pc = .abandoned true ∧ okEntries o1 cl.banned cl.entries ids = true
        · exact hk2.2
        · rw [if_neg hk2] at hs; cases hs
    obtain ⟨b, hb⟩ := hH.start c cl hc
    obtain ⟨hl, hall⟩ := okEntries_sound hH cl.banned cl.entries ids hk
    refine ⟨b, cl.entries, hb, hl, ?_⟩
    intro j e id he hid
    obtain ⟨f, h1, h2⟩ := hall j e id he hid
    refine ⟨f, h1, ?_⟩
    unfold removedBefore
    rw [← hH.ban c cl hc]; exact h2

/-- **An id and the bind metadata used with it are one token, injectively.** `PConn.token id sig` (one length
    byte, the id, the value widths) determines both the prepared id and the widths, for ids shorter than 256 bytes:
    so "the frame's token was returned by a PREPARE of that statement" (`C14_id_belongs`, `C14_metadata_belongs`)
    says that BOTH the id and the metadata the values were encoded with are that PREPARE's. -/
theorem C14_token_injective (i₁ s₁ i₂ s₂ : List UInt8) (h₁ : i₁.length < 256) (h₂ : i₂.length < 256)
    (h : PConn.token i₁ s₁ = PConn.token i₂ s₂) : i₁ = i₂ ∧ s₁ = s₂ := by
  unfold PConn.token at h
  injection h with hl ha
  have hn : i₁.length = i₂.length := by
    have := congrArg UInt8.toNat hl
    simp [UInt8.toNat_ofNat'] at this
    omega
  exact List.append_inj ha hn

/-- the two fields can be read back from a token -/
theorem C14_untoken_token (i s : List UInt8) (h : i.length < 256) : PConn.untoken (PConn.token i s) = (i, s) := by
  unfold PConn.token PConn.untoken
  have : (UInt8.ofNat i.length).toNat = i.length := by simp [UInt8.toNat_ofNat']; omega
  simp [this]

/-- **Bind metadata belongs to the statement.** Whenever, in any schedule, the server receives a frame of call c
    whose j-th prepared entry carries the id `id` with values encoded to the widths `sig`: a PREPARE of exactly
    the j-th entry's key (host, keyspace, statement) was answered with that very id AND column types of those very
    widths (and as many columns as the entry has bound values), by a flight that had not left the cache when the
    call started / sent its previous frame - and any PREPARE answer (id', sig') that yields the same token is that
    answer. So values are never encoded with the metadata of another statement's, host's or keyspace's PREPARE, nor
    with the metadata of a superseded PREPARE of the same statement. -/
theorem C14_metadata_belongs (as : List (PConn.Action κ)) (s : PConn.State κ) (pre post : List (Ev κ)) (c : Nat) (ids : List Id) (a : XAns)
    (h : PConn.run (PConn.initB b) as = some (s, pre ++ Ev.exec c ids a :: post)) :
    ∃ b es, Ev.start c b es ∈ pre ∧ ids.length = es.length ∧
      ∀ (j : Nat) (e : κ × Nat) (id sig : List UInt8), es[j]? = some e → ids[j]? = some (PConn.token id sig) → id.length < 256 →
        ∃ f, Ev.prep f e.1 (some (PConn.token id sig, e.2)) ∈ pre ∧ removedBefore pre c f = false ∧
          ∀ id' sig', id'.length < 256 → PConn.token id' sig' = PConn.token id sig → id' = id ∧ sig' = sig := by
  obtain ⟨b', es, h1, h2, h3⟩ := C14_id_belongs as s pre post c ids a h
  refine ⟨b', es, h1, h2, ?_⟩
  intro j e id sig he hid hlen
  obtain ⟨f, hf, hr⟩ := h3 j e _ he hid
  exact ⟨f, hf, hr, fun id' sig' hl' ht => C14_token_injective id' sig' id sig hl' hlen ht⟩

/-- non-vacuity: the PREPARE of statement 7 answers id [1] with one int column (width 4); an EXECUTE that carries
    id [1] and a 4-byte value is accepted, one whose value was encoded to 8 bytes (the metadata of some other
    PREPARE) is rejected, and so is the id of another statement with the right width -/
example : (Obs.run (Obs.init : OState Nat) [.start 0 false [(7, 1)], .prep 0 7 (some (PConn.token [1] [4], 1)),
    .exec 0 [PConn.token [1] [4]] .ok, .ret 0 .ok]).isSome = true := by decide
example : (Obs.run (Obs.init : OState Nat) [.start 0 false [(7, 1)], .prep 0 7 (some (PConn.token [1] [4], 1)),
    .exec 0 [PConn.token [1] [8]] .ok]).isNone = true := by decide
example : (Obs.run (Obs.init : OState Nat) [.start 0 false [(7, 1)], .start 1 false [(8, 1)], .prep 0 7 (some (PConn.token [1] [4], 1)),
    .prep 1 8 (some (PConn.token [2] [4], 1)), .exec 0 [PConn.token [2] [4]] .ok]).isNone = true := by decide

/-! ### several hosts: one Query value executed on more than one host

The cache key is (host, keyspace, statement): with `κ = η × σ` (host × statement-in-keyspace) the machine above IS the
multi-host machine - every call runs on the host its entries name, `prep f (h, st) r` is a PREPARE that HOST h received.
One `Query` value whose executions go to different hosts (the pages of a paged iteration, the attempts of a
RetryNextHost policy, speculative attempts) is several calls of this machine, one per execution, each on its own host:
nothing the driver keeps on the Query value itself may stand in for the host-keyed cache. -/

/-- **Ids belong to the HOST that receives them.** Whenever, in any schedule over hosts η, host `hst` receives an
    EXECUTE / BATCH of a call: every id in it was returned, for exactly that statement, by a PREPARE that THIS host
    received (and that had not left the cache when the call started / sent its previous frame) - never by a PREPARE
    another host answered, whatever else executes the same statement text elsewhere at the same time. -/
theorem C14_id_belongs_host {η σ : Type} [DecidableEq η] [DecidableEq σ]
    (as : List (PConn.Action (η × σ))) (s : PConn.State (η × σ)) (pre post : List (Ev (η × σ))) (c : Nat) (ids : List Id) (a : XAns)
    (h : PConn.run (PConn.initB b) as = some (s, pre ++ Ev.exec c ids a :: post)) :
    ∃ bt es, Ev.start c bt es ∈ pre ∧ ids.length = es.length ∧
      ∀ (j : Nat) (hst : η) (st : σ) (n : Nat) (id : Id), es[j]? = some ((hst, st), n) → ids[j]? = some id →
        ∃ f, Ev.prep f (hst, st) (some (id, n)) ∈ pre ∧ removedBefore pre c f = false := by
  obtain ⟨bt, es, h1, h2, h3⟩ := C14_id_belongs as s pre post c ids a h
  exact ⟨bt, es, h1, h2, fun j hst st n id he hid => h3 j ((hst, st), n) id he hid⟩

/-- ... so, when no two hosts ever issue the same id (every real cluster: ids are digests over host-local state at best;
    the scripted hosts: by construction), an id that reaches host `hst` in a frame is an id that ONLY `hst` has issued:
    every PREPARE answer anywhere in the history that carries it was received by `hst`. An execution on a second host
    with what the Query learnt on the first is therefore not a behaviour of the machine. -/
theorem C14_no_foreign_host_id {η σ : Type} [DecidableEq η] [DecidableEq σ]
    (as : List (PConn.Action (η × σ))) (s : PConn.State (η × σ)) (pre post : List (Ev (η × σ))) (c : Nat) (ids : List Id) (a : XAns)
    (h : PConn.run (PConn.initB b) as = some (s, pre ++ Ev.exec c ids a :: post))
    (hdis : ∀ f f' h₁ h₂ st₁ st₂ id n₁ n₂, Ev.prep f (h₁, st₁) (some (id, n₁)) ∈ pre → Ev.prep f' (h₂, st₂) (some (id, n₂)) ∈ pre → h₁ = h₂) :
    ∃ bt es, Ev.start c bt es ∈ pre ∧
      ∀ (j : Nat) (hst : η) (st : σ) (n : Nat) (id : Id), es[j]? = some ((hst, st), n) → ids[j]? = some id →
        ∀ f' h' st' n', Ev.prep f' (h', st') (some (id, n')) ∈ pre → h' = hst := by
  obtain ⟨bt, es, h1, _, h3⟩ := C14_id_belongs_host as s pre post c ids a h
  refine ⟨bt, es, h1, ?_⟩
  intro j hst st n id he hid f' h' st' n' hp
  obtain ⟨f, hf, _⟩ := h3 j hst st n id he hid
  exact hdis f' f h' hst st' st id n' n hp hf

/-- non-vacuity (hosts 0 and 1, statement 7): the first page of a Query is executed on host 0 (PREPARE there: id [1]), the
    second on host 1 - accepted when host 1 is sent its own PREPARE and the EXECUTE carries the id host 1 issued ([2]);
    rejected when the EXECUTE to host 1 carries host 0's id (what a Query that remembers its prepared statement sends),
    even if host 1 has meanwhile prepared the statement for somebody else -/
example : (Obs.run (Obs.init : OState (Nat × Nat)) [.start 0 false [((0, 7), 1)], .prep 0 (0, 7) (some ([1], 1)), .exec 0 [[1]] .ok, .ret 0 .ok,
    .start 1 false [((1, 7), 1)], .prep 1 (1, 7) (some ([2], 1)), .exec 1 [[2]] .ok, .ret 1 .ok]).isSome = true := by decide
example : (Obs.run (Obs.init : OState (Nat × Nat)) [.start 0 false [((0, 7), 1)], .prep 0 (0, 7) (some ([1], 1)), .exec 0 [[1]] .ok, .ret 0 .ok,
    .start 1 false [((1, 7), 1)], .exec 1 [[1]] (.unprep [1])]).isNone = true := by decide
example : (Obs.run (Obs.init : OState (Nat × Nat)) [.start 0 false [((0, 7), 1)], .prep 0 (0, 7) (some ([1], 1)), .start 1 false [((1, 7), 1)],
    .prep 1 (1, 7) (some ([2], 1)), .exec 0 [[1]] .ok, .ret 0 .ok, .start 2 false [((1, 7), 1)], .exec 2 [[1]] .ok]).isNone = true := by decide

/-- **Single flight on connections.** In every schedule and at every point of it, the number of PREPAREs the
    server has received for a key is at most one more than the number of times an entry of that key left the
    cache (capacity eviction, failed PREPARE, UNPREPARED): with no removal, one PREPARE however many
    executors there are. -/
theorem C14_single_flight_conn (as : List (PConn.Action κ)) (s : PConn.State κ) (pre post : List (Ev κ))
    (h : PConn.run (PConn.initB b) as = some (s, pre ++ post)) (k : κ) :
    prepCount k pre ≤ rmCount k pre + 1 := by
  have key : ∀ o1, Obs.run (Obs.initB b) pre = some o1 → prepCount k pre ≤ rmCount k pre + 1 := by
    intro o1 h1
    have hH := hist_run pre [] (Obs.initB b) o1 (hist_init b) h1
    have := (show Hist pre o1 by simpa using hH).credit k
    omega
  cases post with
  | nil =>
    obtain ⟨o, ho⟩ := C14_conn_refines as s _ h
    exact key o (by simpa using ho)
  | cons e post =>
    obtain ⟨o1, _, h1, _, _⟩ := before_event h
    exact key o1 h1

/-- **A failed PREPARE is reported, not remembered.** Whenever a call returns the failure of PREPARE f: f is
    a PREPARE of a statement of that call which the server answered with an error; the entry had already left
    the cache when the failure was reported (a failed flight is never published as done); and it had not yet
    left the cache when the call started / sent its previous frame (the failure is never served to an
    execution that began after it was known). -/
theorem C14_failure_not_cached_conn (as : List (PConn.Action κ)) (s : PConn.State κ) (pre post : List (Ev κ)) (c f : Nat)
    (h : PConn.run (PConn.initB b) as = some (s, pre ++ Ev.ret c (.prepErr f) :: post)) :
    ∃ k b es, Ev.start c b es ∈ pre ∧ hasKey es k = true ∧ Ev.prep f k none ∈ pre ∧ Ev.rm k f ∈ pre ∧
      removedBefore pre c f = false := by
  obtain ⟨o1, o2, _, hH, hs⟩ := before_event h
  simp only [Obs.step] at hs
  cases hc : o1.callers[c]? with
  | none => simp [hc] at hs
  | some cl =>
    simp only [hc] at hs
    by_cases hp : cl.pc.live = true ∧ cl.banned f = false
    · rw [if_pos hp] at hs
      cases hf : o1.flights f with
      | none => simp [hf] at hs
      | some fl =>
        simp only [hf] at hs
        by_cases hq : hasKey cl.entries fl.key = true ∧ fl.ans = some none ∧ fl.removed = true
        · obtain ⟨b, hb⟩ := hH.start c cl hc
          refine ⟨fl.key, b, cl.entries, hb, hq.1, hH.prep f fl none hf hq.2.1, hH.rm f fl hf hq.2.2, ?_⟩
          unfold removedBefore
          rw [← hH.ban c cl hc]; exact hp.2
        · rw [if_neg hq] at hs; cases hs
    · rw [if_neg hp] at hs; cases hs

/-- … hence: once the failure of PREPARE f has been reported to somebody, no execution that starts later is
    ever given that failure — the next execution prepares again. -/
theorem C14_failure_not_served_later (as : List (PConn.Action κ)) (s : PConn.State κ) (p1 p2 post : List (Ev κ)) (c c' f : Nat)
    (b : Bool) (es : List (κ × Nat))
    (h : PConn.run (PConn.initB b) as = some (s, p1 ++ Ev.start c b es :: (p2 ++ Ev.ret c (.prepErr f) :: post))) :
    Ev.ret c' (.prepErr f) ∉ p1 := by
  intro hmem
  -- the earlier report: f had left the cache before it
  obtain ⟨q1, q2, hq⟩ := List.append_of_mem hmem
  have h1 : PConn.run (PConn.initB b) as = some (s, q1 ++ Ev.ret c' (.prepErr f) :: (q2 ++ Ev.start c b es :: (p2 ++ Ev.ret c (.prepErr f) :: post))) := by
    rw [h, hq]; simp
  obtain ⟨k, _, _, _, _, _, hrm, _⟩ := C14_failure_not_cached_conn as s _ _ c' f h1
  have hrm1 : Ev.rm k f ∈ p1 := by rw [hq]; exact List.mem_append_left _ hrm
  -- the later report
  have h2 : PConn.run (PConn.initB b) as = some (s, (p1 ++ Ev.start c b es :: p2) ++ Ev.ret c (.prepErr f) :: post) := by
    rw [h]; simp
  obtain ⟨_, _, _, _, _, _, _, hnb⟩ := C14_failure_not_cached_conn as s _ _ c f h2
  rw [removedBefore_of_rm_before_start p1 p2 c f k b es hrm1] at hnb
  cases hnb

/-- **Value count.** A call returns the value-count error only if one of its entries has a different number
    of bound values than the bind columns of a PREPARE answer for that entry's statement … -/
theorem C14_value_count (as : List (PConn.Action κ)) (s : PConn.State κ) (pre post : List (Ev κ)) (c : Nat)
    (h : PConn.run (PConn.initB b) as = some (s, pre ++ Ev.ret c .countErr :: post)) :
    ∃ b es e f id nc, Ev.start c b es ∈ pre ∧ e ∈ es ∧ Ev.prep f e.1 (some (id, nc)) ∈ pre ∧ nc ≠ e.2 := by
  obtain ⟨o1, o2, _, hH, hs⟩ := before_event h
  simp only [Obs.step] at hs
  cases hc : o1.callers[c]? with
  | none => simp [hc] at hs
  | some cl =>
    simp only [hc] at hs
    by_cases hp : cl.pc.live = true ∧ countMismatch o1 cl = true
    · obtain ⟨b, hb⟩ := hH.start c cl hc
      have hm := hp.2
      unfold countMismatch at hm
      obtain ⟨e, he, hm⟩ := List.any_eq_true.1 hm
      obtain ⟨f, _, hm⟩ := List.any_eq_true.1 hm
      simp only [Bool.and_eq_true, Bool.not_eq_true'] at hm
      cases hf : o1.flights f with
      | none => simp [hf] at hm
      | some fl =>
        simp only [hf, Bool.and_eq_true, decide_eq_true_eq] at hm
        obtain ⟨_, hk, hans⟩ := hm
        cases ha : fl.ans with
        | none => simp [ha] at hans
        | some r =>
          cases r with
          | none => simp [ha] at hans
          | some p =>
            obtain ⟨id, nc⟩ := p
            simp only [ha, decide_eq_true_eq] at hans
            have := hH.prep f fl _ hf ha
            rw [hk] at this
            exact ⟨b, cl.entries, e, f, id, nc, hb, he, this, hans⟩
    · rw [if_neg hp] at hs; cases hs

/-- … and conversely a waiter whose entry has the wrong number of bound values returns that error and sends
    nothing (the step emits the return and no frame); together with `C14_id_belongs` (every frame's entries
    have exactly as many values as bind columns) and `C14_nothing_after_return`. -/
theorem C14_value_count_step (s : PConn.State κ) (c f : Nat) (cl : Caller κ) (fl : PConn.Flight κ) (e : κ × Nat) (id : Id) (nc : Nat) (a : XAns)
    (hc : s.callers[c]? = some cl) (hpc : cl.pc = .waiting f) (hf : s.flights[f]? = some fl)
    (he : cl.entries[cl.got.length]? = some e) (hd : fl.done = true) (ha : fl.ans = some (some (id, nc))) (hne : e.2 ≠ nc) :
    ∃ s', PConn.step s (.observe c a) = some (s', [Ev.ret c .countErr]) := by
  simp only [PConn.step, hc, hpc, hf, he, hd, ha, if_true]
  rw [if_pos hne]
  exact ⟨_, rfl⟩

/-- the specification's state after the rest of an accepted trace -/
theorem rest_run (pre : List (Ev κ)) (e : Ev κ) (post : List (Ev κ)) (oa ob oc od : OState κ)
    (hab : Obs.run oa pre = some ob) (hac : Obs.run oa (pre ++ e :: post) = some oc) (hbd : Obs.step ob e = some od) :
    Obs.run od post = some oc := by
  induction pre generalizing oa with
  | nil =>
    simp only [Obs.run] at hab; injection hab with hab; subst hab
    simp only [List.nil_append, Obs.run, hbd] at hac
    exact hac
  | cons x xs ih =>
    simp only [Obs.run, List.cons_append] at hab hac
    cases hs : Obs.step oa x with
    | none => simp [hs] at hab
    | some o' =>
      simp only [hs] at hab hac
      exact ih o' hab hac

/-- the record of call c right after it returned -/
theorem after_return {o1 o2 : OState κ} {c : Nat} {out : Outcome} (h2 : Obs.step o1 (Ev.ret c out) = some o2) :
    ∃ cl, o2.callers[c]? = some cl ∧ cl.pc.running = false ∧ (out ≠ .ctxErr → cl.pc ≠ .abandoned true) := by
  simp only [Obs.step] at h2
  cases hc : o1.callers[c]? with
  | none => simp [hc] at h2
  | some cl =>
    have hlt : c < o1.callers.length := (List.getElem?_eq_some_iff.1 hc).1
    have hset : ∀ pc, (setPc o1 c cl pc).callers[c]? = some { cl with pc := pc } := by
      intro pc; unfold setPc; simp [hlt]
    simp only [hc] at h2
    cases out with
    | ok =>
      simp only [] at h2
      split at h2
      · injection h2 with h2; subst h2; exact ⟨_, hset _, rfl, fun _ => by simp⟩
      · cases h2
    | execErr =>
      simp only [] at h2
      split at h2
      · injection h2 with h2; subst h2; exact ⟨_, hset _, rfl, fun _ => by simp⟩
      · cases h2
    | prepErr f =>
      simp only [] at h2
      split at h2
      · split at h2
        · split at h2
          · injection h2 with h2; subst h2; exact ⟨_, hset _, rfl, fun _ => by simp⟩
          · cases h2
        · cases h2
      · cases h2
    | countErr =>
      simp only [] at h2
      split at h2
      · injection h2 with h2; subst h2; exact ⟨_, hset _, rfl, fun _ => by simp⟩
      · cases h2
    | ctxErr =>
      simp only [] at h2
      split at h2
      · injection h2 with h2; subst h2; exact ⟨_, hset _, rfl, fun h => absurd rfl h⟩
      · cases h2

/-- **A call that returned sends nothing more**: no second result ever; no frame — except that a call which
    returned its CONTEXT error may have written one frame just before its context fired, which then reaches the
    server after the return (`C14_late_frame_once`: at most one). -/
theorem C14_nothing_after_return (as : List (PConn.Action κ)) (s : PConn.State κ) (pre post : List (Ev κ)) (c : Nat) (out : Outcome)
    (h : PConn.run (PConn.initB b) as = some (s, pre ++ Ev.ret c out :: post)) :
    ∀ e ∈ post, (∀ out', e ≠ Ev.ret c out') ∧ (out ≠ .ctxErr → ∀ ids a, e ≠ Ev.exec c ids a) := by
  obtain ⟨o, ho⟩ := C14_conn_refines as s _ h
  obtain ⟨o1, o2, h1, h2⟩ := run_split (Obs.initB b) pre (Ev.ret c out) post o ho
  have hrest : Obs.run o2 post = some o := rest_run pre _ post (Obs.initB b) o1 o o2 h1 ho h2
  obtain ⟨cl, g1, g2, g3⟩ := after_return h2
  intro e he
  have := finished_stays c post o2 o cl hrest g1 g2 e he
  exact ⟨this.1, fun hne => this.2 (g3 hne)⟩

/-- after a call returned (whatever it returned) the server receives at most ONE more frame of it -/
theorem C14_late_frame_once (as : List (PConn.Action κ)) (s : PConn.State κ) (pre p1 p2 : List (Ev κ)) (c : Nat) (out : Outcome)
    (ids : List Id) (a : XAns)
    (h : PConn.run (PConn.initB b) as = some (s, pre ++ Ev.ret c out :: (p1 ++ Ev.exec c ids a :: p2))) :
    ∀ e ∈ p2, ∀ ids' a', e ≠ Ev.exec c ids' a' := by
  obtain ⟨o, ho⟩ := C14_conn_refines as s _ h
  obtain ⟨o1, o2, h1, h2⟩ := run_split (Obs.initB b) pre (Ev.ret c out) _ o ho
  have hrest := rest_run pre _ _ (Obs.initB b) o1 o o2 h1 ho h2
  obtain ⟨cl, g1, g2, _⟩ := after_return h2
  exact late_frame_once c _ o2 o cl hrest g1 g2 p1 p2 ids a rfl

/-- **A context error is returned only to a call whose own context is done**: whenever a call returns
    `context.Canceled` / `DeadlineExceeded`, that call was started and ITS context had become done before —
    never because of some other caller's context (the PREPARE runs on the connection's context). -/
theorem C14_ctx_error_only_if_cancelled (as : List (PConn.Action κ)) (s : PConn.State κ) (pre post : List (Ev κ)) (c : Nat)
    (h : PConn.run (PConn.initB b) as = some (s, pre ++ Ev.ret c .ctxErr :: post)) :
    Ev.cancel c ∈ pre ∧ ∃ b es, Ev.start c b es ∈ pre := by
  obtain ⟨o1, o2, _, hH, hs⟩ := before_event h
  simp only [Obs.step] at hs
  cases hc : o1.callers[c]? with
  | none => simp [hc] at hs
  | some cl =>
    simp only [hc] at hs
    by_cases hp : o1.cancelled c = true ∧ cl.pc.running = true
    · obtain ⟨b, hb⟩ := hH.start c cl hc
      exact ⟨hH.canc c hp.1, b, cl.entries, hb⟩
    · rw [if_neg hp] at hs; cases hs

/-- **No schedule crashes** (the nil dereference in evictPreparedID is unreachable). -/
theorem C14_no_crash (as : List (PConn.Action κ)) (s : PConn.State κ) (tr : List (Ev κ))
    (h : PConn.run (PConn.initB b) as = some (s, tr)) : Ev.crash ∉ tr := by
  intro hmem
  obtain ⟨q1, q2, hq⟩ := List.append_of_mem hmem
  rw [hq] at h
  obtain ⟨o1, o2, _, _, hs⟩ := before_event h
  simp [Obs.step] at hs

/-- **No execution is ever stuck, with caller contexts** (what makes a `hang` — watchdog expiry with every frame
    answered and a goroutine blocked inside gocql — a violation): in every reachable state of every schedule —
    cancellations of any callers at any points included — for every call that has not returned, the driver's next
    action of that call is enabled (lookup; start the goroutine of the flight it published; observe the finished
    flight; act on the answer to its frame), or it waits for a flight whose own next action is enabled: the
    publishing caller g starting the flight's goroutine, the server's answer to the PREPARE, the completion by the
    flight's goroutine. Whether the caller's own context is done plays no role. -/
theorem C14_no_caller_stuck (as : List (PConn.Action κ)) (s : PConn.State κ) (tr : List (Ev κ))
    (h : PConn.run (PConn.initB b) as = some (s, tr)) (c : Nat) (cl : Caller κ) (hc : s.callers[c]? = some cl)
    (hp : cl.pc ≠ .returned ∧ cl.pc ≠ .abandoned ∧ cl.pc ≠ .lagging) :
    ∃ a, (PConn.step s a).isSome = true ∧
      (a = .lookup c ∨ a = .spawn c ∨ a = .observe c .ok ∨ a = .finish c ∨
        ∃ f, cl.pc = .waiting f ∧ ((∃ g, a = .spawn g) ∨ a = .srvPrepare f none ∨ a = .complete f)) := by
  obtain ⟨_, _, hI, _⟩ := reachable h
  have hok := hI.callers c cl hc
  have hpcs := hok.pcs
  cases hpc : cl.pc with
  | returned => exact absurd hpc hp.1
  | abandoned => exact absurd hpc hp.2.1
  | lagging => exact absurd hpc hp.2.2
  | start =>
    rw [hpc] at hpcs
    have hlt := hpcs.1
    refine ⟨.lookup c, ?_, Or.inl rfl⟩
    have he : cl.entries[cl.got.length]? = some cl.entries[cl.got.length] := by simp [hlt]
    simp only [PConn.step, hc, hpc, if_true, he]
    cases s.cache (cl.entries[cl.got.length]).1 <;> rfl
  | won f =>
    rw [hpc] at hpcs
    obtain ⟨_, _, fl, e, hf, _, _, _⟩ := hpcs
    refine ⟨.spawn c, ?_, Or.inr (Or.inl rfl)⟩
    simp [PConn.step, hc, hpc, hf]
  | answered a =>
    refine ⟨.finish c, ?_, Or.inr (Or.inr (Or.inr (Or.inl rfl)))⟩
    simp only [PConn.step, hc, hpc]
    cases a <;> rfl
  | waiting f =>
    rw [hpc] at hpcs
    obtain ⟨hlt, _, fl, e, hf, he, _, _⟩ := hpcs
    cases ha : fl.ans with
    | none =>
      cases hsp : fl.spawned with
      | false =>
        obtain ⟨g, gl, hg, hgp⟩ := hI.unspawned f fl hf hsp
        refine ⟨.spawn g, ?_, Or.inr (Or.inr (Or.inr (Or.inr ⟨f, rfl, Or.inl ⟨g, rfl⟩⟩)))⟩
        simp [PConn.step, hg, hgp, hf]
      | true =>
        refine ⟨.srvPrepare f none, ?_, Or.inr (Or.inr (Or.inr (Or.inr ⟨f, rfl, Or.inr (Or.inl rfl)⟩)))⟩
        simp [PConn.step, hf, ha, hsp]
    | some r =>
      by_cases hd : fl.done = true
      · refine ⟨.observe c .ok, ?_, Or.inr (Or.inr (Or.inl rfl))⟩
        simp only [PConn.step, hc, hpc, hf, he, hd, if_true, ha]
        cases r with
        | none => rfl
        | some p =>
          obtain ⟨id, nc⟩ := p
          simp only []
          split
          · rfl
          · split <;> rfl
      · refine ⟨.complete f, ?_, Or.inr (Or.inr (Or.inr (Or.inr ⟨f, rfl, Or.inr (Or.inr rfl)⟩)))⟩
        simp only [PConn.step, hf, ha]
        rw [if_neg hd]
        cases r <;> rfl

/-- **No orphan flight.** In every reachable state of every schedule (any callers cancelled at any points), every
    flight that is not done — whether its entry is still cached or not — has an agent whose next step on it is
    enabled: (1) its goroutine has not been started yet: the caller g that published it is still inside
    `prepareStatement` (pc `won`; from there it can do nothing but start the goroutine, see
    `C14_winner_cannot_leave`); (2) started, PREPARE not yet at the server: the server can receive it — it was sent
    on the CONNECTION's context, whatever became of the publishing caller; (3) answered: the flight's goroutine
    completes it (on failure removing the key first). So an in-flight entry is never left to nobody: it is completed
    (and, if it failed, removed) — every later execution that finds it gets its outcome (`C14_no_caller_stuck`). -/
theorem C14_no_orphan_flight (as : List (PConn.Action κ)) (s : PConn.State κ) (tr : List (Ev κ))
    (h : PConn.run (PConn.initB b) as = some (s, tr)) (f : Nat) (fl : PConn.Flight κ) (hf : s.flights[f]? = some fl)
    (hd : fl.done = false) :
    (fl.spawned = false ∧ ∃ g gl, s.callers[g]? = some gl ∧ gl.pc = .won f ∧ (PConn.step s (.spawn g)).isSome = true) ∨
    (fl.spawned = true ∧ fl.ans = none ∧ ∀ r, (PConn.step s (.srvPrepare f r)).isSome = true) ∨
    (fl.spawned = true ∧ fl.ans ≠ none ∧ (PConn.step s (.complete f)).isSome = true) := by
  obtain ⟨_, _, hI, _⟩ := reachable h
  cases hsp : fl.spawned with
  | false =>
    obtain ⟨g, gl, hg, hgp⟩ := hI.unspawned f fl hf hsp
    exact Or.inl ⟨rfl, g, gl, hg, hgp, by simp [PConn.step, hg, hgp, hf]⟩
  | true =>
    cases ha : fl.ans with
    | none =>
      exact Or.inr (Or.inl ⟨rfl, rfl, fun r => by simp [PConn.step, hf, ha, hsp]⟩)
    | some r =>
      refine Or.inr (Or.inr ⟨rfl, by simp, ?_⟩)
      simp only [PConn.step, hf, ha, hd]
      cases r <;> rfl

/-- **With a cache that never purges for capacity, an entry leaves the cache only because its PREPARE failed or the
    server lost the statement.** In every schedule of the machine without capacity evictions (MaxPreparedStmts 0, or
    at least the number of distinct keys), whenever flight f's entry of key k leaves the cache: the server had
    answered PREPARE f of k with an error; or it had answered it PREPARED (id, n) and a call c that was started with
    an entry of k has received an UNPREPARED answer carrying exactly that id. In particular no entry is ever removed
    because some caller's context is done, nor while its PREPARE is still on its way — so, with
    `C14_single_flight_conn`, #PREPARE(k) ≤ 1 + #failed PREPAREs(k) + #UNPREPARED-evictions(k). -/
theorem C14_removal_justified (as : List (PConn.Action κ)) (s : PConn.State κ) (pre post : List (Ev κ)) (k : κ) (f : Nat)
    (h : PConn.run (PConn.initB true) as = some (s, pre ++ Ev.rm k f :: post)) :
    Ev.prep f k none ∈ pre ∨
    ∃ id n c ids bt es, Ev.prep f k (some (id, n)) ∈ pre ∧ Ev.exec c ids (.unprep id) ∈ pre ∧
      Ev.start c bt es ∈ pre ∧ hasKey es k = true := by
  obtain ⟨o1, o2, h1, hH, hs⟩ := before_event h
  have hst : o1.strict = true := obs_run_strict pre _ o1 h1
  simp only [Obs.step] at hs
  by_cases hj : o1.strict = true ∧ justified o1 k f = false
  · rw [if_pos hj] at hs; cases hs
  rw [if_neg hj] at hs
  have hjt : justified o1 k f = true := by
    cases hx : justified o1 k f with
    | true => rfl
    | false => exact absurd ⟨hst, hx⟩ hj
  unfold justified at hjt
  cases hf : o1.flights f with
  | none => simp [hf] at hjt
  | some fl =>
    simp only [hf] at hjt hs
    have hk : fl.key = k := by
      by_cases hq : fl.key = k ∧ fl.removed = false
      · exact hq.1
      · rw [if_neg hq] at hs; cases hs
    cases ha : fl.ans with
    | none => simp [ha] at hjt
    | some r =>
      cases r with
      | none =>
        left
        have := hH.prep f fl none hf ha
        rw [hk] at this; exact this
      | some p =>
        obtain ⟨id, n⟩ := p
        right
        simp only [ha] at hjt
        obtain ⟨cl, hmem, hcl⟩ := List.any_eq_true.1 hjt
        simp only [Bool.and_eq_true, decide_eq_true_eq] at hcl
        obtain ⟨c, hc⟩ := List.getElem?_of_mem hmem
        obtain ⟨ids, hx⟩ := hH.await c cl _ hc hcl.1
        obtain ⟨bt, hb⟩ := hH.start c cl hc
        have hp := hH.prep f fl _ hf ha
        rw [hk] at hp
        exact ⟨id, n, c, ids, bt, cl.entries, hp, hx, hb, hcl.2⟩

/-- **Every flight is completed by its own agents.** From every reachable state of every schedule and for every
    flight (cached or not): at most three further steps — the publishing caller starting the goroutine, the server
    receiving the PREPARE, the goroutine completing the flight; no step of any other caller, and no caller's context
    needs to be live — make it done, with an answer recorded. By `C14_no_orphan_flight` each of these steps is enabled
    whenever it is the next one, in whatever order the rest of the system moves. -/
theorem C14_flight_completes (as : List (PConn.Action κ)) (s : PConn.State κ) (tr : List (Ev κ))
    (h : PConn.run (PConn.initB b) as = some (s, tr)) (f : Nat) (fl : PConn.Flight κ) (hf : s.flights[f]? = some fl) :
    ∃ (as' : List (PConn.Action κ)) (s' : PConn.State κ) (tr' : List (Ev κ)) (fl' : PConn.Flight κ),
      as'.length ≤ 3 ∧ (∀ a ∈ as', Agent f a) ∧ PConn.run s as' = some (s', tr') ∧
      s'.flights[f]? = some fl' ∧ fl'.done = true ∧ fl'.ans ≠ none := by
  obtain ⟨_, _, hI, _⟩ := reachable h
  exact stage1 s hI f fl hf

/-- **Every execution that finds an entry gets its outcome.** From every reachable state in which call c waits for
    flight f (it found the entry, or published it): after those at most three steps of the flight's agents — which
    leave c where it is — c's own next action is enabled: it reads the finished flight (the PREPARE's failure, the
    value-count error, or it goes on to its next entry / sends its frame). Together with `C14_no_orphan_flight`:
    no execution waits for ever behind an entry, whatever happened to the context of the caller that published it. -/
theorem C14_waiter_gets_outcome (as : List (PConn.Action κ)) (s : PConn.State κ) (tr : List (Ev κ))
    (h : PConn.run (PConn.initB b) as = some (s, tr)) (c f : Nat) (cl : Caller κ) (hc : s.callers[c]? = some cl)
    (hpc : cl.pc = .waiting f) :
    ∃ (as' : List (PConn.Action κ)) (s' : PConn.State κ) (tr' : List (Ev κ)),
      as'.length ≤ 3 ∧ (∀ a ∈ as', Agent f a) ∧ PConn.run s as' = some (s', tr') ∧
      s'.callers[c]? = some cl ∧ (PConn.step s' (.observe c .ok)).isSome = true := by
  obtain ⟨_, _, hI, _⟩ := reachable h
  have hpcs := (hI.callers c cl hc).pcs
  rw [hpc] at hpcs
  obtain ⟨_, _, fl, e, hf, he, _, _⟩ := hpcs
  obtain ⟨as', s', tr', fl', g1, g2, g3, g4, g5, g6⟩ := stage1 s hI f fl hf
  have hc' := agents_keep_waiter hpc as' s s' tr' g2 g3 hc
  refine ⟨as', s', tr', g1, g2, g3, hc', ?_⟩
  simp only [PConn.step, hc', hpc, g4, he, g5, if_true]
  cases ha : fl'.ans with
  | none => exact absurd ha g6
  | some r =>
    cases r with
    | none => rfl
    | some p =>
      obtain ⟨id, nc⟩ := p
      simp only []
      split
      · rfl
      · split <;> rfl

/-- the caller that published a flight cannot leave `prepareStatement` before it has started the flight's
    goroutine: with pc `won` neither the context-error returns nor any other action of that caller is enabled,
    only `spawn` — whether or not its context is done -/
theorem C14_winner_cannot_leave (s : PConn.State κ) (c f : Nat) (cl : Caller κ) (a : XAns)
    (hc : s.callers[c]? = some cl) (hpc : cl.pc = .won f) :
    PConn.step s (.abandon c) = none ∧ PConn.step s (.abandonLate c) = none ∧ PConn.step s (.lookup c) = none ∧
    PConn.step s (.observe c a) = none ∧ PConn.step s (.finish c) = none ∧ PConn.step s (.srvLate c a) = none := by
  refine ⟨?_, ?_, ?_, ?_, ?_, ?_⟩ <;> simp [PConn.step, hc, hpc]

/-- **A caller whose context is done can return its context error** wherever the code selects on `ctx.Done()`
    (waiting for a flight; waiting for the answer to its frame) — and doing so touches neither the cache nor any
    flight: what it leaves behind is owned as before (`C14_no_orphan_flight` holds in the state after). -/
theorem C14_cancelled_can_return (s : PConn.State κ) (c : Nat) (cl : Caller κ)
    (hc : s.callers[c]? = some cl) (hcan : s.cancelled c = true)
    (hpc : (∃ f, cl.pc = .waiting f) ∨ (∃ a, cl.pc = .answered a)) :
    ∃ s', PConn.step s (.abandon c) = some (s', [Ev.ret c .ctxErr]) ∧ s'.cache = s.cache ∧ s'.flights = s.flights := by
  rcases hpc with ⟨f, hpc⟩ | ⟨a, hpc⟩ <;>
    exact ⟨{ s with callers := s.callers.set c { cl with pc := .abandoned } },
      by simp only [PConn.step, hc, hcan, hpc, if_true], rfl, rfl⟩

/-- **Re-prepared when lost, on connections.** A query whose EXECUTE was answered UNPREPARED with the id of the cached,
    completed PREPARE of its statement: acting on the answer removes exactly that entry from the cache (`R`), and the
    retry's lookup then MISSES and publishes a new flight (number `flights.length`) that the caller itself must start
    (pc `won`) - i.e. the driver prepares again; by `C14_id_belongs` the frame it sends afterwards carries an id
    returned by a PREPARE of that statement which had not left the cache when it sent the previous frame, and by
    `C14_waiter_gets_outcome` / `C14_no_caller_stuck` it gets there. (`C14_reprepare` is the same fact about the
    sequential cache protocol.) -/
theorem C14_reprepare_conn (s : PConn.State κ) (c f : Nat) (cl : Caller κ) (fl : PConn.Flight κ) (k : κ) (nv : Nat) (id : Id) (n : Nat)
    (hc : s.callers[c]? = some cl) (hq : cl.batch = false) (hes : cl.entries = [(k, nv)])
    (hpc : cl.pc = .answered (.unprep id)) (hk : s.cache k = some f) (hf : s.flights[f]? = some fl)
    (hd : fl.done = true) (ha : fl.ans = some (some (id, n))) :
    ∃ s1, PConn.step s (.finish c) = some (s1, [Ev.rm k f]) ∧ s1.cache k = none ∧
      ∃ s2, PConn.step s1 (.lookup c) = some (s2, []) ∧ s2.cache k = some s.flights.length ∧
        s2.flights.length = s.flights.length + 1 ∧
        (s2.callers[c]?).map (·.pc) = some (PC.won s.flights.length) := by
  have hclt : c < s.callers.length := (List.getElem?_eq_some_iff.1 hc).1
  have hu : unprepKey s cl id = some k := by simp [unprepKey, hq, hes]
  have hev : evictIfMatch s k id = removeKey s k := by
    simp [evictIfMatch, hk, hf, hd, ha]
  have hrm : removeKey s k = ({ s with cache := fun k' => if k' = k then none else s.cache k',
                                       flights := s.flights.set f { fl with removed := true } }, [Ev.rm k f]) := by
    simp [removeKey, hk, hf]
  let s1 : PConn.State κ :=
    { s with cache := fun k' => if k' = k then none else s.cache k',
             flights := s.flights.set f { fl with removed := true },
             callers := s.callers.set c { cl with got := [], pc := .start } }
  have h1 : PConn.step s (.finish c) = some (s1, [Ev.rm k f]) := by
    simp only [PConn.step, hc, hpc, hu, hev, hrm, s1]
  have hc1 : s1.callers[c]? = some { cl with got := [], pc := .start } := by
    simp [s1, hclt]
  have hk1 : s1.cache k = none := by simp [s1]
  refine ⟨s1, h1, hk1, ?_⟩
  let s2 : PConn.State κ :=
    { s1 with cache := fun k' => if k' = k then some s1.flights.length else s1.cache k',
              flights := s1.flights ++ [{ key := k, ans := none, done := false, removed := false, spawned := false }],
              callers := s1.callers.set c { cl with got := [], pc := .won s1.flights.length } }
  have hlen : s1.flights.length = s.flights.length := by simp [s1]
  have h2 : PConn.step s1 (.lookup c) = some (s2, []) := by
    simp only [PConn.step, hc1, hes, List.length_nil, List.getElem?_cons_zero, hk1, if_true, s2]
  refine ⟨s2, h2, ?_, ?_, ?_⟩
  · simp [s2, hlen]
  · simp [s2, hlen]
  · have : c < s1.callers.length := by simp [s1, hclt]
    simp [s2, this, hlen]


/-- ... and an UNPREPARED answer carrying ANOTHER id than the cached PREPARE's leaves the entry where it is: nothing is
    removed and the retry's lookup finds the same flight again. -/
theorem C14_unprepared_other_id_conn (s : PConn.State κ) (c f : Nat) (cl : Caller κ) (fl : PConn.Flight κ) (k : κ) (nv : Nat) (id id' : Id) (n : Nat)
    (hc : s.callers[c]? = some cl) (hq : cl.batch = false) (hes : cl.entries = [(k, nv)])
    (hpc : cl.pc = .answered (.unprep id)) (hk : s.cache k = some f) (hf : s.flights[f]? = some fl)
    (hd : fl.done = true) (ha : fl.ans = some (some (id', n))) (hne : id ≠ id') :
    ∃ s1, PConn.step s (.finish c) = some (s1, []) ∧ s1.cache = s.cache ∧ s1.flights = s.flights ∧
      ∃ s2, PConn.step s1 (.lookup c) = some (s2, []) ∧ s2.cache = s.cache ∧
        (s2.callers[c]?).map (·.pc) = some (PC.waiting f) := by
  have hclt : c < s.callers.length := (List.getElem?_eq_some_iff.1 hc).1
  have hu : unprepKey s cl id = some k := by simp [unprepKey, hq, hes]
  have hev : evictIfMatch s k id = (s, []) := by
    simp [evictIfMatch, hk, hf, hd, ha, hne]
  let s1 : PConn.State κ := { s with callers := s.callers.set c { cl with got := [], pc := .start } }
  have h1 : PConn.step s (.finish c) = some (s1, []) := by
    simp only [PConn.step, hc, hpc, hu, hev, s1]
  have hc1 : s1.callers[c]? = some { cl with got := [], pc := .start } := by simp [s1, hclt]
  refine ⟨s1, h1, rfl, rfl, ?_⟩
  let s2 : PConn.State κ := { s1 with callers := s1.callers.set c { cl with got := [], pc := .waiting f } }
  have hk1 : s1.cache k = some f := hk
  have h2 : PConn.step s1 (.lookup c) = some (s2, []) := by
    simp only [PConn.step, hc1, hes, List.length_nil, List.getElem?_cons_zero, hk1, if_true, s2]
  refine ⟨s2, h2, rfl, ?_⟩
  have : c < s1.callers.length := by simp [s1, hclt]
  simp [s2, this]

/-! ### the connection-level machine with the REAL cache (`PLru`: internal/lru instead of a finite map + environment evictions) -/

/-- **Every schedule of the machine with the real LRU cache is a schedule of `PConn`** (the LRU's purges being
    `PConn`'s `evict` actions) **with the same trace** - so the specification accepts it, and every theorem of this
    section about `PConn` schedules (ids and metadata belong to the statement, single flight, failures not cached,
    value count, contexts, no crash, ...) holds for every interleaving of executions over the real cache, for every
    capacity (0 = unbounded, 1, ..., negative as coded). -/
theorem C14_conn_lru_refines (cap : Int) (as : List (PLru.Action κ)) (s : PLru.State κ) (tr : List (Ev κ))
    (h : PLru.run (PLru.init cap) as = some (s, tr)) :
    (∃ as' : List (PConn.Action κ), PConn.run PConn.init as' = some (s.p, tr)) ∧
    ∃ o, Obs.run (Obs.init : OState κ) tr = some o := by
  obtain ⟨as', h'⟩ := C14ConnLRU.run_sim as _ _ _ h
  exact ⟨⟨as', h'⟩, C14_conn_refines (b := false) as' s.p tr h'⟩

/-- **The cache never exceeds its configured size, in any interleaving** - callers, flights' goroutines, server answers,
    cancellations and UNPREPARED evictions interleaved arbitrarily over the real LRU: keys are unique, a positive
    capacity is respected at every point, and the LRU holds exactly the entries of the finite-map cache the other
    theorems speak about (same key ↦ same flight), so an entry purged while its PREPARE is in flight is an `evict` of
    `PConn` and nothing else ever leaves. -/
theorem C14_conn_lru_bound (cap : Int) (as : List (PLru.Action κ)) (s : PLru.State κ) (tr : List (Ev κ))
    (h : PLru.run (PLru.init cap) as = some (s, tr)) :
    s.lru.keys.Nodup ∧ s.lru.cap = cap ∧ (0 < cap → (s.lru.len : Int) ≤ cap) ∧ ∀ k, s.p.cache k = s.lru.find k := by
  have hI0 : (PLru.init cap : PLru.State κ).lru.Inv := LRU.inv_new cap
  obtain ⟨_, hL, hS⟩ := C14ConnLRU.run_good as _ _ _ C14ConnLRU.good_init hI0 (C14ConnLRU.sync_init cap) h
  have hc := (C14ConnLRU.run_lru_inv as _ _ _ hI0 h).2
  have hc' : s.lru.cap = cap := by rw [hc]; rfl
  exact ⟨hL.1, hc', fun hp => by have := hL.2 (by rw [hc']; exact hp); rw [hc'] at this; exact this, hS⟩

/-- **The machine with the real cache refuses no step**: in every reachable state, whatever the finite-map machine
    can do next (any caller's lookup, spawn, observe, finish, abort; any flight's completion; any server answer) the
    machine over the real LRU can do too - in particular a lookup that misses on a full cache always finds the LRU's
    victim in the cache and purges it. So `PLru` is `PConn` with the evictions DETERMINED by the LRU, nothing less. -/
theorem C14_conn_lru_progress (cap : Int) (as : List (PLru.Action κ)) (s : PLru.State κ) (tr : List (Ev κ))
    (h : PLru.run (PLru.init cap) as = some (s, tr)) (a : PLru.Action κ)
    (ha : (PConn.step s.p a.toP).isSome = true) : (PLru.step s a).isSome = true := by
  have hI0 : (PLru.init cap : PLru.State κ).lru.Inv := LRU.inv_new cap
  obtain ⟨_, hL, hS⟩ := C14ConnLRU.run_good as _ _ _ C14ConnLRU.good_init hI0 (C14ConnLRU.sync_init cap) h
  obtain ⟨as', h'⟩ := C14ConnLRU.run_sim as _ _ _ h
  have hst : s.p.strict = false := by rw [C14ConnLRU.run_strict as' _ _ _ h']; rfl
  exact C14ConnLRU.step_progress s a hL hS hst ha

/-- non-vacuity: cache of ONE entry, two statements. Call 0 publishes the flight of statement 7; call 1 looks up
    statement 8: the LRU purges 7 while its PREPARE is still in flight (R:7:0), both PREPAREs are answered, both
    calls execute with their own ids; then call 2 executes 7 again: not cached, a second PREPARE of 7 (flight 2)
    purges 8. The cache holds one entry at the end. -/
example :
    ((PLru.run (PLru.init 1 : PLru.State Nat)
      [.call false [(7, 1)], .lookup 0, .call false [(8, 1)], .lookup 1, .spawn 0, .spawn 1,
       .srvPrepare 0 (some ([1], 1)), .srvPrepare 1 (some ([2], 1)), .complete 0, .complete 1,
       .observe 0 .ok, .observe 1 .ok, .finish 0, .finish 1,
       .call false [(7, 1)], .lookup 2, .spawn 2, .srvPrepare 2 (some ([3], 1)), .complete 2, .observe 2 .ok, .finish 2]).map
        fun r => (r.2, r.1.lru.items)) =
    some ([.start 0 false [(7, 1)], .start 1 false [(8, 1)], .rm 7 0, .prep 0 7 (some ([1], 1)), .prep 1 8 (some ([2], 1)),
           .exec 0 [[1]] .ok, .exec 1 [[2]] .ok, .ret 0 .ok, .ret 1 .ok,
           .start 2 false [(7, 1)], .rm 8 1, .prep 2 7 (some ([3], 1)), .exec 2 [[3]] .ok, .ret 2 .ok], [(7, 2)]) := by decide

/-- a hit promotes: capacity 2, statements 7 and 8 cached, 7 executed again, then 9 arrives: 8 (least recently USED) goes -/
example :
    ((PLru.run (PLru.init 2 : PLru.State Nat)
      [.call false [(7, 0)], .lookup 0, .spawn 0, .srvPrepare 0 (some ([1], 0)), .complete 0, .observe 0 .ok, .finish 0,
       .call false [(8, 0)], .lookup 1, .spawn 1, .srvPrepare 1 (some ([2], 0)), .complete 1, .observe 1 .ok, .finish 1,
       .call false [(7, 0)], .lookup 2, .observe 2 .ok, .finish 2,
       .call false [(9, 0)], .lookup 3]).map fun r => r.1.lru.items) = some [(9, 2), (7, 0)] := by decide

/-- there is no environment eviction in this machine, and UNPREPARED with the cached id removes the entry from the LRU -/
example :
    ((PLru.run (PLru.init 2 : PLru.State Nat)
      [.call false [(7, 0)], .lookup 0, .spawn 0, .srvPrepare 0 (some ([1], 0)), .complete 0, .observe 0 (.unprep [1]), .finish 0]).map
        fun r => (r.2, r.1.lru.items)) =
    some ([.start 0 false [(7, 0)], .prep 0 7 (some ([1], 0)), .exec 0 [[1]] (.unprep [1]), .rm 7 0], []) := by decide

/-! non-vacuity: concrete schedules -/

/-- two executions of one uncached statement, one PREPARE, both execute with its id -/
example :
    (PConn.run (PConn.init : PConn.State Nat)
      [.call false [(7, 1)], .call false [(7, 1)], .lookup 0, .lookup 1, .spawn 0, .srvPrepare 0 (some ([0xAA], 1)), .complete 0,
       .observe 1 .ok, .observe 0 .ok, .finish 0, .finish 1]).map (·.2) =
    some [.start 0 false [(7, 1)], .start 1 false [(7, 1)], .prep 0 7 (some ([0xAA], 1)), .exec 1 [[0xAA]] .ok,
          .exec 0 [[0xAA]] .ok, .ret 0 .ok, .ret 1 .ok] := by decide

/-- UNPREPARED: evict, prepare again, execute with the new id; a failing PREPARE is reported to both
    waiters after its entry left the cache; a wrong value count sends nothing -/
example :
    (PConn.run (PConn.init : PConn.State Nat)
      [.call false [(7, 1)], .lookup 0, .spawn 0, .srvPrepare 0 (some ([0xAA], 1)), .complete 0, .observe 0 (.unprep [0xAA]), .finish 0,
       .lookup 0, .spawn 0, .call false [(7, 1)], .lookup 1, .srvPrepare 1 none, .complete 1, .observe 0 .ok, .observe 1 .ok,
       .call false [(7, 2)], .lookup 2, .spawn 2, .srvPrepare 2 (some ([0xAB], 1)), .complete 2, .observe 2 .ok]).map (·.2) =
    some [.start 0 false [(7, 1)], .prep 0 7 (some ([0xAA], 1)), .exec 0 [[0xAA]] (.unprep [0xAA]), .rm 7 0,
          .start 1 false [(7, 1)], .prep 1 7 none, .rm 7 1, .ret 0 (.prepErr 1), .ret 1 (.prepErr 1),
          .start 2 false [(7, 2)], .prep 2 7 (some ([0xAB], 1)), .ret 2 .countErr] := by decide

/-- the histories the seeded defects produce are rejected by the specification: a failure reported while its
    entry is still cached (close(done) before remove), a failure served to a later execution, a hang -/
example : (Obs.run (Obs.init : OState Nat) [.start 0 false [(7, 1)], .prep 0 7 none, .ret 0 (.prepErr 0)]).isNone = true := by decide
example : (Obs.run (Obs.init : OState Nat) [.start 0 false [(7, 1)], .prep 0 7 none, .rm 7 0, .ret 0 (.prepErr 0),
    .start 1 false [(7, 1)], .ret 1 (.prepErr 0)]).isNone = true := by decide
example : (Obs.run (Obs.init : OState Nat) [.start 0 false [(7, 1)], .prep 0 7 none, .hang 0]).isNone = true := by decide
/-- a second PREPARE while the entry is cached; an id of another statement; a wrong value count on the wire -/
example : (Obs.run (Obs.init : OState Nat) [.start 0 false [(7, 1)], .start 1 false [(7, 1)], .prep 0 7 (some ([1], 1)),
    .prep 1 7 (some ([2], 1))]).isNone = true := by decide
example : (Obs.run (Obs.init : OState Nat) [.start 0 false [(7, 1)], .start 1 false [(8, 1)], .prep 0 7 (some ([1], 1)),
    .prep 1 8 (some ([2], 1)), .exec 0 [[2]] .ok]).isNone = true := by decide
example : (Obs.run (Obs.init : OState Nat) [.start 0 false [(7, 2)], .prep 0 7 (some ([1], 1)), .exec 0 [[1]] .ok]).isNone = true := by decide

/-! caller contexts -/

/-- the winner's context is done before it even looks the statement up: it publishes the flight, starts the
    goroutine, returns its context error; the PREPARE reaches the server after that; a later execution with a live
    context finds the entry and executes with the id — one PREPARE, nobody stuck -/
example :
    (PConn.run (PConn.init : PConn.State Nat)
      [.call false [(7, 1)], .cancel 0, .lookup 0, .spawn 0, .abandon 0, .call false [(7, 1)], .lookup 1,
       .srvPrepare 0 (some ([0xAA], 1)), .complete 0, .observe 1 .ok, .finish 1]).map (·.2) =
    some [.start 0 false [(7, 1)], .cancel 0, .ret 0 .ctxErr, .start 1 false [(7, 1)], .prep 0 7 (some ([0xAA], 1)),
          .exec 1 [[0xAA]] .ok, .ret 1 .ok] := by decide

/-- a caller at pc `won` cannot return: the schedule in which the cancelled winner gives up BEFORE starting the
    goroutine (the behaviour of an early `ctx.Err()` return placed after `execIfMissing`) is not a schedule -/
example :
    (PConn.run (PConn.init : PConn.State Nat) [.call false [(7, 1)], .cancel 0, .lookup 0, .abandon 0]).isNone = true := by decide

/-- a waiter whose context fires while the PREPARE is at the server returns its context error; the winner and a
    later caller are served; the frame a cancelled caller had just written arrives after its return -/
example :
    (PConn.run (PConn.init : PConn.State Nat)
      [.call false [(7, 1)], .lookup 0, .spawn 0, .call false [(7, 1)], .lookup 1, .cancel 1, .abandon 1,
       .srvPrepare 0 (some ([0xAA], 1)), .complete 0, .cancel 0, .abandonLate 0, .srvLate 0 .ok]).map (·.2) =
    some [.start 0 false [(7, 1)], .start 1 false [(7, 1)], .cancel 1, .ret 1 .ctxErr, .prep 0 7 (some ([0xAA], 1)),
          .cancel 0, .ret 0 .ctxErr, .exec 0 [[0xAA]] .ok] := by decide

/-- the specification rejects: a context error to a call whose context is live (e.g. the PREPARE run on the
    winner's context and its failure handed to the waiters); the history an orphaned entry produces (the cancelled
    winner returns, the next execution never does); a second late frame; a frame after a result -/
example : (Obs.run (Obs.init : OState Nat) [.start 0 false [(7, 1)], .start 1 false [(7, 1)], .cancel 0, .ret 0 .ctxErr,
    .ret 1 .ctxErr]).isNone = true := by decide
example : (Obs.run (Obs.init : OState Nat) [.start 0 false [(7, 1)], .cancel 0, .ret 0 .ctxErr, .start 1 false [(7, 1)],
    .hang 1]).isNone = true := by decide
example : (Obs.run (Obs.init : OState Nat) [.start 0 false [(7, 1)], .prep 0 7 (some ([1], 1)), .cancel 0, .ret 0 .ctxErr,
    .exec 0 [[1]] .ok, .exec 0 [[1]] .ok]).isNone = true := by decide
example : (Obs.run (Obs.init : OState Nat) [.start 0 false [(7, 1)], .prep 0 7 (some ([1], 1)), .exec 0 [[1]] .ok, .ret 0 .ok,
    .exec 0 [[1]] .ok]).isNone = true := by decide
/-- … and accepts the PREPARE that arrives after the cancelled winner has returned -/
example : (Obs.run (Obs.init : OState Nat) [.start 0 false [(7, 1)], .cancel 0, .ret 0 .ctxErr,
    .prep 0 7 (some ([1], 1))]).isSome = true := by decide

/-- a cache that never purges: the entry of a flight whose PREPARE is still on its way cannot leave the cache — the
    history in which a cancelled caller "cleans up" the in-flight entry (and the next execution prepares again) is
    rejected by the strict specification, accepted by the lax one (where it could have been a capacity eviction) -/
example : (Obs.run (Obs.initB true : OState Nat) [.start 0 false [(7, 1)], .start 1 false [(7, 1)], .cancel 1, .rm 7 0]).isNone = true := by decide
example : (Obs.run (Obs.initB true : OState Nat) [.start 0 false [(7, 1)], .prep 0 7 (some ([1], 1)), .start 1 false [(7, 1)], .cancel 1,
    .rm 7 0, .ret 1 .ctxErr]).isNone = true := by decide
example : (Obs.run (Obs.initB false : OState Nat) [.start 0 false [(7, 1)], .prep 0 7 (some ([1], 1)), .start 1 false [(7, 1)], .cancel 1,
    .rm 7 0, .ret 1 .ctxErr]).isSome = true := by decide
/-- … and it accepts the two legitimate removals: the failed PREPARE, the UNPREPARED answer with the cached id -/
example : (Obs.run (Obs.initB true : OState Nat) [.start 0 false [(7, 1)], .prep 0 7 none, .rm 7 0, .ret 0 (.prepErr 0),
    .start 1 false [(7, 1)], .prep 1 7 (some ([1], 1)), .exec 1 [[1]] (.unprep [1]), .rm 7 1]).isSome = true := by decide
/-- the strict machine has no capacity eviction -/
example : (PConn.run (PConn.initB true : PConn.State Nat) [.call false [(7, 1)], .lookup 0, .evict 7]).isNone = true := by decide

end Conn

end C14
