import Proofs.C14Prepare
/-!
# C14 — prepared statements (property theorems; sequential + logical core)

Models: `Model/LRU.lean` (internal/lru/lru.go), `Model/Prepare.lean` (prepared_cache.go, conn.go
prepareStatement / evictPreparedID). "∀ schedule" = every finite list of actions accepted by `step`
(one action = one critical section of the cache mutex, or one flight completion).
-/
namespace C14
open LRU Prepare

/-- **LRU refines a finite map.** For every capacity and every sequence of Add/Get/Remove/RemoveOldest
    from the empty cache: keys are unique and `len ≤ cap` (cap > 0; cap = 0 is unbounded, as coded);
    Get returns the map's value and changes no binding; Remove deletes exactly its key; Add binds its key
    (cap ≥ 0), changes no other binding when the key was present, and otherwise purges nothing or — on a
    full cache — exactly the least recently used entry (the back of the recency list). -/
theorem C14_lru_refines_map {κ α : Type} [DecidableEq κ] (cap : Int) (ops : List (Op κ α)) :
    let c := (LRU.new cap : Cache κ α).run ops
    c.keys.Nodup ∧ c.cap = cap ∧ (0 < cap → (c.len : Int) ≤ cap) ∧
    (∀ k k', (c.get k).1 = c.find k ∧ (c.get k).2.find k' = c.find k') ∧
    (∀ k k', (c.remove k).1 = (c.find k).isSome ∧
             (c.remove k).2.1.find k' = if k' = k then none else c.find k') ∧
    (∀ k v, 0 ≤ cap → (c.add k v).1.find k = some v) ∧
    (∀ k v, (c.find k).isSome → (c.add k v).2 = [] ∧ ∀ k', k' ≠ k → (c.add k v).1.find k' = c.find k') ∧
    (∀ k v, (c.add k v).2 = [] ∨
            (c.find k = none ∧ cap ≠ 0 ∧ (c.len : Int) + 1 > cap ∧
             (c.add k v).2 = (((k, v) :: c.items).getLast?).toList)) := by
  intro c
  have hinv : c.Inv := (run_inv (LRU.new cap : Cache κ α) (inv_new cap) ops).1
  have hcap' : c.cap = cap := (run_inv (LRU.new cap : Cache κ α) (inv_new cap) ops).2
  refine ⟨hinv.1, hcap', fun h => by have := hinv.2 (by omega); omega, fun k k' => get_find c k k',
    fun k k' => remove_find c k k', fun k v h => add_find_same c k v (by omega), fun k v h => add_hit c k v h, ?_⟩
  intro k v
  have := add_evicts_lru c k v
  rw [hcap'] at this
  exact this

/-- non-vacuity / test: capacity 2, the least recently USED (not inserted) key goes -/
example :
    let c := (LRU.new 2 : Cache Nat Nat).run [.add 1 10, .add 2 20, .get 1, .add 3 30]
    c.items = [(3, 30), (1, 10)] := by decide

/-- **Cache key.** `keyFor` is injective on (host id, statement) when host ids have one fixed length and
    the keyspace is the same (one `Session` has one keyspace; host ids are UUID strings). -/
theorem C14_key_injective (h₁ h₂ ks s₁ s₂ : List Char) (hl : h₁.length = h₂.length)
    (he : keyFor h₁ ks s₁ = keyFor h₂ ks s₂) : h₁ = h₂ ∧ s₁ = s₂ := by
  unfold keyFor at he
  rw [List.append_assoc, List.append_assoc] at he
  have ⟨a, b⟩ := List.append_inj he hl
  exact ⟨a, List.append_cancel_left b⟩

/-- without the hypothesis plain concatenation is not injective (latent hazard, not reachable inside
    one session): ("h","a","bX") and ("h","ab","X") share a key -/
theorem C14_cex_key_not_injective :
    keyFor "h".toList "a".toList "bX".toList = keyFor "h".toList "ab".toList "X".toList ∧
    ("a".toList, "bX".toList) ≠ ("ab".toList, "X".toList) := by decide

/-- **Single flight.** For every cache size and every schedule: the number of PREPAREs caused for a key
    equals the number of times its entry left the cache (capacity eviction, failure, UNPREPARED) plus
    one if it is cached now. Hence `#PREPARE(k) ≤ 1 + #evictions(k) + #failures(k) + #unprepared(k)`,
    and a key whose entry never left the cache was prepared at most once, however many executors
    looked it up and whenever they did. -/
theorem C14_single_flight {κ : Type} [DecidableEq κ] (cap : Int) (as : List (Action κ)) (s : State κ)
    (h : run (init cap) as = some s) (k : κ) :
    prepares s.log k = removals s.log k + (if k ∈ s.cache.keys then 1 else 0) ∧
    prepares s.log k ≤ 1 + removals s.log k ∧
    (removals s.log k = 0 → prepares s.log k ≤ 1) := by
  obtain ⟨hinv, _, hc, _⟩ := run_good (init cap) s as (good_init cap) h
  have h1 := hc k
  rw [hinv.1.count] at h1
  refine ⟨h1, ?_, ?_⟩ <;> (split at h1 <;> omega)

/-- ten executors of the same statement, any interleaving with the completion: one PREPARE -/
example :
    (run (init 1000 : State Nat) ([.lookup 7, .lookup 7, .lookup 7, .complete 0 (some [1]), .lookup 7, .lookup 7])).map
      (fun s => prepares s.log 7) = some 1 := by decide

/-- **Failures are not cached; no stale or foreign flight.** In every reachable state every cached
    entry (k ↦ f) refers to an existing flight that was created for exactly the key k and has not
    failed — so a lookup after a failed PREPARE misses or finds a different flight, an id handed out
    for k comes from a PREPARE of k — and `evictPreparedID` never dereferences a flight without a
    prepared statement (`crashed = false`). -/
theorem C14_failure_not_cached {κ : Type} [DecidableEq κ] (cap : Int) (as : List (Action κ)) (s : State κ)
    (h : run (init cap) as = some s) :
    (∀ e ∈ s.cache.items, ∃ fl, s.flights[e.2]? = some fl ∧ fl.key = e.1 ∧ fl.status ≠ .failed) ∧
    s.crashed = false := by
  obtain ⟨_, hb, _, hcr⟩ := run_good (init cap) s as (good_init cap) h
  exact ⟨hb, hcr⟩

/-- **Waiters observe the flight's outcome.** Once a flight is done its outcome never changes (a
    completion is accepted only for an in-flight flight), so every waiter of a failed flight reads the
    failure and every waiter of a successful one reads the same id, whenever it looks. -/
theorem C14_outcome_stable {κ : Type} [DecidableEq κ] (s s' : State κ) (a : Action κ) (f : Nat) (st : Status)
    (hs : step s a = some s') (ho : outcome s f = some st) (hd : st ≠ .inflight) :
    outcome s' f = some st := by
  cases a with
  | lookup k =>
    simp only [step] at hs
    cases hget : s.cache.get k with
    | mk o c' =>
      cases o with
      | some g => simp only [hget] at hs; injection hs with hs; subst hs; exact ho
      | none =>
        simp only [hget] at hs; injection hs with hs; subst hs
        unfold outcome at ho ⊢
        cases hf : s.flights[f]? with
        | none => simp [hf] at ho
        | some fl =>
          have hlt : f < s.flights.length := (List.getElem?_eq_some_iff.1 hf).1
          simp only []
          rw [List.getElem?_append_left hlt, ← ho, hf]
  | complete g r =>
    simp only [step] at hs
    cases hfl : s.flights[g]? with
    | none => simp [hfl] at hs
    | some fl =>
      simp only [hfl] at hs
      by_cases hst : fl.status = .inflight
      · have hne : f ≠ g := by
          intro e; subst e
          unfold outcome at ho; rw [hfl] at ho; simp at ho
          exact hd (ho ▸ hst)
        simp only [hst, if_true] at hs
        cases r with
        | some id =>
          injection hs with hs; subst hs
          unfold outcome at ho ⊢; simp only []
          rw [flights_set_other _ _ _ _ hne]; exact ho
        | none =>
          injection hs with hs; subst hs
          unfold outcome at ho ⊢; simp only []
          rw [flights_set_other _ _ _ _ hne]; exact ho
      · simp [hst] at hs
  | unprepared k id =>
    simp only [step] at hs
    cases hget : s.cache.get k with
    | mk o c' =>
      cases o with
      | none => simp only [hget] at hs; injection hs with hs; subst hs; exact ho
      | some g =>
        simp only [hget] at hs
        split at hs
        · split at hs <;> (injection hs with hs; subst hs; exact ho)
        · injection hs with hs; subst hs; exact ho
        · injection hs with hs; subst hs; exact ho

/-- **Re-prepare.** An UNPREPARED answer carrying the cached id evicts the entry (so the retry's lookup
    misses, see `C14_miss_prepares`); with a different id the entry is kept. -/
theorem C14_reprepare {κ : Type} [DecidableEq κ] (s : State κ) (k : κ) (f : Nat) (id id' : List UInt8)
    (hf : s.cache.find k = some f) (ho : outcome s f = some (.ok id)) :
    (∃ s', step s (.unprepared k id) = some s' ∧ s'.cache.find k = none) ∧
    (id' ≠ id → ∃ s', step s (.unprepared k id') = some s' ∧ s'.cache.find k = some f) := by
  have hget : s.cache.get k = (some f, { s.cache with items := (k, f) :: without k s.cache.items }) := by
    simp [Cache.get, hf]
  have hst : (s.flights[f]?).map (·.status) = some (Status.ok id) := ho
  constructor
  · refine ⟨_, by simp only [step, hget, hst, if_true]; rfl, ?_⟩
    simp only []
    exact ((remove_find _ k k).2).trans (by simp)
  · intro hne
    refine ⟨_, by simp only [step, hget, hst, hne, if_false]; rfl, ?_⟩
    simp only []
    exact lfind_cons_same k f _

/-- a lookup that misses publishes a new flight, i.e. causes exactly one more PREPARE for that key -/
theorem C14_miss_prepares {κ : Type} [DecidableEq κ] (s : State κ) (k : κ) (hf : s.cache.find k = none) :
    ∃ s', step s (.lookup k) = some s' ∧ prepares s'.log k = prepares s.log k + 1 ∧
          s'.flights.length = s.flights.length + 1 ∧ outcome s' s.flights.length = some .inflight := by
  have hget : s.cache.get k = (none, s.cache) := by simp [Cache.get, hf]
  refine ⟨_, by simp only [step, hget]; rfl, ?_, by simp, by simp [outcome]⟩
  simp [prepares, List.countP_append, cntI_evicted, Event.isInsert]

/-- UNPREPARED → evict → retry prepares again and gets the new id: a concrete schedule -/
example :
    (run (init 10 : State Nat) [.lookup 1, .complete 0 (some [0xAA]), .lookup 1, .unprepared 1 [0xAA],
                                .lookup 1, .complete 1 (some [0xBB]), .lookup 1]).map
      (fun s => (prepares s.log 1, s.cache.find 1, outcome s 1)) = some (2, some 1, some (.ok [0xBB])) := by decide

/-- a failed PREPARE is not remembered: the next lookup prepares again -/
example :
    (run (init 10 : State Nat) [.lookup 1, .lookup 1, .complete 0 none, .lookup 1]).map
      (fun s => (prepares s.log 1, s.cache.find 1, outcome s 0)) = some (2, some 1, some .failed) := by decide

end C14
