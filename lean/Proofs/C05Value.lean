import Proofs.C05ValueColl
/-!
  C05 (no bytes from the network can crash the application), part 2: value decoders.

  FULL PROPERTY, proved for ALL protocol versions, type trees, destinations and byte strings:
      ∀ proto (t : CT) (dst : Dest) (data : Option Bytes), ∀ s, unmarshal proto t dst data ≠ .crash s
  (`C05_values_total`): every index / slice / make / reflect-index operation of the decoders (the sites
  `idx`, `sliceFrom`, `sliceTo`, `reflectBounds` of Model.CrashValue) is in bounds, behind the guard
  that precedes it. The model is the code after the repairs of KF-C05-12, 15, 16, 17, 18, 19, 21; the
  inputs that crashed the code before the repairs are errors now (`C05_former_witnesses_are_errors`,
  the `ops` of the findings, replayed on the real code by the check).
  Allocation: the element count handed to reflect.MakeSlice / MakeMapWithSize is bounded by the bytes
  left (`C05_alloc_bound`, `C05_map_alloc_bound`), and the guard that enforces it rejects nothing that
  would have decoded (`C05_count_guard_conservative`).
-/
namespace C05Value
open CrashValue

/-! ### tuple slots -/

theorem tupleSlots_length {g : GT} {n : Nat} {slots : List Slot} (h : tupleSlots g n = some (.ok slots)) :
    slots.length = n := by
  unfold tupleSlots at h
  split at h
  all_goals first
    | (split at h <;> first | (cases h; done) | (simp at h; done) | (cases h; simp; try omega))
    | (cases h; simp)
    | (simp at h; done)

theorem tupleSlots_nocrash {g : GT} {n : Nat} {s : Site} : tupleSlots g n ≠ some (.crash s) := by
  unfold tupleSlots
  split <;> first | (split <;> simp) | simp

theorem safe_if {α : Type} {c : Prop} [Decidable c] {a b : Res α} (h1 : Safe a) (h2 : Safe b) :
    Safe (if c then a else b) := by split <;> assumption

theorem setSlot_safe (slots : List Slot) (i : Nat) (src : GT) (h : i < slots.length) :
    Safe (setSlot slots i src) := by
  unfold setSlot
  have : slots[i]? = some slots[i] := List.getElem?_eq_getElem h
  rw [this]
  exact safe_if (safe_ok _) safe_err

theorem readCS4 (proto : Nat) (a b c x : UInt8) (rest : Bytes) (hp : proto > 2) :
    readCollectionSize proto (a :: b :: c :: x :: rest) = .ok (i32 a b c x, 4) := by
  simp [readCollectionSize, hp, idx]

theorem readInt4 (a b c x : UInt8) (rest : Bytes) : readInt (a :: b :: c :: x :: rest) = .ok (i32 a b c x) := by
  simp [readInt, idx]

theorem sliceFrom4 (fn : Fn) (a b c x : UInt8) (rest : Bytes) : sliceFrom fn (a :: b :: c :: x :: rest) 4 = .ok rest := by
  rw [sliceFrom_ok (by simp)]; rfl

/-! ### the decoders are Safe: structural induction over the type tree -/

mutual
theorem core_safe (proto : Nat) : ∀ (t : CT) (g : GT) (d : Option Bytes), Safe (core proto t g d)
  | .nat n, g, d => by
      simp only [core]; exact scalar_safe n g d
  | .list e, g, d => by
      simp only [core]
      exact unmarshalList_safe proto _ (fun g' d' => unmG_safe (core_safe proto e) g' d') g d
  | .map k v, g, d => by
      simp only [core]
      exact unmarshalMap_safe proto _ _ (fun g' d' => unmG_safe (core_safe proto k) g' d')
        (fun g' d' => unmG_safe (core_safe proto v) g' d') g d
  | .tuple es, g, d => by
      simp only [core]
      split
      · simp
      · simp
      · rename_i s h; exact absurd h tupleSlots_nocrash
      · rename_i slots h
        exact tupleLoop_safe proto es 0 slots _ (by rw [tupleSlots_length h]; omega)
  | .udt fs, g, d => by
      simp only [core]
      split
      · split
        · simp
        · exact udtMapLoop_safe proto fs _
      · split
        · simp
        · split
          · simp
          · exact udtStructLoop_safe proto fs _ _
theorem tupleLoop_safe (proto : Nat) : ∀ (es : List CT) (i : Nat) (slots : List Slot) (d : Bytes),
    i + es.length ≤ slots.length → Safe (tupleLoop proto es i slots d)
  | [], _, _, _, _ => by simp only [tupleLoop]; simp
  | e :: es, i, slots, d, h => by
      simp only [tupleLoop]
      simp only [List.length_cons] at h
      apply safe_bind (tupleField_safe d); intro pd _
      apply safe_bind (goType_safe e); intro gt _
      apply safe_bind (unmG_safe (core_safe proto e) gt pd.1); intro _ _
      apply safe_bind (setSlot_safe slots i gt (by omega)); intro _ _
      exact tupleLoop_safe proto es (i+1) slots pd.2 (by omega)
theorem udtMapLoop_safe (proto : Nat) : ∀ (fs : List (Nat × CT)) (d : Bytes),
    Safe (udtMapLoop proto fs d)
  | [], _ => by simp only [udtMapLoop]; simp
  | (_, e) :: fs, d => by
      simp only [udtMapLoop]
      split
      · simp
      · split
        · simp
        · rename_i h0 h4
          apply safe_bind (goType_safe e); intro gt _
          apply safe_bind (readBytes_safe (by omega)); intro pd _
          apply safe_bind (unmG_safe (core_safe proto e) gt pd.1); intro _ _
          exact udtMapLoop_safe proto fs pd.2
theorem udtStructLoop_safe (proto : Nat) : ∀ (fs : List (Nat × CT)) (sf : List UField) (d : Bytes),
    Safe (udtStructLoop proto fs sf d)
  | [], _, _ => by simp only [udtStructLoop]; simp
  | (nm, e) :: fs, sf, d => by
      simp only [udtStructLoop]
      split
      · simp
      · split
        · simp
        · rename_i h0 h4
          apply safe_bind (readBytes_safe (by omega)); intro pd _
          split
          · exact udtStructLoop_safe proto fs sf pd.2
          · rename_i f _
            split
            · apply safe_bind (unmG_safe (core_safe proto e) f.ty pd.1); intro _ _
              exact udtStructLoop_safe proto fs sf pd.2
            · exact safe_err
end

/-- `v[i]` in the `[]interface{}` path is in bounds: the loop is entered only when
    `len(v) >= len(tuple.Elems)` -/
theorem ifsLoop_safe (proto : Nat) : ∀ (es : List CT) (i : Nat) (ds : List GT) (d : Bytes),
    i + es.length ≤ ds.length → Safe (ifsLoop proto es i ds d)
  | [], _, _, _, _ => by simp [ifsLoop]
  | e :: es, i, ds, d, h => by
      simp only [ifsLoop]
      simp only [List.length_cons] at h
      apply safe_bind (tupleField_safe d); intro pd _
      have hi : ds[i]? = some ds[i] := List.getElem?_eq_getElem (by omega)
      rw [hi]
      simp only []
      apply safe_bind (unmG_safe (core_safe proto e) ds[i] pd.1); intro _ _
      exact ifsLoop_safe proto es (i+1) ds pd.2 (by omega)

theorem unmarshal_safe (proto : Nat) (t : CT) (dst : Dest) (d : Option Bytes) :
    Safe (unmarshal proto t dst d) := by
  unfold unmarshal
  split
  · exact unmG_safe (core_safe proto t) _ _
  · apply safe_bind (goType_safe t); intro g _
    exact unmG_safe (core_safe proto t) _ _
  · split
    · split
      · simp
      · rename_i es _ hlen
        exact ifsLoop_safe proto _ 0 _ _ (by simp at hlen; omega)
    · simp

/-! ## Property theorems -/

/-- FULL: no protocol version, type tree, destination and byte string (or NULL) makes `Unmarshal`
    panic: every index / slice / make / reflect operation of marshal.go Unmarshal … unmarshalUDT and
    helpers.go goType is in bounds (no bound on sizes or depth). -/
theorem C05_values_total (proto : Nat) (t : CT) (dst : Dest) (data : Option Bytes) :
    ∀ s, unmarshal proto t dst data ≠ .crash s :=
  fun s hs => unmarshal_safe proto t dst data s hs

/-! ### allocation: the element count handed to reflect.MakeSlice / MakeMapWithSize -/

/-- what unmarshalList allocates fits in the remaining bytes: count * header size <= bytes left -/
theorem C05_alloc_bound (n : Int) (avail p cnt : Nat) (hp : 0 < p)
    (h : makeCount n avail p = .ok cnt) : cnt * p ≤ avail := by
  unfold makeCount at h
  split at h
  · cases h
  · split at h
    · cases h
    · rename_i hg
      simp only [Nat.not_lt] at hg
      cases h
      exact (Nat.le_div_iff_mul_le hp).mp hg

theorem C05_map_alloc_bound (n : Int) (avail p cnt : Nat) (hp : 0 < p)
    (h : makeMapCount n avail p = .ok cnt) : cnt * (2 * p) ≤ avail := by
  unfold makeMapCount at h
  split at h
  · cases h
  · split at h
    · cases h
    · rename_i hg
      simp only [Nat.not_lt] at hg
      cases h
      exact (Nat.le_div_iff_mul_le (by omega)).mp hg

/-- the model's allocation counter of a value decode (the element count asked of reflect.MakeSlice /
    twice the entry count asked of reflect.MakeMapWithSize) times the header size is at most the bytes
    of the value: for every protocol version, type, destination type and byte string -/
theorem C05_top_alloc_bound (proto : Nat) (t : CT) (g : GT) (data : Option Bytes) :
    topAllocCount proto t g data * hdr proto ≤ (data.getD []).length := by
  unfold topAllocCount
  split
  · rename_i e d
    split
    · rcases readCollectionSize_cases proto d with h | ⟨n, p, h, hp, hp2⟩
      · simp [h]
      · simp only [h]
        split
        · rename_i c hc
          have := C05_alloc_bound n (d.length - p) p c (by rw [hp2]; exact hdr_pos proto) hc
          subst hp2
          simp only [Option.getD]; omega
        · simp
    · simp
  · rename_i k v d
    split
    · rcases readCollectionSize_cases proto d with h | ⟨n, p, h, hp, hp2⟩
      · simp [h]
      · simp only [h]
        split
        · rename_i c hc
          have := C05_map_alloc_bound n (d.length - p) p c (by rw [hp2]; exact hdr_pos proto) hc
          subst hp2
          simp only [Option.getD]
          have e : 2 * c * hdr proto = c * (2 * hdr proto) := by
            rw [Nat.mul_comm 2 c, Nat.mul_assoc]
          omega
        · simp
    · simp
  · simp

/-- a list body that cannot hold `cnt` element headers never decodes to `ok` (each element read
    consumes at least one header): so the count guard never turns a successful decode into an error, it
    only refuses the allocation that would precede the inevitable `unexpected eof` -/
theorem listLoop_short_not_ok (proto : Nat) (f : Option Bytes → Outcome) (len : Nat) :
    ∀ (cnt i : Nat) (d : Bytes), d.length < cnt * hdr proto → listLoop proto f len cnt i d ≠ .ok ()
  | 0, _, _, h => by simp at h
  | cnt+1, i, d, h => by
      simp only [listLoop]
      rcases readElem_cases .unmarshalList proto d with he | ⟨ed, rest, he, hlen⟩
      · simp [he]
      · simp only [he, ok_bind]
        split
        · cases hf : f ed with
          | ok u =>
            simp only [ok_bind]
            apply listLoop_short_not_ok proto f len cnt (i+1) rest
            have : (cnt + 1) * hdr proto = cnt * hdr proto + hdr proto := by rw [Nat.add_mul]; simp
            omega
          | err => simp
          | crash s => simp
        · simp

/-- the count guard is conservative: whenever `makeCount` refuses a non-negative count, the element
    loop over the same bytes would not have returned ok either -/
theorem C05_count_guard_conservative (proto : Nat) (f : Option Bytes → Outcome) (n : Int) (d : Bytes)
    (hn : 0 ≤ n) (hrej : makeCount n d.length (hdr proto) = .err) :
    listLoop proto f n.toNat n.toNat 0 d ≠ .ok () := by
  apply listLoop_short_not_ok
  unfold makeCount at hrej
  have hneg : ¬ n < 0 := by omega
  simp only [hneg, if_false] at hrej
  split at hrej
  · rename_i hg
    exact (Nat.div_lt_iff_lt_mul (hdr_pos proto)).mp hg
  · cases hrej

/-! ### regression: the inputs that crashed the code before the repairs (the `ops` of KF-C05-12, 15-19,
    21; replayed on the real code by the check) are errors now -/

theorem C05_former_witnesses_are_errors :
    -- KF-C05-15 `val 4 list(int) slice(int) fffffffe`: list length −2 into a slice
    unmarshal 4 (.list (.nat .int)) (.val (.slice (.sc .int))) (some [0xff, 0xff, 0xff, 0xfe]) = .err
    -- KF-C05-12 `val 4 tuple(int,int) ifs(int,int) 0000000901`: tuple field length 9 with 1 byte left
    ∧ unmarshal 4 (.tuple [.nat .int, .nat .int]) (.ifs [.sc .int, .sc .int]) (some [0, 0, 0, 9, 1]) = .err
    -- KF-C05-12 `val 4 udt(a:int) def 0000000901`
    ∧ unmarshal 4 (.udt [(97, .nat .int)]) .deflt (some [0, 0, 0, 9, 1]) = .err
    -- KF-C05-16 `val 4 tuple(int,int) ifs(int) 0000000400000001`: `[]interface{}` shorter than the tuple
    ∧ unmarshal 4 (.tuple [.nat .int, .nat .int]) (.ifs [.sc .int]) (some [0, 0, 0, 4, 0, 0, 0, 1]) = .err
    -- KF-C05-17 `val 4 date time 01`: one-byte date
    ∧ unmarshal 4 (.nat .date) (.val (.sc .time)) (some [1]) = .err
    -- KF-C05-18 `val 4 tuple(int) struct(A:int64) -`: struct field type differs from goType(int) = int
    ∧ unmarshal 4 (.tuple [.nat .int]) (.val (.struct [(65, false, .sc .int64)])) (some []) = .err
    -- KF-C05-19 `val 4 udt(wall:int) time 0000000400000001`: UDT field named like an unexported field
    ∧ unmarshal 4 (.udt [(nameCode ['w','a','l','l'], .nat .int)]) (.val (.sc .time))
        (some [0, 0, 0, 4, 0, 0, 0, 1]) = .err
    -- KF-C05-21 huge count, tiny body: rejected BEFORE reflect.MakeSlice (`makeCount` = err)
    ∧ unmarshal 4 (.list (.nat .int)) (.val (.slice (.sc .int))) (some [0x7f, 0xff, 0xff, 0xff]) = .err
    ∧ makeCount 2147483647 0 4 = .err := by
  decide

/-- `val 4 map(blob,int) def 00000000`: the default destination of map<blob,int> cannot be built —
an ERROR since /repo commit c637d3e (it was a reflect.MapOf panic, KF-C05-14) -/
theorem C05_gotype_blob_key_is_error :
    unmarshal 4 (.map (.nat .blob) (.nat .int)) .deflt (some [0, 0, 0, 0]) = .err ∧
    unmarshal 4 (.tuple [.map (.nat .blob) (.nat .int)]) (.val (.slice (.sc .iface))) (some []) = .err := by
  decide

/-! ### non-vacuity: the decoders still decode (they are not the constant `err`) -/

example : unmarshal 4 (.list (.nat .int)) (.val (.slice (.sc .int))) (some [0,0,0,1, 0,0,0,4, 0,0,0,7]) = .ok () := by
  decide
example : unmarshal 4 (.tuple [.nat .int, .nat .text]) (.ifs [.sc .int, .sc .string])
    (some [0,0,0,4, 0,0,0,7, 0,0,0,1, 0x61]) = .ok () := by decide
example : unmarshal 4 (.nat .date) (.val (.sc .time)) (some [0x80, 0, 0, 1]) = .ok () := by decide
example : makeCount 1 8 4 = .ok 1 := by decide

end C05Value
