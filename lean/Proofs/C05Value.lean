import Proofs.C05ValueColl
/-!
  C05 (no bytes from the network can crash the application), part 2: value decoders.

  FULL PROPERTY (does not hold for the code as it is):
      ∀ proto (t : CT) (dst : Dest) (data : Option Bytes), ∀ s, unmarshal false proto t dst data ≠ .crash s

  What is proved here, for ALL protocol versions, type trees, destinations and byte strings:
    * `C05_values_crash_sites`   : a crash of the code as it is happens at one of the seven `known`
                                   sites; every other index / slice / make / reflect-index operation
                                   of the decoders (the sites `idx`, `sliceFrom`, `sliceTo`,
                                   `reflectBounds` of Model.CrashValue) is in bounds.
    * `C05_values_total_partial` : outside `knownBad` (decidable) there is no crash; `knownBad` is exact.
    * per-site conditions        : `C05_list_negative_crashes`, `C05_date_short_crashes`,
                                   `C05_readBytes_crash_iff`, `C05_ifs_short_crashes`
    * one kernel-checked counterexample per known site (`C05_cex_*`, by `decide`; the witnesses are
      the `ops` of props/C05.val.findings.json and replay on the real code).
  The fixed variant (all inputs, no exclusion) is in Proofs/C05ValueFixed.lean.
-/
namespace C05Value
open CrashValue

/-! ### tuple slots -/

theorem tupleSlots_length {g : GT} {n : Nat} {slots : List Slot} (h : tupleSlots g n = some (.ok slots)) :
    slots.length = n := by
  unfold tupleSlots at h
  split at h
  all_goals first
    | (split at h <;> first | (cases h; done) | (simp at h; done) | (cases h; simp; try omega))
    | (cases h; simp)
    | (simp at h; done)

theorem tupleSlots_nocrash {g : GT} {n : Nat} {s : Site} : tupleSlots g n ≠ some (.crash s) := by
  unfold tupleSlots
  split <;> first | (split <;> simp) | simp

theorem safe_if {fx : Bool} {α : Type} {c : Prop} [Decidable c] {a b : Res α} (h1 : Safe fx a) (h2 : Safe fx b) :
    Safe fx (if c then a else b) := by split <;> assumption

theorem setSlot_safe (fx : Bool) (slots : List Slot) (i : Nat) (src : GT) (h : i < slots.length) :
    Safe fx (setSlot fx slots i src) := by
  unfold setSlot
  have : slots[i]? = some slots[i] := List.getElem?_eq_getElem h
  rw [this]
  exact safe_if (safe_ok _) (safe_crashOrErr known_tupleReflect)

theorem readCS4 (proto : Nat) (a b c x : UInt8) (rest : Bytes) (hp : proto > 2) :
    readCollectionSize proto (a :: b :: c :: x :: rest) = .ok (i32 a b c x, 4) := by
  simp [readCollectionSize, hp, idx]

theorem readInt4 (a b c x : UInt8) (rest : Bytes) : readInt (a :: b :: c :: x :: rest) = .ok (i32 a b c x) := by
  simp [readInt, idx]

theorem sliceFrom4 (fn : Fn) (a b c x : UInt8) (rest : Bytes) : sliceFrom fn (a :: b :: c :: x :: rest) 4 = .ok rest := by
  rw [sliceFrom_ok (by simp)]; rfl

theorem readBytes_crash_iff_gen (d : Bytes) (v : Int) (h4 : 4 ≤ d.length) (hv : readInt d = .ok v) :
    (∃ s, readBytes false d = .crash s) ↔ (0 ≤ v ∧ d.length - 4 < v.toNat) := by
  simp only [readBytes, hv, ok_bind, sliceFrom_ok h4, fixGuard, Bool.false_and, Bool.false_eq_true, if_false]
  have hl : (List.drop 4 d).length = d.length - 4 := by simp
  by_cases hneg : v < 0
  · simp only [hneg, if_true]
    constructor
    · rintro ⟨s, hs⟩; cases hs
    · intro h; omega
  · by_cases hfit : v.toNat ≤ (List.drop 4 d).length
    · simp only [hneg, if_false, sliceTo_ok hfit, sliceFrom_ok hfit, ok_bind]
      constructor
      · rintro ⟨s, hs⟩; cases hs
      · intro h; omega
    · simp only [hneg, if_false, sliceTo, hfit, crash_bind]
      constructor
      · intro _; omega
      · intro _; exact ⟨_, rfl⟩

/-! ### the decoders are Safe: structural induction over the type tree -/

mutual
theorem core_safe (fx : Bool) (proto : Nat) : ∀ (t : CT) (g : GT) (d : Option Bytes), Safe fx (core fx proto t g d)
  | .nat n, g, d => by
      simp only [core]; exact scalar_safe fx n g d
  | .list e, g, d => by
      simp only [core]
      exact unmarshalList_safe fx proto _ (fun g' d' => unmG_safe (core_safe fx proto e) g' d') g d
  | .map k v, g, d => by
      simp only [core]
      exact unmarshalMap_safe fx proto _ _ (fun g' d' => unmG_safe (core_safe fx proto k) g' d')
        (fun g' d' => unmG_safe (core_safe fx proto v) g' d') g d
  | .tuple es, g, d => by
      simp only [core]
      split
      · simp
      · simp
      · rename_i s h; exact absurd h tupleSlots_nocrash
      · rename_i slots h
        exact tupleLoop_safe fx proto es 0 slots _ (by rw [tupleSlots_length h]; omega)
  | .udt fs, g, d => by
      simp only [core]
      split
      · split
        · simp
        · exact udtMapLoop_safe fx proto fs _
      · split
        · simp
        · split
          · simp
          · exact udtStructLoop_safe fx proto fs _ _
theorem tupleLoop_safe (fx : Bool) (proto : Nat) : ∀ (es : List CT) (i : Nat) (slots : List Slot) (d : Bytes),
    i + es.length ≤ slots.length → Safe fx (tupleLoop fx proto es i slots d)
  | [], _, _, _, _ => by simp only [tupleLoop]; simp
  | e :: es, i, slots, d, h => by
      simp only [tupleLoop]
      simp only [List.length_cons] at h
      apply safe_bind (tupleField_safe fx d); intro pd _
      apply safe_bind (goType_safe fx e); intro gt _
      apply safe_bind (unmG_safe (core_safe fx proto e) gt pd.1); intro _ _
      apply safe_bind (setSlot_safe fx slots i gt (by omega)); intro _ _
      exact tupleLoop_safe fx proto es (i+1) slots pd.2 (by omega)
theorem udtMapLoop_safe (fx : Bool) (proto : Nat) : ∀ (fs : List (Nat × CT)) (d : Bytes),
    Safe fx (udtMapLoop fx proto fs d)
  | [], _ => by simp only [udtMapLoop]; simp
  | (_, e) :: fs, d => by
      simp only [udtMapLoop]
      split
      · simp
      · split
        · simp
        · rename_i h0 h4
          apply safe_bind (goType_safe fx e); intro gt _
          apply safe_bind (readBytes_safe fx (by omega)); intro pd _
          apply safe_bind (unmG_safe (core_safe fx proto e) gt pd.1); intro _ _
          exact udtMapLoop_safe fx proto fs pd.2
theorem udtStructLoop_safe (fx : Bool) (proto : Nat) : ∀ (fs : List (Nat × CT)) (sf : List UField) (d : Bytes),
    Safe fx (udtStructLoop fx proto fs sf d)
  | [], _, _ => by simp only [udtStructLoop]; simp
  | (nm, e) :: fs, sf, d => by
      simp only [udtStructLoop]
      split
      · simp
      · split
        · simp
        · rename_i h0 h4
          apply safe_bind (readBytes_safe fx (by omega)); intro pd _
          split
          · exact udtStructLoop_safe fx proto fs sf pd.2
          · rename_i f _
            split
            · apply safe_bind (unmG_safe (core_safe fx proto e) f.ty pd.1); intro _ _
              exact udtStructLoop_safe fx proto fs sf pd.2
            · exact safe_crashOrErr known_udtReflect
end

theorem ifsLoop_safe (fx : Bool) (proto : Nat) : ∀ (es : List CT) (i : Nat) (ds : List GT) (d : Bytes),
    Safe fx (ifsLoop fx proto es i ds d)
  | [], _, _, _ => by simp [ifsLoop]
  | e :: es, i, ds, d => by
      simp only [ifsLoop]
      apply safe_bind (tupleField_safe fx d); intro pd _
      split
      · exact safe_crashOrErr known_tupleIndex
      · rename_i g _
        apply safe_bind (unmG_safe (core_safe fx proto e) g pd.1); intro _ _
        exact ifsLoop_safe fx proto es (i+1) ds pd.2

theorem unmarshal_safe (fx : Bool) (proto : Nat) (t : CT) (dst : Dest) (d : Option Bytes) :
    Safe fx (unmarshal fx proto t dst d) := by
  unfold unmarshal
  split
  · exact unmG_safe (core_safe fx proto t) _ _
  · apply safe_bind (goType_safe fx t); intro g _
    exact unmG_safe (core_safe fx proto t) _ _
  · split
    · split
      · simp
      · exact ifsLoop_safe fx proto _ 0 _ _
    · simp

/-! ## Property theorems -/

/-- Every crash of the value decoders (code as it is) is at one of the seven known sites: all the
    other index / slice / make / reflect-index operations are in bounds, for every protocol
    version, type tree, destination and byte string (no bound on sizes or depth). -/
theorem C05_values_crash_sites (proto : Nat) (t : CT) (dst : Dest) (data : Option Bytes) (s : Site)
    (h : unmarshal false proto t dst data = .crash s) : known s = true :=
  (unmarshal_safe false proto t dst data s h).2

/-- the inputs on which the code as it is crashes: the decoder reaches one of the known sites under
    that site's condition (negative list length / field length beyond the data / short
    `[]interface{}` / 1..3 byte date / unhashable Go map key / field type mismatch / unexported
    field name). Decidable: it is a Bool. -/
def knownBad (proto : Nat) (t : CT) (dst : Dest) (data : Option Bytes) : Bool :=
  match unmarshal false proto t dst data with
  | .crash s => known s
  | _ => false

/-- FULL: ∀ inputs, no crash. PARTIAL: outside `knownBad` there is no crash. -/
theorem C05_values_total_partial (proto : Nat) (t : CT) (dst : Dest) (data : Option Bytes)
    (h : knownBad proto t dst data = false) : ∀ s, unmarshal false proto t dst data ≠ .crash s := by
  intro s hs
  have hk := C05_values_crash_sites proto t dst data s hs
  simp [knownBad, hs, hk] at h

/-- exactness of the exclusion: every `knownBad` input does crash (at a known site) -/
theorem C05_values_knownBad_exact (proto : Nat) (t : CT) (dst : Dest) (data : Option Bytes)
    (h : knownBad proto t dst data = true) : ∃ s, unmarshal false proto t dst data = .crash s ∧ known s = true := by
  unfold knownBad at h
  split at h
  · rename_i s hs; exact ⟨s, hs, h⟩
  · cases h

/-! ### site-local conditions (top-level shapes) -/

/-- K1: a list/set with a negative 4-byte length (protocol >= 3) into any slice crashes in
    reflect.MakeSlice, whatever the element type and the rest of the bytes -/
theorem C05_list_negative_crashes (proto : Nat) (e : CT) (g : GT) (a b c x : UInt8) (rest : Bytes)
    (hp : proto > 2) (hneg : i32 a b c x < 0) :
    unmarshal false proto (.list e) (.val (.slice g)) (some (a :: b :: c :: x :: rest))
      = .crash ⟨.unmarshalList, .reflectMakeslice⟩ := by
  unfold unmarshal unmG
  simp only [core]
  unfold unmarshalList
  simp only [seqKind]
  rw [readCS4 proto a b c x rest hp, ok_bind, sliceFrom4, ok_bind]
  simp [makeCount, hneg, crashOrErr]

/-- K4: a date of 1, 2 or 3 bytes into a *time.Time crashes in binary.BigEndian.Uint32 -/
theorem C05_date_short_crashes (proto : Nat) (d : Bytes) (h1 : 0 < d.length) (h3 : d.length < 4) :
    unmarshal false proto (.nat .date) (.val (.sc .time)) (some d) = .crash ⟨.unmarshalDate, .index⟩ := by
  have h0 : d.length ≠ 0 := by omega
  have h4 : ¬ 3 < d.length := by omega
  simp [unmarshal, unmG, core, scalar, fixGuard, h0, h4]

/-- K2: readBytes (behind its `len >= 4` guard) crashes exactly when the declared length is
    non-negative and exceeds what is left -/
theorem C05_readBytes_crash_iff (a b c x : UInt8) (rest : Bytes) :
    (∃ s, readBytes false (a :: b :: c :: x :: rest) = .crash s) ↔
      (0 ≤ i32 a b c x ∧ rest.length < (i32 a b c x).toNat) := by
  have h := readBytes_crash_iff_gen (a :: b :: c :: x :: rest) (i32 a b c x) (by simp) (readInt4 a b c x rest)
  simpa using h

/-- K3: a `[]interface{}` destination with fewer entries than the (non-empty prefix of the) tuple:
    empty destination, any tuple with at least one element, empty data -/
theorem C05_ifs_short_crashes (proto : Nat) (e : CT) (es : List CT) :
    unmarshal false proto (.tuple (e :: es)) (.ifs []) (some []) = .crash ⟨.unmarshalTuple, .index⟩ := by
  simp [unmarshal, ifsLoop, tupleField, crashOrErr]

/-! ### allocation: the element count handed to reflect.MakeSlice / MakeMapWithSize -/

/-- code as it is: the count is NOT bounded by the data: with nothing left after the header,
    MakeSlice is asked for 2^31-1 elements (allocation finding KF-C05-val-9) -/
theorem C05_alloc_unbounded_cex : makeCount false 2147483647 0 4 = .ok 2147483647 := by decide

/-- fixed (fix-15): what is allocated fits in the remaining bytes: count * header size <= bytes left -/
theorem C05_alloc_bound_fixed (n : Int) (avail p cnt : Nat) (hp : 0 < p)
    (h : makeCount true n avail p = .ok cnt) : cnt * p ≤ avail := by
  unfold makeCount at h
  split at h
  · simp [crashOrErr] at h
  · split at h
    · cases h
    · rename_i hg
      simp only [Bool.true_and, decide_eq_true_eq, Nat.not_lt] at hg
      cases h
      exact (Nat.le_div_iff_mul_le hp).mp hg

theorem C05_map_alloc_bound_fixed (n : Int) (avail p cnt : Nat) (hp : 0 < p)
    (h : makeMapCount true n avail p = .ok cnt) : cnt * (2 * p) ≤ avail := by
  unfold makeMapCount at h
  split at h
  · cases h
  · split at h
    · cases h
    · rename_i hg
      simp only [Bool.true_and, decide_eq_true_eq, Nat.not_lt] at hg
      cases h
      exact (Nat.le_div_iff_mul_le (by omega)).mp hg

/-- a list body that cannot hold `cnt` element headers never decodes to `ok` (each element read
    consumes at least one header): so fix-15 never turns a successful decode into an error, it only
    refuses the allocation that precedes the inevitable `unexpected eof` -/
theorem listLoop_short_not_ok (proto : Nat) (f : Option Bytes → Outcome) (len : Nat) :
    ∀ (cnt i : Nat) (d : Bytes), d.length < cnt * hdr proto → listLoop proto f len cnt i d ≠ .ok ()
  | 0, _, _, h => by simp at h
  | cnt+1, i, d, h => by
      simp only [listLoop]
      rcases readElem_cases .unmarshalList proto d with he | ⟨ed, rest, he, hlen⟩
      · simp [he]
      · simp only [he, ok_bind]
        split
        · cases hf : f ed with
          | ok u =>
            simp only [ok_bind]
            apply listLoop_short_not_ok proto f len cnt (i+1) rest
            have : (cnt + 1) * hdr proto = cnt * hdr proto + hdr proto := by rw [Nat.add_mul]; simp
            omega
          | err => simp
          | crash s => simp
        · simp

/-- fix-15 is conservative: whenever the fixed `makeCount` refuses a non-negative count, the code as
    it is does not return ok either -/
theorem C05_fix7_conservative (proto : Nat) (f : Option Bytes → Outcome) (n : Int) (d : Bytes)
    (hn : 0 ≤ n) (hrej : makeCount true n d.length (hdr proto) = .err) :
    listLoop proto f n.toNat n.toNat 0 d ≠ .ok () := by
  apply listLoop_short_not_ok
  unfold makeCount at hrej
  have hneg : ¬ n < 0 := by omega
  simp only [hneg, if_false, Bool.true_and, decide_eq_true_eq] at hrej
  split at hrej
  · rename_i hg
    exact (Nat.div_lt_iff_lt_mul (hdr_pos proto)).mp hg
  · cases hrej

/-! ### kernel-checked counterexamples: one per known site (replay inputs of the real code) -/

/-- `val 4 list(int) slice(int) fffffffe`: list length −2 into a slice -/
theorem C05_cex_list_negative_length :
    unmarshal false 4 (.list (.nat .int)) (.val (.slice (.sc .int))) (some [0xff, 0xff, 0xff, 0xfe])
      = .crash ⟨.unmarshalList, .reflectMakeslice⟩ := by decide

/-- `val 4 tuple(int,int) ifs(int,int) 0000000901`: tuple field length 9 with 1 byte left -/
theorem C05_cex_tuple_field_beyond_data :
    unmarshal false 4 (.tuple [.nat .int, .nat .int]) (.ifs [.sc .int, .sc .int]) (some [0, 0, 0, 9, 1])
      = .crash ⟨.readBytes, .slice⟩ := by decide

/-- `val 4 udt(a:int) def 0000000901`: UDT field length 9 with 1 byte left, default destination -/
theorem C05_cex_udt_field_beyond_data :
    unmarshal false 4 (.udt [(97, .nat .int)]) .deflt (some [0, 0, 0, 9, 1])
      = .crash ⟨.readBytes, .slice⟩ := by decide

/-- `val 4 tuple(int,int) ifs(int) 0000000400000001`: `[]interface{}` shorter than the tuple -/
theorem C05_cex_short_interface_slice :
    unmarshal false 4 (.tuple [.nat .int, .nat .int]) (.ifs [.sc .int]) (some [0, 0, 0, 4, 0, 0, 0, 1])
      = .crash ⟨.unmarshalTuple, .index⟩ := by decide

/-- `val 4 date time 01`: one-byte date -/
theorem C05_cex_date_short :
    unmarshal false 4 (.nat .date) (.val (.sc .time)) (some [1]) = .crash ⟨.unmarshalDate, .index⟩ := by decide

/-- `val 4 map(blob,int) def 00000000`: the default destination of map<blob,int> cannot be built —
an ERROR since /repo commit c637d3e (it was a reflect.MapOf panic, former finding val-5) -/
theorem C05_gotype_blob_key_is_error :
    unmarshal false 4 (.map (.nat .blob) (.nat .int)) .deflt (some [0, 0, 0, 0]) = .err ∧
    unmarshal false 4 (.tuple [.map (.nat .blob) (.nat .int)]) (.val (.slice (.sc .iface))) (some []) = .err := by
  decide

/-- `val 4 tuple(int) struct(A:int64) -`: struct field type differs from goType(int) = int -/
theorem C05_cex_tuple_field_type :
    unmarshal false 4 (.tuple [.nat .int]) (.val (.struct [(65, false, .sc .int64)])) (some [])
      = .crash ⟨.unmarshalTuple, .reflect⟩ := by decide

/-- `val 4 udt(wall:int) time 0000000400000001`: UDT field named like an unexported field of time.Time -/
theorem C05_cex_udt_unexported_field :
    unmarshal false 4 (.udt [(nameCode ['w','a','l','l'], .nat .int)]) (.val (.sc .time))
      (some [0, 0, 0, 4, 0, 0, 0, 1]) = .crash ⟨.unmarshalUDT, .reflect⟩ := by decide

/-- huge count, tiny body: the decoder answers `err` (no crash) but only after MakeSlice(2^31-1):
    the element count is not bounded by the data (allocation finding, see findings) -/
theorem C05_huge_count_is_error :
    unmarshal false 4 (.list (.nat .int)) (.val (.slice (.sc .int))) (some [0x7f, 0xff, 0xff, 0xff]) = .err := by
  decide

/-! ### non-vacuity -/

example : known ⟨.unmarshalList, .slice⟩ = false := by decide          -- `data[p:]` in unmarshalList is NOT excluded
example : known ⟨.readCollectionSize, .index⟩ = false := by decide
example : known ⟨.unmarshalTuple, .reflectBounds⟩ = false := by decide
-- C05_values_crash_sites: its hypothesis is satisfiable
example : ∃ p t d b s, unmarshal false p t d b = .crash s := ⟨_, _, _, _, _, C05_cex_list_negative_length⟩
-- C05_values_total_partial: the hypothesis holds on a well-formed value (and the outcome is ok)
example : knownBad 4 (.list (.nat .int)) (.val (.slice (.sc .int))) (some [0,0,0,1, 0,0,0,4, 0,0,0,7]) = false := by decide
example : unmarshal false 4 (.list (.nat .int)) (.val (.slice (.sc .int))) (some [0,0,0,1, 0,0,0,4, 0,0,0,7]) = .ok () := by
  decide
-- C05_values_knownBad_exact: hypothesis satisfiable
example : knownBad 4 (.nat .date) (.val (.sc .time)) (some [1]) = true := by decide
-- site-local lemmas: hypotheses satisfiable
example : i32 0xff 0xff 0xff 0xfe < 0 := by decide
example : 0 ≤ i32 0 0 0 9 ∧ ([1] : Bytes).length < (i32 0 0 0 9).toNat := by decide

end C05Value
