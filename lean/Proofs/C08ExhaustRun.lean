import Proofs.C08Exhaust
import Proofs.C08Step
/-! C08: no false exhaustion as a theorem about the k-thread MACHINE (`Streams.step`), no client protocol:
a `GetStream` call of thread `t` that returns `0, false` at the end of an arbitrary schedule of all threads has
seen every id in use in one of the machine states visited between its first and its last atomic operation.
(`Proofs/C08Exhaust` proves it for the calling thread against an arbitrary list of environment states; here the
environment is what the other threads of the machine really do.) -/
namespace C08
open Streams

/-- run a schedule with NO client protocol and keep the state in front of every action -/
def runVis : State → List Action → Option (State × List State)
  | s, [] => some (s, [])
  | s, a :: as =>
    match step s a with
    | some (s', _) => (runVis s' as).map (fun p => (p.1, s :: p.2))
    | none => none

def actor : Action → Nat
  | .start t _ => t
  | .step t => t

/-- the action is a new call of thread `t` -/
def startsCall (t : Nat) : Action → Bool
  | .start t' _ => t' == t
  | .step _ => false

/-- `runVis` runs exactly the schedules of `runAny anyAct` -/
theorem runVis_runAny (as : List Action) : ∀ (s s' : State) (vis : List State) (evs : List Ev),
    runVis s as = some (s', vis) → ∃ evs', runAny anyAct s evs as = some (s', evs') := by
  induction as with
  | nil => intro s s' vis evs h; simp only [runVis, Option.some.injEq, Prod.mk.injEq] at h; exact ⟨evs, by simp [runAny, h.1]⟩
  | cons a as ih =>
    intro s s' vis evs h
    simp only [runVis] at h
    split at h
    · rename_i s1 r hs
      cases hr : runVis s1 as with
      | none => rw [hr] at h; cases h
      | some p =>
        rw [hr] at h
        simp only [Option.map_some, Option.some.injEq, Prod.mk.injEq] at h
        obtain ⟨evs', he⟩ := ih s1 p.1 p.2 (evOf s a ++ evs) (by rw [hr])
        exact ⟨evs', by simp only [runAny, anyAct, ↓reduceIte, hs]; rw [he, h.1]⟩
    · cases h

/-- an action of another thread leaves the program counter of thread `t` and the number of words alone -/
theorem step_other {s s' : State} {a : Action} {r : Option Ret} {t : Nat} (hs : step s a = some (s', r))
    (ha : actor a ≠ t) : s'.threads[t]? = s.threads[t]? ∧ s'.sh.words.length = s.sh.words.length := by
  refine ⟨?_, (step_length hs).1⟩
  cases a with
  | start u op =>
    simp only [actor] at ha
    simp only [step] at hs
    split at hs
    · simp only [Option.some.injEq, exec, Prod.mk.injEq] at hs
      rw [← hs.1]; simp only []
      rw [List.getElem?_set_ne ha]
    · cases hs
  | step u =>
    simp only [actor] at ha
    simp only [step] at hs
    split at hs
    · split at hs
      · cases hs
      · simp only [Option.some.injEq, exec, Prod.mk.injEq] at hs
        rw [← hs.1]; simp only []
        rw [List.getElem?_set_ne ha]
    · cases hs

/-- one atomic operation of thread `t` standing at `pc` -/
theorem step_self {s s' : State} {r : Option Ret} {t : Nat} {pc : PC} (ht : s.threads[t]? = some pc)
    (hs : step s (.step t) = some (s', r)) :
    pc ≠ .idle ∧ s'.sh = (tstep s.sh pc).1 ∧ s'.threads[t]? = some (tstep s.sh pc).2.1 ∧ r = (tstep s.sh pc).2.2 := by
  simp only [step, ht] at hs
  split at hs
  · cases hs
  · rename_i hne
    simp only [Option.some.injEq, exec, Prod.mk.injEq] at hs
    refine ⟨hne, by rw [← hs.1], ?_, hs.2.symm⟩
    rw [← hs.1]; simp only []
    rw [get_set ht]; simp

theorem nextWord_ret (n off i : Nat) (r : Ret) (h : (nextWord n off i).2 = some r) : (nextWord n off i).1 = .idle := by
  unfold nextWord at h ⊢
  split at h
  · cases h
  · rename_i hlt; simp only [hlt, ↓reduceIte]

theorem afterLoad_ret (n off i j : Nat) (b : Word) (r : Ret) (h : (afterLoad n off i j b).2 = some r) :
    (afterLoad n off i j b).1 = .idle := by
  unfold afterLoad at h ⊢
  cases hfc : firstClear b j with
  | some j' => rw [hfc] at h; cases h
  | none => rw [hfc] at h; exact nextWord_ret n off i r h

/-- a call that returns leaves its thread idle -/
theorem tstep_ret_idle (sh : Shared) (pc : PC) (r : Ret) (h : (tstep sh pc).2.2 = some r) : (tstep sh pc).2.1 = .idle := by
  cases pc with
  | idle => rfl
  | g1 => simp [tstep] at h
  | g2 o => simp only [tstep] at h; split at h <;> cases h
  | g3 => simp [tstep] at h
  | g4 off i =>
    simp only [tstep] at h ⊢
    split at h
    · rename_i hb; simp only [hb, ↓reduceIte]; exact nextWord_ret _ _ _ r h
    · rename_i hb; simp only [hb, ↓reduceIte]; exact afterLoad_ret _ _ _ _ _ r h
  | g5 off i j b => simp only [tstep] at h; split at h <;> cases h
  | g6 off i j => simp only [tstep] at h ⊢; exact afterLoad_ret _ _ _ _ _ r h
  | g7 id => rfl
  | c8 id => simp only [tstep] at h ⊢; split <;> (try split) <;> simp_all
  | c9 id b => simp only [tstep] at h; split at h <;> cases h
  | c10 id => simp only [tstep] at h ⊢; split <;> simp_all
  | c11 id => rfl
  | a12 => rfl

/-- an idle thread that is not given a new call stays idle -/
theorem idle_stays {t : Nat} (as : List Action) : ∀ (s s' : State) (vis : List State),
    s.threads[t]? = some .idle → (∀ a, a ∈ as → startsCall t a = false) → runVis s as = some (s', vis) →
    s'.threads[t]? = some .idle := by
  induction as with
  | nil => intro s s' vis ht _ h; simp only [runVis, Option.some.injEq, Prod.mk.injEq] at h; rw [← h.1]; exact ht
  | cons a as ih =>
    intro s s' vis ht hns h
    simp only [runVis] at h
    split at h
    · rename_i s1 r hs
      cases hr : runVis s1 as with
      | none => rw [hr] at h; cases h
      | some p =>
        rw [hr] at h
        simp only [Option.map_some, Option.some.injEq, Prod.mk.injEq] at h
        rw [← h.1]
        by_cases ha : actor a = t
        · -- an action of the idle thread itself: only `.step t` is possible, and it is not enabled
          exfalso
          cases a with
          | start u op =>
            have := hns (.start u op) (by simp)
            simp only [actor] at ha
            simp [startsCall, ha] at this
          | step u =>
            simp only [actor] at ha; subst ha
            exact (step_self ht hs).1 rfl
        · have := (step_other hs ha).1
          exact ih s1 p.1 p.2 (by rw [this]; exact ht) (fun a' ha' => hns a' (by simp [ha'])) (by rw [hr])
    · cases h

/-- the scan invariant of `Proofs/C08Exhaust` carried along a schedule of the whole machine -/
theorem run_exhausted {n t : Nat} (hn : 0 < n) (as : List Action) :
    ∀ (s s2 s3 : State) (vis : List State) (pc : PC) (W : Nat → Prop),
      s.threads[t]? = some pc → scanInv n W pc → s.sh.words.length = n →
      (∀ a, a ∈ as → startsCall t a = false) → runVis s as = some (s2, vis) →
      step s2 (.step t) = some (s3, some (.stream 0 false)) →
      ∀ id, id < 64 * n → W id ∨ ∃ s', s' ∈ vis ++ [s2] ∧ bitAt s'.sh.words id = true := by
  induction as with
  | nil =>
    intro s s2 s3 vis pc W ht hinv hlen _ h hlast id hid
    simp only [runVis, Option.some.injEq, Prod.mk.injEq] at h
    obtain ⟨h1, h2⟩ := h
    subst h1; subst h2
    obtain ⟨_, _, _, hr⟩ := step_self ht hlast
    rcases scan_step hn W s.sh hlen pc hinv with ⟨h1, _⟩ | ⟨_, h2⟩ | ⟨x, h1⟩
    · rw [← hr] at h1; cases h1
    · rcases h2 id hid with h | h
      · exact Or.inl h
      · exact Or.inr ⟨s, by simp, h⟩
    · rw [← hr] at h1; cases h1
  | cons a as ih =>
    intro s s2 s3 vis pc W ht hinv hlen hns h hlast id hid
    simp only [runVis] at h
    split at h
    · rename_i s1 r hs
      cases hr : runVis s1 as with
      | none => rw [hr] at h; cases h
      | some p =>
        rw [hr] at h
        simp only [Option.map_some, Option.some.injEq, Prod.mk.injEq] at h
        obtain ⟨h1, h2⟩ := h
        subst h1; subst h2
        have hns' : ∀ a', a' ∈ as → startsCall t a' = false := fun a' ha' => hns a' (by simp [ha'])
        by_cases ha : actor a = t
        · cases a with
          | start u op =>
            exfalso
            have := hns (.start u op) (by simp)
            simp only [actor] at ha
            simp [startsCall, ha] at this
          | step u =>
            simp only [actor] at ha; subst ha
            obtain ⟨_, hsh, hpc, hret⟩ := step_self ht hs
            have hlen1 : s1.sh.words.length = n := by rw [(step_length hs).1]; exact hlen
            rcases scan_step hn W s.sh hlen pc hinv with ⟨_, h2⟩ | ⟨_, h2⟩ | ⟨x, h1⟩
            · -- the call goes on: what the loaded value showed is added to `W`
              rcases ih s1 p.1 s3 p.2 _ _ hpc h2 hlen1 hns' (by rw [hr]) hlast id hid with h | ⟨s', hs', hb⟩
              · rcases h with h | h
                · exact Or.inl h
                · exact Or.inr ⟨s, by simp, h⟩
              · exact Or.inr ⟨s', by simp only [List.cons_append, List.mem_cons]; exact Or.inr hs', hb⟩
            · rcases h2 id hid with h | h
              · exact Or.inl h
              · exact Or.inr ⟨s, by simp, h⟩
            · -- the call returned an id: the thread is idle and cannot take the final step
              exfalso
              have hidle := tstep_ret_idle s.sh pc _ h1
              rw [hidle] at hpc
              have := idle_stays as s1 p.1 p.2 hpc hns' (by rw [hr])
              exact (step_self this hlast).1 rfl
        · obtain ⟨hth, hl⟩ := step_other hs ha
          rcases ih s1 p.1 s3 p.2 pc W (by rw [hth]; exact ht) hinv (by rw [hl]; exact hlen) hns' (by rw [hr]) hlast id hid
            with h | ⟨s', hs', hb⟩
          · exact Or.inl h
          · exact Or.inr ⟨s', by simp only [List.cons_append, List.mem_cons]; exact Or.inr hs', hb⟩
    · cases h

end C08
