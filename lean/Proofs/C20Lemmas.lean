import Model.TlsAuth
/-! helper lemmas for C20 -/
namespace TlsAuth

/-! ### host part of the dialled address -/

theorem beforeLastColon_none (l : List UInt8) (h : colon ∉ l) : beforeLastColon l = none := by
  induction l with
  | nil => rfl
  | cons c cs ih =>
    have h1 : c ≠ colon := fun e => h (by simp [e])
    have h2 : colon ∉ cs := fun m => h (List.mem_cons_of_mem _ m)
    simp [beforeLastColon, ih h2, h1]

theorem beforeLastColon_split (pre post : List UInt8) (h : colon ∉ post) :
    beforeLastColon (pre ++ colon :: post) = some pre := by
  induction pre with
  | nil => simp [beforeLastColon, beforeLastColon_none post h]
  | cons c cs ih => simp [beforeLastColon, ih]

theorem beforeLastColon_none_iff (l : List UInt8) (h : beforeLastColon l = none) : colon ∉ l := by
  induction l with
  | nil => simp
  | cons c cs ih =>
    simp only [beforeLastColon] at h
    cases hb : beforeLastColon cs with
    | some q => rw [hb] at h; cases h
    | none =>
      rw [hb] at h
      by_cases hc : c = colon
      · simp [hc] at h
      · intro m
        rcases List.mem_cons.mp m with e | m'
        · exact hc e.symm
        · exact ih hb m'

theorem beforeLastColon_some (l p : List UInt8) (h : beforeLastColon l = some p) :
    ∃ post, l = p ++ colon :: post ∧ colon ∉ post := by
  induction l generalizing p with
  | nil => cases h
  | cons c cs ih =>
    simp only [beforeLastColon] at h
    cases hb : beforeLastColon cs with
    | some q =>
      rw [hb] at h; cases h
      obtain ⟨post, e, hp⟩ := ih q hb
      exact ⟨post, by simp [e], hp⟩
    | none =>
      rw [hb] at h
      by_cases hc : c = colon
      · simp [hc] at h; subst h
        exact ⟨cs, by simp [hc], beforeLastColon_none_iff cs hb⟩
      · simp [hc] at h

theorem hostPart_split (pre post : List UInt8) (h : colon ∉ post) : hostPart (pre ++ colon :: post) = pre := by
  simp [hostPart, beforeLastColon_split pre post h]

theorem hostPart_nocolon (l : List UInt8) (h : colon ∉ l) : hostPart l = l := by
  simp [hostPart, beforeLastColon_none l h]

/-! ### SASL PLAIN -/

theorem takeWhile_append_sep (u rest : List UInt8) (h : (0 : UInt8) ∉ u) :
    (u ++ 0 :: rest).takeWhile (· != 0) = u ∧ (u ++ 0 :: rest).dropWhile (· != 0) = 0 :: rest := by
  induction u with
  | nil => simp
  | cons a as ih =>
    have h1 : a ≠ 0 := fun e => h (by simp [e])
    have h2 : (0 : UInt8) ∉ as := fun m => h (List.mem_cons_of_mem _ m)
    obtain ⟨i1, i2⟩ := ih h2
    constructor
    · simp only [List.cons_append, List.takeWhile_cons, bne_iff_ne, ne_eq, h1, not_false_eq_true, if_true]
      rw [i1]
    · simp only [List.cons_append, List.dropWhile_cons, bne_iff_ne, ne_eq, h1, not_false_eq_true, if_true]
      rw [i2]

theorem decodePlain_plainToken (user pass : List UInt8) (h : (0 : UInt8) ∉ user) :
    Spec.decodePlain (plainToken user pass) = some (user, pass) := by
  obtain ⟨h1, h2⟩ := takeWhile_append_sep user pass h
  simp only [plainToken, List.cons_append, Spec.decodePlain, Spec.splitAtNul, if_true]
  rw [h1, h2]

/-! ### connection start-up -/

@[simp] theorem Trace.stop_sent (o : Outcome) : (Trace.stop o).sent = [] := rfl
@[simp] theorem Trace.stop_calls (o : Outcome) : (Trace.stop o).calls = [] := rfl
@[simp] theorem Trace.stop_provCalls (o : Outcome) : (Trace.stop o).provCalls = [] := rfl
@[simp] theorem Trace.stop_outcome (o : Outcome) : (Trace.stop o).outcome = o := rfl
@[simp] theorem Trace.pre_sent (s : List Sent) (c : List Call) (t : Trace) : (t.pre s c).sent = s ++ t.sent := rfl
@[simp] theorem Trace.pre_calls (s : List Sent) (c : List Call) (t : Trace) : (t.pre s c).calls = c ++ t.calls := rfl
@[simp] theorem Trace.pre_provCalls (s : List Sent) (c : List Call) (t : Trace) : (t.pre s c).provCalls = t.provCalls := rfl
@[simp] theorem Trace.pre_outcome (s : List Sent) (c : List Call) (t : Trace) : (t.pre s c).outcome = t.outcome := rfl

/-- the tokens of the AUTH_RESPONSE frames among what was sent -/
def tokens (l : List Sent) : List (List UInt8) :=
  l.filterMap (fun x => match x with | .authResponse t => some t | _ => none)

@[simp] theorem tokens_nil : tokens [] = [] := rfl
@[simp] theorem tokens_options (l : List Sent) : tokens (.options :: l) = tokens l := rfl
@[simp] theorem tokens_startup (l : List Sent) : tokens (.startup :: l) = tokens l := rfl
@[simp] theorem tokens_resp (t : List UInt8) (l : List Sent) : tokens (.authResponse t :: l) = t :: tokens l := rfl

theorem mem_tokens (l : List Sent) (t : List UInt8) : t ∈ tokens l ↔ Sent.authResponse t ∈ l := by
  induction l with
  | nil => simp
  | cons x xs ih => cases x <;> simp [ih]

/-- the challenge loop never calls anything and never sends anything once the challenger is nil -/
theorem authLoop_none (fs : List SFrame) :
    (authLoop none fs).sent = [] ∧ (authLoop none fs).calls = [] ∧ (authLoop none fs).provCalls = [] := by
  rcases fs with _ | ⟨f, fs⟩
  · exact ⟨rfl, rfl, rfl⟩
  · cases f <;> exact ⟨rfl, rfl, rfl⟩

theorem authLoop_provCalls (chal : Option AuthImpl) (fs : List SFrame) : (authLoop chal fs).provCalls = [] := by
  induction fs generalizing chal with
  | nil => rfl
  | cons f fs ih =>
    cases f <;> try rfl
    · rcases chal with _ | a
      · rfl
      · simp only [authLoop]
        cases h : a.challenge _ with
        | error e => rfl
        | ok r => obtain ⟨resp, next⟩ := r; simp [ih]
    · rcases chal with _ | a <;> rfl

/-- the loop ends `ready` only on an AUTH_SUCCESS frame -/
theorem authLoop_ready (chal : Option AuthImpl) (fs : List SFrame) (h : (authLoop chal fs).outcome = .ready) :
    ∃ d, SFrame.authSuccess d ∈ fs := by
  induction fs generalizing chal with
  | nil => cases h
  | cons f fs ih =>
    cases f <;> try (cases h)
    · rename_i d
      rcases chal with _ | a
      · cases h
      · simp only [authLoop] at h
        cases hc : a.challenge d with
        | error e =>
          rw [hc] at h; simp at h; subst h
          cases a with
          | pw p => simp only [AuthImpl.challenge] at hc; split at hc <;> cases hc
          | custom rs sf =>
            rcases rs with _ | ⟨r, rs⟩
            · cases hc
            · simp only [AuthImpl.challenge] at hc; split at hc <;> cases hc
        | ok r =>
          obtain ⟨resp, next⟩ := r
          rw [hc] at h
          obtain ⟨d', hd⟩ := ih next (by simpa using h)
          exact ⟨d', List.mem_cons_of_mem _ hd⟩
    · rename_i d; exact ⟨d, by simp⟩

/-- an error from `Challenge` is never `ready` / `crash` -/
theorem challenge_error (a : AuthImpl) (req : List UInt8) (e : Outcome) (h : a.challenge req = .error e) :
    e = .errUnapproved ∨ e = .errAuthenticator := by
  cases a with
  | pw p => simp only [AuthImpl.challenge] at h; split at h <;> cases h; exact Or.inl rfl
  | custom rs sf =>
    rcases rs with _ | ⟨r, rs⟩
    · cases h; exact Or.inr rfl
    · simp only [AuthImpl.challenge] at h; split at h <;> cases h; exact Or.inr rfl

/-- the authentication loop never kills the process, whatever the challenger chain and the frames -/
theorem authLoop_noCrash (chal : Option AuthImpl) (fs : List SFrame) : (authLoop chal fs).outcome ≠ .crash := by
  induction fs generalizing chal with
  | nil => intro h; cases h
  | cons f fs ih =>
    intro h
    cases f <;> try (cases h)
    · rcases chal with _ | a
      · cases h
      · simp only [authLoop, Trace.pre_outcome] at h
        cases hch : a.challenge _ with
        | error e =>
          rw [hch] at h; simp at h; subst h
          rcases challenge_error a _ _ hch with e | e <;> cases e
        | ok r =>
          obtain ⟨resp, next⟩ := r
          rw [hch] at h
          exact ih next (by simpa using h)
    · rcases chal with _ | a
      · cases h
      · simp only [authLoop, Trace.pre_outcome, Trace.stop_outcome] at h
        cases a with
        | pw p => cases h
        | custom rs sf => simp only [AuthImpl.success] at h; split at h <;> cases h

/-- what a caller-supplied authenticator's challengers hand out, in order -/
theorem authLoop_custom_tokens (rs : List Round) (sf : Bool) (fs : List SFrame) :
    tokens (authLoop (some (.custom rs sf)) fs).sent <+: rs.map (·.resp) := by
  induction fs generalizing rs with
  | nil => exact List.nil_prefix
  | cons f fs ih =>
    cases f <;> try exact List.nil_prefix
    rename_i d
    rcases rs with _ | ⟨r, rs⟩
    · exact List.nil_prefix
    · simp only [authLoop, AuthImpl.challenge]
      by_cases hf : r.fail = true
      · simp [hf]
      · simp only [hf, Bool.false_eq_true, if_false]
        by_cases hl : r.last = true
        · simp [hl, (authLoop_none fs).1]
        · simp only [hl, Bool.false_eq_true, if_false, Trace.pre_sent, List.cons_append, List.nil_append, tokens_resp,
            List.map_cons]
          exact List.prefix_cons_inj r.resp |>.mpr (ih rs)

/-- the requests passed to `Challenge`, in order -/
def challengeReqs (l : List Call) : List (List UInt8) :=
  l.filterMap (fun x => match x with | .challenge r => some r | _ => none)

@[simp] theorem challengeReqs_nil : challengeReqs [] = [] := rfl
@[simp] theorem challengeReqs_chal (r : List UInt8) (l : List Call) : challengeReqs (.challenge r :: l) = r :: challengeReqs l := rfl
@[simp] theorem challengeReqs_succ (d : List UInt8) (l : List Call) : challengeReqs (.success d :: l) = challengeReqs l := rfl

/-- payloads of the AUTH_CHALLENGE frames the server sends in a row -/
def leadingChallenges : List SFrame → List (List UInt8)
  | .authChallenge d :: rest => d :: leadingChallenges rest
  | _ => []

/-- `Challenge` is called with what the server sent, in order -/
theorem authLoop_reqs (chal : Option AuthImpl) (fs : List SFrame) :
    challengeReqs (authLoop chal fs).calls <+: leadingChallenges fs := by
  induction fs generalizing chal with
  | nil => exact List.nil_prefix
  | cons f fs ih =>
    cases f <;> try exact List.nil_prefix
    · rename_i d
      rcases chal with _ | a
      · exact List.nil_prefix
      · simp only [authLoop, leadingChallenges]
        cases a.challenge d with
        | error e => simp
        | ok r =>
          obtain ⟨resp, next⟩ := r
          simpa [List.prefix_cons_inj] using ih next
    · rcases chal with _ | a
      · exact List.nil_prefix
      · simp [authLoop, leadingChallenges]

/-- with an authenticator whose `Success` fails, `ready` is reached only when `Success` was never called
    (the chain had ended with a nil challenger) -/
theorem authLoop_success_fails (chal : Option AuthImpl) (fs : List SFrame)
    (hc : ∀ a, chal = some a → ∃ rs, a = .custom rs true)
    (h : (authLoop chal fs).outcome = .ready) : ∀ d, Call.success d ∉ (authLoop chal fs).calls := by
  induction fs generalizing chal with
  | nil => cases h
  | cons f fs ih =>
    cases f <;> try (cases h)
    · rename_i d
      rcases chal with _ | a
      · cases h
      · obtain ⟨rs, rfl⟩ := hc a rfl
        rcases rs with _ | ⟨r, rs⟩
        · simp [authLoop, AuthImpl.challenge] at h
        · simp only [authLoop, AuthImpl.challenge] at h ⊢
          by_cases hf : r.fail = true
          · simp [hf] at h
          · simp only [hf, Bool.false_eq_true, if_false, Trace.pre_outcome] at h
            simp only [hf, Bool.false_eq_true, if_false, Trace.pre_calls]
            intro d' hm
            simp only [List.cons_append, List.nil_append, List.mem_cons, reduceCtorEq, false_or] at hm
            refine ih _ ?_ h d' hm
            intro a ha
            by_cases hl : r.last = true
            · simp [hl] at ha
            · simp only [hl, Bool.false_eq_true, if_false, Option.some.injEq] at ha
              exact ⟨rs, ha.symm⟩
    · rcases chal with _ | a
      · intro d; simp [authLoop]
      · obtain ⟨rs, rfl⟩ := hc a rfl
        simp [authLoop, AuthImpl.success] at h

end TlsAuth
