import Model.TlsAuth
/-! helper lemmas for C20 -/
namespace TlsAuth

/-! ### host part of the dialled address -/

theorem beforeLastColon_none (l : List UInt8) (h : colon ∉ l) : beforeLastColon l = none := by
  induction l with
  | nil => rfl
  | cons c cs ih =>
    have h1 : c ≠ colon := fun e => h (by simp [e])
    have h2 : colon ∉ cs := fun m => h (List.mem_cons_of_mem _ m)
    simp [beforeLastColon, ih h2, h1]

theorem beforeLastColon_split (pre post : List UInt8) (h : colon ∉ post) :
    beforeLastColon (pre ++ colon :: post) = some pre := by
  induction pre with
  | nil => simp [beforeLastColon, beforeLastColon_none post h]
  | cons c cs ih => simp [beforeLastColon, ih]

theorem beforeLastColon_none_iff (l : List UInt8) (h : beforeLastColon l = none) : colon ∉ l := by
  induction l with
  | nil => simp
  | cons c cs ih =>
    simp only [beforeLastColon] at h
    cases hb : beforeLastColon cs with
    | some q => rw [hb] at h; cases h
    | none =>
      rw [hb] at h
      by_cases hc : c = colon
      · simp [hc] at h
      · intro m
        rcases List.mem_cons.mp m with e | m'
        · exact hc e.symm
        · exact ih hb m'

theorem beforeLastColon_some (l p : List UInt8) (h : beforeLastColon l = some p) :
    ∃ post, l = p ++ colon :: post ∧ colon ∉ post := by
  induction l generalizing p with
  | nil => cases h
  | cons c cs ih =>
    simp only [beforeLastColon] at h
    cases hb : beforeLastColon cs with
    | some q =>
      rw [hb] at h; cases h
      obtain ⟨post, e, hp⟩ := ih q hb
      exact ⟨post, by simp [e], hp⟩
    | none =>
      rw [hb] at h
      by_cases hc : c = colon
      · simp [hc] at h; subst h
        exact ⟨cs, by simp [hc], beforeLastColon_none_iff cs hb⟩
      · simp [hc] at h

theorem hostPart_split (pre post : List UInt8) (h : colon ∉ post) : hostPart (pre ++ colon :: post) = pre := by
  simp [hostPart, beforeLastColon_split pre post h]

theorem hostPart_nocolon (l : List UInt8) (h : colon ∉ l) : hostPart l = l := by
  simp [hostPart, beforeLastColon_none l h]

/-! ### SASL PLAIN -/

theorem takeWhile_append_sep (u rest : List UInt8) (h : (0 : UInt8) ∉ u) :
    (u ++ 0 :: rest).takeWhile (· != 0) = u ∧ (u ++ 0 :: rest).dropWhile (· != 0) = 0 :: rest := by
  induction u with
  | nil => simp
  | cons a as ih =>
    have h1 : a ≠ 0 := fun e => h (by simp [e])
    have h2 : (0 : UInt8) ∉ as := fun m => h (List.mem_cons_of_mem _ m)
    obtain ⟨i1, i2⟩ := ih h2
    constructor
    · simp only [List.cons_append, List.takeWhile_cons, bne_iff_ne, ne_eq, h1, not_false_eq_true, if_true]
      rw [i1]
    · simp only [List.cons_append, List.dropWhile_cons, bne_iff_ne, ne_eq, h1, not_false_eq_true, if_true]
      rw [i2]

theorem decodePlain_plainToken (user pass : List UInt8) (h : (0 : UInt8) ∉ user) :
    Spec.decodePlain (plainToken user pass) = some (user, pass) := by
  obtain ⟨h1, h2⟩ := takeWhile_append_sep user pass h
  simp only [plainToken, List.cons_append, Spec.decodePlain, Spec.splitAtNul, if_true]
  rw [h1, h2]

end TlsAuth
