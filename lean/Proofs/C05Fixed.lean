import Proofs.C05TypeStr
import Proofs.C05Frame
import Proofs.C05Rows
import Proofs.C05DispatchFixed
import Proofs.C05ValueFixed
import Model.TypeStrFixed
import Model.FrameCrashFixed
import Model.RowsCrashFixed
/-!
# C05 with the proposed fixes applied (props/C05.fix-*.diff): the FULL theorems, no exclusions.

NOT listed in props/C05.json: after the integrator commits the fixes, these replace the `_partial`
theorems and the counterexample theorems of Proofs/C05.lean, and `Driver.C05.init` becomes `true`.
The fixed models were validated against a patched copy of the repository (`VERIF_C05_FIXED=1`).
-/
namespace C05Fixed

/-- every byte string: parseType returns (fix-1) -/
theorem C05_typestrings_total (s : TypeStr.Str) : (TypeStrFixed.parseType s).crashSite = none := by
  cases hc : TypeStrFixed.parseType s with
  | crash x => exact absurd hc (C05TypeStr.parseType_fixed_noCrash s x)
  | _ => rfl

/-- fix-8: the translated class string is at most 18 times as long as the input (the unchanged
function grows exponentially: C05.C05_cex_typestring_alloc) -/
theorem C05_typestring_alloc_bound (t : TypeStr.Str) :
    (TypeStr.apacheToCassandraTypeFx true t).length ≤ 18 * t.length := C05TypeStr.apacheFixed_len t

/-- every version, direction, flags, opcode and body: parseFrame raises no run-time panic (fix-2, fix-3) -/
theorem C05_frame_total (proto : Nat) (resp : Bool) (flags op : Nat) (body : FrameCrash.Bytes) :
    (FrameCrashFixed.parseFrame proto resp flags op body).crashSite = none := by
  cases hc : (FrameCrashFixed.parseFrame proto resp flags op body).crashSite with
  | none => rfl
  | some s =>
    have := (C05Frame.parseFrame_known true proto resp flags op body s hc).2
    cases this

/-- every result body: row iteration ends in rows or an error (fix-4, fix-5, readBytes fix) -/
theorem C05_rows_total (proto flags : Nat) (body : FrameCrash.Bytes) (o : RowsCrash.ROut)
    (ho : RowsCrashFixed.iterate proto flags body = some o) : o.crashSite = none := by
  cases hc : o.crashSite with
  | none => rfl
  | some s =>
    unfold RowsCrashFixed.iterate RowsCrash.iterate at ho
    split at ho
    · rename_i m n st hp
      cases ho
      have hm := C05Rows.parsed_meta_ok true proto true flags 8 body m n st hp
      have := (C05Rows.scanAll_known true m hm n st.buf s hc).2
      cases this
    · cases ho

/-- every (proto, type tree, destination, bytes): Unmarshal returns (fix-6, 10-15); the fixes are
conservative (`C05Value.C05_fixed_conservative`: ok stays ok, err stays err) and bound the
element allocation by the bytes left (`C05Value.C05_alloc_bound_fixed`) -/
theorem C05_values_total (proto : Nat) (t : CrashValue.CT) (dst : CrashValue.Dest) (data : Option CrashValue.Bytes) :
    ∀ s, CrashValueFixed.unmarshal proto t dst data ≠ .crash s :=
  C05Value.C05_values_total_fixed proto t dst data

/-- dispatch: the full theorems are `C05DispatchFixed.C05_dispatch_total`, `C05_stream_total`,
`C05_handshake_total` (Proofs/C05DispatchFixed.lean). -/
theorem C05_dispatch_total (s : Dispatch.Site) (k : Dispatch.FrameKind) :
    (Dispatch.dispatch true s k).isCrash = false := C05DispatchFixed.C05_dispatch_total s k

end C05Fixed
