import Proofs.C08Step
/-! C08: the sequential big-step semantics (`getStream`, `clear` = one thread running alone) -/
namespace C08
open Streams

/-! ### running one thread alone, step by step -/

theorem runThread_ret {f : Nat} {sh sh' : Shared} {pc pc' : PC} {r : Ret}
    (h : tstep sh pc = (sh', pc', some r)) : runThread (f + 1) sh pc = (sh', some r) := by
  simp only [runThread, h]

theorem runThread_cont {f : Nat} {sh sh' : Shared} {pc pc' : PC}
    (h : tstep sh pc = (sh', pc', none)) : runThread (f + 1) sh pc = runThread f sh' pc' := by
  simp only [runThread, h]

/-! ### Clear -/

theorem clear_oob (sh : Shared) (id : Nat) (h : ¬ id / 64 < sh.words.length) :
    clear sh id = (sh, some (.cleared false)) := by
  have h' : ¬ bucketOffset id < sh.words.length := h
  have e1 : tstep sh (.c8 id) = (sh, .idle, some (.cleared false)) := by simp only [tstep, h', ↓reduceIte]
  simp only [clear, seqOp, startPC]
  rw [runThread_ret e1]

theorem clear_free (sh : Shared) (id : Nat) (h : id / 64 < sh.words.length) (hb : bitAt sh.words id = false) :
    clear sh id = (sh, some (.cleared false)) := by
  have h' : bucketOffset id < sh.words.length := h
  have hb' : (sh.words.getD (bucketOffset id) 0).getLsbD (streamOffset id) = false := hb
  have hne : sh.words.getD (bucketOffset id) 0 &&& mask id ≠ mask id := (and_mask_ne_mask _ _).mpr hb'
  have e1 : tstep sh (.c8 id) = (sh, .idle, some (.cleared false)) := by
    simp only [tstep, h', ↓reduceIte, if_pos hne]
  simp only [clear, seqOp, startPC]
  rw [runThread_ret e1]

theorem clear_inuse (sh : Shared) (id : Nat) (h : id / 64 < sh.words.length) (hb : bitAt sh.words id = true) :
    clear sh id = ({ sh with words := clrBit sh.words id, inuse := sh.inuse - 1 },
                   some (if sh.inuse - 1 < 0 then .crashNegative else .cleared true)) := by
  have h' : bucketOffset id < sh.words.length := h
  have hb' : (sh.words.getD (bucketOffset id) 0).getLsbD (streamOffset id) = true := hb
  have hne : ¬ (sh.words.getD (bucketOffset id) 0 &&& mask id ≠ mask id) := by
    rw [and_mask_ne_mask, hb']; simp
  have e1 : tstep sh (.c8 id) = (sh, .c9 id (sh.words.getD (bucketOffset id) 0), none) := by
    simp only [tstep, h', ↓reduceIte, if_neg hne]
  have e2 : tstep sh (.c9 id (sh.words.getD (bucketOffset id) 0)) =
      ({ sh with words := clrBit sh.words id }, .c11 id, none) := by
    simp only [tstep, ↓reduceIte]; rfl
  have e3 : tstep { sh with words := clrBit sh.words id } (.c11 id) =
      ({ sh with words := clrBit sh.words id, inuse := sh.inuse - 1 }, .idle,
        some (if sh.inuse - 1 < 0 then .crashNegative else .cleared true)) := by
    simp only [tstep]
  simp only [clear, seqOp, startPC]
  rw [runThread_cont e1, runThread_cont e2, runThread_ret e3]

/-! ### GetStream -/

/-- bit `j` of word `pos` -/
abbrev wbit (ws : List Word) (pos j : Nat) : Bool := (ws.getD pos 0).getLsbD (streamOffset j)

theorem bitAt_eq_wbit (ws : List Word) (id : Nat) : bitAt ws id = wbit ws (id / 64) (id % 64) := by
  unfold bitAt wbit streamOffset; simp

theorem allOnes_bit (j : Nat) : allOnes.getLsbD (streamOffset j) = true := by
  have := streamOffset_lt j
  unfold allOnes
  rw [BitVec.getLsbD_allOnes]; simp [this]

/-- the scan of `GetStream` from word index `i` on, running alone -/
theorem scan_spec (sh : Shared) (off : Nat) (hn : 0 < sh.words.length) :
    ∀ (d i fuel : Nat), i + d = sh.words.length → 1 ≤ d → d + 2 ≤ fuel →
      (∀ i', i' < i → ∀ j, j < 64 → wbit sh.words ((i' + off) % sh.words.length) j = true) →
      (∃ id, id < 64 * sh.words.length ∧ bitAt sh.words id = false ∧
         runThread fuel sh (.g4 off i) =
           ({ sh with words := setBit sh.words id, inuse := sh.inuse + 1 }, some (.stream id true)))
      ∨ ((∀ i', i' < sh.words.length → ∀ j, j < 64 → wbit sh.words ((i' + off) % sh.words.length) j = true) ∧
         runThread fuel sh (.g4 off i) = (sh, some (.stream 0 false))) := by
  intro d
  induction d with
  | zero => intro i fuel _ h; omega
  | succ d ih =>
    intro i fuel hid _ hfuel hpre
    obtain ⟨f, rfl⟩ : ∃ f, fuel = f + 1 := ⟨fuel - 1, by omega⟩
    have hpos : (i + off) % sh.words.length < sh.words.length := Nat.mod_lt _ hn
    -- what happens when word i turns out to be full
    have hnext : (∀ j, j < 64 → wbit sh.words ((i + off) % sh.words.length) j = true) →
        (nextWord sh.words.length off i).2 = none ∨ True →
        (∃ id, id < 64 * sh.words.length ∧ bitAt sh.words id = false ∧
          (match nextWord sh.words.length off i with
            | (_, some r) => (sh, some r)
            | (pc', none) => runThread f sh pc') =
           ({ sh with words := setBit sh.words id, inuse := sh.inuse + 1 }, some (.stream id true)))
        ∨ ((∀ i', i' < sh.words.length → ∀ j, j < 64 → wbit sh.words ((i' + off) % sh.words.length) j = true) ∧
          (match nextWord sh.words.length off i with
            | (_, some r) => (sh, some r)
            | (pc', none) => runThread f sh pc') = (sh, some (.stream 0 false))) := by
      intro hfull _
      have hpre' : ∀ i', i' < i + 1 → ∀ j, j < 64 → wbit sh.words ((i' + off) % sh.words.length) j = true := by
        intro i' hi' j hj
        rcases Nat.lt_or_ge i' i with h | h
        · exact hpre i' h j hj
        · have : i' = i := by omega
          subst this; exact hfull j hj
      unfold nextWord
      by_cases hlast : i + 1 < sh.words.length
      · simp only [hlast, ↓reduceIte]
        exact ih (i + 1) f (by omega) (by omega) (by omega) hpre'
      · simp only [hlast, ↓reduceIte]
        right
        refine ⟨?_, trivial⟩
        intro i' hi'
        exact hpre' i' (by omega)
    generalize hb : sh.words.getD ((i + off) % sh.words.length) 0 = b at *
    have hstep : runThread (f + 1) sh (.g4 off i) =
        (match (if b = allOnes then nextWord sh.words.length off i else afterLoad sh.words.length off i 0 b) with
          | (_, some r) => (sh, some r)
          | (pc', none) => runThread f sh pc') := by
      simp only [runThread, tstep, hb]
      generalize (if b = allOnes then nextWord sh.words.length off i else afterLoad sh.words.length off i 0 b) = x
      obtain ⟨pc', r⟩ := x
      cases r <;> rfl
    rw [hstep]
    by_cases hall : b = allOnes
    · simp only [hall, ↓reduceIte]
      refine hnext ?_ (Or.inr trivial)
      intro j _
      show (sh.words.getD ((i + off) % sh.words.length) 0).getLsbD (streamOffset j) = true
      rw [hb, hall]; exact allOnes_bit j
    · simp only [hall, ↓reduceIte, afterLoad]
      cases hfc : firstClear b 0 with
      | none =>
        simp only []
        refine hnext ?_ (Or.inr trivial)
        intro j hj
        show (sh.words.getD ((i + off) % sh.words.length) 0).getLsbD (streamOffset j) = true
        rw [hb]; exact firstClear_none hfc j (by omega) hj
      | some j =>
        obtain ⟨_, hj, hbit⟩ := firstClear_some hfc
        obtain ⟨f', rfl⟩ : ∃ f', f = f' + 1 := ⟨f - 1, by omega⟩
        obtain ⟨f'', rfl⟩ : ∃ f'', f' = f'' + 1 := ⟨f' - 1, by omega⟩
        left
        have hid1 : streamFromBucket ((i + off) % sh.words.length) j / 64 = (i + off) % sh.words.length := by
          unfold streamFromBucket; omega
        have hso : streamOffset (streamFromBucket ((i + off) % sh.words.length) j) = streamOffset j := by
          unfold streamOffset streamFromBucket; omega
        have hmask : mask (streamFromBucket ((i + off) % sh.words.length) j) = mask j := by unfold mask; rw [hso]
        refine ⟨streamFromBucket ((i + off) % sh.words.length) j, by unfold streamFromBucket; omega, ?_, ?_⟩
        · unfold bitAt; rw [hid1, hso, hb]; exact hbit
        · have e1 : tstep sh (.g5 off i j b) =
              ({ sh with words := setBit sh.words (streamFromBucket ((i + off) % sh.words.length) j) },
               .g7 (streamFromBucket ((i + off) % sh.words.length) j), none) := by
            simp only [tstep, hb, ↓reduceIte]
            unfold setBit; rw [hid1, hmask, hb]
          have e2 : tstep { sh with words := setBit sh.words (streamFromBucket ((i + off) % sh.words.length) j) }
              (.g7 (streamFromBucket ((i + off) % sh.words.length) j)) =
              ({ sh with words := setBit sh.words (streamFromBucket ((i + off) % sh.words.length) j),
                         inuse := sh.inuse + 1 }, .idle,
               some (.stream (streamFromBucket ((i + off) % sh.words.length) j) true)) := by
            simp only [tstep]
          simp only []
          rw [runThread_cont e1, runThread_ret e2]

/-- rotation by `off` visits every word -/
theorem rotation_surj {n off : Nat} (hoff : off < n) (P : Nat → Prop)
    (h : ∀ i', i' < n → P ((i' + off) % n)) : ∀ pos, pos < n → P pos := by
  intro pos hpos
  by_cases hge : off ≤ pos
  · have := h (pos - off) (by omega)
    rwa [show pos - off + off = pos by omega, Nat.mod_eq_of_lt hpos] at this
  · have := h (pos + n - off) (by omega)
    rwa [show pos + n - off + off = pos + n by omega, Nat.add_mod_right, Nat.mod_eq_of_lt hpos] at this

/-- sequential `GetStream`: either it acquires an id that was free, or every id is in use -/
theorem getStream_spec (sh : Shared) (hn : 0 < sh.words.length) :
    (∃ id, id < 64 * sh.words.length ∧ bitAt sh.words id = false ∧
       getStream sh = ({ words := setBit sh.words id, inuse := sh.inuse + 1,
                         offset := nextOffset sh.words.length sh.offset }, some (.stream id true)))
    ∨ ((∀ id, id < 64 * sh.words.length → bitAt sh.words id = true) ∧
       getStream sh = ({ sh with offset := nextOffset sh.words.length sh.offset }, some (.stream 0 false))) := by
  have hoff : nextOffset sh.words.length sh.offset < sh.words.length := Nat.mod_lt _ hn
  have key := scan_spec { sh with offset := nextOffset sh.words.length sh.offset } (nextOffset sh.words.length sh.offset)
    hn sh.words.length 0 (sh.words.length + 2) (by simp) hn (by simp) (by intro i' h; omega)
  have hrun : getStream sh = runThread (sh.words.length + 2)
      { sh with offset := nextOffset sh.words.length sh.offset } (.g4 (nextOffset sh.words.length sh.offset) 0) := by
    have e1 : tstep sh .g1 = (sh, .g2 sh.offset, none) := by simp only [tstep]
    have e2 : tstep sh (.g2 sh.offset) = ({ sh with offset := nextOffset sh.words.length sh.offset },
        .g4 (nextOffset sh.words.length sh.offset) 0, none) := by simp only [tstep, ↓reduceIte]
    simp only [getStream, seqOp, startPC]
    rw [runThread_cont e1, runThread_cont e2]
  rw [hrun]
  rcases key with ⟨id, h1, h2, h3⟩ | ⟨h1, h2⟩
  · left; exact ⟨id, h1, h2, h3⟩
  · right
    refine ⟨?_, h2⟩
    intro id hid
    rw [bitAt_eq_wbit]
    have hall := rotation_surj hoff
      (fun pos => ∀ j, j < 64 → wbit sh.words pos j = true) h1 (id / 64) (by omega)
    exact hall (id % 64) (by omega)

end C08
