import Model.Ring
import Proofs.C16Ring
import Proofs.C16Refresh
import Proofs.C16Index
/-! helper lemmas: `ring.addOrUpdate` on a stored host whose node address is changed by `HostInfo.update`
(repaired for KF-C16-5: the by-address index is re-keyed) -/
namespace C16
open Ring

theorem updateStored_of_none (r : Ring.Ring) (id a c : Nat) (hn : lookup r.byId id = none) : r.updateStored id a c = r := by
  unfold Ring.updateStored; rw [hn]

theorem updateStored_of_some (r : Ring.Ring) (id a c : Nat) (h : RHost) (hs : lookup r.byId id = some h) :
    r.updateStored id a c =
      { byId := r.byId.map (fun e => if e.1 == id then (e.1, ({ h with addr := a, caddr := c } : RHost)) else e),
        byIp := if a == h.addr then r.byIp
                else put (if lookup r.byIp h.addr = some id then erase r.byIp h.addr else r.byIp) a id,
        list := r.list.map (fun x => if x == h then ({ h with addr := a, caddr := c } : RHost) else x) } := by
  unfold Ring.updateStored; rw [hs]

theorem keys_updateStored (r : Ring.Ring) (id a c : Nat) : keys (r.updateStored id a c).byId = keys r.byId := by
  cases hl : lookup r.byId id with
  | none => rw [updateStored_of_none r id a c hl]
  | some h =>
    rw [updateStored_of_some r id a c h hl]
    simp only [keys, List.map_map]
    apply List.map_congr_left
    intro e _
    simp only [Function.comp]
    split <;> rfl

theorem mem_updateStored (r : Ring.Ring) (id a c : Nat) (h : RHost) (hs : lookup r.byId id = some h) (e' : Nat × RHost) :
    e' ∈ (r.updateStored id a c).byId ↔
      (e' ∈ r.byId ∧ e'.1 ≠ id) ∨ (e' = (id, ({ h with addr := a, caddr := c } : RHost))) := by
  rw [updateStored_of_some r id a c h hs]
  simp only [List.mem_map]
  constructor
  · rintro ⟨e, he, rfl⟩
    by_cases hk : e.1 = id
    · right; simp [hk]
    · left; simp [hk, he]
  · rintro (⟨he, hk⟩ | rfl)
    · exact ⟨e', he, by simp [hk]⟩
    · exact ⟨(id, h), lookup_some_mem _ _ _ hs, by simp⟩

theorem WF_updateStored (r : Ring.Ring) (hw : WF r.byId) (id a c : Nat) : WF (r.updateStored id a c).byId := by
  cases hl : lookup r.byId id with
  | none => rw [updateStored_of_none r id a c hl]; exact hw
  | some h =>
    intro e' he'
    rcases (mem_updateStored r id a c h hl e').mp he' with ⟨he, _⟩ | rfl
    · exact hw e' he
    · exact hw (id, h) (lookup_some_mem _ _ _ hl)

theorem NoStale_updateStored (r : Ring.Ring) (hn : (keys r.byId).Nodup) (hs : NoStale r) (id a c : Nat) :
    NoStale (r.updateStored id a c) := by
  cases hl : lookup r.byId id with
  | none => rw [updateStored_of_none r id a c hl]; exact hs
  | some h =>
    have hmem := mem_updateStored r id a c h hl
    have hnew : (id, ({ h with addr := a, caddr := c } : RHost)) ∈ (r.updateStored id a c).byId := (hmem _).mpr (Or.inr rfl)
    have old : ∀ a0 id0, lookup r.byIp a0 = some id0 → (id0 = id → a0 = h.addr) ∧
        (id0 ≠ id → ∃ x, (id0, x) ∈ (r.updateStored id a c).byId ∧ x.addr = a0) := by
      intro a0 id0 hlk
      obtain ⟨x, hx, hxa⟩ := hs a0 id0 hlk
      refine ⟨?_, ?_⟩
      · intro e
        subst e
        have := lookup_of_mem_nodup _ hn (id0, x) hx
        rw [hl] at this
        have hx2 : h = x := Option.some.inj this
        rw [← hxa, hx2]
      · intro hne
        exact ⟨x, (hmem _).mpr (Or.inl ⟨hx, hne⟩), hxa⟩
    intro a0 id0 hlk
    have hby : (r.updateStored id a c).byIp = if a == h.addr then r.byIp
        else put (if lookup r.byIp h.addr = some id then erase r.byIp h.addr else r.byIp) a id := by
      rw [updateStored_of_some r id a c h hl]
    rw [hby] at hlk
    by_cases hsame : a = h.addr
    · simp only [hsame, beq_self_eq_true, ↓reduceIte] at hlk
      by_cases hid : id0 = id
      · have := (old a0 id0 hlk).1 hid
        subst hid
        exact ⟨_, hnew, by simp [hsame, this]⟩
      · exact (old a0 id0 hlk).2 hid
    · have hb : (a == h.addr) = false := by simpa using hsame
      simp only [hb, Bool.false_eq_true, ↓reduceIte] at hlk
      by_cases ha0 : a0 = a
      · subst ha0
        rw [lookup_put_self] at hlk
        cases hlk
        exact ⟨_, hnew, rfl⟩
      · rw [lookup_put_ne _ _ _ _ ha0] at hlk
        by_cases hid : id0 = id
        · exfalso
          subst hid
          split at hlk
          · rename_i hc
            by_cases e : a0 = h.addr
            · subst e; rw [lookup_erase_self] at hlk; cases hlk
            · rw [lookup_erase_ne _ _ _ e] at hlk
              exact e ((old a0 id0 hlk).1 rfl)
          · rename_i hc
            have := (old a0 id0 hlk).1 rfl
            subst this
            exact hc hlk
        · split at hlk
          · by_cases e : a0 = h.addr
            · subst e; rw [lookup_erase_self] at hlk; cases hlk
            · rw [lookup_erase_ne _ _ _ e] at hlk
              exact (old a0 id0 hlk).2 hid
          · exact (old a0 id0 hlk).2 hid

theorem SInv_updateStored (r : Ring.Ring) (hr : SInv r) (id a c : Nat) : SInv (r.updateStored id a c) :=
  ⟨WF_updateStored r hr.wf id a c, by rw [keys_updateStored]; exact hr.knodup, NoStale_updateStored r hr.knodup hr.ns id a c⟩

/-- no host of the ring with another id has the address `a` -/
def AddrFreeFor (r : Ring.Ring) (id a : Nat) : Prop := ∀ e ∈ r.byId, e.2.addr = a → e.1 = id

instance (r : Ring.Ring) (id a : Nat) : Decidable (AddrFreeFor r id a) := by unfold AddrFreeFor; infer_instance

theorem RInv_updateStored (r : Ring.Ring) (hr : RInv r) (id a c : Nat) (hfree : AddrFreeFor r id a) :
    RInv (r.updateStored id a c) := by
  cases hl : lookup r.byId id with
  | none => rw [updateStored_of_none r id a c hl]; exact hr
  | some h =>
    have hmem := mem_updateStored r id a c h hl
    have hin : (id, h) ∈ r.byId := lookup_some_mem _ _ _ hl
    have hby : (r.updateStored id a c).byIp = if a == h.addr then r.byIp
        else put (if lookup r.byIp h.addr = some id then erase r.byIp h.addr else r.byIp) a id := by
      rw [updateStored_of_some r id a c h hl]
    refine ⟨WF_updateStored r hr.wf id a c, by rw [keys_updateStored]; exact hr.knodup, ?_, ?_⟩
    · intro e' he'
      rw [hby]
      rcases (hmem e').mp he' with ⟨he, hk⟩ | rfl
      · have hne : e'.2.addr ≠ a := fun heq => hk (hfree e' he heq)
        have hne2 : e'.2.addr ≠ h.addr := fun heq => hk (hr.uniq e' he (id, h) hin heq)
        split
        · exact hr.ip e' he
        · rw [lookup_put_ne _ _ _ _ hne]
          split
          · rw [lookup_erase_ne _ _ _ hne2]; exact hr.ip e' he
          · exact hr.ip e' he
      · dsimp only
        split
        · rename_i hc
          have : a = h.addr := by simpa using hc
          rw [this]; exact hr.ip (id, h) hin
        · exact lookup_put_self _ _ _
    · intro e1 he1 e2 he2 heq
      rcases (hmem e1).mp he1 with ⟨h1, k1⟩ | rfl <;> rcases (hmem e2).mp he2 with ⟨h2, k2⟩ | rfl
      · exact hr.uniq e1 h1 e2 h2 heq
      · exact hfree e1 h1 heq
      · exact (hfree e2 h2 heq.symm).symm
      · rfl

end C16
