import Gen.Murmur
import Model.Murmur
import Proofs.C09Murmur
/-!
  Tie theorems between the definitions REGENERATED from /repo/internal/murmur/murmur.go by tools/go2lean on every
  run (`Gen.Murmur`) and the hand-written model the C09 theorems are about (`Murmur`). If the Go source changes,
  `Gen/Murmur.lean` changes and these theorems are re-checked against the new text.
-/
namespace GenTie.C09

theorem consts : Gen.Murmur.c1 = Murmur.c1 ∧ Gen.Murmur.c2 = Murmur.c2 ∧
    Gen.Murmur.fmix1 = Murmur.fmix1 ∧ Gen.Murmur.fmix2 = Murmur.fmix2 := ⟨rfl, rfl, rfl, rfl⟩

theorem fmix (n : BitVec 64) : Gen.Murmur.fmix n = Murmur.fmix n := rfl

theorem block (b : UInt8) : Gen.Murmur.block b.toBitVec = Murmur.sext b := rfl

/-- `rotl(x, r)` for the rotation counts the code uses (`r ≤ 64`: `64 - r` does not wrap in uint8) -/
theorem rotl (x : BitVec 64) (r : BitVec 8) (h : r.toNat ≤ 64) :
    Gen.Murmur.rotl x r = Murmur.rotl x r.toNat := by
  unfold Gen.Murmur.rotl Murmur.rotl
  have : (0x40#8 - r).toNat = 64 - r.toNat := by
    rw [BitVec.toNat_sub]; simp; omega
  rw [this]

/-- the body of the block loop (`k1 *= c1` … `h2 = h2*5 + 0x38495ab5`) is `mixBlock` -/
theorem mixBody (h1 h2 k1 k2 : BitVec 64) :
    (let r := Gen.Murmur.mixBody h1 h2 k1 k2; (r.2.1, r.2.2.2)) = Murmur.mixBlock (h1, h2) k1 k2 := by
  simp only [Gen.Murmur.mixBody, Murmur.mixBlock, Murmur.c1, Murmur.c2]
  rw [rotl _ 0x1f#8 (by decide), rotl _ 0x1b#8 (by decide), rotl _ 0x21#8 (by decide), rotl _ 0x1f#8 (by decide)]
  rfl


theorem getD_map (l : List UInt8) (i : Nat) :
    (l.map (·.toBitVec)).getD i 0#8 = (l.getD i 0).toBitVec := by
  simp [List.getD_eq_getElem?_getD, List.getElem?_map]

theorem getD_map' (l : List UInt8) (i : Nat) :
    ((l.map (·.toBitVec))[i]?).getD 0#8 = (l.getD i 0).toBitVec := by
  simp [List.getD_eq_getElem?_getD, List.getElem?_map]

theorem rotl33 (x : BitVec 64) : Gen.Murmur.rotl x 33#8 = Murmur.rotl x 33 := rotl x 33#8 (by decide)
theorem rotl31 (x : BitVec 64) : Gen.Murmur.rotl x 31#8 = Murmur.rotl x 31 := rotl x 31#8 (by decide)

/-- what the switch leaves in (k2, h2, k1, h1) according to the model -/
def swModel (tl : List UInt8) (n : Nat) (h1 h2 : BitVec 64) : BitVec 64 × BitVec 64 × BitVec 64 × BitVec 64 :=
  let r := Murmur.mixTail (h1, h2) (Murmur.tailK1 tl n) (Murmur.tailK2 tl n) n
  (if n ≥ 9 then Murmur.rotl (Murmur.tailK2 tl n * Murmur.c2) 33 * Murmur.c1 else 0#64, r.2,
   if n ≥ 1 then Murmur.rotl (Murmur.tailK1 tl n * Murmur.c1) 31 * Murmur.c2 else 0#64, r.1)

local macro "sw_case" : tactic =>
  `(tactic| (unfold Gen.Murmur.Murmur3H1_tailFinish_sw1 swModel
             simp [Murmur.mixTail, Murmur.tailK1, Murmur.tailK2, Murmur.tb, getD_map', block, rotl33, rotl31,
               Murmur.c1, Murmur.c2]))

theorem tailSwitch (tl : List UInt8) (n : Nat) (hn : n < 16) (h1 h2 : BitVec 64) :
    Gen.Murmur.Murmur3H1_tailFinish_sw1 (BitVec.ofNat 64 n) h1 h2 0#64 0#64 (tl.map (·.toBitVec))
      = swModel tl n h1 h2 := by
  match n, hn with
  | 0, _ => sw_case
  | 1, _ => sw_case
  | 2, _ => sw_case
  | 3, _ => sw_case
  | 4, _ => sw_case
  | 5, _ => sw_case
  | 6, _ => sw_case
  | 7, _ => sw_case
  | 8, _ => sw_case
  | 9, _ => sw_case
  | 10, _ => sw_case
  | 11, _ => sw_case
  | 12, _ => sw_case
  | 13, _ => sw_case
  | 14, _ => sw_case
  | 15, _ => sw_case
  | k + 16, h => exact absurd h (by omega)

/-- the tail and finalisation of `Murmur3H1` (`tail := data[nBlocks*16:]` … `return h1`): the model's
    `mixTail` of `tailK1`/`tailK2`, then `finish`; for every input below 2^60 bytes, every state of the block loop -/
theorem tailFinish (data : List UInt8) (h1 h2 k1 k2 : BitVec 64) (hl : data.length < 2^60) :
    Gen.Murmur.tailFinish (data.map (·.toBitVec)) (BitVec.ofNat 64 data.length) h1 h2 k1 k2
        (BitVec.ofNat 64 (data.length / 16))
      = Murmur.finish (Murmur.mixTail (h1, h2)
          (Murmur.tailK1 (data.drop (data.length / 16 * 16)) (data.length % 16))
          (Murmur.tailK2 (data.drop (data.length / 16 * 16)) (data.length % 16)) (data.length % 16)) data.length := by
  have hK : ((BitVec.ofNat 64 (data.length / 16)) * 0x10#64).toNat = data.length / 16 * 16 := by
    simp [BitVec.toNat_mul]; omega
  have hT : (BitVec.ofNat 64 data.length &&& 0xf#64) = BitVec.ofNat 64 (data.length % 16) := by
    apply BitVec.eq_of_toNat_eq
    have : (15 : Nat) = 2^4 - 1 := rfl
    simp [BitVec.toNat_and]
    rw [this, Nat.and_two_pow_sub_one_eq_mod]
    omega
  unfold Gen.Murmur.tailFinish
  simp only [hK, hT, ← List.map_drop]
  rw [tailSwitch _ _ (Nat.mod_lt _ (by decide))]
  simp [swModel, Murmur.finish, fmix]

/-! ### The whole function `Murmur3H1` (loop header, `getBlock` extern, tail, finalisation)

  Since the translator handles counted `for` loops, `Murmur3H1` is translated as a whole (`Gen.Murmur.Murmur3H1`,
  with the helper `Murmur3H1_loop1` by recursion on a fuel argument = the trip count `nBlocks - 0`). `getBlock`
  (unsafe pointer code) is the one EXTERN: its Lean text is trusted and pinned to the Go source text it was written for. -/

theorem le64_map (bs : List UInt8) : Gen.Murmur.le64 (bs.map (·.toBitVec)) = Murmur.le64 bs := by
  induction bs with
  | nil => rfl
  | cons b bs ih =>
    simp only [Gen.Murmur.le64, Murmur.le64, List.map_cons, List.foldr_cons, Murmur.zext] at *
    rw [ih]

theorem slt_small (i n : Nat) (h : i < n) (hn : n < 2^62) :
    BitVec.slt (BitVec.ofNat 64 i) (BitVec.ofNat 64 n) = true := by
  simp only [BitVec.slt, BitVec.toInt_eq_toNat_cond, BitVec.toNat_ofNat, decide_eq_true_eq]
  have a : i % 2^64 = i := Nat.mod_eq_of_lt (by omega)
  have b : n % 2^64 = n := Nat.mod_eq_of_lt (by omega)
  rw [a, b]
  have : 2 * i < 2^64 := by omega
  have : 2 * n < 2^64 := by omega
  simp [*]

theorem getBlock_map (data : List UInt8) (i : Nat) (hi : i < 2^62) :
    Gen.Murmur.getBlock (data.map (·.toBitVec)) (BitVec.ofNat 64 i) =
      (Murmur.le64 (((data.drop (i*16)).take 16).take 8), Murmur.le64 ((((data.drop (i*16)).take 16).drop 8).take 8)) := by
  have hi' : (BitVec.ofNat 64 i).toNat = i := by simp; omega
  simp only [Gen.Murmur.getBlock, hi', ← List.map_drop, ← List.map_take, le64_map]
  congr 2
  · simp [List.take_take]
  · rw [List.drop_take, List.take_take, List.drop_drop]; simp; 

/-- one unfolding of the generated loop when the condition holds -/
theorem loop_step (d : List (BitVec 8)) (nB : BitVec 64) (fuel : Nat) (i k1 k2 h1 h2 : BitVec 64)
    (hc : BitVec.slt i nB = true) :
    Gen.Murmur.Murmur3H1_loop1 d nB (fuel+1) i k1 k2 h1 h2 =
      (let b := Gen.Murmur.getBlock d i
       let r := Gen.Murmur.mixBody h1 h2 b.1 b.2
       Gen.Murmur.Murmur3H1_loop1 d nB fuel (i + 1#64) r.1 r.2.2.1 r.2.1 r.2.2.2) := by
  rw [Gen.Murmur.Murmur3H1_loop1]
  simp only [hc, if_true]
  rfl

theorem loop (data : List UInt8) (nB : Nat) (hnB : nB < 2^61) :
    ∀ (fuel i : Nat) (k1 k2 h1 h2 : BitVec 64), i + fuel = nB →
      (let r := Gen.Murmur.Murmur3H1_loop1 (data.map (·.toBitVec)) (BitVec.ofNat 64 nB) fuel (BitVec.ofNat 64 i) k1 k2 h1 h2
       (r.2.2.1, r.2.2.2)) = Murmur.bodyLoop data nB fuel (h1, h2) := by
  intro fuel
  induction fuel with
  | zero => intro i k1 k2 h1 h2 _; simp [Gen.Murmur.Murmur3H1_loop1, Murmur.bodyLoop, Murmur.bodyLoopG]
  | succ f ih =>
    intro i k1 k2 h1 h2 hi
    have hlt : i < nB := by omega
    rw [loop_step _ _ _ _ _ _ _ _ (slt_small i nB hlt (by omega))]
    have hadd : BitVec.ofNat 64 i + 1#64 = BitVec.ofNat 64 (i+1) := by
      apply BitVec.eq_of_toNat_eq; simp
    simp only [hadd]
    have := ih (i+1) (Gen.Murmur.mixBody h1 h2 (Gen.Murmur.getBlock (data.map (·.toBitVec)) (BitVec.ofNat 64 i)).1 (Gen.Murmur.getBlock (data.map (·.toBitVec)) (BitVec.ofNat 64 i)).2).1
      (Gen.Murmur.mixBody h1 h2 (Gen.Murmur.getBlock (data.map (·.toBitVec)) (BitVec.ofNat 64 i)).1 (Gen.Murmur.getBlock (data.map (·.toBitVec)) (BitVec.ofNat 64 i)).2).2.2.1
      (Gen.Murmur.mixBody h1 h2 (Gen.Murmur.getBlock (data.map (·.toBitVec)) (BitVec.ofNat 64 i)).1 (Gen.Murmur.getBlock (data.map (·.toBitVec)) (BitVec.ofNat 64 i)).2).2.1
      (Gen.Murmur.mixBody h1 h2 (Gen.Murmur.getBlock (data.map (·.toBitVec)) (BitVec.ofNat 64 i)).1 (Gen.Murmur.getBlock (data.map (·.toBitVec)) (BitVec.ofNat 64 i)).2).2.2.2
      (by omega)
    simp only at this
    rw [this]
    have hmb := mixBody h1 h2 (Gen.Murmur.getBlock (data.map (·.toBitVec)) (BitVec.ofNat 64 i)).1 (Gen.Murmur.getBlock (data.map (·.toBitVec)) (BitVec.ofNat 64 i)).2
    simp only at hmb
    rw [hmb, getBlock_map data i (by omega)]
    have hidx : nB - (f+1) = i := by omega
    simp only [Murmur.bodyLoop]
    rw [Murmur.bodyLoopG]
    simp only [hidx]


theorem sdiv16 (n : Nat) (hn : n < 2^62) : BitVec.sdiv (BitVec.ofNat 64 n) 0x10#64 = BitVec.ofNat 64 (n / 16) := by
  have hm : (BitVec.ofNat 64 n).msb = false := by
    simp [BitVec.msb_eq_decide]; omega
  have h16 : (0x10#64).msb = false := by decide
  rw [BitVec.sdiv_eq, hm, h16]
  apply BitVec.eq_of_toNat_eq
  simp [BitVec.toNat_udiv]
  omega

theorem whole_unfold (d : List (BitVec 8)) :
    Gen.Murmur.Murmur3H1 d =
      (let length := BitVec.ofNat 64 d.length
       let nBlocks := BitVec.sdiv length 0x10#64
       let r := Gen.Murmur.Murmur3H1_loop1 d nBlocks ((nBlocks - 0x0#64).toNat) 0x0#64 0#64 0#64 0#64 0#64
       Gen.Murmur.tailFinish d length r.2.2.1 r.2.2.2 r.1 r.2.1 nBlocks) := by
  rfl

/-- THE WHOLE FUNCTION: `murmur.Murmur3H1` as re-translated from the current source (block loop with its header,
    `getBlock` as the trusted extern, tail switch, finalisation) is the model `Murmur.murmur3H1`, for every input
    below 2^60 bytes. -/
theorem murmur3H1 (data : List UInt8) (hl : data.length < 2^60) :
    Gen.Murmur.Murmur3H1 (data.map (·.toBitVec)) = Murmur.murmur3H1 data := by
  rw [whole_unfold]
  simp only [List.length_map]
  rw [sdiv16 _ (by omega)]
  have hfuel : (BitVec.ofNat 64 (data.length / 16) - 0x0#64).toNat = data.length / 16 := by
    simp; omega
  rw [hfuel]
  have hl := loop data (data.length / 16) (by omega) (data.length / 16) 0 0#64 0#64 0#64 0#64 (by omega)
  simp only at hl
  have h1 := congrArg Prod.fst hl
  have h2 := congrArg Prod.snd hl
  simp only at h1 h2
  rw [show (0x0#64 : BitVec 64) = BitVec.ofNat 64 0 from rfl, h1, h2]
  rw [tailFinish data _ _ _ _ (by omega)]
  rfl


/-- the regenerated code itself computes Cassandra's hash: composition with the property theorem `C09_murmur` -/
theorem murmur3H1_is_cassandra (data : List UInt8) (hl : data.length < 2^60) :
    Gen.Murmur.Murmur3H1 (data.map (·.toBitVec)) = Murmur.Spec.cassandraH1 data := by
  rw [murmur3H1 data hl]; exact Murmur.murmur3H1_eq_cassandra data

example : Gen.Murmur.Murmur3H1 ([104, 101, 108, 108, 111].map (fun (b : UInt8) => b.toBitVec)) = 0xcbd8a7b341bd9b02#64 := by decide

end GenTie.C09
