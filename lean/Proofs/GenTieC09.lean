import Gen.Murmur
import Model.Murmur
/-!
  Tie theorems between the definitions REGENERATED from /repo/internal/murmur/murmur.go by tools/go2lean on every
  run (`Gen.Murmur`) and the hand-written model the C09 theorems are about (`Murmur`). If the Go source changes,
  `Gen/Murmur.lean` changes and these theorems are re-checked against the new text.
-/
namespace GenTie.C09

theorem consts : Gen.Murmur.c1 = Murmur.c1 ∧ Gen.Murmur.c2 = Murmur.c2 ∧
    Gen.Murmur.fmix1 = Murmur.fmix1 ∧ Gen.Murmur.fmix2 = Murmur.fmix2 := ⟨rfl, rfl, rfl, rfl⟩

theorem fmix (n : BitVec 64) : Gen.Murmur.fmix n = Murmur.fmix n := rfl

theorem block (b : UInt8) : Gen.Murmur.block b.toBitVec = Murmur.sext b := rfl

/-- `rotl(x, r)` for the rotation counts the code uses (`r ≤ 64`: `64 - r` does not wrap in uint8) -/
theorem rotl (x : BitVec 64) (r : BitVec 8) (h : r.toNat ≤ 64) :
    Gen.Murmur.rotl x r = Murmur.rotl x r.toNat := by
  unfold Gen.Murmur.rotl Murmur.rotl
  have : (0x40#8 - r).toNat = 64 - r.toNat := by
    rw [BitVec.toNat_sub]; simp; omega
  rw [this]

/-- the body of the block loop (`k1 *= c1` … `h2 = h2*5 + 0x38495ab5`) is `mixBlock` -/
theorem mixBody (h1 h2 k1 k2 : BitVec 64) :
    (let r := Gen.Murmur.mixBody h1 h2 k1 k2; (r.2.1, r.2.2.2)) = Murmur.mixBlock (h1, h2) k1 k2 := by
  simp only [Gen.Murmur.mixBody, Murmur.mixBlock, Murmur.c1, Murmur.c2]
  rw [rotl _ 0x1f#8 (by decide), rotl _ 0x1b#8 (by decide), rotl _ 0x21#8 (by decide), rotl _ 0x1f#8 (by decide)]
  rfl


theorem getD_map (l : List UInt8) (i : Nat) :
    (l.map (·.toBitVec)).getD i 0#8 = (l.getD i 0).toBitVec := by
  simp [List.getD_eq_getElem?_getD, List.getElem?_map]

theorem getD_map' (l : List UInt8) (i : Nat) :
    ((l.map (·.toBitVec))[i]?).getD 0#8 = (l.getD i 0).toBitVec := by
  simp [List.getD_eq_getElem?_getD, List.getElem?_map]

theorem rotl33 (x : BitVec 64) : Gen.Murmur.rotl x 33#8 = Murmur.rotl x 33 := rotl x 33#8 (by decide)
theorem rotl31 (x : BitVec 64) : Gen.Murmur.rotl x 31#8 = Murmur.rotl x 31 := rotl x 31#8 (by decide)

/-- what the switch leaves in (k2, h2, k1, h1) according to the model -/
def swModel (tl : List UInt8) (n : Nat) (h1 h2 : BitVec 64) : BitVec 64 × BitVec 64 × BitVec 64 × BitVec 64 :=
  let r := Murmur.mixTail (h1, h2) (Murmur.tailK1 tl n) (Murmur.tailK2 tl n) n
  (if n ≥ 9 then Murmur.rotl (Murmur.tailK2 tl n * Murmur.c2) 33 * Murmur.c1 else 0#64, r.2,
   if n ≥ 1 then Murmur.rotl (Murmur.tailK1 tl n * Murmur.c1) 31 * Murmur.c2 else 0#64, r.1)

local macro "sw_case" : tactic =>
  `(tactic| (unfold Gen.Murmur.Murmur3H1_tailFinish_sw1 swModel
             simp [Murmur.mixTail, Murmur.tailK1, Murmur.tailK2, Murmur.tb, getD_map', block, rotl33, rotl31,
               Murmur.c1, Murmur.c2]))

theorem tailSwitch (tl : List UInt8) (n : Nat) (hn : n < 16) (h1 h2 : BitVec 64) :
    Gen.Murmur.Murmur3H1_tailFinish_sw1 (BitVec.ofNat 64 n) h1 h2 0#64 0#64 (tl.map (·.toBitVec))
      = swModel tl n h1 h2 := by
  match n, hn with
  | 0, _ => sw_case
  | 1, _ => sw_case
  | 2, _ => sw_case
  | 3, _ => sw_case
  | 4, _ => sw_case
  | 5, _ => sw_case
  | 6, _ => sw_case
  | 7, _ => sw_case
  | 8, _ => sw_case
  | 9, _ => sw_case
  | 10, _ => sw_case
  | 11, _ => sw_case
  | 12, _ => sw_case
  | 13, _ => sw_case
  | 14, _ => sw_case
  | 15, _ => sw_case
  | k + 16, h => exact absurd h (by omega)

/-- the tail and finalisation of `Murmur3H1` (`tail := data[nBlocks*16:]` … `return h1`): the model's
    `mixTail` of `tailK1`/`tailK2`, then `finish`; for every input below 2^60 bytes, every state of the block loop -/
theorem tailFinish (data : List UInt8) (h1 h2 k1 k2 : BitVec 64) (hl : data.length < 2^60) :
    Gen.Murmur.tailFinish (data.map (·.toBitVec)) (BitVec.ofNat 64 data.length) h1 h2 k1 k2
        (BitVec.ofNat 64 (data.length / 16))
      = Murmur.finish (Murmur.mixTail (h1, h2)
          (Murmur.tailK1 (data.drop (data.length / 16 * 16)) (data.length % 16))
          (Murmur.tailK2 (data.drop (data.length / 16 * 16)) (data.length % 16)) (data.length % 16)) data.length := by
  have hK : ((BitVec.ofNat 64 (data.length / 16)) * 0x10#64).toNat = data.length / 16 * 16 := by
    simp [BitVec.toNat_mul]; omega
  have hT : (BitVec.ofNat 64 data.length &&& 0xf#64) = BitVec.ofNat 64 (data.length % 16) := by
    apply BitVec.eq_of_toNat_eq
    have : (15 : Nat) = 2^4 - 1 := rfl
    simp [BitVec.toNat_and]
    rw [this, Nat.and_two_pow_sub_one_eq_mod]
    omega
  unfold Gen.Murmur.tailFinish
  simp only [hK, hT, ← List.map_drop]
  rw [tailSwitch _ _ (Nat.mod_lt _ (by decide))]
  simp [swModel, Murmur.finish, fmix]

end GenTie.C09
