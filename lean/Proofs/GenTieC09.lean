import Gen.Murmur
import Model.Murmur
/-!
  Tie theorems between the definitions REGENERATED from /repo/internal/murmur/murmur.go by tools/go2lean on every
  run (`Gen.Murmur`) and the hand-written model the C09 theorems are about (`Murmur`). If the Go source changes,
  `Gen/Murmur.lean` changes and these theorems are re-checked against the new text.
-/
namespace GenTie.C09

theorem consts : Gen.Murmur.c1 = Murmur.c1 ∧ Gen.Murmur.c2 = Murmur.c2 ∧
    Gen.Murmur.fmix1 = Murmur.fmix1 ∧ Gen.Murmur.fmix2 = Murmur.fmix2 := ⟨rfl, rfl, rfl, rfl⟩

theorem fmix (n : BitVec 64) : Gen.Murmur.fmix n = Murmur.fmix n := rfl

theorem block (b : UInt8) : Gen.Murmur.block b.toBitVec = Murmur.sext b := rfl

/-- `rotl(x, r)` for the rotation counts the code uses (`r ≤ 64`: `64 - r` does not wrap in uint8) -/
theorem rotl (x : BitVec 64) (r : BitVec 8) (h : r.toNat ≤ 64) :
    Gen.Murmur.rotl x r = Murmur.rotl x r.toNat := by
  unfold Gen.Murmur.rotl Murmur.rotl
  have : (0x40#8 - r).toNat = 64 - r.toNat := by
    rw [BitVec.toNat_sub]; simp; omega
  rw [this]

/-- the body of the block loop (`k1 *= c1` … `h2 = h2*5 + 0x38495ab5`) is `mixBlock` -/
theorem mixBody (h1 h2 k1 k2 : BitVec 64) :
    (let r := Gen.Murmur.mixBody h1 h2 k1 k2; (r.2.1, r.2.2.2)) = Murmur.mixBlock (h1, h2) k1 k2 := by
  simp only [Gen.Murmur.mixBody, Murmur.mixBlock, Murmur.c1, Murmur.c2]
  rw [rotl _ 0x1f#8 (by decide), rotl _ 0x1b#8 (by decide), rotl _ 0x21#8 (by decide), rotl _ 0x1f#8 (by decide)]
  rfl

end GenTie.C09
