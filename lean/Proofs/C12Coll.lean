import Proofs.C12Scalar
/-!
# C12: collection framing — list / set elements (structural step: element theorems as hypotheses)
-/
namespace C12Coll
open ValueSpec Marshal C12Bytes

/-- "the element is marshalled as the specification says": a nil encoding exactly for null, otherwise the spec bytes -/
def ElemOK (p : Nat) (et : CqlTy) (v : GoVal) (c : CqlVal) : Prop :=
  (marshal p et v = .ok none ∧ c.isNull = true) ∨
  (∃ b, marshal p et v = .ok (some b) ∧ c.isNull = false ∧ specEnc p et c = some b)

/-- element-wise `ElemOK` -/
inductive AllOK (p : Nat) (et : CqlTy) : List GoVal → List CqlVal → Prop
  | nil : AllOK p et [] []
  | cons {v c vs cs} : ElemOK p et v c → AllOK p et vs cs → AllOK p et (v :: vs) (c :: cs)

theorem collSize_v3 (n : Nat) (h : n < 2^31) : collSize 3 n = some (tcEnc 4 n) := by
  have : ¬ ((n:Int) > 2147483647) := by omega
  simp [collSize, this, encInt_eq, tcEnc_toS32]

theorem collSize_eq (p : Nat) (hp : p ≥ 3) (n : Int) : collSize p n = collSize 3 n := by
  have h1 : p > 2 := by omega
  simp [collSize, h1]

theorem collItem_null_v3 : collItem 3 none = some [255, 255, 255, 255] := by decide

/-- marshalList's loop over the elements writes exactly the specification's element frames (protocol ≥ 3:
    4-byte length, −1 for null), given that every element is marshalled as the specification says -/
theorem marshalElems_spec (p : Nat) (hp : p ≥ 3) (et : CqlTy) :
    ∀ (vs : List GoVal) (cs : List CqlVal) (body : Bytes),
      AllOK p et vs cs →
      marshalElems p et vs = .ok (some body) → specEncElems p et cs = some body
  | [], cs, body, hf, h => by
    cases hf
    simp [marshalElems] at h
    simp [specEncElems, h]
  | v :: vs, cs, body, hf, h => by
    cases hf with
    | cons hv hrest =>
      rename_i c cs'
      have hp2 : p > 2 := by omega
      have hp3 : p ≥ 3 := hp
      rcases hv with ⟨hm, hnull⟩ | ⟨b, hm, hnn, hs⟩
      · -- null element
        rw [marshalElems, hm] at h
        simp only [collItem, collSize, hp2, if_true] at h
        have hneg : ¬ ((-1:Int) > 2147483647) := by omega
        rw [if_neg hneg] at h
        cases hr : marshalElems p et vs with
        | ok ob =>
          cases ob with
          | none => rw [hr] at h; simp at h
          | some rest =>
            rw [hr] at h
            simp at h
            have ih := marshalElems_spec p hp et vs cs' rest hrest hr
            simp [specEncElems, elemOrNull, hnull, elemFrame, hp3, ih]
            rw [← h]
            have : encInt (toS 32 (-1)) = [255, 255, 255, 255] := by decide
            rw [this]; rfl
        | err => rw [hr] at h; simp at h
        | crash => rw [hr] at h; simp at h
        | unmodelled => rw [hr] at h; simp at h
      · rw [marshalElems, hm] at h
        simp only [collItem, collSize, hp2, if_true] at h
        by_cases hlen : ((b.length : Int) > 2147483647)
        · simp [hlen] at h
        · rw [if_neg hlen] at h
          cases hr : marshalElems p et vs with
          | ok ob =>
            cases ob with
            | none => rw [hr] at h; simp at h
            | some rest =>
              rw [hr] at h
              simp at h
              have ih := marshalElems_spec p hp et vs cs' rest hrest hr
              have hl : b.length < 2 ^ 31 := by omega
              simp [specEncElems, elemOrNull, hnn, hs, elemFrame, hp3, ih, hl]
              rw [← h, encInt_eq, tcEnc_toS32]
          | err => rw [hr] at h; simp at h
          | crash => rw [hr] at h; simp at h
          | unmodelled => rw [hr] at h; simp at h

theorem AllOK_length {p : Nat} {et : CqlTy} {vs : List GoVal} {cs : List CqlVal} (h : AllOK p et vs cs) :
    vs.length = cs.length := by
  induction h with
  | nil => rfl
  | cons _ _ ih => simp [ih]

/-- the whole list / set: 4-byte count, then the elements -/
theorem marshalList_spec (p : Nat) (hp : p ≥ 3) (et : CqlTy) (vs : List GoVal) (cs : List CqlVal) (b : Bytes)
    (hall : AllOK p et vs cs)
    (h : wrapSeq p vs.length (marshalElems p et vs) = .ok (some b)) :
    specEnc p (.list et) (.list cs) = some b := by
  have hlen : vs.length = cs.length := AllOK_length hall
  have hp2 : p > 2 := by omega
  unfold wrapSeq at h
  simp only [collSize, hp2, if_true] at h
  by_cases hbig : ((vs.length : Int) > 2147483647)
  · simp [hbig] at h
  · rw [if_neg hbig] at h
    cases hr : marshalElems p et vs with
    | ok ob =>
      cases ob with
      | none => rw [hr] at h; simp at h
      | some body =>
        rw [hr] at h
        simp at h
        have hs := marshalElems_spec p hp et vs cs body hall hr
        have hl : cs.length < 2 ^ 31 := by omega
        simp [specEnc, countFrame, hp, hl, hs]
        rw [← h, encInt_eq, tcEnc_toS32, hlen, tcEnc]
        congr 2
        have : ((cs.length : Int) % 256 ^ 4) = cs.length := by omega
        rw [this]; simp
    | err => rw [hr] at h; simp at h
    | crash => rw [hr] at h; simp at h
    | unmodelled => rw [hr] at h; simp at h

/-- protocol ≤ 2 has no null element: marshalList writes a zero-length element instead (recorded deviation) -/
theorem cex_null_element_v2 :
    marshal 2 (.list .int) (.slice false [.nilptr, .ptr (.int .int false 1)]) = .ok (some [0, 2, 0, 0, 0, 4, 0, 0, 0, 1]) ∧
    specEnc 2 (.list .int) (.list [.null, .int 1]) = none := by
  refine ⟨?_, by decide⟩
  have h1 : encShort (toS 16 2) = [0, 2] := by decide
  have h2 : encShort (toS 16 0) = [0, 0] := by decide
  have h3 : encShort (toS 16 4) = [0, 4] := by decide
  have h4 : encInt (toS 32 1) = [0, 0, 0, 1] := by decide
  simp [marshal, wrapSeq, marshalElems, collSize, collItem, marshalScalar, marshalIntColumn, optM, marshalIntKind, h1, h2, h3, h4]

end C12Coll
