import Proofs.C12Scalar
/-!
# C12: collection framing — list / set elements and tuple fields (structural step: element theorems as hypotheses)
-/
namespace C12Coll
open ValueSpec Marshal C12Bytes

/-- "the element is marshalled as the specification says": a nil encoding exactly for null, otherwise the spec bytes -/
def ElemOK (p : Nat) (et : CqlTy) (v : GoVal) (c : CqlVal) : Prop :=
  (marshal p et v = .ok none ∧ c.isNull = true) ∨
  (∃ b, marshal p et v = .ok (some b) ∧ c.isNull = false ∧ specEnc p et c = some b)

/-- element-wise `ElemOK` -/
inductive AllOK (p : Nat) (et : CqlTy) : List GoVal → List CqlVal → Prop
  | nil : AllOK p et [] []
  | cons {v c vs cs} : ElemOK p et v c → AllOK p et vs cs → AllOK p et (v :: vs) (c :: cs)

theorem collSize_v3 (n : Nat) (h : n < 2^31) : collSize 3 n = some (tcEnc 4 n) := by
  have : ¬ ((n:Int) > 2147483647) := by omega
  simp [collSize, this, encInt_eq, tcEnc_toS32]

theorem collSize_eq (p : Nat) (hp : p ≥ 3) (n : Int) : collSize p n = collSize 3 n := by
  have h1 : p > 2 := by omega
  simp [collSize, h1]

theorem collItem_null_v3 : collItem 3 none = some [255, 255, 255, 255] := by decide

/-- marshalList's loop over the elements writes exactly the specification's element frames (protocol ≥ 3:
    4-byte length, −1 for null), given that every element is marshalled as the specification says -/
theorem marshalElems_spec (p : Nat) (hp : p ≥ 3) (et : CqlTy) :
    ∀ (vs : List GoVal) (cs : List CqlVal) (body : Bytes),
      AllOK p et vs cs →
      marshalElems p et vs = .ok (some body) → specEncElems p et cs = some body
  | [], cs, body, hf, h => by
    cases hf
    simp [marshalElems] at h
    simp [specEncElems, h]
  | v :: vs, cs, body, hf, h => by
    cases hf with
    | cons hv hrest =>
      rename_i c cs'
      have hp2 : p > 2 := by omega
      have hp3 : p ≥ 3 := hp
      rcases hv with ⟨hm, hnull⟩ | ⟨b, hm, hnn, hs⟩
      · -- null element
        rw [marshalElems, hm] at h
        simp only [collItem, collSize, hp2, if_true] at h
        have hneg : ¬ ((-1:Int) > 2147483647) := by omega
        rw [if_neg hneg] at h
        cases hr : marshalElems p et vs with
        | ok ob =>
          cases ob with
          | none => rw [hr] at h; simp at h
          | some rest =>
            rw [hr] at h
            simp at h
            have ih := marshalElems_spec p hp et vs cs' rest hrest hr
            simp [specEncElems, elemOrNull, hnull, elemFrame, hp3, ih]
            rw [← h]
            have : encInt (toS 32 (-1)) = [255, 255, 255, 255] := by decide
            rw [this]; rfl
        | err => rw [hr] at h; simp at h
        | crash => rw [hr] at h; simp at h
        | unmodelled => rw [hr] at h; simp at h
      · rw [marshalElems, hm] at h
        simp only [collItem, collSize, hp2, if_true] at h
        by_cases hlen : ((b.length : Int) > 2147483647)
        · simp [hlen] at h
        · rw [if_neg hlen] at h
          cases hr : marshalElems p et vs with
          | ok ob =>
            cases ob with
            | none => rw [hr] at h; simp at h
            | some rest =>
              rw [hr] at h
              simp at h
              have ih := marshalElems_spec p hp et vs cs' rest hrest hr
              have hl : b.length < 2 ^ 31 := by omega
              simp [specEncElems, elemOrNull, hnn, hs, elemFrame, hp3, ih, hl]
              rw [← h, encInt_eq, tcEnc_toS32]
          | err => rw [hr] at h; simp at h
          | crash => rw [hr] at h; simp at h
          | unmodelled => rw [hr] at h; simp at h

theorem AllOK_length {p : Nat} {et : CqlTy} {vs : List GoVal} {cs : List CqlVal} (h : AllOK p et vs cs) :
    vs.length = cs.length := by
  induction h with
  | nil => rfl
  | cons _ _ ih => simp [ih]

/-- the whole list / set: 4-byte count, then the elements -/
theorem marshalList_spec (p : Nat) (hp : p ≥ 3) (et : CqlTy) (vs : List GoVal) (cs : List CqlVal) (b : Bytes)
    (hall : AllOK p et vs cs)
    (h : wrapSeq p vs.length (marshalElems p et vs) = .ok (some b)) :
    specEnc p (.list et) (.list cs) = some b := by
  have hlen : vs.length = cs.length := AllOK_length hall
  have hp2 : p > 2 := by omega
  unfold wrapSeq at h
  simp only [collSize, hp2, if_true] at h
  by_cases hbig : ((vs.length : Int) > 2147483647)
  · simp [hbig] at h
  · rw [if_neg hbig] at h
    cases hr : marshalElems p et vs with
    | ok ob =>
      cases ob with
      | none => rw [hr] at h; simp at h
      | some body =>
        rw [hr] at h
        simp at h
        have hs := marshalElems_spec p hp et vs cs body hall hr
        have hl : cs.length < 2 ^ 31 := by omega
        simp [specEnc, countFrame, hp, hl, hs]
        rw [← h, encInt_eq, tcEnc_toS32, hlen, tcEnc]
        congr 2
        have : ((cs.length : Int) % 256 ^ 4) = cs.length := by omega
        rw [this]; simp
    | err => rw [hr] at h; simp at h
    | crash => rw [hr] at h; simp at h
    | unmodelled => rw [hr] at h; simp at h

/-- protocol ≤ 2 has no null element: marshalList writes a zero-length element instead (recorded deviation) -/
theorem cex_null_element_v2 :
    marshal 2 (.list .int) (.slice false [.nilptr, .ptr (.int .int false 1)]) = .ok (some [0, 2, 0, 0, 0, 4, 0, 0, 0, 1]) ∧
    specEnc 2 (.list .int) (.list [.null, .int 1]) = none := by
  refine ⟨?_, by decide⟩
  have h1 : encShort (toS 16 2) = [0, 2] := by decide
  have h2 : encShort (toS 16 0) = [0, 0] := by decide
  have h3 : encShort (toS 16 4) = [0, 4] := by decide
  have h4 : encInt (toS 32 1) = [0, 0, 0, 1] := by decide
  simp [marshal, wrapSeq, marshalElems, collSize, collItem, marshalScalar, marshalIntColumn, optM, marshalIntKind, h1, h2, h3, h4]

/-! ## tuples: every field through appendBytes (after the repairs of KF-C12-6 / KF-C12-7) -/

/-- "the tuple field is marshalled as the specification says" -/
def FieldOK (p : Nat) (viaIface : Bool) (t : CqlTy) (v : GoVal) (c : CqlVal) : Prop :=
  (viaIface = true ∧ v = .nil ∧ c.isNull = true) ∨
  (marshal p t v = .ok none ∧ c.isNull = true) ∨
  (∃ b, marshal p t v = .ok (some b) ∧ b.length < 2^31 ∧ c.isNull = false ∧ specEnc p t c = some b)

inductive FieldsOK (p : Nat) (viaIface : Bool) : List CqlTy → List GoVal → List CqlVal → Prop
  | nil : FieldsOK p viaIface [] [] []
  | cons {t v c ts vs cs} : FieldOK p viaIface t v c → FieldsOK p viaIface ts vs cs →
      FieldsOK p viaIface (t :: ts) (v :: vs) (c :: cs)

theorem appendBytes_null : appendBytes none = [255, 255, 255, 255] := by decide

theorem appendBytes_some (b : Bytes) : appendBytes (some b) = tcEnc 4 b.length ++ b := by
  simp [appendBytes, encInt_eq, tcEnc_toS32]

/-- an untyped nil never marshals to bytes -/
theorem marshal_nil_not_some (p : Nat) (t : CqlTy) (b : Bytes) : marshal p t .nil ≠ .ok (some b) := by
  cases t <;> simp [marshal, marshalScalar, marshalVarcharColumn, marshalIntColumn, marshalVarintColumn]

theorem isNil_eq {v : GoVal} (h : v.isNil = true) : v = .nil := by
  cases v <;> simp [GoVal.isNil] at h ⊢
theorem isNilPtr_eq {v : GoVal} (h : v.isNilPtr = true) : v = .nilptr := by
  cases v <;> simp [GoVal.isNilPtr] at h ⊢

/-- what one field contributes -/
theorem field_item (p : Nat) (viaIface : Bool) (t : CqlTy) (v : GoVal) (c : CqlVal) (hf : FieldOK p viaIface t v c)
    (sel : GoVal → Bool) (hsel : ∀ v, sel v = true → (viaIface = true ∧ v = .nil) ∨ v = .nilptr)
    (hnil : viaIface = true → sel .nil = true) :
    ∃ item, (if sel v then MRes.ok none else marshal p t v) = .ok item ∧
      fieldOrNull c.isNull (specEnc p t c) = some (appendBytes item) := by
  rcases hf with ⟨hi, hv, hc⟩ | ⟨hm, hc⟩ | ⟨b, hm, hl, hc, hs⟩
  · subst hv
    refine ⟨none, ?_, ?_⟩
    · simp [hnil hi]
    · simp [fieldOrNull, hc, bytesFrame, appendBytes_null]
  · refine ⟨none, ?_, ?_⟩
    · split <;> simp [hm]
    · simp [fieldOrNull, hc, bytesFrame, appendBytes_null]
  · refine ⟨some b, ?_, ?_⟩
    · have : sel v = false := by
        cases hs' : sel v
        · rfl
        · exfalso
          rcases hsel v hs' with ⟨_, hv⟩ | hv
          · subst hv; exact marshal_nil_not_some p t b hm
          · subst hv; simp [marshal] at hm
      simp [this, hm]
    · simp [fieldOrNull, hc, hs, hl, bytesFrame, appendBytes_some]


theorem marshalTupleIfaces_spec (p : Nat) :
    ∀ (ts : List CqlTy) (vs : List GoVal) (cs : List CqlVal) (body : Bytes),
      FieldsOK p true ts vs cs →
      marshalTupleIfaces p ts vs = .ok (some body) → specEncFields p ts cs = some body
  | [], vs, cs, body, hf, h => by
    cases hf
    simp [marshalTupleIfaces] at h
    simp [specEncFields, h]
  | t :: ts, vs, cs, body, hf, h => by
    cases hf with
    | cons hv hrest =>
      rename_i v c vs' cs'
      obtain ⟨item, hi, hspec⟩ := field_item p true t v c hv GoVal.isNil
        (fun v hv => .inl ⟨rfl, isNil_eq hv⟩) (fun _ => rfl)
      rw [marshalTupleIfaces, hi] at h
      cases hr : marshalTupleIfaces p ts vs' with
      | ok ob =>
        cases ob with
        | none => rw [hr] at h; simp at h
        | some rest =>
          rw [hr] at h
          simp at h
          have ih := marshalTupleIfaces_spec p ts vs' cs' rest hrest hr
          simp [specEncFields, hspec, ih, h]
      | err => rw [hr] at h; simp at h
      | crash => rw [hr] at h; simp at h
      | unmodelled => rw [hr] at h; simp at h

theorem marshalTupleFields_spec (p : Nat) :
    ∀ (ts : List CqlTy) (vs : List GoVal) (cs : List CqlVal) (body : Bytes),
      FieldsOK p false ts vs cs →
      marshalTupleFields p ts vs = .ok (some body) → specEncFields p ts cs = some body
  | [], vs, cs, body, hf, h => by
    cases hf
    simp [marshalTupleFields] at h
    simp [specEncFields, h]
  | t :: ts, vs, cs, body, hf, h => by
    cases hf with
    | cons hv hrest =>
      rename_i v c vs' cs'
      obtain ⟨item, hi, hspec⟩ := field_item p false t v c hv GoVal.isNilPtr
        (fun v hv => .inr (isNilPtr_eq hv)) (fun h => by cases h)
      rw [marshalTupleFields, hi] at h
      cases hr : marshalTupleFields p ts vs' with
      | ok ob =>
        cases ob with
        | none => rw [hr] at h; simp at h
        | some rest =>
          rw [hr] at h
          simp at h
          have ih := marshalTupleFields_spec p ts vs' cs' rest hrest hr
          simp [specEncFields, hspec, ih, h]
      | err => rw [hr] at h; simp at h
      | crash => rw [hr] at h; simp at h
      | unmodelled => rw [hr] at h; simp at h

theorem FieldsOK_length {p : Nat} {vi : Bool} {ts : List CqlTy} {vs : List GoVal} {cs : List CqlVal}
    (h : FieldsOK p vi ts vs cs) : vs.length = ts.length := by
  induction h with
  | nil => rfl
  | cons _ _ ih => simp [ih]

/-- the whole tuple, every source shape -/
theorem marshalTuple_spec (p : Nat) (ts : List CqlTy) (vs : List GoVal) (cs : List CqlVal) (b : Bytes) :
    (FieldsOK p true ts vs cs → marshal p (.tuple ts) (.ifaces vs) = .ok (some b) → specEnc p (.tuple ts) (.tuple cs) = some b) ∧
    (FieldsOK p false ts vs cs →
      (marshal p (.tuple ts) (.struct vs) = .ok (some b) ∨ (∃ isNil, marshal p (.tuple ts) (.slice isNil vs) = .ok (some b)) ∨
       marshal p (.tuple ts) (.array vs) = .ok (some b)) → specEnc p (.tuple ts) (.tuple cs) = some b) := by
  constructor
  · intro hall h
    have hl := FieldsOK_length hall
    simp only [marshal, hl, ne_eq, not_true_eq_false, if_false, wrapTuple] at h
    split at h
    · simp at h
    · simp only [specEnc]
      exact marshalTupleIfaces_spec p ts vs cs b hall h
  · intro hall h
    have hl := FieldsOK_length hall
    have key : wrapTuple ts (marshalTupleFields p ts vs) = .ok (some b) := by
      rcases h with h | ⟨isNil, h⟩ | h <;>
        simpa only [marshal, hl, ne_eq, not_true_eq_false, if_false] using h
    simp only [wrapTuple] at key
    split at key
    · simp at key
    · simp only [specEnc]
      exact marshalTupleFields_spec p ts vs cs b hall key
end C12Coll
