import Model.Policies
import Proofs.C11Cow
import Proofs.C11RR
/-! helper lemmas: offered sequence of `roundRobbin`, invariant of the three round-robin based policies -/
namespace C11
open Policies

theorem rrSeq_nil (up : Nat → Bool) (s : Nat) : rrSeq up s [] = [] := rfl

theorem rrSeq_cons (up : Nat → Bool) (s : Nat) (l : List Host) (ls : List (List Host)) :
    rrSeq up s (l :: ls) = (layerSeq s l).filter (fun h => up h.id) ++ rrSeq up s ls := by
  simp [rrSeq]

theorem layerSeq_nil (s : Nat) : layerSeq s [] = [] := rfl

/-- the offered sequence is a permutation of the up hosts of all layers -/
theorem rrSeq_perm (up : Nat → Bool) (s : Nat) (layers : List (List Host)) :
    (rrSeq up s layers).Perm (layers.flatten.filter (fun h => up h.id)) := by
  induction layers with
  | nil => simp [rrSeq_nil]
  | cons l ls ih =>
    rw [rrSeq_cons, List.flatten_cons, List.filter_append]
    exact List.Perm.append ((layerSeq_perm s l).filter _) ih

theorem mem_rrSeq (up : Nat → Bool) (s : Nat) (layers : List (List Host)) (h : Host) :
    h ∈ rrSeq up s layers ↔ (∃ l ∈ layers, h ∈ l) ∧ up h.id = true := by
  rw [(rrSeq_perm up s layers).mem_iff, List.mem_filter, List.mem_flatten]

theorem rrSeq_nodup (up : Nat → Bool) (s : Nat) (layers : List (List Host)) (hn : layers.flatten.Nodup) :
    (rrSeq up s layers).Nodup :=
  (rrSeq_perm up s layers).nodup_iff.mpr (List.Sublist.nodup List.filter_sublist hn)

theorem mem_layerSeq (s : Nat) (l : List Host) (h : Host) : h ∈ layerSeq s l ↔ h ∈ l :=
  (layerSeq_perm s l).mem_iff

/-! ### invariant of the policies -/

structure Inv (p : Pol) : Prop where
  a0 : AddrNodup p.l0
  a1 : AddrNodup p.l1
  a2 : AddrNodup p.l2
  t0 : ∀ h ∈ p.l0, p.tier h = 0
  t1 : ∀ h ∈ p.l1, p.tier h = 1
  t2 : ∀ h ∈ p.l2, p.tier h = 2

/-- the hosts the policy knows -/
def known (p : Pol) (h : Host) : Prop := h ∈ p.l0 ∨ h ∈ p.l1 ∨ h ∈ p.l2

theorem tier_le_two (p : Pol) (h : Host) : p.tier h = 0 ∨ p.tier h = 1 ∨ p.tier h = 2 := by
  obtain ⟨k, ldc, lrack, l0, l1, l2, c⟩ := p
  cases k <;> simp only [Pol.tier] <;> (try split) <;> (try split) <;> simp

theorem tier_rr (p : Pol) (hk : p.kind = .rr) (h : Host) : p.tier h = 0 := by
  simp [Pol.tier, hk]

theorem tier_dc (p : Pol) (hk : p.kind = .dc) (h : Host) : p.tier h = 0 ∨ p.tier h = 1 := by
  simp only [Pol.tier, hk]; split <;> simp

theorem Inv_new (k : Kind) (ldc lrack : Nat) : Inv (Pol.new k ldc lrack) := by
  constructor <;> simp [Pol.new, AddrNodup]

theorem tier_setLayer (p : Pol) (i : Nat) (l : List Host) (h : Host) : (p.setLayer i l).tier h = p.tier h := by
  rcases i with _ | _ | i <;> rfl

theorem Inv_setLayer (p : Pol) (hp : Inv p) (i : Nat) (hi : i = 0 ∨ i = 1 ∨ i = 2) (l : List Host)
    (hl : AddrNodup l) (ht : ∀ h ∈ l, p.tier h = i) : Inv (p.setLayer i l) := by
  rcases hi with rfl | rfl | rfl
  · exact ⟨hl, hp.a1, hp.a2, ht, hp.t1, hp.t2⟩
  · exact ⟨hp.a0, hl, hp.a2, hp.t0, ht, hp.t2⟩
  · exact ⟨hp.a0, hp.a1, hl, hp.t0, hp.t1, ht⟩

theorem getLayer_tier (p : Pol) (hp : Inv p) (i : Nat) (hi : i = 0 ∨ i = 1 ∨ i = 2) :
    AddrNodup (p.getLayer i) ∧ ∀ h ∈ p.getLayer i, p.tier h = i := by
  rcases hi with rfl | rfl | rfl
  · exact ⟨hp.a0, hp.t0⟩
  · exact ⟨hp.a1, hp.t1⟩
  · exact ⟨hp.a2, hp.t2⟩

theorem Inv_add (p : Pol) (hp : Inv p) (h : Host) : Inv (p.add h) := by
  unfold Pol.add
  have ⟨hn, ht⟩ := getLayer_tier p hp (p.tier h) (tier_le_two p h)
  apply Inv_setLayer p hp _ (tier_le_two p h) _ (cowAdd_inv _ _ hn)
  intro x hx
  rw [mem_cowAdd] at hx
  rcases hx with hx | ⟨rfl, _⟩
  · exact ht x hx
  · rfl

theorem Inv_remove (p : Pol) (hp : Inv p) (h : Host) : Inv (p.remove h) := by
  unfold Pol.remove
  have ⟨hn, ht⟩ := getLayer_tier p hp (p.tier h) (tier_le_two p h)
  apply Inv_setLayer p hp _ (tier_le_two p h) _ (cowRemove_inv _ _ hn)
  intro x hx
  rw [mem_cowRemove] at hx
  exact ht x hx.1

theorem Inv_pick (p : Pol) (hp : Inv p) (up : Nat → Bool) : Inv (p.pick up).1 :=
  ⟨hp.a0, hp.a1, hp.a2, hp.t0, hp.t1, hp.t2⟩

/-- with the invariant, the unused lists are empty: the layers handed to `roundRobbin` are all three lists -/
theorem rrSeq_layers (p : Pol) (hp : Inv p) (up : Nat → Bool) (s : Nat) :
    rrSeq up s p.layers = rrSeq up s [p.l0, p.l1, p.l2] := by
  unfold Pol.layers
  cases hk : p.kind
  · have h1 : p.l1 = [] := List.eq_nil_iff_forall_not_mem.mpr (fun h hh => by
      have := hp.t1 h hh; rw [tier_rr p hk] at this; omega)
    have h2 : p.l2 = [] := List.eq_nil_iff_forall_not_mem.mpr (fun h hh => by
      have := hp.t2 h hh; rw [tier_rr p hk] at this; omega)
    simp [h1, h2, rrSeq_cons, rrSeq_nil, layerSeq_nil]
  · have h2 : p.l2 = [] := List.eq_nil_iff_forall_not_mem.mpr (fun h hh => by
      have := hp.t2 h hh; rcases tier_dc p hk h with e | e <;> omega)
    simp [h2, rrSeq_cons, rrSeq_nil, layerSeq_nil]
  · rfl

theorem mem_pickSeq (p : Pol) (hp : Inv p) (up : Nat → Bool) (h : Host) :
    h ∈ p.pickSeq up ↔ known p h ∧ up h.id = true := by
  unfold Pol.pickSeq known
  rw [rrSeq_layers p hp, mem_rrSeq]
  simp only [List.mem_cons, List.not_mem_nil, or_false, exists_eq_or_imp, exists_eq_left]

theorem three_nodup (p : Pol) (hp : Inv p) : [p.l0, p.l1, p.l2].flatten.Nodup := by
  simp only [List.flatten_cons, List.flatten_nil, List.append_nil]
  rw [List.nodup_append]
  refine ⟨hp.a0.nodup, ?_, ?_⟩
  · rw [List.nodup_append]
    refine ⟨hp.a1.nodup, hp.a2.nodup, ?_⟩
    intro a ha b hb e
    subst e
    have := hp.t1 a ha; have := hp.t2 a hb; omega
  · intro a ha b hb e
    subst e
    rw [List.mem_append] at hb
    have := hp.t0 a ha
    rcases hb with hb | hb
    · have := hp.t1 a hb; omega
    · have := hp.t2 a hb; omega

theorem pickSeq_nodup (p : Pol) (hp : Inv p) (up : Nat → Bool) : (p.pickSeq up).Nodup := by
  unfold Pol.pickSeq
  rw [rrSeq_layers p hp]
  exact rrSeq_nodup up _ _ (three_nodup p hp)

theorem pickSeq_sorted (p : Pol) (hp : Inv p) (up : Nat → Bool) :
    (p.pickSeq up).Pairwise (fun a b => p.tier a ≤ p.tier b) := by
  unfold Pol.pickSeq
  rw [rrSeq_layers p hp]
  simp only [rrSeq_cons, rrSeq_nil, List.append_nil]
  have m0 : ∀ a ∈ (layerSeq (p.ctr + 1) p.l0).filter (fun h => up h.id), p.tier a = 0 := fun a ha =>
    hp.t0 a ((mem_layerSeq _ _ _).mp (List.mem_filter.mp ha).1)
  have m1 : ∀ a ∈ (layerSeq (p.ctr + 1) p.l1).filter (fun h => up h.id), p.tier a = 1 := fun a ha =>
    hp.t1 a ((mem_layerSeq _ _ _).mp (List.mem_filter.mp ha).1)
  have m2 : ∀ a ∈ (layerSeq (p.ctr + 1) p.l2).filter (fun h => up h.id), p.tier a = 2 := fun a ha =>
    hp.t2 a ((mem_layerSeq _ _ _).mp (List.mem_filter.mp ha).1)
  have same : ∀ (l : List Host) (k : Nat), (∀ a ∈ l, p.tier a = k) → l.Pairwise (fun a b => p.tier a ≤ p.tier b) := by
    intro l k hl
    induction l with
    | nil => exact List.Pairwise.nil
    | cons x t ih =>
      refine List.Pairwise.cons ?_ (ih (fun a ha => hl a (List.mem_cons_of_mem _ ha)))
      intro b hb
      rw [hl x List.mem_cons_self, hl b (List.mem_cons_of_mem _ hb)]
      exact Nat.le_refl _
  rw [List.pairwise_append]
  refine ⟨same _ 0 m0, ?_, ?_⟩
  · rw [List.pairwise_append]
    refine ⟨same _ 1 m1, same _ 2 m2, ?_⟩
    intro a ha b hb
    rw [m1 a ha, m2 b hb]; omega
  · intro a ha b hb
    rw [m0 a ha]; omega

end C11
