/- C04 helper lemmas: parseBody / parseFrame on the specification's encoding of a whole response -/
import Proofs.C04Frames
namespace C04
open FrameRead RespSpec

theorem parseBody_ok (v : Nat) (b : Body) (r : FrameRead.Bytes) (hv : 1 ≤ v)
    (hw : wfBody v b = true) :
    parseBody v (UInt8.ofNat b.opcode) (eMsg v b ++ r) = .ok (viewBody v b, restOfBody b ++ r) := by
  cases b with
  | error msg e =>
    have h : fitsShort msg = true ∧ wfErr v e = true := by simpa [wfBody] using hw
    have := parseErrorFrame_ok v msg e r h.1 h.2
    simp only [List.append_assoc] at this
    simp [parseBody, Body.opcode, opError, eMsg, this, viewBody, restOfBody]
  | ready =>
    simp [parseBody, Body.opcode, opError, opReady, eMsg, pure_apply, viewBody, restOfBody]
  | authenticate c =>
    have h : fitsShort c = true := by simpa [wfBody] using hw
    simp [parseBody, Body.opcode, opError, opReady, opResult, opSupported, opAuthenticate, eMsg,
      bind_ok (readString_eString c r h), pure_apply, viewBody, restOfBody]
  | supported o =>
    have h : (isShort o.length = true ∧
        o.all (fun kv => fitsShort kv.1 && isShort kv.2.length && kv.2.all fitsShort) = true) ∧ (o.map (·.1)).Nodup := by
      simpa [wfBody] using hw
    simp [parseBody, Body.opcode, opError, opReady, opResult, opSupported, eMsg,
      bind_ok (readStringMultiMap_e o r h.1.1 h.1.2 h.2), pure_apply, viewBody, restOfBody]
  | result res =>
    have h : wfResult v res = true := by simpa [wfBody] using hw
    have := parseResultFrame_ok v res r hv h
    simp [parseBody, Body.opcode, opError, opReady, opResult, eMsg, this]
  | event e =>
    have h : wfEvent v e = true := by simpa [wfBody] using hw
    simp [parseBody, Body.opcode, opError, opReady, opResult, opSupported, opAuthenticate, opAuthChallenge,
      opAuthSuccess, opEvent, eMsg, parseEventFrame_ok v e r hv h, restOfBody]
  | authChallenge t =>
    have h : optFitsInt t = true := by simpa [wfBody] using hw
    simp [parseBody, Body.opcode, opError, opReady, opResult, opSupported, opAuthenticate, opAuthChallenge, eMsg,
      bind_ok (readBytes_eBytes t r h), pure_apply, viewBody, restOfBody]
  | authSuccess t =>
    have h : optFitsInt t = true := by simpa [wfBody] using hw
    simp [parseBody, Body.opcode, opError, opReady, opResult, opSupported, opAuthenticate, opAuthChallenge,
      opAuthSuccess, eMsg, bind_ok (readBytes_eBytes t r h), pure_apply, viewBody, restOfBody]

/-- header flag bits of a response (`c`: the compression bit 0x01 set by the transport) -/
def flagBitsOf (t p w b c : Bool) : Nat :=
  (if t then 0x02 else 0) + (if p then 0x04 else 0) + (if w then 0x08 else 0) + (if b then 0x10 else 0) +
  (if c then 0x01 else 0)

theorem flags_decode : ∀ t p w b c : Bool,
    ((UInt8.ofNat (flagBitsOf t p w b c) &&& flagTracing == flagTracing) = t) ∧
    ((UInt8.ofNat (flagBitsOf t p w b c) &&& flagWarning == flagWarning) = w) ∧
    ((UInt8.ofNat (flagBitsOf t p w b c) &&& flagCustomPayload == flagCustomPayload) = p) := by
  decide

theorem version_is_response (v : Nat) (h1 : 1 ≤ v) (h5 : v ≤ 5) :
    (UInt8.ofNat (v + 0x80) &&& 0x80 == 0) = false := by
  have : v = 1 ∨ v = 2 ∨ v = 3 ∨ v = 4 ∨ v = 5 := by omega
  rcases this with h | h | h | h | h <;> subst h <;> decide

theorem trace_ok (tracing : Option FrameRead.Bytes) (rest : FrameRead.Bytes) (ht : wfTracing tracing = true) :
    (if tracing.isSome = true then (do let u ← readUUID; pure (some u) : P (Option FrameRead.Bytes)) else pure none)
      (eTracing tracing ++ rest) = .ok (tracing, rest) := by
  cases tracing with
  | none => simp [pure_apply, eTracing]
  | some t =>
    have : t.length = 16 := by simpa [wfTracing] using ht
    simp [bind_ok (readUUID_ok t rest this), pure_apply, eTracing]

theorem warnings_ok (warnings : Option (List FrameRead.Bytes)) (rest : FrameRead.Bytes) (hwn : wfWarnings warnings = true) :
    (if warnings.isSome = true then (do let l ← readStringList; pure (some l) : P (Option (List FrameRead.Bytes))) else pure none)
      (eWarnings warnings ++ rest) = .ok (warnings, rest) := by
  cases warnings with
  | none => simp [pure_apply, eWarnings]
  | some w =>
    have : isShort w.length = true ∧ w.all fitsShort = true := by simpa [wfWarnings] using hwn
    simp [bind_ok (readStringList_eStringList w rest this.1 this.2), pure_apply, eWarnings]

theorem payload_ok (payload : Option (List (FrameRead.Bytes × Option FrameRead.Bytes))) (rest : FrameRead.Bytes)
    (hp : wfPayload payload = true) :
    (if payload.isSome = true then (do let m ← readBytesMap; pure (some m) : P (Option (List (FrameRead.Bytes × Option FrameRead.Bytes)))) else pure none)
      (ePayload payload ++ rest) = .ok (payload, rest) := by
  cases payload with
  | none => simp [pure_apply, ePayload]
  | some p =>
    have : (isShort p.length = true ∧ p.all (fun kv => fitsShort kv.1 && optFitsInt kv.2) = true) ∧ (p.map (·.1)).Nodup := by
      simpa [wfPayload] using hp
    simp [bind_ok (readBytesMap_eBytesMap p rest this.1.1 this.1.2 this.2), pure_apply, ePayload]

/-- parseFrame only looks at the version byte, the flags and the opcode of the header -/
theorem parseResp_hdr (v : Nat) (r : LResp) (tail : FrameRead.Bytes) (h : Header) (c : Bool)
    (hv : h.version = UInt8.ofNat (v + 0x80)) (hf : h.flags = UInt8.ofNat (r.flags + (if c then 0x01 else 0)))
    (ho : h.op = UInt8.ofNat r.body.opcode) (hw : wf v r = true) :
    parseResp v h (encodeBody v r ++ tail) = .ok (view v r, restOf r ++ tail) := by
  obtain ⟨stream, tracing, warnings, payload, beta, body⟩ := r
  simp only [wf, Bool.and_eq_true, decide_eq_true_eq] at hw
  obtain ⟨⟨⟨⟨⟨hv1, hv5⟩, ht⟩, hwn⟩, hp⟩, hb⟩ := hw
  have hfl := flags_decode tracing.isSome payload.isSome warnings.isSome beta c
  have hflags : (LResp.flags ⟨stream, tracing, warnings, payload, beta, body⟩) + (if c then 0x01 else 0) =
      flagBitsOf tracing.isSome payload.isSome warnings.isSome beta c := rfl
  have hbody := parseBody_ok v body tail hv1 hb
  have hver : (h.version &&& 0x80 == 0) = false := by rw [hv]; exact version_is_response v hv1 hv5
  unfold parseResp parseFrameP
  rw [if_neg (by rw [hver]; simp)]
  simp only [hf, ho, hflags, hfl.1, hfl.2.1, hfl.2.2, restOf, encodeBody, view, List.append_assoc]
  rw [bind_ok (trace_ok tracing _ ht), bind_ok (warnings_ok warnings _ hwn), bind_ok (payload_ok payload _ hp),
    bind_ok hbody]
  rfl

theorem parseResp_ok (v : Nat) (r : LResp) (tail : FrameRead.Bytes) (hw : wf v r = true) :
    parseResp v (hdr v r) (encodeBody v r ++ tail) = .ok (view v r, restOf r ++ tail) :=
  parseResp_hdr v r tail (hdr v r) false rfl (by simp [hdr]) rfl hw

end C04
