import Proofs.C08Inv
/-! C08: every action of the machine preserves the invariant (all schedules, by induction) -/
namespace C08
open Streams

theorem firstClear_some {b : Word} {j j' : Nat} (h : firstClear b j = some j') :
    j ≤ j' ∧ j' < 64 ∧ b.getLsbD (streamOffset j') = false := by
  unfold firstClear at h
  have h1 := List.find?_some h
  have h2 := List.mem_of_find?_eq_some h
  rw [and_mask_eq_zero] at h1
  simp [List.mem_range'] at h2
  simp at h1
  obtain ⟨i, hi, rfl⟩ := h2
  exact ⟨by omega, by omega, h1⟩

theorem firstClear_none {b : Word} {j : Nat} (h : firstClear b j = none) :
    ∀ j', j ≤ j' → j' < 64 → b.getLsbD (streamOffset j') = true := by
  unfold firstClear at h
  rw [List.find?_eq_none] at h
  intro j' h1 h2
  have := h j' (by simp [List.mem_range']; exact ⟨j' - j, by omega, by omega⟩)
  rw [and_mask_eq_zero] at this
  simpa using this

/-- what a returned value may be in a protocol-respecting run -/
def retOk (s : State) : Option Ret → Prop
  | some (.stream id true) => 1 ≤ id ∧ id < 64 * s.sh.words.length ∧ id ∉ s.held
  | some (.stream id false) => id = 0
  | some (.cleared b) => b = true
  | some (.avail v) => v = (64 * s.sh.words.length : Nat) - s.sh.inuse - 1
  | some .crashIndex => False
  | some .crashNegative => False
  | none => True

/-- a pc reached by scanning: nothing owned, not in Clear, local fact holds -/
def scanPc (pc : PC) : Prop := owns pc = none ∧ inClear pc = false ∧ localOk pc

theorem nextWord_spec (n off i : Nat) :
    scanPc (nextWord n off i).1 ∧ ((nextWord n off i).2 = none ∨ (nextWord n off i).2 = some (.stream 0 false)) := by
  unfold nextWord
  split <;> simp [scanPc, owns, inClear, localOk]

theorem afterLoad_spec (n off i j : Nat) (b : Word) :
    scanPc (afterLoad n off i j b).1 ∧
      ((afterLoad n off i j b).2 = none ∨ (afterLoad n off i j b).2 = some (.stream 0 false)) := by
  unfold afterLoad
  split
  · rename_i j' h
    have := firstClear_some h
    simp [scanPc, owns, inClear, localOk, this]
  · exact nextWord_spec n off i

theorem retOk_scan (s : State) (r : Option Ret) (h : r = none ∨ r = some (.stream 0 false)) : retOk s r := by
  rcases h with rfl | rfl <;> simp [retOk]

/-- held list after an exec that does not return a stream -/
theorem exec_eq_of_noret (s : State) (t : Nat) (pc : PC) (held : List Nat) (sh' : Shared) (pc' : PC) (r : Option Ret)
    (h : tstep s.sh pc = (sh', pc', r)) (hr : r = none ∨ r = some (.stream 0 false) ∨ (∃ b, r = some (.cleared b)) ∨
      (∃ v, r = some (.avail v)) ∨ r = some .crashIndex ∨ r = some .crashNegative) :
    exec s t pc held = ({ sh := sh', threads := s.threads.set t pc', held := held }, r) := by
  unfold exec
  rw [h]
  rcases hr with rfl | rfl | ⟨b, rfl⟩ | ⟨v, rfl⟩ | rfl | rfl <;> rfl

theorem inv_exec {s : State} (hI : Inv s) {t : Nat} {pc : PC} (ht : s.threads[t]? = some pc) :
    Inv (exec s t pc s.held).1 ∧ retOk s (exec s t pc s.held).2 := by
  cases pc with
  | idle => exact ⟨inv_local hI ht s.sh rfl rfl rfl rfl trivial, trivial⟩
  | g1 => exact ⟨inv_local hI ht s.sh rfl rfl rfl rfl trivial, trivial⟩
  | g2 o =>
    by_cases h : s.sh.offset = o
    · rw [exec_eq_of_noret s t _ _ { s.sh with offset := nextOffset s.sh.words.length o } (.g4 (nextOffset s.sh.words.length o) 0) none
        (by simp only [tstep, h, ↓reduceIte]) (Or.inl rfl)]
      exact ⟨inv_local hI ht _ rfl rfl rfl rfl trivial, trivial⟩
    · rw [exec_eq_of_noret s t _ _ s.sh .g3 none (by simp only [tstep, h, ↓reduceIte]) (Or.inl rfl)]
      exact ⟨inv_local hI ht _ rfl rfl rfl rfl trivial, trivial⟩
  | g3 => exact ⟨inv_local hI ht s.sh rfl rfl rfl rfl trivial, trivial⟩
  | g4 off i =>
    generalize hb : s.sh.words.getD ((i + off) % s.sh.words.length) 0 = b
    by_cases hall : b = allOnes
    · obtain ⟨⟨h1, h2, h3⟩, h4⟩ := nextWord_spec s.sh.words.length off i
      rw [exec_eq_of_noret s t _ _ s.sh (nextWord s.sh.words.length off i).1 (nextWord s.sh.words.length off i).2
        (by simp only [tstep, hb, hall, ↓reduceIte]) (by rcases h4 with h | h <;> simp [h])]
      exact ⟨inv_local hI ht _ rfl rfl h1 h2 h3, retOk_scan s _ h4⟩
    · obtain ⟨⟨h1, h2, h3⟩, h4⟩ := afterLoad_spec s.sh.words.length off i 0 b
      rw [exec_eq_of_noret s t _ _ s.sh (afterLoad s.sh.words.length off i 0 b).1 (afterLoad s.sh.words.length off i 0 b).2
        (by simp only [tstep, hb, hall, ↓reduceIte]) (by rcases h4 with h | h <;> simp [h])]
      exact ⟨inv_local hI ht _ rfl rfl h1 h2 h3, retOk_scan s _ h4⟩
  | g5 off i j b =>
    by_cases h : s.sh.words.getD ((i + off) % s.sh.words.length) 0 = b
    · rw [exec_eq_of_noret s t _ _
        { s.sh with words := s.sh.words.set ((i + off) % s.sh.words.length) (b ||| mask j) }
        (.g7 (streamFromBucket ((i + off) % s.sh.words.length) j)) none (by simp only [tstep, h, ↓reduceIte]) (Or.inl rfl)]
      exact ⟨inv_acquire hI ht h, trivial⟩
    · rw [exec_eq_of_noret s t _ _ s.sh (.g6 off i j) none (by simp only [tstep, h, ↓reduceIte]) (Or.inl rfl)]
      exact ⟨inv_local hI ht _ rfl rfl rfl rfl trivial, trivial⟩
  | g6 off i j =>
    generalize hb : s.sh.words.getD ((i + off) % s.sh.words.length) 0 = b
    obtain ⟨⟨h1, h2, h3⟩, h4⟩ := afterLoad_spec s.sh.words.length off i j b
    rw [exec_eq_of_noret s t _ _ s.sh (afterLoad s.sh.words.length off i j b).1 (afterLoad s.sh.words.length off i j b).2
      (by simp only [tstep, hb]) (by rcases h4 with h | h <;> simp [h])]
    exact ⟨inv_local hI ht _ rfl rfl h1 h2 h3, retOk_scan s _ h4⟩
  | g7 id =>
    obtain ⟨a1, a2, _, a4⟩ := hI.ownOk t _ id ht rfl
    exact ⟨inv_return hI ht, ⟨a1, a2, a4⟩⟩
  | c8 id =>
    obtain ⟨a1, a2, a3, a4⟩ := hI.ownOk t _ id ht rfl
    have hlt : bucketOffset id < s.sh.words.length := by unfold bucketOffset; omega
    generalize hb : s.sh.words.getD (bucketOffset id) 0 = b
    have a3' : (s.sh.words.getD (bucketOffset id) 0).getLsbD (streamOffset id) = true := a3
    have hbit : ¬ (b &&& mask id ≠ mask id) := by
      rw [and_mask_ne_mask, ← hb, a3']; simp
    rw [exec_eq_of_noret s t _ _ s.sh (.c9 id b) none (by simp only [tstep, hlt, hb, hbit, ↓reduceIte]) (Or.inl rfl)]
    exact ⟨inv_local hI ht _ rfl rfl rfl rfl trivial, trivial⟩
  | c9 id b =>
    by_cases h : s.sh.words.getD (bucketOffset id) 0 = b
    · rw [exec_eq_of_noret s t _ _
        { s.sh with words := s.sh.words.set (bucketOffset id) (b &&& ~~~ mask id) } (.c11 id) none
        (by simp only [tstep, h, ↓reduceIte]) (Or.inl rfl)]
      exact ⟨inv_release hI ht h, trivial⟩
    · rw [exec_eq_of_noret s t _ _ s.sh (.c10 id) none (by simp only [tstep, h, ↓reduceIte]) (Or.inl rfl)]
      exact ⟨inv_local hI ht _ rfl rfl rfl rfl trivial, trivial⟩
  | c10 id =>
    obtain ⟨a1, a2, a3, a4⟩ := hI.ownOk t _ id ht rfl
    generalize hb : s.sh.words.getD (bucketOffset id) 0 = b
    have a3' : (s.sh.words.getD (bucketOffset id) 0).getLsbD (streamOffset id) = true := a3
    have hbit : ¬ (b &&& mask id ≠ mask id) := by
      rw [and_mask_ne_mask, ← hb, a3']; simp
    rw [exec_eq_of_noret s t _ _ s.sh (.c9 id b) none (by simp only [tstep, hb, hbit, ↓reduceIte]) (Or.inl rfl)]
    exact ⟨inv_local hI ht _ rfl rfl rfl rfl trivial, trivial⟩
  | c11 x =>
    obtain ⟨h1, h2⟩ := inv_decrement hI ht
    rw [exec_eq_of_noret s t _ _ { s.sh with inuse := s.sh.inuse - 1 } .idle (some (.cleared true))
      (by simp only [tstep, h2, ↓reduceIte]) (by simp)]
    exact ⟨h1, rfl⟩
  | a12 =>
    rw [exec_eq_of_noret s t _ _ s.sh .idle (some (.avail ((64 * s.sh.words.length : Nat) - s.sh.inuse - 1)))
      (by simp only [tstep]) (by simp)]
    exact ⟨inv_local hI ht _ rfl rfl rfl rfl trivial, rfl⟩

end C08

namespace C08
open Streams

theorem tstep_length (sh : Shared) (pc : PC) : (tstep sh pc).1.words.length = sh.words.length := by
  cases pc <;> simp only [tstep] <;> (try split) <;> (try split) <;> simp

theorem exec_length (s : State) (t : Nat) (pc : PC) (held : List Nat) :
    (exec s t pc held).1.sh.words.length = s.sh.words.length := by
  simp only [exec]; exact tstep_length s.sh pc

theorem exec_threads_length (s : State) (t : Nat) (pc : PC) (held : List Nat) :
    (exec s t pc held).1.threads.length = s.threads.length := by
  simp [exec]

/-- `exec` only looks at the shared state and at the slot `t` it overwrites -/
theorem exec_congr (s : State) (t : Nat) (pc x : PC) (held held' : List Nat) :
    exec { sh := s.sh, threads := s.threads.set t x, held := held' } t pc held = exec s t pc held := by
  simp [exec, List.set_set]

/-- one action (enabled, protocol-respecting) preserves the invariant; the value it returns is sane -/
theorem inv_step {s s' : State} {a : Action} {r : Option Ret} (hI : Inv s) (hl : legal s a = true)
    (hs : step s a = some (s', r)) : Inv s' ∧ retOk s r := by
  cases a with
  | start t op =>
    simp only [step] at hs
    split at hs
    · rename_i hidle
      simp only [Option.some.injEq] at hs
      cases op with
      | get =>
        have h1 : Inv { sh := s.sh, threads := s.threads.set t .g1, held := s.held } :=
          inv_local hI hidle s.sh rfl rfl rfl rfl trivial
        have h2 := inv_exec h1 (t := t) (pc := .g1) (by simp [get_set hidle])
        rw [exec_congr] at h2
        simp only [startPC] at hs
        rw [hs] at h2
        exact h2
      | avail =>
        have h1 : Inv { sh := s.sh, threads := s.threads.set t .a12, held := s.held } :=
          inv_local hI hidle s.sh rfl rfl rfl rfl trivial
        have h2 := inv_exec h1 (t := t) (pc := .a12) (by simp [get_set hidle])
        rw [exec_congr] at h2
        simp only [startPC] at hs
        rw [hs] at h2
        exact h2
      | clear id =>
        have hheld : id ∈ s.held := by simpa [legal] using hl
        have h1 := inv_call_clear hI hidle hheld
        have h2 := inv_exec h1 (t := t) (pc := .c8 id) (by simp [get_set hidle])
        rw [exec_congr] at h2
        simp only [startPC] at hs
        rw [hs] at h2
        refine ⟨h2.1, ?_⟩
        -- a Clear step returns nothing at its first atomic operation, or `cleared true`
        have h3 := h2.2
        revert h3
        cases r with
        | none => intro _; trivial
        | some v =>
          cases v with
          | stream x ok =>
            cases ok
            · simp [retOk]
            · simp only [retOk]
              intro ⟨a1, a2, a3⟩
              -- impossible: exec of c8 never returns a stream; derive from the equation
              exfalso
              have : (exec s t (.c8 id) (s.held.erase id)).2 = some (.stream x true) := by rw [hs]
              simp only [exec, tstep] at this
              split at this
              · split at this <;> cases this
              · cases this
          | cleared b => simp [retOk]
          | avail v =>
            intro _
            exfalso
            have : (exec s t (.c8 id) (s.held.erase id)).2 = some (.avail v) := by rw [hs]
            simp only [exec, tstep] at this
            split at this
            · split at this <;> cases this
            · cases this
          | crashIndex => simp [retOk]
          | crashNegative => simp [retOk]
    · cases hs
  | step t =>
    simp only [step] at hs
    split at hs
    · rename_i pc hpc
      split at hs
      · cases hs
      · simp only [Option.some.injEq] at hs
        have h2 := inv_exec hI hpc
        rw [hs] at h2
        exact h2
    · cases hs

/-- every protocol-respecting schedule preserves the invariant -/
theorem inv_run {s s' : State} (as : List Action) (hI : Inv s) (h : run s as = some s') : Inv s' := by
  induction as generalizing s with
  | nil => simp [run] at h; subst h; exact hI
  | cons a as ih =>
    simp only [run] at h
    split at h
    · rename_i hl
      split at h
      · rename_i s1 r hs
        exact ih (inv_step hI hl hs).1 h
      · cases h
    · cases h

theorem step_length {s s' : State} {a : Action} {r : Option Ret} (hs : step s a = some (s', r)) :
    s'.sh.words.length = s.sh.words.length ∧ s'.threads.length = s.threads.length := by
  cases a with
  | start t op =>
    simp only [step] at hs
    split at hs
    · simp only [Option.some.injEq] at hs
      have h1 := congrArg (fun p => p.1.sh.words.length) hs
      have h2 := congrArg (fun p => p.1.threads.length) hs
      simp only [exec_length, exec_threads_length] at h1 h2
      exact ⟨h1.symm, h2.symm⟩
    · cases hs
  | step t =>
    simp only [step] at hs
    split at hs
    · rename_i pc hpc
      split at hs
      · cases hs
      · simp only [Option.some.injEq] at hs
        have h1 := exec_length s t pc s.held
        have h2 := exec_threads_length s t pc s.held
        rw [hs] at h1 h2; exact ⟨h1, h2⟩
    · cases hs

theorem run_length {s s' : State} (as : List Action) (h : run s as = some s') :
    s'.sh.words.length = s.sh.words.length ∧ s'.threads.length = s.threads.length := by
  induction as generalizing s with
  | nil => simp [run] at h; subst h; exact ⟨rfl, rfl⟩
  | cons a as ih =>
    simp only [run] at h
    split at h
    · split at h
      · rename_i s1 r hs
        have := step_length hs
        have := ih h
        omega
      · cases h
    · cases h

end C08
