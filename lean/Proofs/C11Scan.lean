import Model.Policies
import Proofs.C11RR
import Proofs.C11Pol
/-! helper lemmas: the code's index arithmetic (uint64 counter, `int(...)`, Go `%`) equals the ideal
natural-number arithmetic below the bound `shift + layer length < 2^63`; rotation of successive picks -/
namespace C11
open Policies

theorem wrap64_small (x : Int) (h0 : 0 ≤ x) (h1 : x < 9223372036854775808) : wrap64 x = x := by
  unfold wrap64; omega

theorem goIndex_small (s k n : Nat) (h : s + k < 9223372036854775808) :
    goIndex (wrap64 (s : Int)) k n = some ((s + k) % n) := by
  unfold goIndex
  rw [wrap64_small (s : Int) (by omega) (by omega)]
  rw [wrap64_small ((s : Int) + (k : Int)) (by omega) (by omega)]
  have e : ((s : Int) + (k : Int)) = ((s + k : Nat) : Int) := by omega
  rw [e, Int.tmod_eq_emod_of_nonneg (by omega)]
  have e2 : (((s + k : Nat) : Int) % (n : Int)) = (((s + k) % n : Nat) : Int) := Int.ofNat_mod_ofNat (s + k) n
  simp only [e2]
  have : ¬ ((((s + k) % n : Nat) : Int) < 0) := by omega
  rw [if_neg this, Int.toNat_natCast]

theorem layerScan_small (s : Nat) (l : List Host) (h : s + l.length < 9223372036854775808) :
    layerScan (wrap64 (s : Int)) l = (layerSeq s l).map some := by
  unfold layerScan layerSeq
  rw [List.map_map]
  apply List.map_congr_left
  intro k hk
  have hk' : k < l.length := List.mem_range.mp hk
  rw [goIndex_small s (k + 1) l.length (by omega)]
  rfl

theorem runScan_some (up : Nat → Bool) (L : List Host) :
    runScan up (L.map some) = ⟨L.filter (fun h => up h.id), false⟩ := by
  induction L with
  | nil => rfl
  | cons a t ih =>
    simp only [List.map_cons, runScan, ih, List.filter_cons]
    split <;> rfl

theorem rrScan_small (up : Nat → Bool) (s : Nat) (layers : List (List Host))
    (h : ∀ l ∈ layers, s + l.length < 9223372036854775808) :
    rrScan up (wrap64 (s : Int)) layers = ⟨rrSeq up s layers, false⟩ := by
  unfold rrScan rrSeq
  have e : layers.map (layerScan (wrap64 (s : Int))) = layers.map (fun l => (layerSeq s l).map some) :=
    List.map_congr_left (fun l hl => layerScan_small s l (h l hl))
  rw [e]
  have e2 : (layers.map (fun l => (layerSeq s l).map some)).flatten = ((layers.map (layerSeq s)).flatten).map some := by
    rw [List.map_flatten, List.map_map]; rfl
  rw [e2, runScan_some]
  congr 1
  rw [List.filter_flatten, List.map_map]; rfl

theorem shift_small (p : Pol) (h : p.ctr + 1 < 9223372036854775808) : p.shift = wrap64 ((p.ctr + 1 : Nat) : Int) := by
  unfold Pol.shift
  rw [Nat.mod_eq_of_lt (by omega)]

/-- the bound under which the next `Pick` of the policy does not leave the ideal arithmetic -/
def Pol.below (p : Pol) : Prop := ∀ l ∈ p.layers, p.ctr + 1 + l.length < 9223372036854775808

theorem pickScan_small (p : Pol) (up : Nat → Bool) (h : Pol.below p) : p.pickScan up = ⟨p.pickSeq up, false⟩ := by
  unfold Pol.pickScan Pol.pickSeq
  have hc : p.ctr + 1 < 9223372036854775808 := by
    have : p.layers ≠ [] := by unfold Pol.layers; split <;> simp
    obtain ⟨l, hl⟩ := List.exists_mem_of_ne_nil _ this
    have := h l hl
    omega
  rw [shift_small p hc]
  exact rrScan_small up (p.ctr + 1) p.layers h

theorem bump_ctr (p : Pol) (h : p.ctr + 1 < 18446744073709551616) : p.bump.ctr = p.ctr + 1 := by
  unfold Pol.bump
  exact Nat.mod_eq_of_lt h

end C11
