/-
C12 — HISTORIES inside one process (op `hist`): the same Go type marshalled for several type descriptions, in sequence.

gocql.Marshal(info, value) of the code that exists keeps nothing between calls: it resolves, on every call, which
part of the Go value feeds which part of the column type (struct field ↔ UDT field by cql tag / field name, tuple
field by position, element type of a collection) from `info` and `value` alone.  `Memo` is the general shape of an
implementation that REMEMBERS such a resolution in per-process state: `resolve` computes it from the call, the cache
keeps it under `key`, a cached entry is re-used when `valid` accepts it for the new call, `apply` produces the bytes
from a resolution and the call.  `direct` is the stateless answer.  Proofs/C12Hist.lean: a memo whose accepted cache
hits always give the stateless answer is history independent for ALL call sequences; one keyed by less than the
resolution depends on (Go type + UDT name, accepted when the number of fields agrees) is not (counterexample).
Core Lean only.
-/
namespace MarshalMemo

structure Memo (α β ρ κ : Type) where
  key : α → κ
  resolve : α → ρ
  valid : ρ → α → Bool
  apply : ρ → α → β

variable {α β ρ κ : Type}

def lookupK [DecidableEq κ] (k : κ) : List (κ × ρ) → Option ρ
  | [] => none
  | (k', r) :: rest => if k' = k then some r else lookupK k rest

/-- the stateless answer: resolve from this call's own arguments -/
def Memo.direct (M : Memo α β ρ κ) (a : α) : β := M.apply (M.resolve a) a

def Memo.step [DecidableEq κ] (M : Memo α β ρ κ) (cache : List (κ × ρ)) (a : α) : List (κ × ρ) × β :=
  match lookupK (M.key a) cache with
  | some r => if M.valid r a then (cache, M.apply r a) else ((M.key a, M.resolve a) :: cache, M.direct a)
  | none => ((M.key a, M.resolve a) :: cache, M.direct a)

/-- the answers of a sequence of calls made in one process, starting from `cache` -/
def Memo.run [DecidableEq κ] (M : Memo α β ρ κ) : List (κ × ρ) → List α → List β
  | _, [] => []
  | c, a :: as => (M.step c a).2 :: M.run (M.step c a).1 as

/-- the process of the code that exists: no state between calls (state `Unit`), every call answered by `F` -/
def pureStep (F : α → β) (_ : Unit) (a : α) : Unit × β := ((), F a)
def pureRun (F : α → β) : Unit → List α → List β
  | _, [] => []
  | s, a :: as => (pureStep F s a).2 :: pureRun F (pureStep F s a).1 as

/-! ## the toy instance of the counterexample: a UDT value from a tagged struct

call = (names of the UDT fields in the order of the type definition, cql tags of the struct fields, field values);
resolution = for every UDT field the index of the struct field of that name; bytes = the values in that order (0 for
a UDT field the struct does not have).  `staleUdt`: cache keyed by the struct type (its tags) only, accepted when the
number of UDT fields agrees — a later definition with the same names in another order is served in the stale order. -/

abbrev UCall := List Nat × List Nat × List Nat

def idxOf (n : Nat) : List Nat → Nat → Option Nat
  | [], _ => none
  | t :: r, i => if t = n then some i else idxOf n r (i + 1)

def udtResolve (c : UCall) : List (Option Nat) := c.1.map (fun n => idxOf n c.2.1 0)
def udtApply (r : List (Option Nat)) (c : UCall) : List Nat :=
  r.map (fun | some i => c.2.2.getD i 0 | none => 0)

def staleUdt : Memo UCall (List Nat) (List (Option Nat)) (List Nat) where
  key := fun c => c.2.1
  resolve := udtResolve
  valid := fun r c => r.length == c.1.length
  apply := udtApply

/-- keyed by everything the resolution depends on -/
def soundUdt : Memo UCall (List Nat) (List (Option Nat)) (List Nat × List Nat) where
  key := fun c => (c.1, c.2.1)
  resolve := udtResolve
  valid := fun _ _ => true
  apply := udtApply

end MarshalMemo
