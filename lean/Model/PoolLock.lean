/-
  The lock discipline of /repo/connectionpool.go hostConnPool against /repo/conn.go closeWithError (C06, "closing
  never hangs", second round): closing a connection CALLS BACK into its owner.

    Conn.Close() = closeWithError(nil):  if c.closed return; c.closed = true; …; cerr := c.conn.Close();
                                         if cerr != nil { c.errorHandler.HandleError(c, cerr, true) }
    closeWithError(err ≠ nil):           …; c.errorHandler.HandleError(c, err, true)
    hostConnPool.HandleError:            pool.mu.Lock(); if pool.closed return; remove conn; go fill(); Unlock

  so whoever closes a pooled connection while holding pool.mu blocks on itself when the transport's Close()
  reports an error (sync.RWMutex is not re-entrant). The methods, as small programs over one lock:

    Close         lock; [closed ? — : closed := true; taken := conns; conns := nil]; unlock; close every taken conn
    HandleError c lock; [closed ? — : remove c]; unlock
    Pick / Size   lock; read; unlock
    connect tail  lock; [closed ? unlock; conn.Close() : append; unlock]
                  (since the repair of KF-C06-1, props/C06.fix-KF-C06-1.diff; before it the connection was closed
                   UNDER the lock: `pConnectTailOld`, kept for the regression counterexample only)

  `cerr c` = the transport of connection c reports an error from Close (static, chosen by the environment).
  RLock is modelled as Lock (more blocking, never less).
-/
namespace PoolLock

inductive Instr where
  | lock | unlock
  | poolCloseBody            -- under the lock: `if closed {return}; closed = true; conns, pool.conns = pool.conns, nil`
  | closeTaken               -- `for _, conn := range conns { conn.Close() }`
  | connClose (c : Nat)      -- Conn.Close(): closeWithError(nil)
  | connError (c : Nat)      -- closeWithError(err ≠ nil) (receive loop / writer / heartbeat of connection c)
  | heBody (c : Nat)         -- under the lock: `if closed {return}; remove c`
  | connectBody (c : Nat)    -- connect() BEFORE the repair of KF-C06-1, under the lock (unlock deferred):
                             -- `if closed { conn.Close(); return }; conns = append(conns, c)`
  | read                     -- Pick / Size
  | connectBodyU (c : Nat)   -- the tail of connect() (connectionpool.go, since the repair of KF-C06-1):
                             -- `if closed { Unlock(); conn.Close(); return }; conns = append(conns, c); Unlock()`
deriving DecidableEq, Repr

structure St where
  holder : Option Nat            -- the thread that holds pool.mu
  closed : Bool
  conns : List Nat
  cclosed : Nat → Bool           -- Conn.closed
  closes : Nat → Nat             -- how often the transport of connection c was closed (ghost)
  prog : Nat → List Instr        -- what thread t still has to do
  taken : Nat → List Nat         -- Close's local `conns`

def upd {α} (f : Nat → α) (k : Nat) (v : α) : Nat → α := fun x => if x = k then v else f x

def pClose : List Instr := [.lock, .poolCloseBody, .unlock, .closeTaken]
def pHandleError (c : Nat) : List Instr := [.lock, .heBody c, .unlock]
def pPick : List Instr := [.lock, .read, .unlock]
/-- the tail of hostConnPool.connect(): `pool.mu.Lock(); if pool.closed { Unlock(); conn.Close(); return }; append; Unlock()` -/
def pConnectTail (c : Nat) : List Instr := [.lock, .connectBodyU c]
/-- the tail of connect() as it was BEFORE the repair of KF-C06-1 (`defer pool.mu.Unlock()`, the late connection
    closed under the lock) - NOT the code that exists any more; regression counterexample only -/
def pConnectTailOld (c : Nat) : List Instr := [.lock, .connectBody c, .unlock]
/-- hostConnPool.Close of seeded change C06-6 (NOT the code that exists): `defer Unlock`, connections closed in place -/
def pCloseHoldingLock : List Instr := [.lock, .poolCloseBody, .closeTaken, .unlock]

/-- what a goroutine can do to a host pool and its connections: the pool's methods and the two ways a connection is closed -/
inductive Meth where
  | close                    -- hostConnPool.Close
  | handleError (c : Nat)    -- hostConnPool.HandleError(c, err, true)
  | pick                     -- Pick / Size
  | connClose (c : Nat)      -- Conn.Close()
  | connError (c : Nat)      -- closeWithError(err) from the receive loop / writer / heartbeat of connection c
  | connectTail (c : Nat)    -- the tail of hostConnPool.connect() for the freshly dialled connection c
deriving DecidableEq, Repr

def Meth.prog : Meth → List Instr
  | .close => pClose
  | .handleError c => pHandleError c
  | .pick => pPick
  | .connClose c => [.connClose c]
  | .connError c => [.connError c]
  | .connectTail c => pConnectTail c

/-- the program of a goroutine that calls these methods one after the other -/
def progOf (ms : List Meth) : List Instr := ms.flatMap Meth.prog

/-- thread `t` executes its next instruction (none: it has finished, or it is blocked on the lock) -/
def step (cerr : Nat → Bool) (st : St) (t : Nat) : Option St :=
  match st.prog t with
  | [] => none
  | .lock :: r =>
      match st.holder with
      | none => some { st with holder := some t, prog := upd st.prog t r }
      | some _ => none
  | .unlock :: r =>
      if st.holder = some t then some { st with holder := none, prog := upd st.prog t r } else none
  | .poolCloseBody :: r =>
      if st.closed then some { st with prog := upd st.prog t r }
      else some { st with closed := true, taken := upd st.taken t st.conns, conns := [], prog := upd st.prog t r }
  | .closeTaken :: r =>
      some { st with prog := upd st.prog t ((st.taken t).map .connClose ++ r), taken := upd st.taken t [] }
  | .connClose c :: r =>
      if st.cclosed c then some { st with prog := upd st.prog t r }
      else some { st with cclosed := upd st.cclosed c true, closes := upd st.closes c (st.closes c + 1),
                          prog := upd st.prog t ((if cerr c then pHandleError c else []) ++ r) }
  | .connError c :: r =>
      if st.cclosed c then some { st with prog := upd st.prog t r }
      else some { st with cclosed := upd st.cclosed c true, closes := upd st.closes c (st.closes c + 1),
                          prog := upd st.prog t (pHandleError c ++ r) }
  | .heBody c :: r =>
      if st.closed then some { st with prog := upd st.prog t r }
      else some { st with conns := st.conns.erase c, prog := upd st.prog t r }
  | .connectBody c :: r =>
      if st.closed then some { st with prog := upd st.prog t (.connClose c :: r) }
      else some { st with conns := c :: st.conns, prog := upd st.prog t r }
  | .read :: r => some { st with prog := upd st.prog t r }
  | .connectBodyU c :: r =>
      if st.holder = some t then
        (if st.closed then some { st with holder := none, prog := upd st.prog t (.connClose c :: r) }
         else some { st with holder := none, conns := c :: st.conns, prog := upd st.prog t r })
      else none

/-- a schedule: which thread moves next -/
def run (cerr : Nat → Bool) : St → List Nat → Option St
  | s, [] => some s
  | s, t :: ts => match step cerr s t with
    | some s' => run cerr s' ts
    | none => none

/-- thread t waits for the lock that it holds itself: it can never move again, and neither can anybody who
    needs the lock -/
def selfDeadlocked (st : St) (t : Nat) : Bool :=
  match st.prog t with
  | .lock :: _ => st.holder == some t
  | _ => false

/-- lock discipline of a program: run WITHOUT (`false`) / WITH (`true`) the lock held, it never locks twice, never
    unlocks what it does not hold, ends without the lock, and while it holds the lock it closes no connection
    whose transport may report a Close error and runs nothing that takes the lock -/
def ok (cerr : Nat → Bool) : Bool → List Instr → Bool
  | false, [] => true
  | true, [] => false
  | false, .lock :: r => ok cerr true r
  | true, .lock :: _ => false
  | true, .unlock :: r => ok cerr false r
  | false, .unlock :: _ => false
  | true, .poolCloseBody :: r => ok cerr true r
  | true, .heBody _ :: r => ok cerr true r
  | true, .read :: r => ok cerr true r
  | true, .connectBody c :: r => !cerr c && ok cerr true r
  | true, .connClose c :: r => !cerr c && ok cerr true r
  | false, .connClose _ :: r => ok cerr false r
  | false, .connError _ :: r => ok cerr false r
  | false, .closeTaken :: r => ok cerr false r
  | true, .connectBodyU _ :: r => ok cerr false r
  | _, _ => false

def init (conns : List Nat) (prog : Nat → List Instr) : St :=
  { holder := none, closed := false, conns := conns, cclosed := fun _ => false, closes := fun _ => 0,
    prog := prog, taken := fun _ => [] }

/-- run thread t until it has finished or is blocked (fuel-bounded; used by the driver's canonical schedule) -/
def runThread (cerr : Nat → Bool) : Nat → St → Nat → St
  | 0, st, _ => st
  | n + 1, st, t => match step cerr st t with
    | some st' => runThread cerr n st' t
    | none => st

end PoolLock
