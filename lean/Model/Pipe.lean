/-
  Model of the connect pipeline of /repo/connectionpool.go + /repo/conn.go at the granularity of its network
  round trips:

    hostConnPool.fill → connect() = Session.connect (DialHost → startupCoordinator.setupConn:
    OPTIONS → STARTUP → [AUTH_RESPONSE …]) → [Conn.UseKeyspace: USE "<ks>"] → lock; closed ? conn.Close : append

  with everything that can happen between two steps: another attempt moves, a pool connection breaks
  (HandleError → removal + `go fill()`), Pick on a short pool, the host is removed (policyConnPool.removeHost /
  SetHosts: pool unregistered, `go pool.Close()`), added again (addHost: a NEW hostConnPool while attempts of the
  old one are still in flight), the pool is closed, Session.Close.

  `Hs` (second half): the result protocol of startupCoordinator.setupConn — two reporter goroutines, one consumer
  that may leave through ctx.Done().
-/
namespace Pipe

/-- the step whose answer a connection attempt is waiting for -/
inductive Stage where
  | dial                 -- HostDialer.DialHost has not returned yet (no socket)
  | opt                  -- OPTIONS sent
  | st                   -- STARTUP sent
  | au (left : Nat)      -- AUTH_RESPONSE sent; `left` answers (challenges … success) still to come, this one included
  | use                  -- handshake done, `USE "<keyspace>"` sent (Conn.UseKeyspace)
deriving DecidableEq, Repr

structure Cfg where
  size : Nat      -- NumConns
  ks : Bool       -- a keyspace is configured
  auth : Nat      -- number of AUTH_RESPONSE round trips the server asks for (0: STARTUP → READY)
deriving DecidableEq, Repr

def afterHs (c : Cfg) : Option Stage := if c.ks then some .use else none

/-- the next step once the current one was answered; `none` = connect() reaches the append -/
def next (c : Cfg) : Stage → Option Stage
  | .dial => some .opt
  | .opt => some .st
  | .st => if c.auth > 0 then some (.au c.auth) else afterHs c
  | .au n => if n > 1 then some (.au (n - 1)) else afterHs c
  | .use => none

structure Att where
  id : Nat
  stage : Stage
  sync : Bool          -- the synchronous first connect of a fill that found the pool empty
deriving DecidableEq, Repr

/-- 1 iff the attempt owns an open socket -/
def Att.sock (a : Att) : Nat := if a.stage = .dial then 0 else 1

def sockSum : List Att → Nat
  | [] => 0
  | a :: as => a.sock + sockSum as

/-- one hostConnPool object -/
structure Pool where
  conns : List Nat       -- pool.conns (attempt ids)
  filling : Bool
  closed : Bool
  att : List Att         -- connect() calls of the current filler that have not returned
  rest : Nat             -- connects the filler starts once the synchronous one returned nil
  opened : Nat           -- ghost: sockets dialled for this pool and not closed by the driver
  pend : Nat             -- fill() calls that passed the read-locked check and have not taken the write lock yet
deriving DecidableEq, Repr

def Pool.new : Pool := { conns := [], filling := false, closed := false, att := [], rest := 0, opened := 0, pend := 0 }

/-- find an attempt by id; returns it and the list without it -/
def takeAtt : List Att → Nat → Option (Att × List Att)
  | [], _ => none
  | a :: as, k =>
    if a.id = k then some (a, as)
    else match takeAtt as k with
      | some (b, bs) => some (b, a :: bs)
      | none => none

def mkAtts (nextId : Nat) : Nat → List Att
  | 0 => []
  | n + 1 => { id := nextId, stage := .dial, sync := false } :: mkAtts (nextId + 1) n

/-- fill() past its checks: `filling = true`, the first connect synchronously when the pool is empty, the rest
    (or all) through connectMany -/
def Pool.startFill (size : Nat) (p : Pool) (nextId : Nat) : Pool × Nat :=
  if p.conns.length = 0 then
    ({ p with filling := true, att := { id := nextId, stage := .dial, sync := true } :: p.att, rest := size - 1 }, 1)
  else
    ({ p with filling := true, att := mkAtts nextId (size - p.conns.length) ++ p.att, rest := 0 }, size - p.conns.length)

/-- hostConnPool.fill() with both of its checks passing back to back: returns the pool and the number of dials
    it started -/
def Pool.fill (size : Nat) (p : Pool) (nextId : Nat) : Pool × Nat :=
  if p.closed || p.filling || size ≤ p.conns.length then (p, 0)
  else Pool.startFill size p nextId

/-- fill(), first half: under the read lock `closed || filling` and `fillCount <= 0` are looked at; the lock is
    released — any number of fill() calls may stand here at once -/
def Pool.fillCheck (size : Nat) (p : Pool) : Pool :=
  if p.closed || p.filling || size ≤ p.conns.length then p else { p with pend := p.pend + 1 }

/-- fill(), second half: under the write lock everything is checked AGAIN ("looks like another goroutine already
    beat this goroutine to the filling") before `filling = true` -/
def Pool.fillGo (size : Nat) (p : Pool) (nextId : Nat) : Option (Pool × Nat) :=
  if p.pend = 0 then none else some (Pool.fill size { p with pend := p.pend - 1 } nextId)

/-- the variant whose second check forgets `filling` -/
def Pool.fillGoNoRecheck (size : Nat) (p : Pool) (nextId : Nat) : Option (Pool × Nat) :=
  if p.pend = 0 then none
  else
    let q := { p with pend := p.pend - 1 }
    if q.closed || size ≤ q.conns.length then some (q, 0) else some (Pool.startFill size q nextId)

/-- the step attempt k waits for is answered regularly -/
def Pool.ok (c : Cfg) (p : Pool) (k : Nat) (nextId : Nat) : Option (Pool × Nat) :=
  match takeAtt p.att k with
  | none => none
  | some (a, l) =>
    match next c a.stage with
    | some s' => some ({ p with att := { a with stage := s' } :: l, opened := p.opened + (1 - a.sock) }, 0)
    | none =>
      -- connect(): pool.mu.Lock(); if pool.closed { conn.Close(); return nil }; append; return nil
      let p1 : Pool := if p.closed then { p with att := l, opened := p.opened - 1 } else { p with att := l, conns := p.conns ++ [k] }
      -- fill(): the synchronous connect returned nil → `go connectMany(fillCount - 1)` (also on a closed pool)
      if a.sync then some ({ p1 with att := mkAtts nextId p.rest ++ l, rest := 0 }, p.rest)
      else some (p1, 0)

/-- attempt k fails at its current step (dial error, ERROR frame, reset, timeout, cancelled context): its socket,
    if any, is closed; a failed synchronous connect ends the fill -/
def Pool.fail (p : Pool) (k : Nat) : Option Pool :=
  match takeAtt p.att k with
  | none => none
  | some (a, l) => some { p with att := l, opened := p.opened - a.sock, rest := if a.sync then 0 else p.rest }

/-- fillingStopped(): only after every connect of the filler has returned -/
def Pool.stop (p : Pool) : Option Pool :=
  if p.filling && p.att.isEmpty then some { p with filling := false, rest := 0 } else none

/-- HandleError(conn, err, closed = true) of a pool connection: removed, `go pool.fill()` -/
def Pool.connError (size : Nat) (p : Pool) (k : Nat) (nextId : Nat) : Option (Pool × Nat) :=
  if !p.closed && p.conns.contains k then
    some (Pool.fill size { p with conns := p.conns.erase k, opened := p.opened - 1 } nextId)
  else none

/-- hostConnPool.Close() -/
def Pool.close (p : Pool) : Pool :=
  if p.closed then p else { p with closed := true, conns := [], opened := p.opened - p.conns.length }

/-- one host of a session: the registered pool (policyConnPool.hostConnPools[hostID]) and the pools that were
    unregistered earlier (newest first) — their attempts may still be in flight -/
structure Host where
  cfg : Cfg
  cur : Option Pool
  old : List Pool
  nextId : Nat
  sessClosed : Bool    -- Session.Close has run policyConnPool.Close(): policyConnPool.closed is set
  cancelled : Bool     -- … and has reached s.cancel(): the session context is cancelled, every later dial fails at once
deriving DecidableEq, Repr

inductive Act where
  | ok (k : Nat) | fail (k : Nat)
  | stop                      -- some filler whose connects have all returned runs fillingStopped()
  | err (k : Nat)
  | pick                      -- hostConnPool.Pick on the registered pool: `go pool.fill()`
  | fillCheck                 -- a fill() of the registered pool passes its read-locked check (several may)
  | fillGo                    -- a fill() that passed the first check takes the write lock and checks again
  | up                        -- policyConnPool.addHost: new pool if none is registered; pool.fill() — nothing at all
                              -- once policyConnPool.Close() has run (fix: commit for KF-C17-3)
  | down                      -- policyConnPool.removeHost / SetHosts: unregister, `go pool.Close()`
  | pclose                    -- hostConnPool.Close() of the registered pool (it stays registered)
  | sclose                    -- Session.Close, first half: policyConnPool.Close()
  | scancel                   -- Session.Close, second half (after control connection and debouncers were stopped):
                              -- s.cancel() — the attempts in flight are then failed by the cancelled session context
                              -- (`fail` actions); between the two halves the session context is still alive
deriving DecidableEq, Repr

/-- apply f to the first pool on which it is defined -/
def firstOk (f : Pool → Option (Pool × Nat)) : List Pool → Option (List Pool × Nat)
  | [] => none
  | p :: ps =>
    match f p with
    | some (p', n) => some (p' :: ps, n)
    | none => match firstOk f ps with
      | some (ps', n) => some (p :: ps', n)
      | none => none

/-- NewSession returned: the pool holds the first connection (attempt 1) and its filler is dialling size-1 more -/
def Host.init (c : Cfg) : Host :=
  { cfg := c,
    cur := some { conns := [1], filling := true, closed := false, att := mkAtts 2 (c.size - 1), rest := 0, opened := 1, pend := 0 },
    old := [], nextId := 2 + (c.size - 1), sessClosed := false, cancelled := false }

def Host.routeOld (h : Host) (f : Pool → Option (Pool × Nat)) : Option Host :=
  match firstOk f h.old with
  | some (ps, n) => some { h with old := ps, nextId := h.nextId + n }
  | none => none

/-- the action concerns whichever pool it is defined on: the registered one first, then the unregistered ones -/
def Host.route (h : Host) (f : Pool → Option (Pool × Nat)) : Option Host :=
  match h.cur with
  | some p =>
    match f p with
    | some (p', n) => some { h with cur := some p', nextId := h.nextId + n }
    | none => h.routeOld f
  | none => h.routeOld f

def Host.fillCur (h : Host) : Host :=
  match h.cur with
  | some p => let r := Pool.fill h.cfg.size p h.nextId; { h with cur := some r.1, nextId := h.nextId + r.2 }
  | none => h

def Host.step (h : Host) : Act → Option Host
  | .ok k => h.route (fun p => Pool.ok h.cfg p k h.nextId)
  | .fail k => h.route (fun p => (Pool.fail p k).map (·, 0))
  | .stop => h.route (fun p => p.stop.map (·, 0))
  | .err k => h.route (fun p => Pool.connError h.cfg.size p k h.nextId)
  | .pick => some h.fillCur
  | .fillCheck => match h.cur with
      | some p => some { h with cur := some (Pool.fillCheck h.cfg.size p) }
      | none => some h
  | .fillGo => h.route (fun p => Pool.fillGo h.cfg.size p h.nextId)
  | .up =>
      -- policyConnPool.addHost: `if p.closed { unlock; return }` under the pool map's mutex — after
      -- policyConnPool.Close() no pool is registered and nothing is filled
      if h.sessClosed then some h
      else match h.cur with
        | some _ => some h.fillCur
        | none => some ({ h with cur := some Pool.new }).fillCur
  | .down => match h.cur with
      | some p => some { h with cur := none, old := p.close :: h.old }
      | none => some h
  | .pclose => match h.cur with
      | some p => some { h with cur := some p.close }
      | none => some h
  | .sclose => match h.cur with
      | some p => some { h with cur := none, old := p.close :: h.old, sessClosed := true }
      | none => some { h with sessClosed := true }
  | .scancel => if h.sessClosed then some { h with cancelled := true } else none

def Host.run : Host → List Act → Option Host
  | h, [] => some h
  | h, a :: as => match h.step a with
    | some h' => Host.run h' as
    | none => none

def Host.pools (h : Host) : List Pool :=
  (match h.cur with | some p => [p] | none => []) ++ h.old

/-- open sockets of the host, by the ghost accounting -/
def Host.opened (h : Host) : Nat := (h.pools.map (·.opened)).sum

/-- connections held by closed pools (the monitor wants 0) -/
def Host.closedConns (h : Host) : Nat := (h.pools.map (fun p => if p.closed then p.conns.length else 0)).sum

/-! ### the seeded family: the closed-check made EARLIER than the append (before the USE round trip) and the
    append unconditional — kept as a second step function so that what the check catches is a theorem -/

def Pool.okEarly (c : Cfg) (p : Pool) (k : Nat) (nextId : Nat) : Option (Pool × Nat) :=
  match takeAtt p.att k with
  | none => none
  | some (a, l) =>
    match next c a.stage with
    | some s' =>
      if s' = .use && p.closed then
        -- "no point in setting up a connection for a closed pool": conn.Close(); return nil
        if a.sync then some ({ p with att := mkAtts nextId p.rest ++ l, rest := 0, opened := p.opened - a.sock }, p.rest)
        else some ({ p with att := l, opened := p.opened - a.sock }, 0)
      else some ({ p with att := { a with stage := s' } :: l, opened := p.opened + (1 - a.sock) }, 0)
    | none =>
      let p1 : Pool := { p with att := l, conns := p.conns ++ [k] }      -- appended without looking at `closed`
      if a.sync then some ({ p1 with att := mkAtts nextId p.rest ++ l, rest := 0 }, p.rest)
      else some (p1, 0)

/-- the code before the fix commit for KF-C17-3: policyConnPool.addHost does not know that the session is closing —
    after policyConnPool.Close() it registers a NEW pool and fills it (the dials succeed until the session context
    is cancelled). Kept for the regression theorem `C17_old_addhost_in_close_window_leaks`. -/
def Host.stepOld (h : Host) : Act → Option Host
  | .up =>
      if h.cancelled then none
      else match h.cur with
        | some _ => some h.fillCur
        | none => some ({ h with cur := some Pool.new }).fillCur
  | a => h.step a

def Host.runOld : Host → List Act → Option Host
  | h, [] => some h
  | h, a :: as => match h.stepOld a with
    | some h' => Host.runOld h' as
    | none => none

/-- the variant of the host machine whose fill() does not look at `filling` again under the write lock -/
def Host.stepNoRecheck (h : Host) : Act → Option Host
  | .fillGo => h.route (fun p => Pool.fillGoNoRecheck h.cfg.size p h.nextId)
  | a => h.step a

def Host.runNoRecheck : Host → List Act → Option Host
  | h, [] => some h
  | h, a :: as => match h.stepNoRecheck a with
    | some h' => Host.runNoRecheck h' as
    | none => none

def Host.stepEarly (h : Host) : Act → Option Host
  | .ok k => h.route (fun p => Pool.okEarly h.cfg p k h.nextId)
  | a => h.step a

def Host.runEarly : Host → List Act → Option Host
  | h, [] => some h
  | h, a :: as => match h.stepEarly a with
    | some h' => Host.runEarly h' as
    | none => none

end Pipe

/-! ## startupCoordinator.setupConn: who reports the outcome of the handshake to whom

```go
ctx, cancel = context.WithTimeout(ctx, timeout); defer cancel()
startupErr := make(chan error)
go func() { for range s.frameTicker { if err := s.conn.recv(ctx); err != nil {
                select { case startupErr <- err: case <-ctx.Done(): }; return } } }()          // reporter R
go func() { defer close(s.frameTicker); err := s.options(ctx)
            select { case startupErr <- err: case <-ctx.Done(): } }()                          // reporter W
select { case err := <-startupErr: …return err   case <-ctx.Done(): return errors.New("…timeout") }   // consumer
```
-/
namespace Hs

inductive RPc where
  | run      -- working (R: waiting for a tick / inside recv; W: inside options → startup → authenticate)
  | send     -- at its `startupErr <- err`
  | done     -- returned
deriving DecidableEq, Repr

inductive CPc where
  | wait     -- in the select
  | got      -- received a value
  | left     -- took the ctx.Done() branch
  | ret      -- setupConn returned: the deferred cancel() has run
deriving DecidableEq, Repr

structure St where
  r : RPc
  w : RPc
  c : CPc
  cancelled : Bool      -- ctx.Done() is closed (deadline, cancelled parent, or the deferred cancel())
  tickerClosed : Bool   -- W returned: `defer close(s.frameTicker)`
  buf : Nat             -- values sitting in the channel buffer (only the buffered variant uses it)
deriving DecidableEq, Repr

def St.init : St := { r := .run, w := .run, c := .wait, cancelled := false, tickerClosed := false, buf := 0 }

inductive Act where
  | rErr       -- R: recv returned an error
  | rEnd       -- R: the ticker channel is closed, the range loop ends
  | wRet       -- W: options() returned (nil or an error)
  | rSend | wSend     -- the send completes
  | rEsc | wEsc       -- the reporter leaves through `case <-ctx.Done()`
  | ctxFire    -- the deadline passes / the parent context is cancelled
  | cRecv      -- consumer: receives a buffered value (buffered variant only)
  | cLeave     -- consumer: `case <-ctx.Done()`
  | cRet       -- consumer returns from setupConn: deferred cancel()
deriving DecidableEq, Repr

/-- the code that exists: unbuffered channel, every send in a select with ctx.Done() -/
def step (s : St) : Act → Option St
  | .rErr => if s.r = .run then some { s with r := .send } else none
  | .rEnd => if s.r = .run ∧ s.tickerClosed then some { s with r := .done } else none
  | .wRet => if s.w = .run then some { s with w := .send } else none
  | .rSend => if s.r = .send ∧ s.c = .wait then some { s with r := .done, c := .got } else none
  | .wSend => if s.w = .send ∧ s.c = .wait then some { s with w := .done, c := .got, tickerClosed := true } else none
  | .rEsc => if s.r = .send ∧ s.cancelled then some { s with r := .done } else none
  | .wEsc => if s.w = .send ∧ s.cancelled then some { s with w := .done, tickerClosed := true } else none
  | .ctxFire => some { s with cancelled := true }
  | .cRecv => none
  | .cLeave => if s.c = .wait ∧ s.cancelled then some { s with c := .left } else none
  | .cRet => if s.c = .got ∨ s.c = .left then some { s with c := .ret, cancelled := true } else none

def run : St → List Act → Option St
  | s, [] => some s
  | s, a :: as => match step s a with
    | some s' => run s' as
    | none => none

/-- the seeded family: `make(chan error, 1)` and plain sends (no ctx.Done() escape) -/
def stepBuf (s : St) : Act → Option St
  | .rErr => if s.r = .run then some { s with r := .send } else none
  | .rEnd => if s.r = .run ∧ s.tickerClosed then some { s with r := .done } else none
  | .wRet => if s.w = .run then some { s with w := .send } else none
  | .rSend => if s.r = .send ∧ s.buf < 1 then some { s with r := .done, buf := s.buf + 1 } else none
  | .wSend => if s.w = .send ∧ s.buf < 1 then some { s with w := .done, buf := s.buf + 1, tickerClosed := true } else none
  | .rEsc => none
  | .wEsc => none
  | .ctxFire => some { s with cancelled := true }
  | .cRecv => if s.c = .wait ∧ s.buf > 0 then some { s with c := .got, buf := s.buf - 1 } else none
  | .cLeave => if s.c = .wait ∧ s.cancelled then some { s with c := .left } else none
  | .cRet => if s.c = .got ∨ s.c = .left then some { s with c := .ret, cancelled := true } else none

def runBuf : St → List Act → Option St
  | s, [] => some s
  | s, a :: as => match stepBuf s a with
    | some s' => runBuf s' as
    | none => none

/-- distance of a reporter from having returned -/
def RPc.measure : RPc → Nat
  | .run => 2 | .send => 1 | .done => 0

end Hs
