/-
  controlConn.close() against the heartbeat loop of the control connection (/repo/control.go: heartBeat, reconnect,
  close). `close()` moves the state word from started to closing and then SENDS on the unbuffered channel `quit`,
  which only the heartbeat goroutine receives, and only in the select at the top of its loop; so closing returns iff
  the heartbeat goroutine always comes back to that select.

    hbStart    heartBeat: CAS starting → started (else it returns at once)
    timer      the select takes the timer arm: a heartbeat (writeFrame) is in flight
    beatOk     SUPPORTED came back: `continue`
    beatFail   error / ERROR frame / unknown frame / timeout / connection lost: `goto reconn`
    reconnect  c.reconnect() returned (at once when the state is closing; after dialling otherwise): `continue`
    takeQuit   the rendezvous on `quit`: the heartbeat goroutine returns, close() goes on
    closeCas   close(): CAS started → closing, then blocked in the send; CAS failed → straight to the connection
    closeConn  close(): the control connection is closed
-/
namespace CtlBeat

inductive CS where | starting | started | closing
deriving DecidableEq, Repr

inductive Hb where | notStarted | sel | inflight | reconn | exited
deriving DecidableEq, Repr

inductive Cl where | idle | sending | connClose | done
deriving DecidableEq, Repr

structure St where
  state : CS
  hb : Hb
  cl : Cl
  connClosed : Bool
deriving DecidableEq, Repr

inductive Act where
  | hbStart | timer | beatOk | beatFail | reconnect | takeQuit | closeCas | closeConn
deriving DecidableEq, Repr

def init : St := { state := .starting, hb := .notStarted, cl := .idle, connClosed := false }

def step (st : St) : Act → Option St
  | .hbStart => if st.hb = .notStarted then
      (if st.state = .starting then some { st with state := .started, hb := .sel } else some { st with hb := .exited }) else none
  | .timer => if st.hb = .sel then some { st with hb := .inflight } else none
  | .beatOk => if st.hb = .inflight then some { st with hb := .sel } else none
  | .beatFail => if st.hb = .inflight then some { st with hb := .reconn } else none
  | .reconnect => if st.hb = .reconn then some { st with hb := .sel } else none
  | .takeQuit => if st.hb = .sel ∧ st.cl = .sending then some { st with hb := .exited, cl := .connClose } else none
  | .closeCas => if st.cl = .idle then
      (if st.state = .started then some { st with state := .closing, cl := .sending } else some { st with cl := .connClose }) else none
  | .closeConn => if st.cl = .connClose then some { st with cl := .done, connClosed := true } else none

def run : St → List Act → Option St
  | s, [] => some s
  | s, a :: as => match step s a with
    | some s' => run s' as
    | none => none

/-- the heartbeat loop of seeded change C06-8 (NOT the code that exists; used only by the counterexample theorem):
    at `reconn` the goroutine returns when the state is closing -/
def stepEarlyReturn (st : St) : Act → Option St
  | .reconnect => if st.hb = .reconn then
      (if st.state = .closing then some { st with hb := .exited } else some { st with hb := .sel }) else none
  | a => step st a

def runEarlyReturn : St → List Act → Option St
  | s, [] => some s
  | s, a :: as => match stepEarlyReturn s a with
    | some s' => runEarlyReturn s' as
    | none => none

/-- how many steps of its own the heartbeat goroutine is away from the select that receives `quit` -/
def toSel : Hb → Nat
  | .sel => 0 | .reconn => 1 | .inflight => 2 | _ => 0

/-- the steps of the heartbeat goroutine alone -/
def hbAct : Act → Bool
  | .timer | .beatOk | .beatFail | .reconnect => true
  | _ => false

end CtlBeat
