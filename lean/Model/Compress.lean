/-
  Model of gocql's frame compression (C18):
    frame.go   newFramer / writeHeader / setLength / finish / readHeader / readFrame,
               the `f.flags &^ flagCompress` of the OPTIONS and STARTUP builders
    compressor.go, lz4/lz4.go   the Compressor interface; the lz4 length-prefix wrapper
    conn.go    startupCoordinator.startup  (negotiation against SUPPORTED)

  The block codecs themselves (snappy, pierrec/lz4) are PARAMETERS: a `Codec` is a pair of
  partial functions; theorems assume `Codec.RoundTrips` (trusted base, sampled by the harness).
-/
namespace Compress

abbrev Bytes := List UInt8

/-- gocql `Compressor` (Encode / Decode may fail) -/
structure Codec where
  enc : Bytes → Except Unit Bytes
  dec : Bytes → Except Unit Bytes

/-- the trusted-base hypothesis about a compressor: whatever Encode produced, Decode gives back -/
def Codec.RoundTrips (c : Codec) : Prop := ∀ x y, c.enc x = .ok y → c.dec y = .ok x

/-- the other half of "every body is delivered": Encode does not fail (snappy.Encode has no error
    result at all; for lz4 this is `C18_lz4_encode_total`, from the documented contract of the block
    encoder and the size of the buffer lz4.go allocates) -/
def Codec.Total (c : Codec) : Prop := ∀ x, ∃ y, c.enc x = .ok y

inductive Err
  | tooBig          -- ErrFrameTooBig
  | codec           -- error returned by Compressor.Encode / Decode
  | noCompressor    -- "no compressor available with compressed frame body"
  | shortRead       -- io.ReadFull failed (EOF / unexpected EOF)
  | negLength       -- "frame body length can not be less than 0"
  | badVersion      -- "unsupported protocol response version"
  | panic           -- finish: panic("compress flag set with no compressor")
  deriving DecidableEq, Repr

def maxFrameSize : Nat := 256 * 1024 * 1024

def flagCompress : UInt8 := 0x01

/-- `byte(n >> 24), byte(n >> 16), byte(n >> 8), byte(n)` for a non-negative int -/
def be32 (n : Nat) : Bytes :=
  [UInt8.ofNat (n / 16777216), UInt8.ofNat (n / 65536), UInt8.ofNat (n / 256), UInt8.ofNat n]

def readBE32 (a b c d : UInt8) : Nat :=
  a.toNat * 16777216 + b.toNat * 65536 + c.toNat * 256 + d.toNat

/-- reinterpretation of 32 bits as `int32` (frame.go readInt) -/
def toInt32 (n : Nat) : Int := if n ≥ 2147483648 then (n : Int) - 4294967296 else (n : Int)

/-- `byte(i)` of a Go `int` -/
def byteOfInt (i : Int) : UInt8 := UInt8.ofNat (i % 256).toNat

structure Framer where
  proto : UInt8
  flags : UInt8
  comp  : Option Codec

/-- frame.go newFramer: the compress bit is set iff a compressor is given; the beta bit is
    decided on the unmasked version byte. -/
def newFramer (comp : Option Codec) (version : UInt8) : Framer :=
  { proto := version &&& 0x7f,
    flags := (if comp.isSome then flagCompress else 0) ||| (if version == 5 then 0x10 else 0),
    comp := comp }

def Framer.headSize (f : Framer) : Nat := if f.proto > 2 then 9 else 8

/-- frame.go writeHeader (the buffer is reset first) -/
def Framer.writeHeader (f : Framer) (flags op : UInt8) (stream : Int) : Bytes :=
  [f.proto, flags] ++
  (if f.proto > 2 then [byteOfInt (stream / 256), byteOfInt stream] else [byteOfInt stream]) ++
  [op, 0, 0, 0, 0]

/-- frame.go setLength: patch the 4 length bytes in place -/
def Framer.setLength (f : Framer) (buf : Bytes) (length : Nat) : Bytes :=
  let p := f.headSize - 4
  buf.take p ++ be32 length ++ buf.drop (p + 4)

/-- frame.go finish on the raw buffer `header ‖ body` -/
def Framer.finish (f : Framer) (buf : Bytes) : Except Err Bytes :=
  if buf.length > maxFrameSize then .error .tooBig
  else if (buf.getD 1 0) &&& flagCompress == flagCompress then
    match f.comp with
    | none => .error .panic
    | some c =>
      match c.enc (buf.drop f.headSize) with
      | .error _ => .error .codec
      | .ok z =>
        -- after the repair of KF-C18-2: the COMPRESSED frame is compared with the limit, too
        if f.headSize + z.length > maxFrameSize then .error .tooBig
        else
          let buf' := buf.take f.headSize ++ z
          .ok (f.setLength buf' (buf'.length - f.headSize))
  else .ok (f.setLength buf (buf.length - f.headSize))

/-- a frame builder reduced to what matters here: header flags, opcode, stream, body bytes -/
def Framer.build (f : Framer) (hdrFlags op : UInt8) (stream : Int) (body : Bytes) : Except Err Bytes :=
  f.finish (f.writeHeader hdrFlags op stream ++ body)

/-- the request kinds that have a builder in frame.go -/
inductive Req
  | startup | options | query | prepare | execute | batch | register | authResponse
  deriving DecidableEq, Repr

def Req.opcode : Req → UInt8
  | .startup => 0x01 | .options => 0x05 | .query => 0x07 | .prepare => 0x09
  | .execute => 0x0A | .register => 0x0B | .batch => 0x0D | .authResponse => 0x0F

/-- the flags each builder passes to writeHeader: `f.flags &^ flagCompress` for STARTUP and
    OPTIONS, `f.flags` for all others -/
def Req.headerFlags (f : Framer) : Req → UInt8
  | .startup | .options => f.flags &&& 0xFE
  | _ => f.flags

def Framer.buildReq (f : Framer) (r : Req) (stream : Int) (body : Bytes) : Except Err Bytes :=
  f.build (r.headerFlags f) r.opcode stream body

/-! ### reading -/

structure Head where
  version : UInt8
  flags   : UInt8
  stream  : Int
  op      : UInt8
  length  : Int
  deriving DecidableEq, Repr

def int16Of (hi lo : UInt8) : Int :=
  let n := hi.toNat * 256 + lo.toNat
  if n ≥ 32768 then (n : Int) - 65536 else (n : Int)

def int8Of (b : UInt8) : Int := if b.toNat ≥ 128 then (b.toNat : Int) - 256 else (b.toNat : Int)

/-- frame.go readHeader on the bytes available from the reader; returns the header and the rest -/
def readHeader (r : Bytes) : Except Err (Head × Bytes) :=
  match r with
  | [] => .error .shortRead
  | p0 :: _ =>
    let v := p0 &&& 0x7f
    if v < 1 || v > 5 then .error .badVersion
    else
      let hs := if v < 3 then 8 else 9
      if r.length < hs then .error .shortRead
      else
        let g := fun i => r.getD i 0
        if v > 2 then
          .ok ({ version := p0, flags := g 1, stream := int16Of (g 2) (g 3), op := g 4,
                 length := toInt32 (readBE32 (g 5) (g 6) (g 7) (g 8)) }, r.drop hs)
        else
          .ok ({ version := p0, flags := g 1, stream := int8Of (g 2), op := g 3,
                 length := toInt32 (readBE32 (g 4) (g 5) (g 6) (g 7)) }, r.drop hs)

/-- frame.go readFrame: `r` is what the reader can still deliver after the header -/
def Framer.readFrame (f : Framer) (h : Head) (r : Bytes) : Except Err Bytes :=
  if h.length < 0 then .error .negLength
  else if h.length > maxFrameSize then
    (if r.length < h.length.toNat then .error .shortRead else .error .tooBig)
  else if r.length < h.length.toNat then .error .shortRead
  else
    let raw := r.take h.length.toNat
    if h.flags &&& flagCompress == flagCompress then
      match f.comp with
      | none => .error .noCompressor
      | some c =>
        match c.dec raw with
        | .error _ => .error .codec
        | .ok b => .ok b
    else .ok raw

/-- conn.go recv: readHeader, then readFrame with a framer of the connection -/
def Framer.decode (f : Framer) (wire : Bytes) : Except Err (Head × Bytes) :=
  match readHeader wire with
  | .error e => .error e
  | .ok (h, rest) =>
    match f.readFrame h rest with
    | .error e => .error e
    | .ok b => .ok (h, b)

/-! ### frames at the size limit, seen through LENGTHS only

`finish` and `readFrame` look at the bytes of a body only through the compressor; everything else is
arithmetic on lengths. `finishLen` / `readLen` are that arithmetic (proved equal to `finish` /
`readFrame` for all inputs in Proofs/C18.lean: `C18_finish_by_length`, `C18_read_by_length`), so that
the model driver can answer for 256 MiB bodies without holding them (op `big`). -/

/-- length of the buffer after `finish`; `enc` = what Encode answered for the body, as a length -/
def finishLen (hs bufLen : Nat) (flag : Bool) (enc : Option (Except Unit Nat)) : Except Err Nat :=
  if bufLen > maxFrameSize then .error .tooBig
  else if flag then
    match enc with
    | none => .error .panic
    | some (.error _) => .error .codec
    | some (.ok zl) => if hs + zl > maxFrameSize then .error .tooBig else .ok (hs + zl)
  else .ok bufLen

/-- length of the body `readFrame` leaves in the framer; `dec` = what Decode answered, as a length -/
def readLen (declared : Int) (avail : Nat) (flag : Bool) (dec : Option (Except Unit Nat)) : Except Err Nat :=
  if declared < 0 then .error .negLength
  else if declared > maxFrameSize then
    (if avail < declared.toNat then .error .shortRead else .error .tooBig)
  else if avail < declared.toNat then .error .shortRead
  else if flag then
    match dec with
    | none => .error .noCompressor
    | some (.error _) => .error .codec
    | some (.ok n) => .ok n
  else .ok declared.toNat

/-! ### lz4/lz4.go: Cassandra's length-prefixed block format -/

/-- pierrec/lz4 `CompressBlockBound(n)`: a destination of at least this many bytes is what the
    library's documentation asks for ("CompressBlock ... doesn't fail as long as ...") -/
def blockBound (n : Nat) : Nat := n + n / 255 + 16

/-- pierrec/lz4 block functions as parameters: `encB src n` = `CompressBlock(src, dst)` with
    `len(dst) = n` (the library reports a too-short destination in TWO ways: `(0, nil)` — here
    `.ok []` — when no match was emitted, an error when a match was found after the literals had
    already overflowed `dst`; neither happens for `n ≥ blockBound src.length`);
    `decB src n` = `UncompressBlock(src, make([]byte, n))`, the bytes `dst[:n']` actually produced. -/
structure BlockCodec where
  encB : Bytes → Nat → Except Unit Bytes
  decB : Bytes → Nat → Except Unit Bytes

/-- trusted base, part 1: what the block encoder produced INTO A DESTINATION OF AT LEAST THE BOUND
    decodes back (with a shorter destination `(0, nil)` is a legal answer and decodes to nothing).
    Non-empty inputs only: pierrec's UncompressBlock refuses an empty destination, and lz4.go never
    calls it for a zero prefix. -/
def BlockCodec.RoundTrips (b : BlockCodec) : Prop :=
  ∀ x n z, x ≠ [] → blockBound x.length ≤ n → b.encB x n = .ok z → b.decB z x.length = .ok x

/-- trusted base, part 2: with a destination of at least the bound the block encoder does not fail -/
def BlockCodec.TotalAtBound (b : BlockCodec) : Prop :=
  ∀ x n, blockBound x.length ≤ n → ∃ z, b.encB x n = .ok z

/-- lz4/lz4.go Encode: `buf := make([]byte, lz4.CompressBlockBound(len(data)+4))`, the block goes to
    `buf[4:]`: the destination handed to CompressBlock has this many bytes -/
def lz4DstLen (n : Nat) : Nat := blockBound (n + 4) - 4

def lz4Encode (b : BlockCodec) (data : Bytes) : Except Unit Bytes :=
  match b.encB data (lz4DstLen data.length) with
  | .error e => .error e
  | .ok z => .ok (be32 data.length ++ z)

/-- `binary.BigEndian.Uint32(data)` -/
def lz4Prefix (data : Bytes) : Nat :=
  readBE32 (data.getD 0 0) (data.getD 1 0) (data.getD 2 0) (data.getD 3 0)

/-- lz4/lz4.go Decode AFTER the repair of KF-C18-1: the number of bytes the block decoder produced is
    compared with the 4-byte prefix -/
def lz4Decode (b : BlockCodec) (data : Bytes) : Except Unit Bytes :=
  if data.length < 4 then .error ()
  else if lz4Prefix data = 0 then .ok []
  else match b.decB (data.drop 4) (lz4Prefix data) with
    | .error e => .error e
    | .ok out => if out.length = lz4Prefix data then .ok out else .error ()

def lz4 (b : BlockCodec) : Codec := { enc := lz4Encode b, dec := lz4Decode b }

/-! ### conn.go startup: negotiation against SUPPORTED -/

/-- Go map semantics of the multimap read from the SUPPORTED frame: the last entry of a key wins -/
def lookup (m : List (String × List String)) (k : String) : List String :=
  match (m.reverse.find? (fun e => e.1 == k)) with
  | some e => e.2
  | none => []

structure Negotiated where
  /-- `conn.compressor` stays set -/
  keep : Bool
  /-- the COMPRESSION entry of the STARTUP options -/
  startupOpt : Option String
  deriving DecidableEq, Repr

/-- conn.go:453-466 -/
def negotiate (compressorName : Option String) (supported : List (String × List String)) : Negotiated :=
  match compressorName with
  | none => { keep := false, startupOpt := none }
  | some name =>
    if (lookup supported "COMPRESSION").contains name then { keep := true, startupOpt := some name }
    else { keep := false, startupOpt := none }

/-- a configured compressor: its `Name()` and its codec -/
structure Named where
  name  : String
  codec : Codec

/-- `conn.compressor` after startup -/
def connCompressor (c : Option Named) (supported : List (String × List String)) : Option Named :=
  match c with
  | none => none
  | some n => if (negotiate (some n.name) supported).keep then some n else none

end Compress
