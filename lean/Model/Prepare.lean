import Model.LRU
/-
  Model of the prepared-statement cache protocol (C14):
    prepared_cache.go  keyFor / execIfMissing / remove / evictPreparedID
    conn.go            prepareStatement (lookup-or-insert under one lock; the winner's goroutine
                       completes the flight, and on failure removes the KEY; waiters read the flight),
                       executeQuery's `case *RequestErrUnprepared` (evictPreparedID, then retry)
  One `Action` = one critical section of `preparedLRU.mu` (plus the flight completion).
-/
namespace Prepare

/-- decimal digits of n as bytes (Go `strconv.Itoa` on a length) -/
def dec (n : Nat) : List UInt8 := (Nat.toDigits 10 n).map fun c => UInt8.ofNat c.toNat

/-- prepared_cache.go keyFor (after the repair of KF-C14-1, props/C14.fix-KF-C14-1.diff):
    `return strconv.Itoa(len(hostID)) + "/" + strconv.Itoa(len(keyspace)) + "/" + hostID + keyspace + statement`
    over Go strings = byte strings: the decimal byte lengths of the two leading parts, each followed by '/',
    then the plain concatenation. No normalisation of any kind. -/
def keyFor (hostID keyspace stmt : List UInt8) : List UInt8 :=
  dec hostID.length ++ [0x2f] ++ (dec keyspace.length ++ [0x2f] ++ (hostID ++ keyspace ++ stmt))

/-- the key the code computed BEFORE that repair: `return hostID + keyspace + statement` — plain concatenation,
    no separator, no length. Not injective (KF-C14-1). Kept only for the regression examples in Proofs/C14.lean;
    nothing in the model of the code that exists uses it. -/
def keyForOld {α : Type} (hostID keyspace stmt : List α) : List α := hostID ++ keyspace ++ stmt

/-- what a statement IS for the cache: (host id, the connection's current keyspace, statement text) -/
structure Triple where
  host : List UInt8
  ks   : List UInt8
  text : List UInt8
  deriving DecidableEq, Repr

/-- the cache key the code computes for a triple -/
def keyOf (t : Triple) : List UInt8 := keyFor t.host t.ks t.text

/-- MODEL (the code that exists): two triples land on one cache entry iff their keys are equal strings -/
def sameKey (t₁ t₂ : Triple) : Bool := decide (keyOf t₁ = keyOf t₂)

/-- SPECIFICATION: one cache entry per statement — two triples share an entry iff they are the same triple -/
def sameStmt (t₁ t₂ : Triple) : Bool := decide (t₁ = t₂)

inductive Status
  | inflight
  | ok (id : List UInt8)
  | failed
  deriving DecidableEq, Repr

structure Flight (κ : Type) where
  key    : κ
  status : Status

inductive Event (κ : Type)
  | hit (k : κ) (f : Nat)
  | insert (k : κ) (f : Nat)          -- miss: new flight published; its goroutine sends PREPARE
  | evicted (k : κ) (f : Nat)         -- purged by capacity (possibly while still in flight)
  | failRemoved (k : κ) (f : Nat)     -- `stmtsLRU.remove(key)` by a failing winner (whatever flight sits there)
  | unprepRemoved (k : κ) (f : Nat)   -- evictPreparedID with the cached id

structure State (κ : Type) where
  cache   : LRU.Cache κ Nat
  flights : List (Flight κ)
  log     : List (Event κ)
  /-- evictPreparedID dereferences `ifp.preparedStatment.id` of a done flight: a done flight
      without prepared statement (failed) in the cache would be a nil dereference -/
  crashed : Bool

inductive Action (κ : Type)
  | lookup (k : κ)                               -- execIfMissing in prepareStatement
  | complete (f : Nat) (r : Option (List UInt8)) -- the winner's goroutine: some id = PREPARED, none = any failure
  | unprepared (k : κ) (id : List UInt8)         -- UNPREPARED answer → evictPreparedID(key, id)

variable {κ : Type} [DecidableEq κ]

def init (cap : Int) : State κ := { cache := LRU.new cap, flights := [], log := [], crashed := false }

def step (s : State κ) : Action κ → Option (State κ)
  | .lookup k =>
    match s.cache.get k with
    | (some f, cache') => some { s with cache := cache', log := s.log ++ [.hit k f] }
    | (none, _) =>
      let f := s.flights.length
      let r := s.cache.add k f
      some { s with cache := r.1, flights := s.flights ++ [{ key := k, status := .inflight }],
                    log := s.log ++ [.insert k f] ++ r.2.map (fun e => .evicted e.1 e.2) }
  | .complete f r =>
    match s.flights[f]? with
    | none => none
    | some fl =>
      if fl.status = .inflight then
        match r with
        | some id => some { s with flights := s.flights.set f { fl with status := .ok id } }
        | none =>
          let rm := s.cache.remove fl.key
          some { s with flights := s.flights.set f { fl with status := .failed }, cache := rm.2.1,
                        log := s.log ++ rm.2.2.map (fun e => .failRemoved e.1 e.2) }
      else none
  | .unprepared k id =>
    match s.cache.get k with
    | (none, _) => some s
    | (some f, cache') =>
      match ((s.flights[f]?).map (·.status) : Option Status) with
      | some (Status.ok id') =>
        if id = id' then
          let rm := cache'.remove k
          some { s with cache := rm.2.1, log := s.log ++ rm.2.2.map (fun e => .unprepRemoved e.1 e.2) }
        else some { s with cache := cache' }
      | some Status.inflight => some { s with cache := cache' }
      | _ => some { s with cache := cache', crashed := true }

def run (s : State κ) : List (Action κ) → Option (State κ)
  | [] => some s
  | a :: as => match step s a with
    | none => none
    | some s' => run s' as

def Event.isInsert (k : κ) : Event κ → Bool
  | .insert k' _ => k' == k
  | _ => false

def Event.isRemoval (k : κ) : Event κ → Bool
  | .evicted k' _ => k' == k
  | .failRemoved k' _ => k' == k
  | .unprepRemoved k' _ => k' == k
  | _ => false

/-- number of PREPAREs caused for key `k` -/
def prepares (log : List (Event κ)) (k : κ) : Nat := log.countP (Event.isInsert k)
/-- number of times `k`'s entry left the cache (capacity, failure, unprepared) -/
def removals (log : List (Event κ)) (k : κ) : Nat := log.countP (Event.isRemoval k)

/-- what a caller holding flight `f` returns once it is done -/
def outcome (s : State κ) (f : Nat) : Option Status := (s.flights[f]?).map (·.status)

/-! ### statement level

The cache is keyed by `keyOf t` (the string `keyFor` computes), but what a flight's goroutine PREPAREs is the
statement TEXT of the caller that published the flight (`stmt` captured by the closure in prepareStatement), on
that caller's connection (host, current keyspace): `sent[f]`. An executor of triple t that finds flight f under
`keyOf t` EXECUTEs with the id the server returned for `sent[f]`. -/

inductive TAction
  | lookup (t : Triple)                            -- prepareStatement(t.text) on a connection to t.host with keyspace t.ks
  | complete (f : Nat) (r : Option (List UInt8))   -- the flight's goroutine got the answer to PREPARE sent[f].text
  | unprepared (t : Triple) (id : List UInt8)      -- UNPREPARED for an execution of t → evictPreparedID(keyOf t, id)

def TAction.key : TAction → Action (List UInt8)
  | .lookup t => .lookup (keyOf t)
  | .complete f r => .complete f r
  | .unprepared t id => .unprepared (keyOf t) id

structure TState where
  s    : State (List UInt8)
  /-- sent[f]: the triple whose text flight f's goroutine PREPAREs -/
  sent : List Triple

def tinit (cap : Int) : TState := { s := init cap, sent := [] }

/-- a lookup that published a new flight records the publisher's triple -/
def TAction.sentAfter (a : TAction) (sent : List Triple) (grew : Bool) : List Triple :=
  match a with
  | .lookup t => if grew then sent ++ [t] else sent
  | _ => sent

def tstep (x : TState) (a : TAction) : Option TState :=
  match step x.s a.key with
  | none => none
  | some s' => some { s := s', sent := a.sentAfter x.sent (decide (s'.flights.length ≠ x.s.flights.length)) }

def trun (x : TState) : List TAction → Option TState
  | [] => some x
  | a :: as => match tstep x a with
    | none => none
    | some x' => trun x' as

/-- the flight an executor of t is handed by `execIfMissing` (if cached) -/
def TState.flightOf (x : TState) (t : Triple) : Option Nat := x.s.cache.find (keyOf t)

end Prepare

/-!
## Connection level (C14, session tier)

`PConn`: executions on real connections. Callers (`Session.Query(..).Exec`, `ExecuteBatch`) run
`Conn.executeQuery` / `executeBatch`: for every prepared entry `prepareStatement` (lookup-or-insert, then
wait for the flight), value-count check, one EXECUTE / BATCH frame, and on UNPREPARED `evictPreparedID`
followed by a restart. The caller that published a flight starts the flight's goroutine (`spawn`), which
sends the PREPARE on the CONNECTION's context; the server answers it; the goroutine completes the flight
(on failure: remove the KEY, then close `done`).

Caller contexts: `cancel c` is the moment from which call c's context is done (cancelled, or a deadline
armed). A caller whose context is done may, wherever the code selects on `ctx.Done()`, return its context
error instead of going on: while it waits for a flight (`prepareStatement`'s select; `Conn.exec`'s entry
check / the write queue — nothing was sent) and while it waits for the answer to its frame (`Conn.exec`'s
select). There is NO such return between publishing a flight and starting its goroutine (pc `won`): the
entry a cancelled winner leaves behind is completed by the goroutine it started. A frame that was written
just before the context fired reaches the server after the caller has returned (`abandonLate` / `srvLate`).

The cache is a finite map here and capacity eviction is the environment action `evict` (any cached key,
any time): every LRU eviction is such an action, so what is proved for all schedules of this machine holds
for every cache size and every LRU order. (`Model/LRU.lean` + the sequential tier cover which key the LRU
picks.)

Hidden driver actions: `lookup`, `spawn`, `complete`, `observe` (the part before the frame), `finish`.
Observable events (`Ev`): what the harness can log in a total order consistent with the code's own
synchronisation — the call starts and returns (caller side), the moment a call's context becomes done
(logged by whoever cancels, before cancelling), the PREPARE / EXECUTE / BATCH frames with the answers the
scripted server chose (server side), and every removal from the cache (`lru.Cache.OnEvicted`, called under
the cache mutex).

`Obs`: the observable-level specification — an acceptor over `Ev` only, whose enabledness conditions are
the clauses of the property (ids belong to the statement and are not superseded, single flight, failures
reported but not remembered, value count, a context error only to a call whose own context is done, no
execution that never returns). `Proofs/C14Conn.lean` proves that every schedule of `PConn` produces a trace
that `Obs` accepts; the harness feeds the traces observed on real Sessions to `Obs`.
-/
namespace PConn

abbrev Id := List UInt8

/-- What an EXECUTE / a BATCH entry carries for one prepared statement, as the scripted server observes it, and
    what a PREPARE answer hands out: the prepared id TOGETHER WITH the bind metadata, seen as the byte widths
    of the bound values (`sig`: the widths the answer's column types prescribe / the widths of the values in the
    frame, i.e. the metadata the driver encoded them with). In the code both travel in one `*preparedStatment`
    (`info.id`, `info.request.columns[i].TypeInfo`), so the machines below treat the pair as ONE opaque `Id`;
    the driver (Driver/C14.lean) builds the token from the two fields of the `P` / `X` events. One length byte,
    the id, the widths: injective for ids shorter than 256 bytes (a CQL [short bytes] id of the scripted
    server is 3..12 bytes) - `C14_token_injective`. -/
def token (id sig : List UInt8) : Id := UInt8.ofNat id.length :: (id ++ sig)

/-- the two fields of a token (for printing) -/
def untoken : Id → List UInt8 × List UInt8
  | [] => ([], [])
  | n :: r => (r.take n.toNat, r.drop n.toNat)

/-- the server's answer to a PREPARE: `none` = ERROR frame, `some (id, ncols)` = RESULT/Prepared with
    that id and that many bind columns -/
abbrev PAns := Option (Id × Nat)

/-- the server's answer to an EXECUTE / BATCH frame -/
inductive XAns
  | ok
  | err
  | unprep (id : Id)
  deriving DecidableEq, Repr

/-- what a call returns -/
inductive Outcome
  | ok
  | execErr
  | prepErr (f : Nat)      -- the failure of PREPARE number f
  | countErr               -- "expected n values send got m"
  | ctxErr                 -- the caller's own context error (context.Canceled / DeadlineExceeded)
  deriving DecidableEq, Repr

inductive Ev (κ : Type)
  | start (c : Nat) (batch : Bool) (es : List (κ × Nat))   -- call c begins: entries (key, number of bound values)
      -- (the harness writes 1000 + n for a list of n values one of which no column type accepts: a value list whose
      --  'number' equals no column count - Marshal fails where the count check would: value error, nothing sent)
  | prep (f : Nat) (k : κ) (r : PAns)                      -- the server received PREPARE number f for key k, answers r
  | rm (k : κ) (f : Nat)                                   -- flight f left the cache (OnEvicted)
  | exec (c : Nat) (ids : List Id) (a : XAns)              -- the server received call c's EXECUTE/BATCH with these ids, answers a
  | ret (c : Nat) (o : Outcome)                            -- call c returned
  | crash                                                  -- nil dereference in evictPreparedID
  | hang (c : Nat)                                         -- harness only: call c did not return although every frame was answered
  | cancel (c : Nat)                                       -- call c's context is done from here on
  deriving DecidableEq

structure Flight (κ : Type) where
  key     : κ
  ans     : Option PAns    -- none: the PREPARE has not reached the server yet
  done    : Bool           -- close(flight.done) happened
  removed : Bool           -- (ghost) the entry has left the cache
  spawned : Bool           -- the `go func() { ... }()` of the publishing caller has been executed

inductive PC
  | start                  -- about to call prepareStatement for entry number `got.length`
  | won (f : Nat)          -- inside prepareStatement: published flight f, about to start its goroutine
  | waiting (f : Nat)      -- inside prepareStatement, selecting on flight f's done channel and on ctx.Done()
  | answered (a : XAns)    -- frame sent, the server has chosen its answer
  | returned
  | abandoned              -- returned its context error
  | lagging                -- returned its context error; the frame it had just written has not reached the server yet
  deriving DecidableEq

structure Caller (κ : Type) where
  batch   : Bool
  entries : List (κ × Nat)
  got     : List Nat       -- flights whose prepared statement was taken for entries 0 .. got.length-1
  pc      : PC
  banned  : Nat → Bool     -- (ghost) the flights already removed when the call started / sent its last frame

structure State (κ : Type) where
  cache     : κ → Option Nat
  flights   : List (Flight κ)
  callers   : List (Caller κ)
  cancelled : Nat → Bool   -- the call's context is done
  strict    : Bool         -- the cache is large enough never to purge an entry for capacity (`evict` disabled)

inductive Action (κ : Type)
  | call (batch : Bool) (es : List (κ × Nat))
  | lookup (c : Nat)
  | spawn (c : Nat)                  -- `go func() { defer close(flight.done); ... }()` by the caller that published
  | evict (k : κ)
  | srvPrepare (f : Nat) (r : PAns)
  | complete (f : Nat)
  | observe (c : Nat) (a : XAns)     -- `a`: the server's answer if this step sends the frame
  | finish (c : Nat)
  | cancel (c : Nat)                 -- the context of call c becomes done
  | abandon (c : Nat)                -- `case <-ctx.Done(): return ctx.Err()` (prepareStatement / Conn.exec)
  | abandonLate (c : Nat)            -- the same in Conn.exec right after the frame was written
  | srvLate (c : Nat) (a : XAns)     -- the server receives the frame of a caller that has already returned

variable {κ : Type} [DecidableEq κ]

/-- `strict`: the cache never purges for capacity (MaxPreparedStmts 0 = unbounded, or at least as large as the
    number of distinct host+keyspace+statement keys) -/
def initB (strict : Bool) : State κ :=
  { cache := fun _ => none, flights := [], callers := [], cancelled := fun _ => false, strict := strict }

def init : State κ := initB false

def isRemoved (s : State κ) (f : Nat) : Bool :=
  match s.flights[f]? with
  | some fl => fl.removed
  | none => false

def idOf (s : State κ) (f : Nat) : Id :=
  match s.flights[f]? with
  | some fl => match fl.ans with
    | some (some (id, _)) => id
    | _ => []
  | none => []

/-- lru.Remove(key): whatever flight sits there leaves the cache -/
def removeKey (s : State κ) (k : κ) : State κ × List (Ev κ) :=
  match s.cache k with
  | none => (s, [])
  | some g =>
    match s.flights[g]? with
    | none => (s, [])
    | some fl =>
      ({ s with cache := fun k' => if k' = k then none else s.cache k',
                flights := s.flights.set g { fl with removed := true } }, [.rm k g])

/-- close(flight.done) -/
def setDone (s : State κ) (f : Nat) : State κ :=
  match s.flights[f]? with
  | none => s
  | some fl => { s with flights := s.flights.set f { fl with done := true } }

/-- evictPreparedID(key, id): only a finished flight whose id equals the server's is removed; a finished
    flight without prepared statement would be a nil dereference -/
def evictIfMatch (s : State κ) (k : κ) (id : Id) : State κ × List (Ev κ) :=
  match s.cache k with
  | none => (s, [])
  | some g =>
    match s.flights[g]? with
    | none => (s, [])
    | some fl =>
      if fl.done then
        match fl.ans with
        | some (some (id', _)) => if id = id' then removeKey s k else (s, [])
        | _ => (s, [.crash])
      else (s, [])

/-- executeQuery: the statement's own key; executeBatch: `stmts[string(x.StatementId)]`, the map filled in
    entry order (a later entry with the same id overwrites) -/
def unprepKey (s : State κ) (cl : Caller κ) (id : Id) : Option κ :=
  if cl.batch then
    ((cl.entries.zip cl.got).reverse.find? (fun e => idOf s e.2 = id)).map (·.1.1)
  else cl.entries.head?.map (·.1)

def step (s : State κ) : Action κ → Option (State κ × List (Ev κ))
  | .call b es =>
    if es = [] then none
    else some ({ s with callers := s.callers ++ [{ batch := b, entries := es, got := [], pc := .start,
                                                   banned := isRemoved s }] },
               [.start s.callers.length b es])
  | .lookup c =>
    match s.callers[c]? with
    | none => none
    | some cl =>
      if cl.pc = .start then
        match cl.entries[cl.got.length]? with
        | none => none
        | some e =>
          match s.cache e.1 with
          | some f => some ({ s with callers := s.callers.set c { cl with pc := .waiting f } }, [])
          | none =>
            let f := s.flights.length
            some ({ s with cache := fun k' => if k' = e.1 then some f else s.cache k',
                           flights := s.flights ++ [{ key := e.1, ans := none, done := false, removed := false,
                                                      spawned := false }],
                           callers := s.callers.set c { cl with pc := .won f } }, [])
      else none
  | .spawn c =>
    match s.callers[c]? with
    | none => none
    | some cl =>
      match cl.pc with
      | .won f =>
        match s.flights[f]? with
        | none => none
        | some fl =>
          some ({ s with flights := s.flights.set f { fl with spawned := true },
                         callers := s.callers.set c { cl with pc := .waiting f } }, [])
      | _ => none
  | .evict k =>
    if s.strict = true then none else
    match s.cache k with
    | none => none
    | some _ => some (removeKey s k)
  | .srvPrepare f r =>
    match s.flights[f]? with
    | none => none
    | some fl =>
      if fl.ans = none ∧ fl.spawned = true then
        some ({ s with flights := s.flights.set f { fl with ans := some r } }, [.prep f fl.key r])
      else none
  | .complete f =>
    match s.flights[f]? with
    | none => none
    | some fl =>
      match fl.ans with
      | none => none
      | some r =>
        if fl.done then none
        else
          match r with
          | some _ => some (setDone s f, [])
          | none =>
            -- flight.err = err; stmtsLRU.remove(key); (deferred) close(flight.done)
            let r1 := removeKey s fl.key
            some (setDone r1.1 f, r1.2)
  | .observe c a =>
    match s.callers[c]? with
    | none => none
    | some cl =>
      match cl.pc with
      | .waiting f =>
        match s.flights[f]?, cl.entries[cl.got.length]? with
        | some fl, some e =>
          if fl.done then
            match fl.ans with
            | some none =>
              some ({ s with callers := s.callers.set c { cl with pc := .returned } }, [.ret c (.prepErr f)])
            | some (some (_, nc)) =>
              if e.2 ≠ nc then
                some ({ s with callers := s.callers.set c { cl with pc := .returned } }, [.ret c .countErr])
              else if (cl.got ++ [f]).length = cl.entries.length then
                some ({ s with callers := s.callers.set c { cl with got := cl.got ++ [f], pc := .answered a,
                                                                     banned := isRemoved s } },
                      [.exec c ((cl.got ++ [f]).map (idOf s)) a])
              else
                some ({ s with callers := s.callers.set c { cl with got := cl.got ++ [f], pc := .start } }, [])
            | none => none
          else none
        | _, _ => none
      | _ => none
  | .finish c =>
    match s.callers[c]? with
    | none => none
    | some cl =>
      match cl.pc with
      | .answered .ok =>
        some ({ s with callers := s.callers.set c { cl with pc := .returned } }, [.ret c .ok])
      | .answered .err =>
        some ({ s with callers := s.callers.set c { cl with pc := .returned } }, [.ret c .execErr])
      | .answered (.unprep id) =>
        let r := match unprepKey s cl id with
          | some k => evictIfMatch s k id
          | none => (s, [])
        some ({ r.1 with callers := r.1.callers.set c { cl with got := [], pc := .start } }, r.2)
      | _ => none
  | .cancel c =>
    if c < s.callers.length then
      some ({ s with cancelled := fun c' => decide (c' = c) || s.cancelled c' }, [.cancel c])
    else none
  | .abandon c =>
    match s.callers[c]? with
    | none => none
    | some cl =>
      if s.cancelled c = true then
        match cl.pc with
        | .waiting _ =>
          some ({ s with callers := s.callers.set c { cl with pc := .abandoned } }, [.ret c .ctxErr])
        | .answered _ =>
          some ({ s with callers := s.callers.set c { cl with pc := .abandoned } }, [.ret c .ctxErr])
        | _ => none
      else none
  | .abandonLate c =>
    match s.callers[c]? with
    | none => none
    | some cl =>
      if s.cancelled c = true then
        match cl.pc with
        | .waiting f =>
          match s.flights[f]?, cl.entries[cl.got.length]? with
          | some fl, some e =>
            if fl.done then
              match fl.ans with
              | some (some (_, nc)) =>
                if e.2 = nc ∧ (cl.got ++ [f]).length = cl.entries.length then
                  some ({ s with callers := s.callers.set c { cl with got := cl.got ++ [f], pc := .lagging } },
                        [.ret c .ctxErr])
                else none
              | _ => none
            else none
          | _, _ => none
        | _ => none
      else none
  | .srvLate c a =>
    match s.callers[c]? with
    | none => none
    | some cl =>
      if cl.pc = .lagging then
        some ({ s with callers := s.callers.set c { cl with pc := .abandoned, banned := isRemoved s } },
              [.exec c (cl.got.map (idOf s)) a])
      else none

/-- run a schedule, collecting the observable trace -/
def run (s : State κ) : List (Action κ) → Option (State κ × List (Ev κ))
  | [] => some (s, [])
  | a :: as =>
    match step s a with
    | none => none
    | some (s', evs) =>
      match run s' as with
      | none => none
      | some (s'', evs') => some (s'', evs ++ evs')

end PConn

/-! ### the observable-level specification -/
namespace Obs
open PConn

structure OFlight (κ : Type) where
  key     : κ
  ans     : Option PAns     -- none: removed from the cache before its PREPARE reached the server
  removed : Bool

inductive OPC
  | active
  | awaiting (a : XAns)
  | returned
  | abandoned (lag : Bool)  -- returned its context error; lag: a frame written just before may still arrive
  deriving DecidableEq

/-- may send a frame / return a prepare-side error: running, or restarted by an UNPREPARED answer -/
def OPC.live : OPC → Bool
  | .active => true
  | .awaiting (.unprep _) => true
  | _ => false

/-- has not returned -/
def OPC.running : OPC → Bool
  | .active => true
  | .awaiting _ => true
  | _ => false

/-- returned its context error (a PREPARE it caused may still be on its way) -/
def OPC.gaveUp : OPC → Bool
  | .abandoned _ => true
  | _ => false

structure OCaller (κ : Type) where
  entries : List (κ × Nat)
  pc      : OPC
  banned  : Nat → Bool

structure OState (κ : Type) where
  flights : Nat → Option (OFlight κ)
  known   : List Nat
  callers : List (OCaller κ)
  /-- `1 + #rm(k) − #prep(k)`: how many more PREPAREs of k the removals seen so far allow -/
  credit  : κ → Nat
  /-- the call's context is done -/
  cancelled : Nat → Bool
  /-- the cache never purges for capacity: every removal must be justified (`justified`) -/
  strict : Bool

variable {κ : Type} [DecidableEq κ]

def initB (strict : Bool) : OState κ :=
  { flights := fun _ => none, known := [], callers := [], credit := fun _ => 1, cancelled := fun _ => false,
    strict := strict }

def init : OState κ := initB false

def removedNow (o : OState κ) (f : Nat) : Bool :=
  match o.flights f with
  | some fl => fl.removed
  | none => false

/-- flight f justifies sending id `id` for an entry (k, n) of a caller with ban list b: it is a PREPARE of
    exactly k that the server answered with `id` and n bind columns, and it had not been removed from the
    cache when the caller started / sent its previous frame -/
def justifies (o : OState κ) (b : Nat → Bool) (k : κ) (n : Nat) (id : Id) (f : Nat) : Bool :=
  !b f && match o.flights f with
    | some fl => decide (fl.key = k) && decide (fl.ans = some (some (id, n)))
    | none => false

def okEntries (o : OState κ) (b : Nat → Bool) : List (κ × Nat) → List Id → Bool
  | [], [] => true
  | e :: es, id :: ids => o.known.any (justifies o b e.1 e.2 id) && okEntries o b es ids
  | _, _ => false

/-- some entry's value count differs from the bind column count of a justified PREPARE of its statement -/
def countMismatch (o : OState κ) (cl : OCaller κ) : Bool :=
  cl.entries.any fun e => o.known.any fun f =>
    !cl.banned f && match o.flights f with
      | some fl => decide (fl.key = e.1) && (match fl.ans with
          | some (some (_, nc)) => decide (nc ≠ e.2)
          | _ => false)
      | none => false

def hasKey (es : List (κ × Nat)) (k : κ) : Bool := es.any (fun e => decide (e.1 = k))

/-- why flight f's entry (key k) may leave a cache that never purges for capacity: its PREPARE failed, or a running
    call that executes k holds an UNPREPARED answer carrying the id that PREPARE returned -/
def justified (o : OState κ) (k : κ) (f : Nat) : Bool :=
  match o.flights f with
  | some fl =>
    match fl.ans with
    | some none => true
    | some (some (id, _)) => o.callers.any fun cl => decide (cl.pc = .awaiting (.unprep id)) && hasKey cl.entries k
    | none => false
  | none => false

def setPc (o : OState κ) (c : Nat) (cl : OCaller κ) (pc : OPC) : OState κ :=
  { o with callers := o.callers.set c { cl with pc := pc } }

def step (o : OState κ) : Ev κ → Option (OState κ)
  | .start c _ es =>
    if c = o.callers.length ∧ es ≠ [] then
      some { o with callers := o.callers ++ [{ entries := es, pc := .active, banned := removedNow o }] }
    else none
  | .prep f k r =>
    -- single flight: at most one more PREPARE of k than entries of k that left the cache; somebody is executing k
    -- (or gave up on its context after causing the PREPARE)
    if 0 < o.credit k ∧ o.callers.any (fun cl => (cl.pc.live || cl.pc.gaveUp) && hasKey cl.entries k) then
      match o.flights f with
      | none =>
        some { o with flights := fun g => if g = f then some { key := k, ans := some r, removed := false } else o.flights g,
                      known := f :: o.known,
                      credit := fun k' => if k' = k then o.credit k - 1 else o.credit k' }
      | some fl =>
        if fl.key = k ∧ fl.ans = none then
          some { o with flights := fun g => if g = f then some { fl with ans := some r } else o.flights g,
                        credit := fun k' => if k' = k then o.credit k - 1 else o.credit k' }
        else none
    else none
  | .rm k f =>
    -- with a cache that cannot purge for capacity an entry leaves only because its PREPARE failed or was lost
    if o.strict = true ∧ justified o k f = false then none else
    match o.flights f with
    | none =>
      some { o with flights := fun g => if g = f then some { key := k, ans := none, removed := true } else o.flights g,
                    known := f :: o.known,
                    credit := fun k' => if k' = k then o.credit k + 1 else o.credit k' }
    | some fl =>
      if fl.key = k ∧ fl.removed = false then
        some { o with flights := fun g => if g = f then some { fl with removed := true } else o.flights g,
                      credit := fun k' => if k' = k then o.credit k + 1 else o.credit k' }
      else none
  | .exec c ids a =>
    match o.callers[c]? with
    | none => none
    | some cl =>
      if cl.pc.live ∧ okEntries o cl.banned cl.entries ids then
        some { o with callers := o.callers.set c { cl with pc := .awaiting a, banned := removedNow o } }
      else if cl.pc = .abandoned true ∧ okEntries o cl.banned cl.entries ids then
        -- the one frame that was already written when the caller's context fired
        some { o with callers := o.callers.set c { cl with pc := .abandoned false, banned := removedNow o } }
      else none
  | .ret c out =>
    match o.callers[c]? with
    | none => none
    | some cl =>
      match out with
      | .ok => if cl.pc = .awaiting .ok then some (setPc o c cl .returned) else none
      | .execErr => if cl.pc = .awaiting .err then some (setPc o c cl .returned) else none
      | .prepErr f =>
        -- a failure is reported only once it has left the cache, and never to a call that began afterwards
        if cl.pc.live ∧ cl.banned f = false then
          match o.flights f with
          | some fl =>
            if hasKey cl.entries fl.key ∧ fl.ans = some none ∧ fl.removed = true then some (setPc o c cl .returned) else none
          | none => none
        else none
      | .countErr => if cl.pc.live ∧ countMismatch o cl then some (setPc o c cl .returned) else none
      | .ctxErr =>
        -- a context error only to a call whose own context is done, and only while it runs
        if o.cancelled c = true ∧ cl.pc.running = true then some (setPc o c cl (.abandoned cl.pc.live)) else none
  | .crash => none
  | .hang _ => none
  | .cancel c =>
    if c < o.callers.length then
      some { o with cancelled := fun c' => decide (c' = c) || o.cancelled c' }
    else none

def run (o : OState κ) : List (Ev κ) → Option (OState κ)
  | [] => some o
  | e :: es => match step o e with
    | none => none
    | some o' => run o' es

/-- number of the first rejected event (diagnostics for the driver) -/
def firstReject (o : OState κ) : List (Ev κ) → Nat → Option (Nat × OState κ)
  | [], _ => none
  | e :: es, i => match step o e with
    | none => some (i, o)
    | some o' => firstReject o' es (i + 1)

def prepCount (k : κ) (tr : List (Ev κ)) : Nat :=
  tr.countP fun | .prep _ k' _ => decide (k' = k) | _ => false
def rmCount (k : κ) (tr : List (Ev κ)) : Nat :=
  tr.countP fun | .rm k' _ => decide (k' = k) | _ => false

end Obs

/-!
## The connection-level machine with the REAL cache (`PLru`)

`PConn` keeps the statement cache as a finite map and lets the environment purge any entry at any time. `PLru` is the
same machine with `internal/lru` (Model/LRU.lean) as the cache: there is NO environment eviction - an entry is
purged exactly when `lru.Cache.Add` inside a missing lookup's critical section finds the cache over its capacity
(the least recently used entry goes, possibly one whose PREPARE is still in flight), a hit promotes the entry
(`lru.Get` in execIfMissing), evictPreparedID promotes the entry it inspects (`lru.Get`) and `lru.Remove`s it if
it decides to, and a failing flight `lru.Remove`s its key. Callers, flights' goroutines, the server and the
caller contexts interleave exactly as in `PConn`.

Proofs/C14ConnLRU.lean: every schedule of `PLru` is a schedule of `PConn` with the LRU's purges as `evict` actions
(same trace - so `Obs` accepts it and every theorem about `PConn` schedules holds for it), the two caches hold
the same entries at every point, and the cache never exceeds its capacity in any interleaving.
-/
namespace PLru
open PConn

structure State (κ : Type) where
  p   : PConn.State κ
  lru : LRU.Cache κ Nat

/-- the actions of `PConn` without the environment's `evict` -/
inductive Action (κ : Type)
  | call (batch : Bool) (es : List (κ × Nat))
  | lookup (c : Nat)
  | spawn (c : Nat)
  | srvPrepare (f : Nat) (r : PAns)
  | complete (f : Nat)
  | observe (c : Nat) (a : XAns)
  | finish (c : Nat)
  | cancel (c : Nat)
  | abandon (c : Nat)
  | abandonLate (c : Nat)
  | srvLate (c : Nat) (a : XAns)

variable {κ : Type} [DecidableEq κ]

def init (cap : Int) : State κ := { p := PConn.init, lru := LRU.new cap }

/-- the same action of the finite-map machine -/
def Action.toP : Action κ → PConn.Action κ
  | .call b es => .call b es
  | .lookup c => .lookup c
  | .spawn c => .spawn c
  | .srvPrepare f r => .srvPrepare f r
  | .complete f => .complete f
  | .observe c a => .observe c a
  | .finish c => .finish c
  | .cancel c => .cancel c
  | .abandon c => .abandon c
  | .abandonLate c => .abandonLate c
  | .srvLate c a => .srvLate c a

/-- whatever left the finite-map cache by `lru.Remove` (failing flight, evictPreparedID) leaves the LRU -/
def syncRm (l : LRU.Cache κ Nat) : List (Ev κ) → LRU.Cache κ Nat
  | [] => l
  | .rm k _ :: es => syncRm (l.remove k).2.1 es
  | _ :: es => syncRm l es

/-- the LRU purged these keys: `PConn`'s action `evict`, once per key -/
def evictAll (p : PConn.State κ) : List κ → Option (PConn.State κ × List (Ev κ))
  | [] => some (p, [])
  | k :: ks =>
    match PConn.step p (.evict k) with
    | none => none
    | some (p1, e1) =>
      match evictAll p1 ks with
      | none => none
      | some (p2, e2) => some (p2, e1 ++ e2)

/-- the key the next `prepareStatement` of call c looks up -/
def lookupKey (p : PConn.State κ) (c : Nat) : Option κ :=
  match p.callers[c]? with
  | none => none
  | some cl => (cl.entries[cl.got.length]?).map (·.1)

/-- the key evictPreparedID inspects when call c acts on an UNPREPARED answer -/
def unprepLookup (p : PConn.State κ) (c : Nat) : Option κ :=
  match p.callers[c]? with
  | none => none
  | some cl =>
    match cl.pc with
    | .answered (.unprep id) => unprepKey p cl id
    | _ => none

/-- an action that touches the cache only through `lru.Remove` (or not at all) -/
def stepOther (s : State κ) (a : PConn.Action κ) : Option (State κ × List (Ev κ)) :=
  match PConn.step s.p a with
  | none => none
  | some (p1, e1) => some ({ p := p1, lru := syncRm s.lru e1 }, e1)

/-- execIfMissing: `lru.Get` (a hit promotes) or, in the same critical section, `lru.Add` of the new flight (a full
    cache purges its least recently used entry) -/
def stepLookup (s : State κ) (c : Nat) : Option (State κ × List (Ev κ)) :=
  match lookupKey s.p c with
  | none => none
  | some k =>
    match s.lru.get k with
    | (some _, l') =>
      match PConn.step s.p (.lookup c) with
      | none => none
      | some (p1, e1) => some ({ p := p1, lru := l' }, e1)
    | (none, _) =>
      match PConn.step s.p (.lookup c) with
      | none => none
      | some (p1, e1) =>
        match evictAll p1 ((s.lru.add k s.p.flights.length).2.map (·.1)) with
        | none => none
        | some (p2, e2) => some ({ p := p2, lru := (s.lru.add k s.p.flights.length).1 }, e1 ++ e2)

/-- the answer to the frame; on UNPREPARED evictPreparedID: `lru.Get` (promotes) before it decides -/
def stepFinish (s : State κ) (c : Nat) : Option (State κ × List (Ev κ)) :=
  match PConn.step s.p (.finish c) with
  | none => none
  | some (p1, e1) =>
    some ({ p := p1, lru := syncRm (match unprepLookup s.p c with
                                    | some k => (s.lru.get k).2
                                    | none => s.lru) e1 }, e1)

def step (s : State κ) : Action κ → Option (State κ × List (Ev κ))
  | .lookup c => stepLookup s c
  | .finish c => stepFinish s c
  | .call b es => stepOther s (.call b es)
  | .spawn c => stepOther s (.spawn c)
  | .srvPrepare f r => stepOther s (.srvPrepare f r)
  | .complete f => stepOther s (.complete f)
  | .observe c a => stepOther s (.observe c a)
  | .cancel c => stepOther s (.cancel c)
  | .abandon c => stepOther s (.abandon c)
  | .abandonLate c => stepOther s (.abandonLate c)
  | .srvLate c a => stepOther s (.srvLate c a)

def run (s : State κ) : List (Action κ) → Option (State κ × List (Ev κ))
  | [] => some (s, [])
  | a :: as =>
    match step s a with
    | none => none
    | some (s', evs) =>
      match run s' as with
      | none => none
      | some (s'', evs') => some (s'', evs ++ evs')

end PLru
