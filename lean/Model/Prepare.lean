import Model.LRU
/-
  Model of the prepared-statement cache protocol (C14):
    prepared_cache.go  keyFor / execIfMissing / remove / evictPreparedID
    conn.go            prepareStatement (lookup-or-insert under one lock; the winner's goroutine
                       completes the flight, and on failure removes the KEY; waiters read the flight),
                       executeQuery's `case *RequestErrUnprepared` (evictPreparedID, then retry)
  One `Action` = one critical section of `preparedLRU.mu` (plus the flight completion).
-/
namespace Prepare

/-- prepared_cache.go keyFor: plain concatenation -/
def keyFor (hostID keyspace stmt : List Char) : List Char := hostID ++ keyspace ++ stmt

inductive Status
  | inflight
  | ok (id : List UInt8)
  | failed
  deriving DecidableEq, Repr

structure Flight (κ : Type) where
  key    : κ
  status : Status

inductive Event (κ : Type)
  | hit (k : κ) (f : Nat)
  | insert (k : κ) (f : Nat)          -- miss: new flight published; its goroutine sends PREPARE
  | evicted (k : κ) (f : Nat)         -- purged by capacity (possibly while still in flight)
  | failRemoved (k : κ) (f : Nat)     -- `stmtsLRU.remove(key)` by a failing winner (whatever flight sits there)
  | unprepRemoved (k : κ) (f : Nat)   -- evictPreparedID with the cached id

structure State (κ : Type) where
  cache   : LRU.Cache κ Nat
  flights : List (Flight κ)
  log     : List (Event κ)
  /-- evictPreparedID dereferences `ifp.preparedStatment.id` of a done flight: a done flight
      without prepared statement (failed) in the cache would be a nil dereference -/
  crashed : Bool

inductive Action (κ : Type)
  | lookup (k : κ)                               -- execIfMissing in prepareStatement
  | complete (f : Nat) (r : Option (List UInt8)) -- the winner's goroutine: some id = PREPARED, none = any failure
  | unprepared (k : κ) (id : List UInt8)         -- UNPREPARED answer → evictPreparedID(key, id)

variable {κ : Type} [DecidableEq κ]

def init (cap : Int) : State κ := { cache := LRU.new cap, flights := [], log := [], crashed := false }

def step (s : State κ) : Action κ → Option (State κ)
  | .lookup k =>
    match s.cache.get k with
    | (some f, cache') => some { s with cache := cache', log := s.log ++ [.hit k f] }
    | (none, _) =>
      let f := s.flights.length
      let r := s.cache.add k f
      some { s with cache := r.1, flights := s.flights ++ [{ key := k, status := .inflight }],
                    log := s.log ++ [.insert k f] ++ r.2.map (fun e => .evicted e.1 e.2) }
  | .complete f r =>
    match s.flights[f]? with
    | none => none
    | some fl =>
      if fl.status = .inflight then
        match r with
        | some id => some { s with flights := s.flights.set f { fl with status := .ok id } }
        | none =>
          let rm := s.cache.remove fl.key
          some { s with flights := s.flights.set f { fl with status := .failed }, cache := rm.2.1,
                        log := s.log ++ rm.2.2.map (fun e => .failRemoved e.1 e.2) }
      else none
  | .unprepared k id =>
    match s.cache.get k with
    | (none, _) => some s
    | (some f, cache') =>
      match ((s.flights[f]?).map (·.status) : Option Status) with
      | some (Status.ok id') =>
        if id = id' then
          let rm := cache'.remove k
          some { s with cache := rm.2.1, log := s.log ++ rm.2.2.map (fun e => .unprepRemoved e.1 e.2) }
        else some { s with cache := cache' }
      | some Status.inflight => some { s with cache := cache' }
      | _ => some { s with cache := cache', crashed := true }

def run (s : State κ) : List (Action κ) → Option (State κ)
  | [] => some s
  | a :: as => match step s a with
    | none => none
    | some s' => run s' as

def Event.isInsert (k : κ) : Event κ → Bool
  | .insert k' _ => k' == k
  | _ => false

def Event.isRemoval (k : κ) : Event κ → Bool
  | .evicted k' _ => k' == k
  | .failRemoved k' _ => k' == k
  | .unprepRemoved k' _ => k' == k
  | _ => false

/-- number of PREPAREs caused for key `k` -/
def prepares (log : List (Event κ)) (k : κ) : Nat := log.countP (Event.isInsert k)
/-- number of times `k`'s entry left the cache (capacity, failure, unprepared) -/
def removals (log : List (Event κ)) (k : κ) : Nat := log.countP (Event.isRemoval k)

/-- what a caller holding flight `f` returns once it is done -/
def outcome (s : State κ) (f : Nat) : Option Status := (s.flights[f]?).map (·.status)

end Prepare
