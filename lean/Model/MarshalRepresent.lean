/-
C12 / C02 — decode direction for COMPOSITE types: `representAny t ty v`, the Go value of type `ty` that denotes the
column value `v` (as decoded by the SPECIFICATION decoder `ValueSpec.specDec`) of a list / set / map / tuple / UDT
column, following the documentation of gocql.Unmarshal:

  list / set  → slice or array (of exactly that length) of the elements' representations
  map         → Go map (a later equal key replaces the earlier entry)
  tuple       → struct / slice / array whose fields have the column's own Go type goType(elem), a pointer to it
                (null ↔ nil pointer, EMPTY ↔ pointer to the empty value) or interface{}; or a []interface{} of
                pointers to documented targets (scan targets); absent trailing fields are null
  UDT         → map[string]interface{} holding goType(field) values for the fields PRESENT on the wire, or a struct
                with cql tags: each present field into the Go field of that name, absent fields keep the zero value
  null        → nil through a pointer target, the zero value otherwise

It is written on abstract values only (`CqlVal`), never looks at bytes, and shares nothing with the model of
gocql's decoder (`unmarshalBase`).  `unmodelled` marks target shapes for which no claim is made.  Core Lean only.
-/
import Model.MarshalInterp
namespace Marshal
open ValueSpec (Bytes CqlTy CqlVal)

/-- absent trailing tuple fields are null -/
def padNull : Nat → List CqlVal → List CqlVal
  | 0, _ => []
  | n+1, [] => .null :: padNull n []
  | n+1, v :: vs => v :: padNull n vs

/-- null into a target that is not a pointer: the zero value — except where gocql.Unmarshal refuses an empty
    input for that target (fixed-size targets without a zero-length form) -/
def nullInto (t : CqlTy) (base : GoTy) : URes :=
  match t, base with
  | .list _, .array _ _ | .set _, .array _ _ => .err            -- "can not store nil in array value"
  | .decimal, .dec => .err
  | .inet, .ip => .err
  | .uuid, .arr16 | .timeuuid, .arr16 => .err
  | t, .str false => if t.isIntCol then .ok (.str false (formatInt 0)) else .ok (zeroOf base)   -- FormatInt(0)
  | _, _ => .ok (zeroOf base)

/-- nullable (pointer) targets around a representation `f` of the pointer-free base type -/
def withPtrR (t : CqlTy) (f : GoTy → CqlVal → URes) (ty : GoTy) (v : CqlVal) : URes :=
  match stripPtr ty with
  | (k+1, base) =>
    if v.isNull then .ok .nilptr else
    (match f base v with
     | .ok g => .ok (wrapPtr (k+1) g)
     | other => other)
  | (0, base) =>
    if v.isNull then
      (match t with
       | .tuple _ => f base v          -- a null tuple is decoded like a tuple whose fields are all absent
       | _ => nullInto t base)
    else f base v

inductive RRes
  | ok (vs : List GoVal)
  | err | unmodelled

def RRes.cons (r : URes) (rest : RRes) : RRes :=
  match r with
  | .ok g => (match rest with
      | .ok gs => .ok (g :: gs)
      | other => other)
  | .err => .err
  | _ => .unmodelled

def setAt : List GoVal → Nat → GoVal → List GoVal
  | [], _, _ => []
  | _ :: r, 0, g => g :: r
  | a :: r, n+1, g => a :: setAt r n g

/-- list / set elements, each through the element representation `f` -/
def representElems (f : CqlVal → URes) : List CqlVal → RRes
  | [] => .ok []
  | v :: vs => (match f v with
      | .ok g => (match representElems f vs with
          | .ok gs => .ok (g :: gs)
          | other => other)
      | .err => .err
      | _ => .unmodelled)

/-- map entries in wire order; `SetMapIndex`: a later equal key replaces the earlier entry -/
def representPairs (fk fv : CqlVal → URes) : List (CqlVal × CqlVal) → List (GoVal × GoVal) → URes
  | [], acc => .ok (.map false acc)
  | (k, v) :: r, acc =>
    (match fk k with
     | .ok gkv => (match fv v with
         | .ok gvv => representPairs fk fv r (mapInsert gkv gvv acc)
         | .err => .err
         | _ => .unmodelled)
     | .err => .err
     | _ => .unmodelled)

def listRes (r : RRes) (f : List GoVal → GoVal) : URes :=
  match r with
  | .ok gs => .ok (f gs) | .err => .err | .unmodelled => .unmodelled

mutual
/-- representation of a NON-NULL value in a pointer-free target -/
def representB : CqlTy → GoTy → CqlVal → URes
  | .list et, ty, v => (match v, ty with
      | .list vs, .slice g => listRes (representElems (withPtrR et (representB et) g) vs) (.slice false)
      | .list vs, .array n g => if vs.length ≠ n then .err else
          listRes (representElems (withPtrR et (representB et) g) vs) .array
      | _, _ => .unmodelled)
  | .set et, ty, v => (match v, ty with
      | .list vs, .slice g => listRes (representElems (withPtrR et (representB et) g) vs) (.slice false)
      | .list vs, .array n g => if vs.length ≠ n then .err else
          listRes (representElems (withPtrR et (representB et) g) vs) .array
      | _, _ => .unmodelled)
  | .map kt vt, ty, v => (match v, ty with
      | .map kvs, .map gk gv =>
          representPairs (withPtrR kt (representB kt) gk) (withPtrR vt (representB vt) gv) kvs []
      | _, _ => .unmodelled)
  | .tuple ts, ty, v => (match (match v with | .tuple vs => some vs | .null => some [] | _ => none) with
      | some vs =>
        let vs' := padNull ts.length vs
        (match ty with
         | .struct gs => if gs.length ≠ ts.length then .err else listRes (representFields ts gs vs') .struct
         | .ifaces gs => if gs.length ≠ ts.length then .unmodelled else listRes (representScan ts gs vs') .ifaces
         | .slice g => listRes (representFields ts (List.replicate ts.length g) vs')
             (fun fs => if g == .iface then .ifaces fs else .slice false fs)
         | .array n g => if n ≠ ts.length then .err else
             listRes (representFields ts (List.replicate ts.length g) vs') .array
         | _ => .unmodelled)
      | none => .unmodelled)
  | .udt names ts, ty, v => (match v with
      | .tuple vs =>
        (match ty with
         | .udtmap => listRes (representGoTypes ts vs) (fun fs => .udtmap false (names.take fs.length) fs)
         | .udtstruct fnames gs => listRes (representUdt names ts fnames gs vs (zeroOfs gs)) (.udtstruct fnames)
         | _ => .unmodelled)
      | _ => .unmodelled)
  | t, ty, v => representScalar t ty v

/-- tuple fields into struct fields / slice or array elements: the field type is goType(elem), a pointer to it, or
    interface{} (anything else cannot be `Set` from the decoded value: no claim) -/
def representFields : List CqlTy → List GoTy → List CqlVal → RRes
  | t :: ts, g :: gs, v :: vs =>
    RRes.cons
      (match g with
       | .ptr g' => if g' == goTypeOf t then
             (if v.isNull then .ok .nilptr else
               (match withPtrR t (representB t) (goTypeOf t) v with
                | .ok x => .ok (.ptr x)
                | other => other))
           else .unmodelled
       | .iface => withPtrR t (representB t) (goTypeOf t) v
       | g => if g == goTypeOf t then withPtrR t (representB t) g v else .unmodelled)
      (representFields ts gs vs)
  | _, _, _ => .ok []

/-- tuple fields into scan targets (`[]interface{}{&x1, …}`): each `x_i` is any documented target of its field -/
def representScan : List CqlTy → List GoTy → List CqlVal → RRes
  | t :: ts, g :: gs, v :: vs => RRes.cons (withPtrR t (representB t) g v) (representScan ts gs vs)
  | _, _, _ => .ok []

/-- the fields present on the wire as values of goType(field) (map[string]interface{} target) -/
def representGoTypes : List CqlTy → List CqlVal → RRes
  | t :: ts, v :: vs => RRes.cons (withPtrR t (representB t) (goTypeOf t) v) (representGoTypes ts vs)
  | _, _ => .ok []

/-- the fields present on the wire into the Go fields of the same name; the others keep their zero value -/
def representUdt : List String → List CqlTy → List String → List GoTy → List CqlVal → List GoVal → RRes
  | name :: names, t :: ts, fnames, gs, v :: vs, acc =>
    (match lookupIdx name fnames 0 with
     | none => representUdt names ts fnames gs vs acc
     | some i => (match gs[i]? with
       | none => representUdt names ts fnames gs vs acc
       | some g => (match withPtrR t (representB t) g v with
         | .ok x => representUdt names ts fnames gs vs (setAt acc i x)
         | .err => .err
         | _ => .unmodelled)))
  | _, _, _, _, _, acc => .ok acc
end

/-- the Go value of type `ty` denoting the (non-null) column value `v` of type `t` -/
def representAny (t : CqlTy) (ty : GoTy) (v : CqlVal) : URes := withPtrR t (representB t) ty v

/-! ## the semantic printer of `specdec`: `[]byte(nil)` and `[]byte{}` both denote the empty byte string (KF-C02-2) -/

mutual
def normDeep : GoVal → GoVal
  | .bytes named true _ => .bytes named false []
  | .ptr v => .ptr (normDeep v)
  | .slice isNil vs => .slice isNil (normDeeps vs)
  | .array vs => .array (normDeeps vs)
  | .ifaces vs => .ifaces (normDeeps vs)
  | .struct vs => .struct (normDeeps vs)
  | .udtmap isNil names vs => .udtmap isNil names (normDeeps vs)
  | .udtstruct names vs => .udtstruct names (normDeeps vs)
  | .map isNil kvs => .map isNil (normDeepKVs kvs)
  | g => g
def normDeeps : List GoVal → List GoVal
  | [] => []
  | v :: vs => normDeep v :: normDeeps vs
def normDeepKVs : List (GoVal × GoVal) → List (GoVal × GoVal)
  | [] => []
  | (k, v) :: r => (normDeep k, normDeep v) :: normDeepKVs r
end

end Marshal
