import Model.Placement
/-!
C10 — the model AFTER the proposed fixes for D1 and D2 (not applied to /repo; see the report).
Switch `Driver/C10.lean` from `ntsReplicaMap` to `ntsReplicaMapF` once the patch is in.

D1 fix (topology.go, inner loop of networkTopology.replicaMap): remember the hosts already met in this walk and
skip a host met before (`seenHosts := make(map[*HostInfo]struct{})`; `if _, ok := seenHosts[h]; ok { continue }`).
Revisiting a host is a no-op in Cassandra's algorithm (all its collections are sets), so the fixed walk over a
ring with vnodes is the unfixed walk over the first occurrences of the hosts, for which
`C10.C10_nts_nodup_partial`, `C10_nts_bound_partial` and `C10_nts_equal_partial` apply (their hypothesis
`OneTokenPerNode` is exactly "every host is met once").

D2 fix (final sanity check): compare what is meant — "every datacenter of the ring has rf > 0" — instead of two counts.
-/
namespace Placement

/-- fixed inner loop: `sh` = seenHosts -/
def ntsWalkF (c : NtsCfg) : NtsSt → List Host → List Host → NtsSt
  | st, _, [] => st
  | st, sh, h :: rest =>
    if st.crash then st
    else if st.replicas.length < c.totalRF ∧ haveRF c st = false then
      (if h ∈ sh then ntsWalkF c st sh rest else ntsWalkF c (ntsStep c st h) (sh ++ [h]) rest)
    else st

def ntsReplicasAtF (c : NtsCfg) (tokens : List Entry) (i : Nat) : NtsSt :=
  ntsWalkF c ntsInit [] ((rot tokens i).map (·.2))

def ntsLoopF (c : NtsCfg) (tokens : List Entry) : List (Nat × Entry) → ReplicaRing → Except Crash ReplicaRing
  | [], acc => .ok acc
  | (i, th) :: rest, acc =>
    if rfOf c.rfs th.2.dc = 0 then ntsLoopF c tokens rest acc
    else
      let st := ntsReplicasAtF c tokens i
      if st.crash then .error .overflow
      else match st.replicas with
        | [] => .error .noReplicas
        | r0 :: _ =>
          if r0 ≠ th.2 then .error .notPrimary
          else ntsLoopF c tokens rest (acc ++ [(th.1, st.replicas)])

/-- fixed sanity check: `allDCsReplicated := ∀ dc ∈ dcRacks, n.dcs[dc] > 0` -/
def ntsReplicaMapF (rfs : List (Nat × Nat)) (hosts : List Host) (tokens : List Entry) : Except Crash ReplicaRing :=
  let c := mkCfg rfs hosts
  match ntsLoopF c tokens (indexed tokens) [] with
  | .error e => .error e
  | .ok rr =>
    let allDCsReplicated := (toSet (hosts.map (·.dc))).all (fun d => decide (rfOf rfs d > 0))
    if allDCsReplicated = true ∧ rr.length ≠ tokens.length then .error .sizeMismatch else .ok rr

end Placement
