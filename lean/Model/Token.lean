import Model.MD5
/-
  Model of /repo/token.go (partitioners, token order, ParseString) and of
  session.go `createRoutingKey` (composite routing key framing).
-/
namespace Token

/-- big-endian unsigned value of a byte string (`big.Int.SetBytes`) -/
def beNat : List UInt8 → Nat
  | [] => 0
  | b :: bs => b.toNat * 256 ^ bs.length + beNat bs

/-- token.go `randomPartitioner.Hash` after `md5.Sum`: `val.SetBytes(sum)`; if `sum[0] > 127`
    then `val = |val - 2^128|`. The digest is the parameter (md5 itself is trusted). -/
def randomToken (digest : List UInt8) : Int :=
  let val : Int := beNat digest
  if (digest.headD 0).toNat > 127 then (val - (2:Int)^128).natAbs else val

/-- token.go `randomPartitioner.Hash(partitionKey)` with `md5.Sum` = RFC 1321 (Model/MD5.lean) -/
def randomTokenOfKey (key : List UInt8) : Int := randomToken (MD5.sum key)

/-- Spec (Cassandra RandomPartitioner): `new BigInteger(md5).abs()` — the digest read as a
    signed two's-complement 128-bit integer, absolute value. -/
def Spec.randomToken (digest : List UInt8) : Int :=
  let u : Int := beNat digest
  let signed : Int := if u ≥ (2:Int)^127 then u - (2:Int)^128 else u
  signed.natAbs

/-- Go string `<` / Cassandra ByteOrderedPartitioner: unsigned bytewise lexicographic, prefix first -/
def lexLt : List UInt8 → List UInt8 → Bool
  | [], [] => false
  | [], _ :: _ => true
  | _ :: _, [] => false
  | a :: as, b :: bs => if a.toNat < b.toNat then true else if b.toNat < a.toNat then false else lexLt as bs

/-! ### decimal token strings -/

def digitVal (c : Char) : Option Nat :=
  if '0' ≤ c ∧ c ≤ '9' then some (c.toNat - '0'.toNat) else none

/-- all-digits, non-empty → value -/
def parseDigits : List Char → Nat → Option Nat
  | [], acc => some acc
  | c :: cs, acc => match digitVal c with
    | some d => parseDigits cs (acc * 10 + d)
    | none => none

def parseNat (cs : List Char) : Option Nat :=
  if cs.isEmpty then none else parseDigits cs 0

def int64Max : Int := 9223372036854775807
def int64Min : Int := -9223372036854775808

def splitSign : List Char → Bool × List Char
  | '+' :: r => (false, r)
  | '-' :: r => (true, r)
  | r => (false, r)

/-- `strconv.ParseInt(s, 10, 64)` with the error dropped (token.go murmur3 ParseString):
    syntax error ↦ 0, range error ↦ clamped. (Go's underscore digit separators are only
    accepted with base 0, so not here.) -/
def parseInt64 (cs : List Char) : Int :=
  let sd := splitSign cs
  match parseNat sd.2 with
  | none => 0
  | some n =>
    if sd.1 then (if (n : Int) > 9223372036854775808 then int64Min else -(n : Int))
    else (if (n : Int) > int64Max then int64Max else (n : Int))

/-- decimal digits of `n`, most significant first (fuel-bounded; `fuel > n` suffices) -/
def natDigitsAux : Nat → Nat → List Char → List Char
  | 0, _, acc => acc
  | f+1, n, acc =>
    let acc' := Char.ofNat (48 + n % 10) :: acc
    if n / 10 = 0 then acc' else natDigitsAux f (n / 10) acc'

def natDigits (n : Nat) : List Char := natDigitsAux (n+1) n []

/-- the decimal string Cassandra reports for a token (`Long.toString` / `BigInteger.toString`) -/
def printInt (i : Int) : List Char :=
  if i < 0 then '-' :: natDigits i.natAbs else natDigits i.natAbs

/-- `big.Int.SetString(s, 10)` on a fresh big.Int with the result flag dropped (token.go randomPartitioner.ParseString):
    an optional sign and one or more decimal digits ↦ the number (underscores are accepted with base 0 only);
    anything else leaves what was scanned so far — not modelled (`none`), not constrained by the property. -/
def parseBig (cs : List Char) : Option Int :=
  let sd := splitSign cs
  (parseNat sd.2).map (fun n => if sd.1 then -(n : Int) else (n : Int))

/-! ### which partitioner a cluster's partitioner class name selects (token.go newTokenRing) -/

inductive Partitioner
  | murmur3 | ordered | random
  deriving DecidableEq, Repr

/-- `strings.HasSuffix(s, suf)`: the last `len(suf)` bytes of `s` are `suf` (said on the reversed strings) -/
def hasSuffix (s suf : List Char) : Bool := suf.reverse.isPrefixOf s.reverse

def nameMurmur3 : List Char := ['M', 'u', 'r', 'm', 'u', 'r', '3', 'P', 'a', 'r', 't', 'i', 't', 'i', 'o', 'n', 'e', 'r']
def nameOrdered : List Char := ['O', 'r', 'd', 'e', 'r', 'e', 'd', 'P', 'a', 'r', 't', 'i', 't', 'i', 'o', 'n', 'e', 'r']
def nameRandom : List Char := ['R', 'a', 'n', 'd', 'o', 'm', 'P', 'a', 'r', 't', 'i', 't', 'i', 'o', 'n', 'e', 'r']

/-- the `if strings.HasSuffix … else if … else error` chain of `newTokenRing`; `none` = "unsupported partitioner" -/
def selectPartitioner (name : List Char) : Option Partitioner :=
  if hasSuffix name nameMurmur3 then some .murmur3
  else if hasSuffix name nameOrdered then some .ordered
  else if hasSuffix name nameRandom then some .random
  else none

/-! ### routing key (session.go createRoutingKey) -/

def be16 (n : Nat) : List UInt8 := [UInt8.ofNat (n / 256 % 256), UInt8.ofNat (n % 256)]

/-- composite routing key: each component as `uint16(len)`, bytes, 0 -/
def composite : List (List UInt8) → List UInt8
  | [] => []
  | c :: cs => be16 (c.length % 65536) ++ c ++ [0] ++ composite cs

/-- `createRoutingKey`: single column ↦ raw value; several ↦ composite -/
def routingKey (cs : List (List UInt8)) : List UInt8 :=
  match cs with
  | [c] => c
  | cs => composite cs

/-- SPEC (Cassandra CompositeType, the partition key of a table with several key columns): per component the length as
    an UNSIGNED 16-bit big-endian number, the bytes, an end-of-component byte 0. Defined for components of at most
    65535 bytes (the length is written as it is, no reduction). -/
def Spec.frame : List (List UInt8) → List UInt8
  | [] => []
  | c :: cs => [UInt8.ofNat (c.length / 256), UInt8.ofNat (c.length % 256)] ++ c ++ [0] ++ Spec.frame cs

/-- SPEC: one key column ↦ the value itself (any length); several ↦ the CompositeType framing -/
def Spec.routingKey (cs : List (List UInt8)) : List UInt8 :=
  match cs with
  | [c] => c
  | cs => Spec.frame cs

/-- Spec decoder for CompositeType: recover the component list (fuel = input length) -/
def decodeComposite : Nat → List UInt8 → Option (List (List UInt8))
  | _, [] => some []
  | 0, _ :: _ => none
  | fuel+1, hi :: lo :: rest =>
    let n := hi.toNat * 256 + lo.toNat
    if rest.length < n + 1 then none
    else if (rest.drop n).head? ≠ some 0 then none
    else match decodeComposite fuel (rest.drop (n+1)) with
      | some cs => some (rest.take n :: cs)
      | none => none
  | _+1, [_] => none

end Token
