/-
  Model of /repo/uuid.go (ParseUUID, String, TimeUUIDWith, Timestamp/Version/Variant/Clock/Node/Time,
  getTimestamp, Min/MaxTimeUUID, UUIDFromTime, RandomUUID's stamping) — hand-written, core Lean only.
  A UUID is a `List UInt8` of length 16.  Tied to the source by `harness/cmd/c19`.
-/
namespace Uuid

/-! ### ParseUUID (uuid.go:84-106) -/

/-- value of a rune in the three digit arms of the `switch` (`r-'0'`, `r-'a'+10`, `r-'A'+10`) -/
def hexVal (c : Char) : Option Nat :=
  if 48 ≤ c.toNat ∧ c.toNat ≤ 57 then some (c.toNat - 48)
  else if 97 ≤ c.toNat ∧ c.toNat ≤ 102 then some (c.toNat - 97 + 10)
  else if 65 ≤ c.toNat ∧ c.toNat ≤ 70 then some (c.toNat - 65 + 10)
  else none

/-- the `for _, r := range input` loop; `acc` = nibbles stored so far, `j = acc.length`.
    arm 1: `r == '-' && j&1 == 0` → continue (j unchanged);
    arms 2-4: hex digit `&& j < 32` → `u[j/2] |= nib << (4 - (j&1)*4)`, `j += 1`;
    default: error.  After the loop: `j != 32` → error. -/
def parseLoop : List Char → List Nat → Option (List Nat)
  | [], acc => if acc.length = 32 then some acc else none
  | c :: cs, acc =>
    if c = '-' ∧ acc.length % 2 = 0 then parseLoop cs acc
    else match hexVal c with
      | some d => if acc.length < 32 then parseLoop cs (acc ++ [d]) else none
      | none => none

/-- `u[j/2] |= nib << (4-(j&1)*4)` over a zeroed array: even j is the high nibble -/
def pack : List Nat → List UInt8
  | hi :: lo :: r => UInt8.ofNat (hi * 16 + lo) :: pack r
  | _ => []

def parse (s : List Char) : Option (List UInt8) := (parseLoop s []).map pack

/-! ### String (uuid.go:230-244) -/

/-- `hexString[n]`, `hexString = "0123456789abcdef"` -/
def hexDigit (n : Nat) : Char :=
  ['0', '1', '2', '3', '4', '5', '6', '7', '8', '9', 'a', 'b', 'c', 'd', 'e', 'f'].getD n '?'

def hexByte (b : UInt8) : List Char := [hexDigit (b.toNat / 16), hexDigit (b.toNat % 16)]

def hexBytes : List UInt8 → List Char
  | [] => []
  | b :: bs => hexByte b ++ hexBytes bs

/-- offsets 0,2,4,6 | 9,11 | 14,16 | 19,21 | 24..34, hyphens at 8, 13, 18, 23 -/
def print (u : List UInt8) : List Char :=
  hexBytes (u.take 4) ++ '-' :: hexBytes ((u.drop 4).take 2) ++ '-' :: hexBytes ((u.drop 6).take 2)
    ++ '-' :: hexBytes ((u.drop 8).take 2) ++ '-' :: hexBytes ((u.drop 10).take 6)

/-! ### field access -/

def byteAt (u : List UInt8) (i : Nat) : UInt8 := u.getD i 0

/-- `int(u[6] & 0xF0 >> 4)`  (Go: `&` and `>>` have equal precedence, left-assoc) -/
def version (u : List UInt8) : Nat := ((byteAt u 6 &&& 0xF0) >>> 4).toNat

/-- 0 = NCS, 2 = IETF (RFC 4122), 6 = Microsoft, 7 = future -/
def variant (u : List UInt8) : Nat :=
  let x := byteAt u 8
  if x &&& 0x80 = 0 then 0 else if x &&& 0x40 = 0 then 2 else if x &&& 0x20 = 0 then 6 else 7

/-- `Timestamp()`: 0 unless version 1 -/
def timestamp (u : List UInt8) : Nat :=
  if version u ≠ 1 then 0 else
    ((byteAt u 0).toNat <<< 24 ||| (byteAt u 1).toNat <<< 16 ||| (byteAt u 2).toNat <<< 8 ||| (byteAt u 3).toNat)
    + ((byteAt u 4).toNat <<< 40 ||| (byteAt u 5).toNat <<< 32)
    + ((byteAt u 6 &&& 0x0F).toNat <<< 56 ||| (byteAt u 7).toNat <<< 48)

def clock (u : List UInt8) : Nat :=
  if version u ≠ 1 then 0 else (byteAt u 8 &&& 0x3F).toNat <<< 8 ||| (byteAt u 9).toNat

/-- `Node()`: nil unless version 1 -/
def node (u : List UInt8) : Option (List UInt8) :=
  if version u ≠ 1 then none else some (u.drop 10)

/-! ### construction -/

/-- `byte(t>>k)` of an int64 given as its 64-bit pattern `t < 2^64` (k ≤ 56: the arithmetic and the
    logical shift agree on the low byte) -/
def tbyte (t k : Nat) : UInt8 := UInt8.ofNat (t >>> k)

/-- `copy(u[10:], node)`: at most 6 bytes, rest stays 0 -/
def nodeBytes (nd : List UInt8) : List UInt8 := (nd.take 6) ++ List.replicate (6 - (nd.take 6).length) 0

/-- `TimeUUIDWith(t int64, clock uint32, node []byte)`; `t` = bit pattern of the int64, `clk < 2^32` -/
def timeUUIDWith (t clk : Nat) (nd : List UInt8) : List UInt8 :=
  [tbyte t 24, tbyte t 16, tbyte t 8, tbyte t 0,
   tbyte t 40, tbyte t 32,
   (tbyte t 56 &&& 0x0F) ||| 0x10, tbyte t 48,
   (UInt8.ofNat (clk >>> 8) &&& 0x3F) ||| 0x80, UInt8.ofNat clk] ++ nodeBytes nd

/-- `RandomUUID` after the 16 random bytes were read -/
def stampV4 (u : List UInt8) : List UInt8 :=
  (u.set 6 ((byteAt u 6 &&& 0x0F) ||| 0x40)).set 8 ((byteAt u 8 &&& 0x3F) ||| 0x80)

/-- `RandomUUID()` as a function of the bytes `rand.Reader` can still deliver: `io.ReadFull(rand.Reader, u[:])`
    fails unless 16 bytes arrive (then `u`, partly filled and NOT stamped, is returned with the error — and
    `MustRandomUUID` panics); otherwise the first 16 bytes are stamped -/
def randomUUID (avail : List UInt8) : Bool × List UInt8 :=
  if 16 ≤ avail.length then (true, stampV4 (avail.take 16))
  else (false, avail ++ List.replicate (16 - avail.length) 0)

/-! ### time ↔ timestamp -/

/-- `time.Date(1582, October, 15, 0,0,0,0, UTC).Unix()` -/
def timeBase : Int := -12219292800

/-- wrap to int64 -/
def wrap64 (i : Int) : Int := (i + 2^63) % 2^64 - 2^63

/-- `getTimestamp`: `int64(Unix()-timeBase)*10000000 + int64(Nanosecond()/100)` in int64 arithmetic -/
def getTimestamp (sec : Int) (nsec : Nat) : Int :=
  wrap64 (wrap64 (wrap64 (sec - timeBase) * 10000000) + (nsec / 100 : Nat))

/-- 64-bit pattern of an int64 -/
def bits64 (i : Int) : Nat := (i % 2^64).toNat

def minClock : Nat := 0x8080
def maxClock : Nat := 0x7f7f
def minNode : List UInt8 := [0x80, 0x80, 0x80, 0x80, 0x80, 0x80]
def maxNode : List UInt8 := [0x7f, 0x7f, 0x7f, 0x7f, 0x7f, 0x7f]

def minTimeUUID (sec : Int) (nsec : Nat) : List UInt8 := timeUUIDWith (bits64 (getTimestamp sec nsec)) minClock minNode
def maxTimeUUID (sec : Int) (nsec : Nat) : List UInt8 := timeUUIDWith (bits64 (getTimestamp sec nsec)) maxClock maxNode

/-- `UUIDFromTime`: `clock := atomic.AddUint32(&clockSeq, 1)` returns the NEW value; result and new counter -/
def uuidFromTime (clockSeq : Nat) (hw : List UInt8) (sec : Int) (nsec : Nat) : List UInt8 × Nat :=
  let c := (clockSeq + 1) % 2^32
  (timeUUIDWith (bits64 (getTimestamp sec nsec)) c hw, c)

/-- `Time()`: (Unix seconds, nanoseconds) of `time.Unix(t/1e7 + timeBase, (t%1e7)*100)`; zero `time.Time`
    (reported as `none`) unless version 1 -/
def time (u : List UInt8) : Option (Int × Nat) :=
  if version u ≠ 1 then none else
    let t := timestamp u
    some ((t / 10000000 : Nat) + timeBase, (t % 10000000) * 100)

/-! ### Spec: RFC 4122 layout and Cassandra's TimeUUIDType order -/

namespace Spec

/-- big-endian value -/
def be : List UInt8 → Nat
  | [] => 0
  | b :: bs => b.toNat * 256 ^ bs.length + be bs

/-- RFC 4122 §4.1.2 fields -/
def timeLow (u : List UInt8) : Nat := be (u.take 4)
def timeMid (u : List UInt8) : Nat := be ((u.drop 4).take 2)
def timeHiAndVersion (u : List UInt8) : Nat := be ((u.drop 6).take 2)
def clockSeqAndReserved (u : List UInt8) : Nat := be ((u.drop 8).take 2)

/-- RFC 4122 60-bit timestamp and version -/
def rfcTimestamp (u : List UInt8) : Nat := timeLow u + timeMid u * 2^32 + (timeHiAndVersion u % 2^12) * 2^48
def rfcVersion (u : List UInt8) : Nat := timeHiAndVersion u / 2^12
/-- RFC variant "10x" -/
def rfcVariantIETF (u : List UInt8) : Prop := clockSeqAndReserved u / 2^14 = 2

def signed (b : UInt8) : Int := if b.toNat < 128 then b.toNat else (b.toNat : Int) - 256

/-- lexicographic ≤ on signed bytes -/
def sLexLe : List UInt8 → List UInt8 → Bool
  | [], _ => true
  | _ :: _, [] => false
  | a :: as, b :: bs => if signed a < signed b then true else if signed b < signed a then false else sLexLe as bs

/-- Cassandra `TimeUUIDType.compare` on version-1 UUIDs: timestamp first, then the low 8 bytes as signed bytes -/
def cassLe (u v : List UInt8) : Bool :=
  if rfcTimestamp u < rfcTimestamp v then true
  else if rfcTimestamp v < rfcTimestamp u then false
  else sLexLe (u.drop 8) (v.drop 8)

/-! A second formulation of the same order: Cassandra 3.x / 4.x `TimeUUIDType.compareCustom`, which works on two
    Java `long`s per value instead of bytes (transliterated as recalled; `C19_cass_java_agree`: equal to `cassLe`
    on version-1 values):

      long msb1 = reorderTimestampBytes(b1.getLong(0)), msb2 = …;
      int c = Long.compare(msb1, msb2);  if (c != 0) return c;
      return Long.compare(signedBytesToNativeLong(b1.getLong(8)), signedBytesToNativeLong(b2.getLong(8)));
      reorderTimestampBytes(x)  = (x << 48) | ((x << 16) & 0xFFFF00000000L) | (x >>> 32)
      signedBytesToNativeLong(x) = x ^ 0x0080808080808080L                                          -/

/-- `ByteBuffer.getLong(off)`: 8 bytes big-endian, as the unsigned 64-bit pattern of the `long` -/
def getLong (u : List UInt8) (off : Nat) : Nat := be ((u.drop off).take 8)

/-- the value of a Java `long` with this 64-bit pattern (two's complement) -/
def toSigned64 (n : Nat) : Int := if n < 2 ^ 63 then (n : Int) else (n : Int) - 2 ^ 64

def reorderTimestampBytes (x : Nat) : Nat :=
  (x <<< 48) % 2 ^ 64 ||| ((x <<< 16) &&& 0xFFFF00000000) ||| (x >>> 32)

def signedBytesToNativeLong (x : Nat) : Nat := x ^^^ 0x0080808080808080

/-- `compareCustom(u, v) <= 0` -/
def javaLe (u v : List UInt8) : Bool :=
  let m1 := toSigned64 (reorderTimestampBytes (getLong u 0))
  let m2 := toSigned64 (reorderTimestampBytes (getLong v 0))
  if m1 < m2 then true else if m2 < m1 then false
  else decide (toSigned64 (signedBytesToNativeLong (getLong u 8)) ≤ toSigned64 (signedBytesToNativeLong (getLong v 8)))

/-- the 36-character / hyphenated language: hex digit value, case-insensitive -/
def isHex (c : Char) : Bool :=
  (48 ≤ c.toNat && c.toNat ≤ 57) || (97 ≤ c.toNat && c.toNat ≤ 102) || (65 ≤ c.toNat && c.toNat ≤ 70)

def digitsOf (s : List Char) : List Char := s.filter (· ≠ '-')

end Spec

/-- values of the hex digits of a string, hyphens dropped -/
def digitVals (s : List Char) : List Nat := (Spec.digitsOf s).filterMap hexVal

end Uuid
