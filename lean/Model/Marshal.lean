/-
C12 / C02 — MODEL side, part 2: the Go value universe, and gocql's `Marshal` / `Unmarshal` dispatch
(/repo/marshal.go:113-286 and the per-type functions), following the code's order of tests: pointer
dereference, type switch, `value == nil`, reflect.Kind fallback — wrap-arounds and other defects included.
Core Lean only.  `unmodelled` marks combinations the model does not describe (string parsers of the Go
standard library, exotic reflect shapes); the harness never generates them.
-/
import Model.MarshalScalar
namespace Marshal
open ValueSpec (Bytes CqlTy beBytes beNat)

/-! ## Go values and Go types -/

inductive GoVal
  | nil                                            -- untyped nil interface
  | unset                                          -- gocql.UnsetValue
  | int (k : IntKind) (named : Bool) (v : Int)
  | str (named : Bool) (s : Bytes)
  | bytes (named : Bool) (isNil : Bool) (b : Bytes) -- []byte, nil or not
  | bool (named : Bool) (b : Bool)
  | f32 (named : Bool) (bits : Nat)
  | f64 (named : Bool) (bits : Nat)
  | big (v : Int)                                  -- big.Int
  | dec (unscaled : Int) (scale : Int)             -- inf.Dec
  | time (sec : Int) (nsec : Int)                  -- time.Time: Unix seconds, nanosecond part
  | dur (ns : Int)                                 -- time.Duration
  | cqldur (m d n : Int)                           -- gocql.Duration
  | uuid (b : Bytes)                               -- gocql.UUID
  | arr16 (b : Bytes)                              -- [16]byte
  | ip (b : Bytes)                                 -- net.IP (raw bytes, any length)
  | ptr (v : GoVal)                                -- non-nil pointer
  | nilptr                                         -- typed nil pointer
  | slice (isNil : Bool) (vs : List GoVal)         -- []T
  | array (vs : List GoVal)                        -- [n]T
  | ifaces (vs : List GoVal)                       -- []interface{}
  | map (isNil : Bool) (kvs : List (GoVal × GoVal))
  | mapset (ks : List GoVal)                       -- map[X]struct{}
  | struct (vs : List GoVal)                       -- struct without cql tags (tuple source / target)
  | udtmap (isNil : Bool) (names : List String) (vs : List GoVal)   -- map[string]interface{}
  | udtstruct (names : List String) (vs : List GoVal)               -- struct with `cql:"name"` tags
deriving Repr, BEq

/- structural equality of Go values, written out: the derived `BEq` above is an OPAQUE constant for a nested inductive
   (nothing can be proved about it).  Declared AFTER the derived instance, this one is what every later `==` on `GoVal`
   elaborates to (unmarshalMap's key comparison `mapInsert`, the derived `BEq` of `MRes` / `URes`); same function, but the
   kernel can unfold it: `Proofs/C02Nested.lean` discharges the distinct-keys hypothesis of the map round trip with it. -/
mutual
def GoVal.beqV : GoVal → GoVal → Bool
  | .nil, .nil => true
  | .unset, .unset => true
  | .int k n v, .int k' n' v' => decide (k = k') && n == n' && decide (v = v')
  | .str n s, .str n' s' => n == n' && s == s'
  | .bytes n i b, .bytes n' i' b' => n == n' && i == i' && b == b'
  | .bool n b, .bool n' b' => n == n' && b == b'
  | .f32 n x, .f32 n' x' => n == n' && x == x'
  | .f64 n x, .f64 n' x' => n == n' && x == x'
  | .big v, .big v' => decide (v = v')
  | .dec u s, .dec u' s' => decide (u = u') && decide (s = s')
  | .time a b, .time a' b' => decide (a = a') && decide (b = b')
  | .dur a, .dur a' => decide (a = a')
  | .cqldur a b c, .cqldur a' b' c' => decide (a = a') && decide (b = b') && decide (c = c')
  | .uuid b, .uuid b' => b == b'
  | .arr16 b, .arr16 b' => b == b'
  | .ip b, .ip b' => b == b'
  | .ptr v, .ptr v' => GoVal.beqV v v'
  | .nilptr, .nilptr => true
  | .slice i vs, .slice i' vs' => i == i' && GoVal.beqVs vs vs'
  | .array vs, .array vs' => GoVal.beqVs vs vs'
  | .ifaces vs, .ifaces vs' => GoVal.beqVs vs vs'
  | .map i kvs, .map i' kvs' => i == i' && GoVal.beqKVs kvs kvs'
  | .mapset ks, .mapset ks' => GoVal.beqVs ks ks'
  | .struct vs, .struct vs' => GoVal.beqVs vs vs'
  | .udtmap i ns vs, .udtmap i' ns' vs' => i == i' && ns == ns' && GoVal.beqVs vs vs'
  | .udtstruct ns vs, .udtstruct ns' vs' => ns == ns' && GoVal.beqVs vs vs'
  | _, _ => false
def GoVal.beqVs : List GoVal → List GoVal → Bool
  | [], [] => true
  | a :: as, b :: bs => GoVal.beqV a b && GoVal.beqVs as bs
  | _, _ => false
def GoVal.beqKVs : List (GoVal × GoVal) → List (GoVal × GoVal) → Bool
  | [], [] => true
  | (a, b) :: r, (a', b') :: r' => GoVal.beqV a a' && GoVal.beqV b b' && GoVal.beqKVs r r'
  | _, _ => false
end

instance : BEq GoVal := ⟨GoVal.beqV⟩

inductive GoTy
  | int (k : IntKind) (named : Bool)
  | str (named : Bool) | bytes (named : Bool) | bool (named : Bool) | f32 (named : Bool) | f64 (named : Bool)
  | big | dec | time | dur | cqldur | uuid | arr16 | ip
  | ptr (t : GoTy)
  | slice (t : GoTy) | array (n : Nat) (t : GoTy) | map (k v : GoTy)
  | iface                                          -- interface{}
  | ifaces (ts : List GoTy)                        -- a []interface{} value holding *T_i (tuple scan target)
  | struct (ts : List GoTy)
  | udtmap
  | udtstruct (names : List String) (ts : List GoTy)
deriving Repr

/- structural equality of Go types, written out (a derived `BEq` of a nested inductive is an opaque definition, about
   which nothing can be proved; the decoders compare a target type with goType(elem)) -/
mutual
def GoTy.beqT : GoTy → GoTy → Bool
  | .int k n, .int k' n' => decide (k = k') && n == n'
  | .str n, .str n' => n == n'
  | .bytes n, .bytes n' => n == n'
  | .bool n, .bool n' => n == n'
  | .f32 n, .f32 n' => n == n'
  | .f64 n, .f64 n' => n == n'
  | .big, .big => true
  | .dec, .dec => true
  | .time, .time => true
  | .dur, .dur => true
  | .cqldur, .cqldur => true
  | .uuid, .uuid => true
  | .arr16, .arr16 => true
  | .ip, .ip => true
  | .ptr a, .ptr b => GoTy.beqT a b
  | .slice a, .slice b => GoTy.beqT a b
  | .array n a, .array m b => n == m && GoTy.beqT a b
  | .map k v, .map k' v' => GoTy.beqT k k' && GoTy.beqT v v'
  | .iface, .iface => true
  | .ifaces as, .ifaces bs => GoTy.beqTs as bs
  | .struct as, .struct bs => GoTy.beqTs as bs
  | .udtmap, .udtmap => true
  | .udtstruct ns as, .udtstruct ms bs => ns == ms && GoTy.beqTs as bs
  | _, _ => false
def GoTy.beqTs : List GoTy → List GoTy → Bool
  | [], [] => true
  | a :: as, b :: bs => GoTy.beqT a b && GoTy.beqTs as bs
  | _, _ => false
end

instance : BEq GoTy := ⟨GoTy.beqT⟩

inductive MRes
  | ok (b : Option Bytes)     -- ([]byte, nil); `none` = nil slice = CQL null
  | err
  | crash                     -- runtime panic
  | unmodelled
deriving Repr, BEq

inductive URes
  | ok (v : GoVal)
  | err
  | crash
  | unmodelled
deriving Repr, BEq

/-- `elem == nil` on an interface value -/
def GoVal.isNil : GoVal → Bool
  | .nil => true
  | _ => false

/-- `field.Kind() == reflect.Ptr && field.IsNil()` -/
def GoVal.isNilPtr : GoVal → Bool
  | .nilptr => true
  | _ => false

def optM (o : Option Bytes) : MRes := match o with | some b => .ok (some b) | none => .err

/-! ## Marshal: scalar columns (no recursion) -/

def intColOf : CqlTy → Option IntCol
  | .tinyint => some .tiny | .smallint => some .small | .int => some .int
  | .bigint => some .big | .counter => some .big | _ => none

def marshalIntColumn (col : IntCol) : GoVal → MRes
  | .unset => .ok none
  | .nil => .ok none
  | .int k named v => optM (marshalIntKind col k named v)
  | .dur ns => optM (marshalIntKind col .int64 true ns)
  | .str false s => optM (marshalIntString col s)
  -- big.Int: only marshalBigInt has the case; `v.IsInt64()` or an error, then the 8 bytes of `v.Int64()`
  | .big v => if col = .big then
      (if ValueSpec.leB (-9223372036854775808) v && ValueSpec.ltB v 9223372036854775808 then .ok (some (encBigInt v)) else .err)
      else .err
  | _ => .err

def marshalVarintColumn : GoVal → MRes
  | .unset => .ok none
  | .nil => .ok none
  | .int k named v => optM (marshalVarintKind k named v)
  | .dur ns => optM (marshalVarintKind .int64 true ns)
  | .str false s => optM (marshalVarintString s)
  | .big v => .ok (some (marshalVarintBig v))
  | _ => .err

def marshalVarcharColumn : GoVal → MRes
  | .unset => .ok none
  | .nil => .ok none
  | .str _ s => .ok (some s)
  | .bytes _ isNil b => if isNil then .ok none else .ok (some b)
  | .ip b => if b = [] then .ok none else .ok (some b)       -- net.IP is a named []byte (reflect path)
  | _ => .err

/-- float32(rv.Float()) on a named float32 goes through float64: a signalling NaN comes back quiet -/
def quiet32 (x : Nat) : Nat := if (x / 2^23) % 256 = 255 ∧ x % 2^23 ≠ 0 then x ||| 0x400000 else x

/-- marshal.go encDate (repair of KF-C12-5): the day that contains the timestamp, + 2^31, in 4 bytes; a day number that
    does not fit the 4 bytes of a date is an error (`x < 0 || x > math.MaxUint32`) -/
def marshalDateMillis (ts : Int) : MRes :=
  if ValueSpec.fitsU 4 (daysSinceEpoch ts + 2147483648) then .ok (some (encDateMillis ts)) else .err

def marshalScalar (t : CqlTy) (g : GoVal) : MRes :=
  match t with
  | .ascii | .text | .varchar | .blob => marshalVarcharColumn g
  | .boolean => (match g with
      | .unset | .nil => .ok none
      | .bool _ b => .ok (some (encBool b))
      | _ => .err)
  | .tinyint => marshalIntColumn .tiny g
  | .smallint => marshalIntColumn .small g
  | .int => marshalIntColumn .int g
  | .bigint | .counter => marshalIntColumn .big g
  | .varint => marshalVarintColumn g
  | .float => (match g with
      | .unset | .nil => .ok none
      | .f32 named x => .ok (some (encInt (toS 32 (if named then quiet32 x else x))))
      | _ => .err)
  | .double => (match g with
      | .unset | .nil => .ok none
      | .f64 _ x => .ok (some (encBigInt (toS 64 x)))
      | _ => .err)
  | .decimal => (match g with
      | .unset | .nil => .ok none
      | .dec u s => .ok (some (encInt (toS 32 s) ++ encBigInt2C u))
      | _ => .err)
  | .time => (match g with
      | .unset | .nil => .ok none
      | .int .int64 _ v => .ok (some (encBigInt v))
      | .dur ns => .ok (some (encBigInt ns))
      | _ => .err)
  | .timestamp => (match g with
      | .unset | .nil => .ok none
      | .int .int64 _ v => .ok (some (encBigInt v))
      | .dur ns => .ok (some (encBigInt ns))
      | .time sec nsec => if timeIsZero sec nsec then .ok (some []) else .ok (some (encBigInt (timeMillis sec nsec)))
      | _ => .err)
  | .date => (match g with
      | .unset | .nil => .ok none
      | .int .int64 false v => marshalDateMillis v
      | .time sec nsec => if timeIsZero sec nsec then .ok (some []) else marshalDateMillis (timeMillis sec nsec)
      | .str false s => if s = [] then .ok (some []) else .unmodelled
      | _ => .err)
  | .duration => (match g with
      | .unset | .nil => .ok none
      | .int .int64 false v => .ok (some (encVints 0 0 v))
      | .dur ns => .ok (some (encVints 0 0 ns))
      | .cqldur m d n => .ok (some (encVints m d n))
      | .str false s => if s = [] then .err else .unmodelled
      | .int .int64 true v => .ok (some (encVints 0 0 v))        -- reflect.Int64 fallback: vints as well
      | _ => .err)
  | .uuid | .timeuuid => (match g with
      | .unset | .nil => .ok none
      | .uuid b => .ok (some b)
      | .arr16 b => .ok (some b)
      | .bytes false _ b => if b.length = 16 then .ok (some b) else .err
      | .str false s => optM (parseUUID s)
      | _ => .err)
  | .inet => (match g with
      | .unset | .nil => .ok none
      | .ip b => (match ipTo4 b with
          | some v4 => .ok (some v4)
          -- repair of KF-C12-10: a nil / empty net.IP is null, any other length than 4 / 16 is an error
          | none => if b = [] then .ok none else optM (ipTo16 b))
      | .str false s => if s = [] then .err else .unmodelled
      | _ => .err)
  | _ => .unmodelled

def CqlTy.isScalar : CqlTy → Bool
  | .list _ | .set _ | .map _ _ | .tuple _ | .udt _ _ => false
  | _ => true

/-! ## Marshal: framing helpers -/

/-- writeCollectionSize(info, n, buf): `none` = "collection too large" -/
def collSize (p : Nat) (n : Int) : Option Bytes :=
  if p > 2 then (if n > 2147483647 then none else some (encInt (toS 32 n)))
  else (if n > 65535 then none else some (encShort (toS 16 n)))

/-- one element of a list / set / map as marshalList writes it: length (−1 for nil from v3, 0 before) + bytes -/
def collItem (p : Nat) (item : Option Bytes) : Option Bytes :=
  match item with
  | none => (collSize p (if p > 2 then -1 else 0))
  | some b => (collSize p b.length).map (· ++ b)

/-- frame.go appendBytes: −1 for nil (marshalTuple and marshalUDT write every field with it) -/
def appendBytes (item : Option Bytes) : Bytes :=
  match item with
  | none => encInt (-1)
  | some b => encInt (toS 32 b.length) ++ b

def lookupIdx (name : String) : List String → Nat → Option Nat
  | [], _ => none
  | n :: r, i => if n = name then some i else lookupIdx name r (i+1)

/-- combine a list of element results written with `f` -/
def seqItems (f : Option Bytes → Option Bytes) : List MRes → MRes
  | [] => .ok (some [])
  | r :: rs => match r with
    | .ok item => (match f item with
        | none => .err
        | some e => (match seqItems f rs with
            | .ok (some rest) => .ok (some (e ++ rest))
            | .ok none => .ok (some e)
            | other => other))
    | .err => .err
    | .crash => .crash
    | .unmodelled => .unmodelled

/-- marshalUDT: for each UDT field in order, the entry of that name (absent → −1), appendBytes -/
def udtAssemble (names : List String) (encs : List MRes) (fnames : List String) : MRes :=
  if names = [] then .ok none else
  seqItems (fun item => some (appendBytes item))
    (names.map (fun n => match lookupIdx n fnames 0 with
      | some i => (match encs[i]? with | some r => r | none => .ok none)
      | none => .ok none))

/-- count, then the elements -/
def wrapSeq (p : Nat) (n : Nat) (body : MRes) : MRes :=
  match collSize p n with
  | none => .err
  | some c => (match body with
      | .ok (some b) => .ok (some (c ++ b))
      | other => other)

/-- a tuple without fields is the nil buffer -/
def wrapTuple (ts : List CqlTy) (body : MRes) : MRes := if ts = [] then .ok none else body

/-! ## Marshal -/

mutual
/-- gocql.Marshal(info, value) -/
def marshal (p : Nat) (t : CqlTy) : GoVal → MRes
  | .nilptr => .ok none
  | .ptr v => marshal p t v
  | g => match t with
    | .list et | .set et => (match g with
        | .nil | .unset => .ok none
        | .slice isNil vs => if isNil then .ok none else wrapSeq p vs.length (marshalElems p et vs)
        | .array vs => wrapSeq p vs.length (marshalElems p et vs)
        | .ifaces vs => wrapSeq p vs.length (marshalElems p et vs)
        | .mapset ks => wrapSeq p ks.length (marshalElems p et ks)
        | .bytes _ _ _ | .ip _ | .uuid _ | .arr16 _ => .unmodelled
        | _ => .err)
    | .map kt vt => (match g with
        | .nil | .unset => .ok none
        | .map isNil kvs =>
          if isNil then .ok none else
          wrapSeq p kvs.length (marshalPairs p kt vt kvs)
        | .mapset ks => if ks = [] then .unmodelled else .unmodelled
        | .udtmap _ _ _ => .unmodelled
        | _ => .err)
    | .tuple ts => (match g with
        | .unset => .err
        | .nil => .ok none                    -- `if value == nil { return nil, nil }`
        | .ifaces vs => if vs.length ≠ ts.length then .err else wrapTuple ts (marshalTupleIfaces p ts vs)
        | .struct vs => if vs.length ≠ ts.length then .err else wrapTuple ts (marshalTupleFields p ts vs)
        | .udtstruct _ vs => if vs.length ≠ ts.length then .err else wrapTuple ts (marshalTupleFields p ts vs)
        | .slice _ vs => if vs.length ≠ ts.length then .err else wrapTuple ts (marshalTupleFields p ts vs)
        | .array vs => if vs.length ≠ ts.length then .err else wrapTuple ts (marshalTupleFields p ts vs)
        | .bytes _ _ _ | .ip _ | .uuid _ | .arr16 _ => .unmodelled
        | _ => .err)
    | .udt names ts => (match g with
        | .unset => .err
        | .nil => .err
        | .udtmap _ fnames vs => udtAssemble names (marshalNamed p names ts fnames vs) fnames
        | .udtstruct fnames vs => udtAssemble names (marshalNamed p names ts fnames vs) fnames
        -- a struct without matching cql tags / field names: every UDT field is absent
        | .struct _ | .time _ _ | .big _ | .dec _ _ | .cqldur _ _ _ =>
          .ok (if names = [] then none else some ((names.map (fun _ => appendBytes none)).flatten))
        | _ => .err)
    | _ => marshalScalar t g

/-- every element: `Marshal(elem, rv.Index(i).Interface())` framed by writeCollectionSize -/
def marshalElems (p : Nat) (et : CqlTy) : List GoVal → MRes
  | [] => .ok (some [])
  | v :: vs => (match marshal p et v with
      | .ok item => (match collItem p item with
          | none => .err
          | some e => (match marshalElems p et vs with
              | .ok (some rest) => .ok (some (e ++ rest))
              | other => other))
      | other => other)

def marshalPairs (p : Nat) (kt vt : CqlTy) : List (GoVal × GoVal) → MRes
  | [] => .ok (some [])
  | (k, v) :: r => (match marshal p kt k with
      | .ok ki => (match collItem p ki with
          | none => .err
          | some ke => (match marshal p vt v with
              | .ok vi => (match collItem p vi with
                  | none => .err
                  | some ve => (match marshalPairs p kt vt r with
                      | .ok (some rest) => .ok (some (ke ++ ve ++ rest))
                      | other => other))
              | other => other))
      | other => other)

/-- marshalTuple, `case []interface{}`: an untyped nil element (`elem == nil`) is written as −1 without calling
    Marshal; every other element is marshalled and written with appendBytes (−1 for a nil encoding) -/
def marshalTupleIfaces (p : Nat) : List CqlTy → List GoVal → MRes
  | t :: ts, v :: vs =>
    (match (if v.isNil then MRes.ok none else marshal p t v) with
     | .ok item => (match marshalTupleIfaces p ts vs with
         | .ok (some rest) => .ok (some (appendBytes item ++ rest))
         | other => other)
     | other => other)
  | _, _ => .ok (some [])

/-- marshalTuple, struct / slice / array: a nil pointer field is written as −1 without calling Marshal; every
    other field is marshalled and written with appendBytes (−1 for a nil encoding) -/
def marshalTupleFields (p : Nat) : List CqlTy → List GoVal → MRes
  | t :: ts, v :: vs =>
    (match (if v.isNilPtr then MRes.ok none else marshal p t v) with
     | .ok item => (match marshalTupleFields p ts vs with
         | .ok (some rest) => .ok (some (appendBytes item ++ rest))
         | other => other)
     | other => other)
  | _, _ => .ok (some [])

/-- every named Go field / map entry marshalled with the type of the UDT field of the same name
    (entries without a UDT field are never marshalled) -/
def marshalNamed (p : Nat) (names : List String) (ts : List CqlTy) : List String → List GoVal → List MRes
  | fname :: fnames, v :: vs =>
    (match lookupIdx fname names 0 with
     | some i => (match ts[i]? with
         | some t => marshal p t v
         | none => .ok none)
     | none => .ok none) :: marshalNamed p names ts fnames vs
  | _, _ => []
end

end Marshal
