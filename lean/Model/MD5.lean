/-
  MD5 (RFC 1321) as an executable specification, core Lean only: the digest that Cassandra's RandomPartitioner
  (`FBUtilities.hashToBigInteger`: `MessageDigest.getInstance("MD5")`) and token.go `randomPartitioner.Hash`
  (`crypto/md5.Sum`) take of the partition key. Words are `Nat`s below 2^32 (the kernel evaluates them with GMP,
  so the RFC's test vectors are checked by `decide`). Tied to crypto/md5 by the differential op `randomk`.
-/
namespace MD5

def add32 (a b : Nat) : Nat := (a + b) % 4294967296
def not32 (a : Nat) : Nat := a ^^^ 4294967295
/-- rotate left by `c` (1 ≤ c ≤ 31) -/
def rotl32 (x c : Nat) : Nat := ((x <<< c) % 4294967296) ||| (x >>> (32 - c))

/-- per-round shift amounts -/
def shifts : List Nat :=
  [7, 12, 17, 22, 7, 12, 17, 22, 7, 12, 17, 22, 7, 12, 17, 22,
   5, 9, 14, 20, 5, 9, 14, 20, 5, 9, 14, 20, 5, 9, 14, 20,
   4, 11, 16, 23, 4, 11, 16, 23, 4, 11, 16, 23, 4, 11, 16, 23,
   6, 10, 15, 21, 6, 10, 15, 21, 6, 10, 15, 21, 6, 10, 15, 21]

/-- `K[i] = floor(2^32 * |sin(i + 1)|)` -/
def K : List Nat :=
  [0xd76aa478, 0xe8c7b756, 0x242070db, 0xc1bdceee, 0xf57c0faf, 0x4787c62a, 0xa8304613, 0xfd469501,
   0x698098d8, 0x8b44f7af, 0xffff5bb1, 0x895cd7be, 0x6b901122, 0xfd987193, 0xa679438e, 0x49b40821,
   0xf61e2562, 0xc040b340, 0x265e5a51, 0xe9b6c7aa, 0xd62f105d, 0x02441453, 0xd8a1e681, 0xe7d3fbc8,
   0x21e1cde6, 0xc33707d6, 0xf4d50d87, 0x455a14ed, 0xa9e3e905, 0xfcefa3f8, 0x676f02d9, 0x8d2a4c8a,
   0xfffa3942, 0x8771f681, 0x6d9d6122, 0xfde5380c, 0xa4beea44, 0x4bdecfa9, 0xf6bb4b60, 0xbebfbc70,
   0x289b7ec6, 0xeaa127fa, 0xd4ef3085, 0x04881d05, 0xd9d4d039, 0xe6db99e5, 0x1fa27cf8, 0xc4ac5665,
   0xf4292244, 0x432aff97, 0xab9423a7, 0xfc93a039, 0x655b59c3, 0x8f0ccc92, 0xffeff47d, 0x85845dd1,
   0x6fa87e4f, 0xfe2ce6e0, 0xa3014314, 0x4e0811a1, 0xf7537e82, 0xbd3af235, 0x2ad7d2bb, 0xeb86d391]

def le32 : List UInt8 → Nat
  | [] => 0
  | b :: bs => b.toNat + 256 * le32 bs

/-- the sixteen little-endian words of a 64-byte chunk -/
def words : Nat → List UInt8 → List Nat
  | 0, _ => []
  | n+1, bs => le32 (bs.take 4) :: words n (bs.drop 4)

structure St where
  a : Nat
  b : Nat
  c : Nat
  d : Nat
  deriving DecidableEq

def init : St := ⟨0x67452301, 0xefcdab89, 0x98badcfe, 0x10325476⟩

/-- operation `i` (0 … 63) of the main loop -/
def op (m : List Nat) (s : St) (i : Nat) : St :=
  let fg : Nat × Nat :=
    if i < 16 then ((s.b &&& s.c) ||| (not32 s.b &&& s.d), i)
    else if i < 32 then ((s.d &&& s.b) ||| (not32 s.d &&& s.c), (5 * i + 1) % 16)
    else if i < 48 then (s.b ^^^ s.c ^^^ s.d, (3 * i + 5) % 16)
    else (s.c ^^^ (s.b ||| not32 s.d), (7 * i) % 16)
  let f := add32 (add32 (add32 fg.1 s.a) (K.getD i 0)) (m.getD fg.2 0)
  ⟨s.d, add32 s.b (rotl32 f (shifts.getD i 0)), s.b, s.c⟩

def chunk (s : St) (bs : List UInt8) : St :=
  let r := (List.range 64).foldl (op (words 16 bs)) s
  ⟨add32 s.a r.a, add32 s.b r.b, add32 s.c r.c, add32 s.d r.d⟩

/-- the message followed by 0x80, zeros up to 56 modulo 64, and the bit length as 8 little-endian bytes -/
def lenBytes : Nat → Nat → List UInt8
  | 0, _ => []
  | n+1, v => UInt8.ofNat (v % 256) :: lenBytes n (v / 256)

def pad (msg : List UInt8) : List UInt8 :=
  msg ++ [0x80] ++ List.replicate ((119 - msg.length % 64) % 64) 0 ++ lenBytes 8 (msg.length * 8 % 18446744073709551616)

def chunks : Nat → St → List UInt8 → St
  | 0, s, _ => s
  | n+1, s, bs => if bs.length < 64 then s else chunks n (chunk s (bs.take 64)) (bs.drop 64)

def out32 (w : Nat) : List UInt8 := lenBytes 4 w

def sum (msg : List UInt8) : List UInt8 :=
  let p := pad msg
  let s := chunks (p.length / 64 + 1) init p
  out32 s.a ++ out32 s.b ++ out32 s.c ++ out32 s.d

end MD5
