/-
  Model of /repo/control.go controlConn's life cycle against Session.Close (C17: "Close returns … while … control-
  connection reconnects are in progress … after which the driver's background goroutines exit"):

    heartBeat():  if !CAS(state, Starting, Started) { return }
                  for { timer.Reset(sleepTime); select { case <-c.quit: return; case <-timer.C: }
                        resp, err := c.writeFrame(OPTIONS); ok → continue; else c.reconnect(); continue }
    reconnect():  if state == Closing { return }; if !CAS(reconnecting, 0, 1) { return }; defer reconnecting = 0
                  attemptReconnect (dial / handshake / system.local / REGISTER on the ring's hosts, then on the contact
                  points: a finite number of round trips, each bounded by ConnectTimeout / Timeout); on success refreshRing
    HandleError / withConnHost (other goroutines): c.reconnect()
    close():      if Swap(state, Closing) == Started { c.quit <- struct{}{} }   -- UNBUFFERED: waits for the heartbeat goroutine
                  (before the repair of KF-C17-4: `if CAS(state, Started, Closing)` - a heartbeat goroutine scheduled after
                   close() still found Starting and ran for good)
                  close the current control connection
    Session.Close: isClosing guard (one caller gets through); pool.Close(); control.close(); debouncers' stop(); cancel()

  One closer (Session.Close's guard), one heartbeat goroutine (`go c.heartBeat()` at the end of controlConn.connect), any
  number of other reconnect() callers of which the `reconnecting` flag admits one at a time.
-/
namespace Ctl

inductive CState where
  | starting | started | closing
deriving DecidableEq, Repr

/-- the heartbeat goroutine -/
inductive HbPc where
  | notStarted   -- `go c.heartBeat()` was executed, the goroutine has not run its first instruction yet
  | select       -- in (or on its way back to) `select { case <-c.quit; case <-timer.C }`
  | beat         -- timer fired: OPTIONS written on the control connection, waiting for the answer
  | inReconn     -- inside c.reconnect() as the owner of the `reconnecting` flag
  | exited
deriving DecidableEq, Repr

/-- the goroutine inside Session.Close → controlConn.close() -/
inductive ClPc where
  | idle         -- close() not called yet
  | sending      -- won CAS(Started → Closing), blocked in `c.quit <- struct{}{}`
  | closeConn    -- past the quit handshake (or it was skipped): closes the current control connection
  | done
deriving DecidableEq, Repr

/-- who is inside reconnect() past `CAS(reconnecting, 0, 1)`, and how many round trips of its attempt are left -/
inductive Rc where
  | free
  | hb (k : Nat)
  | other (k : Nat)
deriving DecidableEq, Repr

structure St where
  state : CState
  hb : HbPc
  cl : ClPc
  rc : Rc
deriving DecidableEq, Repr

inductive Act where
  | hbStart            -- heartBeat(): CAS(Starting → Started), else return
  | hbTimer            -- select: timer.C (not taken when a quit sender is already waiting: the timer was just reset to ≥ 1 s)
  | hbQuit             -- select: <-c.quit (needs the closer blocked in its send)
  | hbBeatOk           -- SUPPORTED came back
  | hbBeatFail (k : Nat)  -- error / ERROR / unknown frame: c.reconnect() (k = round trips of the attempt, chosen by the environment)
  | rcStep             -- one round trip of the running reconnect attempt is over
  | rcDone             -- the attempt is over (success incl. refreshRing, or every host failed): reconnecting = 0
  | otherEnter (k : Nat)  -- HandleError / withConnHost on another goroutine calls c.reconnect()
  | close              -- controlConn.close(): the swap
  | closeConn          -- … closes the current control connection and returns
deriving DecidableEq, Repr

def init : St := { state := .starting, hb := .notStarted, cl := .idle, rc := .free }

/-- `retAfterReconn` = the heartbeat goroutine returns when it comes out of reconnect() and sees state == Closing
    (seeded change C17-7; NOT the code that exists);
    `swapClose` = close() stores Closing whatever the state was (`atomic.SwapInt32(&c.state, Closing) == Started`): the
    code that exists since the repair of KF-C17-4; `false` = the old `CAS(Started → Closing)` (regression theorem only) -/
def stepG (retAfterReconn swapClose : Bool) (s : St) : Act → Option St
  | .hbStart =>
      if s.hb = .notStarted then
        (if s.state = .starting then some { s with state := .started, hb := .select } else some { s with hb := .exited })
      else none
  | .hbTimer => if s.hb = .select ∧ s.cl ≠ .sending then some { s with hb := .beat } else none
  | .hbQuit => if s.hb = .select ∧ s.cl = .sending then some { s with hb := .exited, cl := .closeConn } else none
  | .hbBeatOk => if s.hb = .beat then some { s with hb := .select } else none
  | .hbBeatFail k =>
      if s.hb = .beat then
        (if s.state = .closing ∨ s.rc ≠ .free then some { s with hb := .select }   -- reconnect() returns at once
         else some { s with hb := .inReconn, rc := .hb k })
      else none
  | .rcStep =>
      match s.rc with
      | .hb (k + 1) => some { s with rc := .hb k }
      | .other (k + 1) => some { s with rc := .other k }
      | _ => none
  | .rcDone =>
      match s.rc with
      | .hb 0 =>
          if retAfterReconn ∧ s.state = .closing then some { s with rc := .free, hb := .exited }
          else some { s with rc := .free, hb := .select }
      | .other 0 => some { s with rc := .free }
      | _ => none
  | .otherEnter k =>
      if s.state = .closing ∨ s.rc ≠ .free then some s else some { s with rc := .other k }
  | .close =>
      if s.cl = .idle then
        (if s.state = .started then some { s with state := .closing, cl := .sending }
         else if swapClose then some { s with state := .closing, cl := .closeConn }
         else some { s with cl := .closeConn })
      else none
  | .closeConn => if s.cl = .closeConn then some { s with cl := .done } else none

/-- the code that exists (since the repair of KF-C17-4, props/C17.fix-KF-C17-4.diff: close() swaps the state) -/
def step (s : St) (a : Act) : Option St := stepG false true s a

def runG (b c : Bool) : St → List Act → Option St
  | s, [] => some s
  | s, a :: as => match stepG b c s a with
    | some s' => runG b c s' as
    | none => none

def run (s : St) (as : List Act) : Option St := runG false true s as

/-- steps of the heartbeat goroutine (incl. the reconnect attempt it owns) -/
def hbAct (s : St) : Act → Bool
  | .hbStart | .hbTimer | .hbQuit | .hbBeatOk | .hbBeatFail _ => true
  | .rcStep | .rcDone => match s.rc with | .hb _ => true | _ => false
  | _ => false

/-- how many steps of the heartbeat goroutine a blocked closer waits for at most -/
def mu (s : St) : Nat :=
  match s.hb with
  | .notStarted => 0
  | .select => 1
  | .beat => 2
  | .inReconn => (match s.rc with | .hb k => k + 3 | _ => 3)
  | .exited => 0

end Ctl

/-
  The retry loop of /repo/connectionpool.go hostConnPool.connect():

    var conn *Conn
    for i := 0; i < reconnectionPolicy.GetMaxRetries(); i++ {
        conn, err = pool.session.connect(ctx, pool.host, pool)
        if err == nil { break }
        if opErr, isOpErr := err.(*net.OpError); isOpErr && !opErr.Temporary() { break }
        time.Sleep(reconnectionPolicy.GetInterval(i))
    }
    if err != nil { return err }
    [USE keyspace on conn]; lock; if closed { unlock; conn.Close() } else { conns = append(conns, conn); unlock }
-/
namespace Retry

/-- what one attempt does: connects / fails with an error that is retried / fails with a *net.OpError that is not Temporary() -/
inductive Dial where
  | ok | temp | perm
deriving DecidableEq, Repr

inductive Res where
  | conn (attempt : Nat)   -- the connection of that attempt goes on to USE / append
  | err
  | nilNoErr               -- the loop body never ran: conn == nil AND err == nil
deriving DecidableEq, Repr

/-- (result, attempts made); `f i` = fate of attempt i -/
def go (f : Nat → Dial) : Nat → Nat → Bool → Res × Nat
  | 0, i, failed => (if failed then .err else .nilNoErr, i)
  | n + 1, i, _ =>
    match f i with
    | .ok => (.conn i, i + 1)
    | .perm => (.err, i + 1)
    | .temp => go f n (i + 1) true

def connect (maxRetries : Nat) (f : Nat → Dial) : Res × Nat := go f maxRetries 0 false

/-- entries appended to an open pool, and how many of them are nil -/
def appended : Res → Nat × Nat
  | .conn _ => (1, 0)
  | .err => (0, 0)
  | .nilNoErr => (1, 1)

end Retry

/-
  The stop protocol of /repo/events.go eventDebouncer (node and schema events) at the flusher's program points:

    flusher():  for { select { case <-e.timer.C: e.mu.Lock(); e.flush(); e.mu.Unlock()
                               case <-e.quit:    return } }
    flush():    if len(events) > 0 { go callback(events); events = fresh buffer }          (mu held)
    debounce(): e.mu.Lock(); timer.Reset(1s); append; e.mu.Unlock()
    stop():     e.quit <- struct{}{} (UNBUFFERED: waits for the flusher's select); close(e.quit)        — holds NO lock

  `holdMu` = stop() takes e.mu first and keeps it across the send (seeded change C17-10; NOT the code that exists).
  `H` = somebody else inside e.mu (a debounce() that is slow in its critical section; the harness).
-/
namespace EvStop

inductive Holder where
  | none | H | F | S
deriving DecidableEq, Repr

inductive FPc where
  | select      -- in the select
  | wantLock    -- chose the timer case, about to e.mu.Lock()
  | flushing    -- holds e.mu
  | exited
deriving DecidableEq, Repr

inductive SPc where
  | idle
  | wantLock    -- (holdMu variant only) stop() waits for e.mu
  | sending     -- blocked in `e.quit <- struct{}{}`
  | closing     -- handshake done: close(e.quit) (holdMu variant: then releases e.mu)
  | done
deriving DecidableEq, Repr

structure St where
  mu : Holder
  armed : Bool       -- the debounce timer is running
  fired : Bool       -- timer.C holds a value
  events : Nat
  f : FPc
  s : SPc
  callbacks : Nat    -- callback goroutines started
deriving DecidableEq, Repr

inductive Act where
  | deb          -- a debounce() call gets e.mu: timer.Reset, append, unlock
  | fire         -- the debounce time passes
  | hlock | hunlock
  | fTimer | fLock | fFlush | fQuit
  | stop | sLock | stopDone
deriving DecidableEq, Repr

def init : St := { mu := .none, armed := false, fired := false, events := 0, f := .select, s := .idle, callbacks := 0 }

def stepG (holdMu : Bool) (x : St) : Act → Option St
  | .deb => if x.mu = .none then some { x with armed := true, events := x.events + 1 } else none
  | .fire => if x.armed then some { x with armed := false, fired := true } else none
  | .hlock => if x.mu = .none then some { x with mu := .H } else none
  | .hunlock => if x.mu = .H then some { x with mu := .none } else none
  | .fTimer => if x.f = .select ∧ x.fired then some { x with f := .wantLock, fired := false } else none
  | .fLock => if x.f = .wantLock ∧ x.mu = .none then some { x with f := .flushing, mu := .F } else none
  | .fFlush =>
      if x.f = .flushing then
        some { x with f := .select, mu := .none, events := 0, callbacks := if x.events > 0 then x.callbacks + 1 else x.callbacks }
      else none
  | .fQuit => if x.f = .select ∧ x.s = .sending then some { x with f := .exited, s := .closing } else none
  | .stop =>
      if x.s = .idle then (if holdMu then some { x with s := .wantLock } else some { x with s := .sending }) else none
  | .sLock => if x.s = .wantLock ∧ x.mu = .none then some { x with s := .sending, mu := .S } else none
  | .stopDone =>
      if x.s = .closing then some { x with s := .done, mu := if x.mu = .S then .none else x.mu } else none

def step (x : St) (a : Act) : Option St := stepG false x a

def runG (b : Bool) : St → List Act → Option St
  | x, [] => some x
  | x, a :: as => match stepG b x a with
    | some x' => runG b x' as
    | none => none

def run (x : St) (as : List Act) : Option St := runG false x as

/-- steps of the flusher goroutine -/
def fAct : Act → Bool
  | .fTimer | .fLock | .fFlush | .fQuit => true
  | _ => false

/-- flusher steps a blocked stop() waits for at most (a timer value still in the channel may cost one more round) -/
def mu (x : St) : Nat :=
  (if x.fired then 3 else 0) +
  (match x.f with | .select => 1 | .wantLock => 3 | .flushing => 2 | .exited => 0)

end EvStop
