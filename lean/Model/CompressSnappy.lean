import Model.Compress
/-
  The snappy BLOCK FORMAT as a second concrete codec (C18): what gocql's `SnappyCompressor.Decode`
  (compressor.go: `snappy.Decode(nil, data)`) accepts and what it gives back, written from the format
  description (golang/snappy decode.go `decodedLen` + decode_other.go `decode`, 64-bit words):

      block   = uvarint(decoded length) ‖ element*
      element = literal  (tag & 3 = 0): length-1 in the tag's upper 6 bits (< 60) or in the 1..4
                                        little-endian bytes that follow (60..63); then the bytes
              | copy1    (tag & 3 = 1): length 4 + (tag>>2 & 7), offset (tag & 0xe0)<<3 | next byte
              | copy2    (tag & 3 = 2): length 1 + tag>>2, offset = next 2 bytes little-endian
              | copy4    (tag & 3 = 3): length 1 + tag>>2, offset = next 4 bytes little-endian
      a copy repeats `length` bytes starting `offset` bytes back in the OUTPUT, byte by byte (so it may
      overlap what it writes); an element that runs past the input, past the declared length, or whose
      offset is 0 or reaches before the start, and an output that ends SHORT of the declared length are
      `ErrCorrupt`.

  Unlike the lz4 wrapper (lz4/lz4.go never compares the decoded length with its 4-byte prefix), the
  declared length IS checked here — `C18_snappy_length_checked`.

  `snappyLit` is the simplest encoder of the format (literals of at most 60 bytes): it is the
  witness that the format's decoder satisfies the transparency hypothesis for EVERY body below 2³²
  bytes (`C18_snappy_format_roundtrip`), i.e. that `Codec.RoundTrips`/`Codec.Total` are not vacuous
  assumptions. The encoder of golang/snappy (hash-table matcher) is not modelled: its OUTPUT is decoded
  by this decoder on every run (ops `snaprt`, `snapdec`).
-/
namespace Compress

/-- Go `binary.Uvarint` (at most 10 bytes; the 10th may only be 0 or 1): value and the rest -/
def uvarintGo (i m x : Nat) : Bytes → Option (Nat × Bytes)
  | [] => none
  | b :: rest =>
    if i = 10 then none
    else if b.toNat < 128 then
      (if i = 9 ∧ b.toNat > 1 then none else some (x + b.toNat * m, rest))
    else uvarintGo (i + 1) (m * 128) (x + (b.toNat - 128) * m) rest

def uvarint (src : Bytes) : Option (Nat × Bytes) := uvarintGo 0 1 0 src

/-- golang/snappy `decodedLen` on a 64-bit machine -/
def snappyDecodedLen (src : Bytes) : Option (Nat × Bytes) :=
  match uvarint src with
  | none => none
  | some (v, rest) => if v > 0xffffffff then none else some (v, rest)

/-- little-endian value of a few bytes -/
def leNat : Bytes → Nat
  | [] => 0
  | b :: r => b.toNat + 256 * leNat r

/-- forward byte-by-byte copy inside the output (`a[i] = b[i]`, overlapping allowed) -/
def copyFwd (offset : Nat) : Nat → Array UInt8 → Array UInt8
  | 0, out => out
  | k + 1, out => copyFwd offset k (out.push out[out.size - offset]!)

/-- one element of golang/snappy `decode(dst, src)` with `len(dst) = n`, `out` = `dst[:d]`, `tag :: rest`
    = `src[s:]`: the rest of the input and the output after it, `none` = ErrCorrupt -/
def snapElem (tag : UInt8) (rest : Bytes) (n : Nat) (out : Array UInt8) : Option (Bytes × Array UInt8) :=
  let kind := tag &&& 3
  let hi := (tag >>> 2).toNat
  if kind = 0 then
    -- literal
    let k := if hi < 60 then 0 else hi - 59
    if rest.length < k then none
    else
      let x := if hi < 60 then hi else leNat (rest.take k)
      let rest' := rest.drop k
      let length := x + 1
      if length > n - out.size ∨ length > rest'.length then none
      else some (rest'.drop length, out ++ (rest'.take length).toArray)
  else
    let k := if kind = 1 then 1 else if kind = 2 then 2 else 4
    if rest.length < k then none
    else
      let length := if kind = 1 then 4 + hi % 8 else 1 + hi
      let offset := if kind = 1 then (tag &&& 0xe0).toNat * 8 + leNat (rest.take 1) else leNat (rest.take k)
      if offset = 0 ∨ out.size < offset ∨ length > n - out.size then none
      else some (rest.drop k, copyFwd offset length out)

/-- the element loop (`for s < len(src)`), then `d != len(dst)` → ErrCorrupt.
    Fuel: every element consumes at least its tag byte. -/
def snapLoop : Nat → Bytes → Nat → Array UInt8 → Except Unit (Array UInt8)
  | 0, _, _, _ => .error ()
  | _ + 1, [], n, out => if out.size = n then .ok out else .error ()
  | f + 1, tag :: rest, n, out =>
    match snapElem tag rest n out with
    | none => .error ()
    | some (r, o) => snapLoop f r n o

/-- `snappy.Decode(nil, src)` — gocql `SnappyCompressor.Decode` -/
def snappyDecode (src : Bytes) : Except Unit Bytes :=
  match snappyDecodedLen src with
  | none => .error ()
  | some (n, rest) =>
    match snapLoop (rest.length + 1) rest n #[] with
    | .error e => .error e
    | .ok out => .ok out.toList

/-! ### the simplest encoder of the format -/

/-- Go `binary.PutUvarint`, at most fuel+1 bytes (exact for `n < 128^(fuel+1)`) -/
def putUvarint : Nat → Nat → Bytes
  | 0, n => [UInt8.ofNat n]
  | f + 1, n => if n < 128 then [UInt8.ofNat n] else UInt8.ofNat (n % 128 + 128) :: putUvarint f (n / 128)

/-- literals of at most 60 bytes, one tag byte each -/
def litChunks : Nat → Bytes → Bytes
  | 0, _ => []
  | f + 1, x =>
    if x = [] then []
    else UInt8.ofNat (((x.take 60).length - 1) * 4) :: (x.take 60 ++ litChunks f (x.drop 60))

/-- the length as a 5-byte-at-most uvarint (enough below 2³⁵), then the literals -/
def snappyLit (x : Bytes) : Bytes := putUvarint 4 x.length ++ litChunks x.length x

/-- the snappy block format as a gocql Compressor: literal-only Encode (refuses what the format cannot
    declare), the format's Decode -/
def snappyRef : Codec :=
  { enc := fun x => if x.length ≤ 0xffffffff then .ok (snappyLit x) else .error (),
    dec := snappyDecode }

end Compress
