import Model.FrameCrash
/-
Outcome model of row iteration over a RESULT/ROWS frame body (property C05): session.go
`Iter.Scan` → `readColumn` (= framer.readBytesInternal) → `scanColumn` → `Unmarshal`, for
destinations that accept every value (the harness passes `Unmarshaler`s that record the bytes, so the
value decoders themselves — Model/CrashValue.lean — are out of the picture here, except
unmarshalTuple's own field splitting which runs before the element destinations are reached).

Iter.Scan has NO recover: any panic raised below it escapes into the application goroutine that called
Scan. The model describes the code AFTER the repairs of KF-C05-10 (readBytesInternal returns an error
when fewer than 4 bytes are left instead of letting framer.readInt `panic(error)`), KF-C05-11 (scanColumn
returns an error when no destination is left, `len(dest) == 0`) and KF-C05-12 (marshal.go readBytes
returns an error when the field length exceeds the cell).
-/
namespace RowsCrash
open FrameCrash

inductive RSite
  | destSlice      -- scanColumn: `dest[:count]` / Iter.Scan: `dest[i:]`   (proved in bounds)
deriving DecidableEq, Repr

def RSite.label : RSite → String
  | .destSlice => "scanColumn:slice"

inductive Step (α : Type)
  | ok (a : α)
  | err
  | crash (s : RSite)

/-- unmarshalTuple's `[]interface{}` loop: `if len(data) >= 4 { p, data = readBytes(data) }` per element -/
def tupleCell : Nat → Bytes → Step Unit
  | 0, _ => .ok ()
  | k+1, data =>
    if data.length < 4 then tupleCell k data
    else
      let size := signed32 (be (data.take 4))
      let p := data.drop 4
      if size < 0 then tupleCell k p
      else if p.length < size.toNat then .err   -- readBytes: "unexpected eof"
      else tupleCell k (p.drop size.toNat)

def width : TI → Nat
  | .tuple es => es.length
  | _ => 1

/-- the column loop of one Iter.Scan call: `i` = position in dest, `n` = len(dest) -/
def scanCols (n : Nat) : List TI → Nat → Bytes → Step Bytes
  | [], _, buf => .ok buf
  | col :: rest, i, buf =>
    -- readColumn = readBytesInternal
    if buf.length < 4 then .err   -- readBytesInternal: "not enough bytes in buffer to read bytes length"
    else
      let size := signed32 (be (buf.take 4))
      let b1 := buf.drop 4
      if 0 ≤ size ∧ b1.length < size.toNat then .err
      else
        let cell : Option Bytes := if size < 0 then none else some (b1.take size.toNat)
        let b2 := if size < 0 then b1 else b1.drop size.toNat
        -- scanColumn(colBytes, col, dest[i:])
        if n < i then .crash .destSlice
        else if n ≤ i then .err   -- scanColumn: `len(dest) == 0`
        else
          match col with
          | .tuple es =>
            if n < i + es.length then .crash .destSlice
            else
              match tupleCell es.length (cell.getD []) with
              | .ok _ => scanCols n rest (i + es.length) b2
              | .err => .err
              | .crash s => .crash s
          | _ => scanCols n rest (i + 1) b2

inductive ROut
  | ok (rows : Nat)
  | capped
  | err (rows : Nat)
  | crash (s : RSite)
deriving DecidableEq, Repr

def ROut.crashSite : ROut → Option RSite
  | .crash s => some s
  | _ => none

/-- the harness stops after this many successful Scan calls (a frame announcing 2^31 rows of zero
columns makes Scan return true 2^31 times without reading anything) -/
def rowCap : Nat := 20000

/-- `for iter.Scan(dest...) {}` : `todo` rows left, `done` rows scanned -/
def scanLoop (cols : List TI) (n : Nat) : Nat → Nat → Bytes → ROut
  | 0, done, _ => .ok done
  | todo+1, done, buf =>
    if done ≥ rowCap then .capped
    else
      match scanCols n cols 0 buf with
      | .ok b => scanLoop cols n todo (done + 1) b
      | .err => .err done
      | .crash s => .crash s

/-- len(dest) = iter.meta.actualColCount = colCount + Σ (len(tuple.Elems) − 1) over the parsed columns -/
def destLen (m : Meta) : Nat :=
  (m.colCount + (m.cols.map width).sum) - m.cols.length

/-- the harness does not build more than 65536 destinations (a no-metadata frame can announce 2^31−1
columns): it then passes none and Scan reports the count mismatch as an error -/
def destCap : Nat := 65536

def scanAll (m : Meta) (numRows : Nat) (rest : Bytes) : ROut :=
  if destLen m > destCap then (if numRows = 0 then .ok 0 else .err 0)
  else scanLoop m.cols (destLen m) numRows 0 rest

/-! ### allocation of the row consumers (Scan loops, Scanner, MapScan, SliceMap, RowData)

None of them allocates from the ANNOUNCED row count: what a consumer allocates is per row it actually
scans (one destination slot / map entry / value per destination, `destLen`) plus the cell bytes it
copies. The model's allocation counter is in those units; the number of rows scanned is bounded by the
bytes of the row set (every described column costs at least its 4-byte length: Proofs/C05Rows.lean
`rows_scanned_le_body`), whatever `numRows` says. -/

/-- rows a consumer got through (the row an error occurred in not counted) -/
def ROut.rows : ROut → Nat
  | .ok k => k
  | .capped => rowCap
  | .err k => k
  | .crash _ => 0

/-- allocation counter of a row consumer, in units: per row scanned (plus the one an error ends in) one
unit per destination and one for the row itself, plus the bytes of the row set -/
def consumeUnits (m : Meta) (numRows : Nat) (rest : Bytes) : Nat :=
  ((scanAll m numRows rest).rows + 1) * (destLen m + 1) + rest.length

/-- the bound, a function of the received bytes and the described destinations only -/
def consumeBound (m : Meta) (rest : Bytes) : Nat :=
  (rest.length / 4 + 1) * (destLen m + 1) + rest.length

/-! ### Iter.RowData (the destinations of MapScan / SliceMap): helpers.go goType

`TypeInfo.NewWithError` → `goType` builds a reflect.Type per column; for a map it calls
`reflect.MapOf(keyType, valueType)`, which panics when the key's Go type is not comparable: blob
([]byte), list / set (slices), map, tuple ([]interface{}), UDT (map[string]interface{}). CQL allows
frozen collections, tuples and UDTs as map keys, so `map<frozen<list<int>>, int>` is a legal column
type. This check found the panic (KF-C05-14) while /repo was at 19ec182; the guard
`if !keyType.Comparable() { return nil, err }` is in the tree since /repo commit c637d3e, so `goType`
below returns `err` there. `mapOfGuard = false` is the code before that commit (kept for the
counterexample theorem that documents the finding). -/

inductive GT
  | ok (comparable : Bool)
  | err            -- "cannot create Go type for unknown CQL type"
  | crashMapOf     -- reflect.MapOf: invalid key type
  | crashAssert    -- `t.(CollectionType)` / `t.(TupleTypeInfo)` on a NativeType: not reachable from a parsed frame
deriving DecidableEq, Repr

def GT.isCrash : GT → Bool
  | .crashMapOf | .crashAssert => true
  | _ => false

/-- helpers.go goType on a parsed type tree -/
def goTypeG (mapOfGuard : Bool) : TI → GT
  | .simple t =>
    if t == 0x03 then .ok false                                   -- blob: []byte
    else if t == 0x20 || t == 0x21 || t == 0x22 || t == 0x31 then .crashAssert
    else if t == 0x30 then .ok false
    else if t == 0x01 || t == 0x02 || t == 0x04 || t == 0x05 || t == 0x06 || t == 0x07 || t == 0x08 || t == 0x09 ||
            t == 0x0A || t == 0x0B || t == 0x0C || t == 0x0D || t == 0x0E || t == 0x0F || t == 0x10 || t == 0x11 ||
            t == 0x12 || t == 0x13 || t == 0x14 || t == 0x15 then .ok true
    else .err
  | .list e =>
    match goTypeG mapOfGuard e with
    | .ok _ => .ok false
    | o => o
  | .map k v =>
    match goTypeG mapOfGuard k with
    | .ok ck =>
      (match goTypeG mapOfGuard v with
       | .ok _ => if ck then .ok false else if mapOfGuard then .err else .crashMapOf
       | o => o)
    | o => o
  | .tuple _ => .ok false
  | .udt _ => .ok false

/-- goType of the current tree (guard present) -/
def goType (t : TI) : GT := goTypeG true t

inductive RD
  | ok (n : Nat)
  | err
  | crashMapOf
  | crashAssert
deriving DecidableEq, Repr

def RD.isCrash : RD → Bool
  | .crashMapOf | .crashAssert => true
  | _ => false

def goTypes (g : Bool) : List TI → Nat → RD
  | [], n => .ok n
  | t :: r, n =>
    match goTypeG g t with
    | .ok _ => goTypes g r (n + 1)
    | .err => .err
    | .crashMapOf => .crashMapOf
    | .crashAssert => .crashAssert

/-- Iter.RowData: one value per column, one per element for tuple columns -/
def rowDataG (g : Bool) : List TI → Nat → RD
  | [], n => .ok n
  | .tuple es :: r, n =>
    (match goTypes g es n with
     | .ok m => rowDataG g r m
     | o => o)
  | t :: r, n =>
    match goTypeG g t with
    | .ok _ => rowDataG g r (n + 1)
    | .err => .err
    | .crashMapOf => .crashMapOf
    | .crashAssert => .crashAssert

/-- Iter.RowData of the current tree -/
def rowData (cols : List TI) (n : Nat) : RD := rowDataG true cols n

/-- the decidable shape that makes goType panic: a map whose key type is not comparable in Go
(searched where goType looks: through list / set elements and map keys / values, not into tuple or
UDT members) -/
def badMapKey : TI → Bool
  | .simple _ => false
  | .list e => badMapKey e
  | .map k v => badMapKey k || badMapKey v ||
      (match k with
       | .simple t => t == 0x03 || t == 0x30
       | _ => true)
  | .tuple _ => false
  | .udt _ => false

/-- NativeType carrying a collection / tuple id: readTypeInfo never builds one -/
def nativeCollection : TI → Bool
  | .simple t => t == 0x20 || t == 0x21 || t == 0x22 || t == 0x31
  | .list e => nativeCollection e
  | .map k v => nativeCollection k || nativeCollection v
  | .tuple _ => false
  | .udt _ => false

/-- parse a RESULT frame body and, when it is a ROWS result, iterate it as conn.executeQuery +
`for iter.Scan(dest...) {}` do; `none` when the frame is not a ROWS result (or does not parse) -/
def iterate (proto flags : Nat) (body : Bytes) : Option ROut :=
  match parseFrame proto true flags 8 body with
  | .ok (.rows m n) st => some (scanAll m n st.buf)
  | _ => none

/-- the same before /repo commit c637d3e (no Comparable guard) and before 8351452 is NOT modelled; this
is the current parser with the old goType, enough to replay the finding's witnesses -/
def newRowOld (proto flags : Nat) (body : Bytes) : Option RD :=
  match parseFrame proto true flags 8 body with
  | .ok (.rows m _) _ => some (rowDataG false m.cols 0)
  | _ => none

/-- parse a RESULT frame body and, when it is a ROWS result, build MapScan's destinations -/
def newRow (proto flags : Nat) (body : Bytes) : Option RD :=
  match parseFrame proto true flags 8 body with
  | .ok (.rows m _) _ => some (rowData m.cols 0)
  | _ => none

end RowsCrash
