import Model.TypeStr
/-
Outcome model of gocql's response-frame parser (property C05: no bytes from the network can crash
the application): frame.go `parseFrame` and everything it calls (error frames per code, RESULT kinds,
result / prepared metadata incl. the partition-key index list, type descriptions, SCHEMA_CHANGE,
EVENT, SUPPORTED, AUTH*), the primitive readers frame.go:1771-1937 and `readHeader`/`readFrame`.

The only job of the model is to say `ok <frame kind> | err | crash <site>` (+ bytes allocated by the
`make` calls whose size comes from the wire) exactly as the real code does:

* `err`   — the Go code returns an error, or raises `panic(error)` which parseFrame's deferred
            recover converts into a returned error;
* `crash` — the Go code raises a RUN-TIME panic (slice bounds, makeslice) which parseFrame re-panics
            (frame.go:545): fatal for the goroutine that parses — the caller's goroutine for
            responses, a bare driver goroutine for EVENT frames (conn.go recv → go handleEvent).

Every primitive reader is an instance of `take site guard need`: `guard` = the number the length check
compares with (`if len(f.buf) < guard { panic(err) }`), `need` = the number of bytes actually sliced.
`guard ≥ need` ⇒ the primitive cannot crash (Proofs/C05Frame.lean `take_noCrash`); the table of the
primitives is `primTable`. The model describes the code AFTER the repairs of KF-C05-5
(readInetAdressOnly checks `len(f.buf) < int(size)`), KF-C05-6/7 (parsePreparedMetadata rejects a negative
partition-key count and one that the rest of the body cannot hold, before `make`) and KF-C05-8
(readTypeInfo rejects a tuple / UDT element count that the rest of the body cannot hold, before `make`).

Bytes are `List Nat` (one element per byte, every theorem holds for all lists of naturals).
-/
namespace FrameCrash

abbrev Bytes := List Nat

inductive Site
  | inetBody     -- readInetAdressOnly: `f.buf[:size]` / `f.buf[size:]` behind `len(f.buf) < int(size)`
  | readByte | readInt | readShort | readUUID | stringBody | bytesBody | shortBytesBody | inetSize
  | fuel         -- model artefact
deriving DecidableEq, Repr

/-- `<Go function>:<panic kind>` as printed by the harness -/
def Site.label : Site → String
  | .inetBody => "readInetAdressOnly:slice"
  | .readByte => "readByte:index"
  | .readInt => "readInt:index"
  | .readShort => "readShort:index"
  | .readUUID => "readUUID:slice"
  | .stringBody => "readString:slice"
  | .bytesBody => "readBytesInternal:slice"
  | .shortBytesBody => "readShortBytes:slice"
  | .inetSize => "readInetAdressOnly:index"
  | .fuel => "model:fuel"

/-- parser state: the unread part of the frame body (`f.buf`) and the bytes allocated so far by
`make`/`string()` calls whose size is taken from the wire -/
structure St where
  buf : Bytes
  alloc : Nat

inductive Res (α : Type)
  | ok (a : α) (st : St)
  | err (alloc : Nat)
  | crash (site : Site) (alloc : Nat)

def Res.crashSite {α : Type} : Res α → Option Site
  | .crash s _ => some s
  | _ => none

def Res.isErr {α : Type} : Res α → Bool
  | .err _ => true
  | _ => false

def Res.allocated {α : Type} : Res α → Nat
  | .ok _ st => st.alloc
  | .err a => a
  | .crash _ a => a

abbrev P (α : Type) := St → Res α

@[inline] def P.pure {α : Type} (a : α) : P α := fun st => .ok a st
@[inline] def P.bind {α β : Type} (p : P α) (f : α → P β) : P β := fun st =>
  match p st with
  | .ok a st' => f a st'
  | .err al => .err al
  | .crash s al => .crash s al

instance : Monad P where
  pure := P.pure
  bind := P.bind

/-- `panic(fmt.Errorf(..))` / `return nil, err` -/
def fail {α : Type} : P α := fun st => .err st.alloc
def crashAt {α : Type} (s : Site) : P α := fun st => .crash s st.alloc
/-- a `make(.., n)` / `string(..)` of `n` bytes -/
def alloc (n : Nat) : P Unit := fun st => .ok () { st with alloc := st.alloc + n }

/-- the shape of every primitive reader: `if len(f.buf) < guard { panic(error) }` then slice `need` bytes -/
def take (site : Site) (guard need : Nat) : P Bytes := fun st =>
  if st.buf.length < guard then .err st.alloc
  else if st.buf.length < need then .crash site st.alloc
  else .ok (st.buf.take need) { st with buf := st.buf.drop need }

/-- the fixed-size primitives of frame.go:1771-1937 as (name, guard, need); the variable-size ones
(readString, readBytes, readShortBytes, readInetAdressOnly's address: guard = need = the size just read)
are in the definitions below -/
def primTable : List (String × Nat × Nat) :=
  [("readByte", 1, 1), ("readInt", 4, 4), ("readShort", 2, 2), ("readUUID", 16, 16), ("readInetAdressOnly.size", 1, 1)]

/-- THE FACTS THE MODEL WAS WRITTEN FROM, per function of frame.go: `g=` the conditions of the length /
count checks, `u=` every index / slice expression on the buffer, `m=` every `make`, `p=` what is
passed to `panic` (`error` = a non-runtime error value, which parseFrame turns into a returned
error). The harness re-extracts the same strings from the CURRENT source with go/ast on every run (op
`prim <func>`); a weakened guard or a new slice expression is then a disagreement even before a fuzz
input reaches it. `take site guard need` instances: guard = the number in `g`, need = the largest
offset in `u`. -/
def sourceFacts : List (String × String) := [
  ("readByte", "g=[len(f.buf)<1]u=[f.buf[0];f.buf[1:]]m=[]p=[error]"),
  ("readInt", "g=[len(f.buf)<4]u=[f.buf[0];f.buf[1];f.buf[2];f.buf[3];f.buf[4:]]m=[]p=[error]"),
  ("readShort", "g=[len(f.buf)<2]u=[f.buf[0];f.buf[1];f.buf[2:]]m=[]p=[error]"),
  ("readString", "g=[len(f.buf)<int(size)]u=[f.buf[:size];f.buf[size:]]m=[]p=[error]"),
  ("readLongString", "g=[len(f.buf)<size]u=[f.buf[:size];f.buf[size:]]m=[]p=[error]"),
  ("readUUID", "g=[len(f.buf)<16]u=[f.buf[:16];f.buf[16:]]m=[]p=[error]"),
  ("readStringList", "g=[]u=[]m=[make([]string,size)]p=[]"),
  ("readBytesInternal", "g=[len(f.buf)<4;len(f.buf)<size]u=[f.buf[:size];f.buf[size:]]m=[]p=[]"),
  ("readBytes", "g=[]u=[]m=[]p=[error]"),
  ("readShortBytes", "g=[len(f.buf)<int(size)]u=[f.buf[:size];f.buf[size:]]m=[]p=[error]"),
  ("readInetAdressOnly", "g=[len(f.buf)<1;len(f.buf)<int(size)]u=[f.buf[0];f.buf[1:];f.buf[:size];f.buf[size:]]m=[make([]byte,size)]p=[error;error;error]"),
  ("readInet", "g=[]u=[]m=[]p=[]"),
  ("readConsistency", "g=[]u=[]m=[]p=[]"),
  ("readBytesMap", "g=[]u=[]m=[make(map[string][]byte,size)]p=[]"),
  ("readStringMultiMap", "g=[]u=[]m=[make(map[string][]string,size)]p=[]"),
  ("readErrorMap", "g=[]u=[]m=[make(ErrorMap)]p=[]"),
  ("readTypeInfo", "g=[int(n)*2>len(f.buf);int(n)*4>len(f.buf)]u=[]m=[make([]TypeInfo,n);make([]UDTField,n)]p=[error;error]"),
  ("parsePreparedMetadata", "g=[meta.colCount<0;pkeyCount<0||pkeyCount*2>len(f.buf);meta.colCount<1000]u=[]m=[make([]int,pkeyCount);make([]ColumnInfo,meta.colCount)]p=[error;error]"),
  ("parseResultMetadata", "g=[meta.colCount<0;meta.colCount<1000]u=[]m=[make([]ColumnInfo,meta.colCount)]p=[error]"),
  ("readCol", "g=[]u=[]m=[]p=[]"),
  ("parseResultRows", "g=[result.numRows<0]u=[]m=[]p=[error]"),
  ("readHeader", "g=[len(p)!=9;len(p)!=8]u=[p[:1];p[0];p[1:headSize];p[:headSize];p[0];p[1];p[2];p[3];p[4];p[5:];p[2];p[3];p[4:]]m=[]p=[]"),
  ("readFrame", "g=[head.length<0;head.length>maxFrameSize;cap(f.readBuffer)>=head.length]u=[f.readBuffer[:head.length]]m=[make([]byte,head.length)]p=[]"),
  ("parseFrame", "g=[]u=[]m=[]p=[r]")]

def sourceFact (name : String) : String :=
  match sourceFacts.find? (fun p => p.1 == name) with
  | some p => p.2
  | none => "absent"

/-- big-endian value -/
def be (bs : Bytes) : Nat := bs.foldl (fun acc b => acc * 256 + b) 0

def readByte : P Nat := do
  let b ← take .readByte 1 1
  pure (be b)

/-- readInt, as the unsigned 32-bit pattern -/
def readIntU : P Nat := do
  let b ← take .readInt 4 4
  pure (be b)

/-- Go `int(int32(..))` of the pattern -/
def signed32 (u : Nat) : Int := if u < 2147483648 then (u : Int) else (u : Int) - 4294967296

def readInt : P Int := do
  let u ← readIntU
  pure (signed32 u)

def readShort : P Nat := do
  let b ← take .readShort 2 2
  pure (be b)

def readString : P Bytes := do
  let size ← readShort
  let s ← take .stringBody size size
  alloc size
  pure s

def readUUID : P Unit := do
  let _ ← take .readUUID 16 16
  alloc 16

/-- readBytes (and readBytesInternal under parseFrame: both end in `err`): none = null -/
def readBytes : P (Option Bytes) := do
  let size ← readInt
  if size < 0 then pure none
  else do
    let b ← take .bytesBody size.toNat size.toNat
    pure (some b)

def readShortBytes : P Bytes := do
  let size ← readShort
  take .shortBytesBody size size

/-- `for i := 0; i < n; i++ { body }` -/
def loopN : Nat → P Unit → P Unit
  | 0, _ => pure ()
  | n+1, body => do body; loopN n body

def readStringList : P Unit := do
  let size ← readShort
  alloc (16 * size)
  loopN size (do let _ ← readString; pure ())

def readBytesMap : P Unit := do
  let size ← readShort
  alloc (48 * size)
  loopN size (do let _ ← readString; let _ ← readBytes; pure ())

def readStringMultiMap : P Unit := do
  let size ← readShort
  alloc (48 * size)
  loopN size (do let _ ← readString; readStringList)

/-- readInetAdressOnly: the address is sliced behind `len(f.buf) < int(size)` -/
def readInetAdressOnly : P Unit := do
  let size ← readByte            -- `len(f.buf) < 1` then `f.buf[0]`
  if !(size == 4 || size == 16) then fail
  else do
    let _ ← take .inetBody size size
    alloc size

def readInet : P Unit := do
  readInetAdressOnly
  let _ ← readInt
  pure ()

def readErrorMap : P Unit := do
  let n ← readInt
  loopN n.toNat (do readInetAdressOnly; let _ ← readShort; pure ())

/-- the type tree a description is parsed to (TypeInfo): NativeType{typ} (custom classes and unknown
ids included), CollectionType, TupleTypeInfo, UDTTypeInfo (field types) -/
inductive TI
  | simple (typ : Nat)
  | list (e : TI)          -- TypeList and TypeSet
  | map (k v : TI)
  | tuple (es : List TI)
  | udt (fs : List TI)

-- nesting depth of a type tree = recursion depth of readTypeInfo that built it
mutual
def tiDepth : TI → Nat
  | .simple _ => 1
  | .list e => tiDepth e + 1
  | .map k v => max (tiDepth k) (tiDepth v) + 1
  | .tuple es => tiDepthL es + 1
  | .udt fs => tiDepthL fs + 1
def tiDepthL : List TI → Nat
  | [] => 0
  | t :: r => max (tiDepth t) (tiDepthL r)
end


/-- `if int(n)*k > len(f.buf) { panic(error) }` before the allocation (every element description needs at
least k bytes) -/
def guardCount (need : Nat) : P Unit := fun st =>
  if need > st.buf.length then .err st.alloc else .ok () st

mutual
/-- readTypeInfo -/
def readTypeInfo : Nat → P TI
  | 0 => crashAt .fuel
  | f+1 => do
    let id ← readShort
    -- a custom option carries only a class name: it becomes the scalar type the name maps to, and stays
    -- custom (0) when the name maps to a collection / tuple class (since /repo commit 8351452; before it
    -- "…ListType" etc. were parsed as collections whose element types were then read from what follows)
    let typ ← (if id == 0 then do
                  let cls ← readString
                  let t := TypeStr.apacheType cls
                  pure (if t == 0x20 || t == 0x21 || t == 0x22 || t == 0x31 then 0 else t)
                else pure id)
    if typ == 0x31 then do
      let n ← readShort
      guardCount (2 * n)
      alloc (16 * n)
      let es ← typeLoop f false n
      pure (.tuple es)
    else if typ == 0x30 then do
      let _ ← readString
      let _ ← readString
      let n ← readShort
      guardCount (4 * n)
      alloc (32 * n)
      let fs ← typeLoop f true n
      pure (.udt fs)
    else if typ == 0x21 then do
      let k ← readTypeInfo f
      let v ← readTypeInfo f
      pure (.map k v)
    else if typ == 0x20 || typ == 0x22 then do
      let e ← readTypeInfo f
      pure (.list e)
    else pure (.simple typ)
/-- the element loops of tuple (`named = false`) and UDT (`named = true`) descriptions -/
def typeLoop : Nat → Bool → Nat → P (List TI)
  | 0, _, _ => crashAt .fuel
  | f+1, named, n =>
    match n with
    | 0 => pure []
    | n+1 => do
      (if named then do let _ ← readString; pure () else pure ())
      let t ← readTypeInfo f
      let ts ← typeLoop f named n
      pure (t :: ts)
end

/-- entry point with the fuel the proofs show sufficient: |unread bytes| + 1 -/
def readTypeInfoTop : P TI := fun st => readTypeInfo (st.buf.length + 1) st

/-- readCol -/
def readCol (globalSpec : Bool) : P TI := do
  (if !globalSpec then do let _ ← readString; let _ ← readString; pure () else pure ())
  let _ ← readString
  readTypeInfoTop

/-- the column loops of parseResultMetadata / parsePreparedMetadata; returns the columns reversed -/
def colLoop (globalSpec : Bool) : Nat → List TI → P (List TI)
  | 0, acc => pure acc
  | n+1, acc => do
    let c ← readCol globalSpec
    colLoop globalSpec n (c :: acc)

def bit (u : Nat) (k : Nat) : Bool := (u / 2 ^ k) % 2 == 1

structure Meta where
  cols : List TI
  colCount : Nat

/-- shared tail of both metadata parsers (from the paging state on) -/
def metaTail (flags : Nat) (colCount : Nat) : P Meta := do
  (if bit flags 1 then do
      let p ← readBytes
      alloc (p.getD []).length
    else pure ())
  if bit flags 2 then pure { cols := [], colCount := colCount }
  else do
    -- globalSpec := flags&flagGlobalTableSpec
    (if bit flags 0 then do let _ ← readString; let _ ← readString; pure () else pure ())
    -- `make([]ColumnInfo, colCount)` below 1000 columns, append (amortised) otherwise
    (if colCount < 1000 then alloc (64 * colCount) else pure ())
    let cols ← colLoop (bit flags 0) colCount []
    (if colCount < 1000 then pure () else alloc (128 * colCount))
    pure { cols := cols.reverse, colCount := colCount }

def parseResultMetadata : P Meta := do
  let flags ← readIntU
  let colCount ← readInt
  if colCount < 0 then fail
  else metaTail flags colCount.toNat

def parsePreparedMetadata (proto : Nat) : P Meta := do
  let flags ← readIntU
  let colCount ← readInt
  if colCount < 0 then fail
  else do
    (if proto ≥ 4 then do
        let pk ← readInt
        -- `if pkeyCount < 0 || pkeyCount*2 > len(f.buf) { panic(error) }` before the allocation
        if pk < 0 then fail
        else do
          let st ← (fun st => Res.ok st st : P St)
          if 2 * pk.toNat > st.buf.length then fail
          else do
            alloc (8 * pk.toNat)
            loopN pk.toNat (do let _ ← readShort; pure ())
      else pure ())
    metaTail flags colCount.toNat

inductive Frame
  | simple (kind : String)
  | rows (m : Meta) (numRows : Nat)

def Frame.kind : Frame → String
  | .simple k => k
  | .rows _ _ => "resultRowsFrame"

def kTOPOLOGY_CHANGE : Bytes := [84, 79, 80, 79, 76, 79, 71, 89, 95, 67, 72, 65, 78, 71, 69]
def kSTATUS_CHANGE : Bytes := [83, 84, 65, 84, 85, 83, 95, 67, 72, 65, 78, 71, 69]
def kSCHEMA_CHANGE : Bytes := [83, 67, 72, 69, 77, 65, 95, 67, 72, 65, 78, 71, 69]
def kKEYSPACE : Bytes := [75, 69, 89, 83, 80, 65, 67, 69]
def kTABLE : Bytes := [84, 65, 66, 76, 69]
def kTYPE : Bytes := [84, 89, 80, 69]
def kFUNCTION : Bytes := [70, 85, 78, 67, 84, 73, 79, 78]
def kAGGREGATE : Bytes := [65, 71, 71, 82, 69, 71, 65, 84, 69]

def parseResultSchemaChange (proto : Nat) : P Frame := do
  if proto ≤ 2 then do
    let _ ← readString
    let _ ← readString
    let table ← readString
    pure (.simple (if table.isEmpty then "schemaChangeKeyspace" else "schemaChangeTable"))
  else do
    let _ ← readString
    let target ← readString
    if target == kKEYSPACE then do
      let _ ← readString
      pure (.simple "schemaChangeKeyspace")
    else if target == kTABLE then do
      let _ ← readString; let _ ← readString
      pure (.simple "schemaChangeTable")
    else if target == kTYPE then do
      let _ ← readString; let _ ← readString
      pure (.simple "schemaChangeType")
    else if target == kFUNCTION then do
      let _ ← readString; let _ ← readString; readStringList
      pure (.simple "schemaChangeFunction")
    else if target == kAGGREGATE then do
      let _ ← readString; let _ ← readString; readStringList
      pure (.simple "schemaChangeAggregate")
    else fail

def parseResultFrame (proto : Nat) : P Frame := do
  let kind ← readInt
  if kind == 1 then pure (.simple "resultVoidFrame")
  else if kind == 2 then do
    let m ← parseResultMetadata
    let numRows ← readInt
    if numRows < 0 then fail else pure (.rows m numRows.toNat)
  else if kind == 3 then do
    let _ ← readString
    pure (.simple "resultKeyspaceFrame")
  else if kind == 4 then do
    let _ ← readShortBytes
    let _ ← parsePreparedMetadata proto
    if proto < 2 then pure (.simple "resultPreparedFrame")
    else do
      let _ ← parseResultMetadata
      pure (.simple "resultPreparedFrame")
  else if kind == 5 then parseResultSchemaChange proto
  else fail

def readFailureTail (proto : Nat) : P Unit := do
  let _ ← readShort; let _ ← readInt; let _ ← readInt
  if proto > 4 then readErrorMap
  else do let _ ← readInt; pure ()

def parseErrorFrame (proto : Nat) : P Frame := do
  let code ← readInt
  let _ ← readString
  if code == 0x1000 then do
    let _ ← readShort; let _ ← readInt; let _ ← readInt
    pure (.simple "RequestErrUnavailable")
  else if code == 0x1100 then do
    let _ ← readShort; let _ ← readInt; let _ ← readInt; let _ ← readString
    pure (.simple "RequestErrWriteTimeout")
  else if code == 0x1200 then do
    let _ ← readShort; let _ ← readInt; let _ ← readInt; let _ ← readByte
    pure (.simple "RequestErrReadTimeout")
  else if code == 0x2400 then do
    let _ ← readString; let _ ← readString
    pure (.simple "RequestErrAlreadyExists")
  else if code == 0x2500 then do
    let id ← readShortBytes
    alloc id.length
    pure (.simple "RequestErrUnprepared")
  else if code == 0x1300 then do
    readFailureTail proto
    let _ ← readByte
    pure (.simple "RequestErrReadFailure")
  else if code == 0x1500 then do
    readFailureTail proto
    let _ ← readString
    pure (.simple "RequestErrWriteFailure")
  else if code == 0x1400 then do
    let _ ← readString; let _ ← readString; readStringList
    pure (.simple "RequestErrFunctionFailure")
  else if code == 0x1600 then pure (.simple "RequestErrCDCWriteFailure")
  else if code == 0x1700 then do
    let _ ← readShort; let _ ← readInt; let _ ← readInt
    pure (.simple "RequestErrCASWriteUnknown")
  else if code == 0x2200 || code == 0x1002 || code == 0x2300 || code == 0x0100 || code == 0x1001 ||
          code == 0x000A || code == 0x0000 || code == 0x2000 || code == 0x1003 || code == 0x2100 then
    pure (.simple "errorFrame")
  else fail

def parseEventFrame (proto : Nat) : P Frame := do
  let t ← readString
  if t == kTOPOLOGY_CHANGE then do
    let _ ← readString
    readInet
    pure (.simple "topologyChangeEventFrame")
  else if t == kSTATUS_CHANGE then do
    let _ ← readString
    readInet
    pure (.simple "statusChangeEventFrame")
  else if t == kSCHEMA_CHANGE then parseResultSchemaChange proto
  else fail

/-- framer.parseFrame: `proto` is the framer's protocol version (newFramer masks it with 0x7F),
`resp` the direction bit of the header's version byte, `flags` the header flags, `op` the opcode -/
def parseFrameP (proto : Nat) (resp : Bool) (flags op : Nat) : P Frame := do
  if !resp then fail
  else do
    (if bit flags 1 then readUUID else pure ())
    (if bit flags 3 then readStringList else pure ())
    (if bit flags 2 then readBytesMap else pure ())
    if op == 0x00 then parseErrorFrame proto
    else if op == 0x02 then pure (.simple "readyFrame")
    else if op == 0x08 then parseResultFrame proto
    else if op == 0x06 then do readStringMultiMap; pure (.simple "supportedFrame")
    else if op == 0x03 then do let _ ← readString; pure (.simple "authenticateFrame")
    else if op == 0x0E then do let _ ← readBytes; pure (.simple "authChallengeFrame")
    else if op == 0x10 then do let _ ← readBytes; pure (.simple "authSuccessFrame")
    else if op == 0x0C then parseEventFrame proto
    else fail

def parseFrame (proto : Nat) (resp : Bool) (flags op : Nat) (body : Bytes) : Res Frame :=
  parseFrameP proto resp flags op { buf := body, alloc := 0 }

/-! ### recursion depth (goroutine stack)

readTypeInfo recurses once per nesting level of a type description (2 body bytes per level for
list<list<…>>), getCassandraType once per `frozen<` (8 bytes), parseType once per `A(` (2 bytes).
Go's goroutine stack limit is not part of the outcome model above; what is RECORDED here (measured:
a depth of 100000 overflows a 32 MiB stack, so each level takes at least 336 bytes) is enough to
answer the subprocess scenario `deep <what> <depth>` for depths far from the threshold, and gives
≈ 3·10^6 levels ≈ a 6 MB frame body for Go's default 1 GB limit (a 4 MB body was observed to kill
the process). A stack overflow is fatal: no recover, the process exits (KF-C05-13). -/

def stackPerLevel : Nat := 336
def deepStackLimit : Nat := 33554432

def deepOutcome (what : String) (depth : Nat) : String :=
  let fn := if what == "typeinfo" then "readTypeInfo" else if what == "gct" then "getCassandraType" else "parseClassNode"
  if depth * stackPerLevel ≥ deepStackLimit then "crash:" ++ fn ++ ":stackoverflow" else "survived"

/-! ### readHeader / readFrame (frame.go:443-540) -/

inductive HeadRes
  | ok (version flags : Nat) (stream : Int) (op : Nat) (length : Int)
  | err        -- short read / unsupported version
deriving DecidableEq, Repr

/-- readHeader over the bytes available on the connection -/
def readHeader (wire : Bytes) : HeadRes :=
  match wire with
  | [] => .err
  | v0 :: _ =>
    let version := v0 % 128
    if version < 1 || version > 5 then .err
    else
      let headSize := if version < 3 then 8 else 9
      if wire.length < headSize then .err
      else
        let p := wire.take headSize
        if version > 2 then
          let s := be ((p.drop 2).take 2)
          .ok v0 (p.getD 1 0) (if s < 32768 then (s : Int) else (s : Int) - 65536) (p.getD 4 0) (signed32 (be (p.drop 5)))
        else
          let s := p.getD 2 0
          .ok v0 (p.getD 1 0) (if s < 128 then (s : Int) else (s : Int) - 256) (p.getD 3 0) (signed32 (be (p.drop 4)))

def maxFrameSize : Nat := 268435456
def defaultBufSize : Nat := 128

inductive BodyRes
  | ok (body : Bytes) (alloc : Nat)
  | err (alloc : Nat)       -- negative length, too big, short read, compressed without compressor
deriving DecidableEq, Repr

/-- framer.readFrame on a fresh framer (readBuffer of 128 bytes, no compressor): `avail` = the bytes
that arrive after the header before the connection is closed / stalls. The buffer for the WHOLE
announced body is allocated before the first body byte is read. -/
def readFrame (length : Int) (flags : Nat) (avail : Bytes) : BodyRes :=
  if length < 0 then .err 0
  else if length.toNat > maxFrameSize then .err 0
  else
    let a := if defaultBufSize ≥ length.toNat then 0 else length.toNat
    if avail.length < length.toNat then .err a
    else if bit flags 0 then .err a
    else .ok (avail.take length.toNat) a

end FrameCrash
