import Model.Paging
/-
  Model of FAULTS AT PAGE FETCHES × the executor's retry decisions (C15, retry tier).

    query_executor.go  queryExecutor.do: one FETCH (Query.Iter or nextIter.fetch → Session.executeQuery →
               executor.executeQuery → do) is a loop of ATTEMPTS (attemptQuery → conn.executeQuery). After an
               attempt that ended with an error:
                 * context.Canceled / DeadlineExceeded / ErrNotFound: returned at once, the policy is not asked;
                 * no RetryPolicy (`rt == nil`) or `!rt.Attempt(qry)`: the Iter holding the error is returned;
                 * `rt.GetRetryType(err)`:  Retry → the same host again;  RetryNextHost → `hostIter()`, and
                   when there is no further host the loop ends with `&Iter{err: lastErr}`;
                   Rethrow, Ignore → the Iter holding the error is returned (BOTH: the error of a failed page
                   fetch stays in the Iter, so the consumer sees it);  anything else → ErrUnknownRetryType.
    conn.go    executeQuery: as in Model/Paging.lean (request, UNPREPARED → the same request again inside the
               same attempt, rows → page Iter + next-page query with FRESH metrics, i.e. Attempts() restarts at
               0 for every page); `case *resultVoidFrame` (a RESULT that is not rows): an Iter without rows,
               without error and without next page.
    session.go consumers as in Model/Paging.lean; the manual PageState loop (one fresh Query per page).

  Inputs: the SCRIPT — the k-th QUERY/EXECUTE the cluster receives is answered with the k-th entry, whatever
  host it reaches — where every failure entry carries the DECISION the retry policy gives when it is asked
  about that failed attempt (a policy scripted per attempt); `Policy.decide` turns (Attempts(), failure,
  scripted decision) into the effective decision, which covers budgets (`Attempts() <= k`), the constant
  policies (SimpleRetryPolicy) and error-dependent ones (DowngradingConsistencyRetryPolicy, whose
  SetConsistency side effect is the optional new request identity). Structural recursion over the script:
  every attempt consumes one entry.
-/
namespace PagingRetry
open Paging

/-- what the executor is told after a failed attempt -/
inductive Dec where
  | stop       -- RetryPolicy.Attempt answered false
  | retry      -- Retry
  | nextHost   -- RetryNextHost
  | ignore     -- Ignore
  | rethrow    -- Rethrow
  | unknown    -- a RetryType that is none of the four constants
  deriving DecidableEq, Repr

/-- one scripted answer of the cluster -/
inductive RReply where
  | page (rows : List Int) (state : Option Bytes)
  | fail (f : Fail) (d : Dec)     -- a failed attempt + what the policy says when asked about it
  | unprepared
  | void                           -- RESULT of a kind other than rows
  deriving DecidableEq, Repr

/-- a retry policy: (Attempts() after the failed attempt, the failure, the scripted decision) ↦ the
    effective decision and, if the policy changed the query (SetConsistency), the new request identity -/
structure Policy where
  decide : Nat → Fail → Dec → Dec × Option Nat

structure ROut where
  rows : List Int
  reqs : List Req
  err  : Option Fail
  atts : List Nat       -- Query.Attempts() as seen by each RetryPolicy.Attempt call
  deriving DecidableEq, Repr

def setIdent (q : Qry) : Option Nat → Qry
  | none => q
  | some i => { q with ident := i }

/-- A fetch of `q` is due (or is being retried: `att` attempts of this page's query so far, `hosts` further
    hosts left in this fetch's host iterator), `cached` = the statement is in the prepared cache. The
    consumer drains every Iter it gets. `q0` is the application's query (manual paging builds a fresh one
    per page), `nodes` the number of hosts (all up, one connection each). -/
def runR (pol : Option Policy) (nodes : Nat) (q0 : Qry) (manualC : Bool) :
    List RReply → Bool → Nat → Nat → Qry → ROut
  | [], c, _, _, q => { rows := [], reqs := prep c q ++ [request q], err := some .exhausted, atts := [] }
  | .unprepared :: rest, c, att, h, q =>
    -- evictPreparedID, then executeQuery again inside the same attempt
    let o := runR pol nodes q0 manualC rest false att h q
    { o with reqs := prep c q ++ request q :: o.reqs }
  | .void :: _, c, _, _, q => { rows := [], reqs := prep c q ++ [request q], err := none, atts := [] }
  | .fail f d :: rest, c, att, h, q =>
    let here := prep c q ++ [request q]
    if f = .ctx then { rows := [], reqs := here, err := some f, atts := [] } else
    match pol with
    | none => { rows := [], reqs := here, err := some f, atts := [] }
    | some p =>
      let a := att + 1
      match p.decide a f d with
      | (.stop, _) => { rows := [], reqs := here, err := some f, atts := [a] }
      | (.ignore, _) => { rows := [], reqs := here, err := some f, atts := [a] }
      | (.rethrow, _) => { rows := [], reqs := here, err := some f, atts := [a] }
      | (.unknown, _) => { rows := [], reqs := here, err := some .unknownRetry, atts := [a] }
      | (.retry, id) =>
        let o := runR pol nodes q0 manualC rest true a h (setIdent q id)
        { o with reqs := here ++ o.reqs, atts := a :: o.atts }
      | (.nextHost, id) =>
        match h with
        | 0 => { rows := [], reqs := here, err := some f, atts := [a] }      -- hostIter() = nil: lastErr
        | h' + 1 =>
          let o := runR pol nodes q0 manualC rest true a h' (setIdent q id)
          { o with reqs := here ++ o.reqs, atts := a :: o.atts }
  | .page rows st :: rest, c, _, _, q =>
    let here := prep c q ++ [request q]
    match st with
    | none => { rows := rows, reqs := here, err := none, atts := [] }
    | some s =>
      -- the application's manual loop stops at an empty Iter.PageState()
      if manualC && s.isEmpty then { rows := rows, reqs := here, err := none, atts := [] } else
      let nq : Qry := { (if manualC then q0 else q) with pageState := s }
      let o := runR pol nodes q0 manualC rest true 0 (nodes - 1) nq      -- next.fetch(), once
      { rows := rows ++ o.rows, reqs := here ++ o.reqs, err := o.err, atts := o.atts }

/-! ## Specification, read off the script alone (no decisions, no Qry) -/

/-- the full result the cluster holds: the pages in order up to the first page without has_more_pages -/
def full : List RReply → List Int
  | [] => []
  | .page r none :: _ => r
  | .page r (some _) :: rest => r ++ full rest
  | _ :: rest => full rest

/-- the paging state every request must carry: the one of the last page served before it (a retried
    fetch repeats the state of the failed one) -/
def stateSeq : List RReply → Option Bytes → List (Option Bytes)
  | [], cur => [cur]
  | .page _ (some s) :: rest, cur => cur :: stateSeq rest (some s)
  | _ :: rest, cur => cur :: stateSeq rest cur

def reqState : Req → Option (Option Bytes)
  | .prepare => none
  | .exec _ _ _ st _ => some st

/-- no RESULT of a wrong kind in the script -/
def NoVoid : List RReply → Prop
  | [] => True
  | .void :: _ => False
  | _ :: rest => NoVoid rest

/-- no present-but-empty paging state (KF-C15-1) -/
def NoEmptyStateR : List RReply → Prop
  | [] => True
  | .page _ (some s) :: rest => s ≠ [] ∧ NoEmptyStateR rest
  | _ :: rest => NoEmptyStateR rest

/-- Model/Paging.lean scripts are the scripts without decisions -/
def emb : Reply → RReply
  | .page r st => .page r st
  | .fail f => .fail f .stop
  | .unprepared => .unprepared

/-! ## the policies the harness drives -/

/-- custom policy scripted per attempt, with a budget: Attempt = `Attempts() <= budget` (none = always) -/
def scripted (budget : Option Nat) : Policy :=
  ⟨fun a _ d => match budget with
    | none => (d, none)
    | some k => if a ≤ k then (d, none) else (.stop, none)⟩

/-- SimpleRetryPolicy{NumRetries: k} -/
def simple (k : Nat) : Policy := ⟨fun a _ _ => if a ≤ k then (.nextHost, none) else (.stop, none)⟩

/-- DowngradingConsistencyRetryPolicy with k levels (harness: alive = 1, write type SIMPLE, received = 1);
    Attempt sets the consistency of the page's query to level `a - 1`: identity `100 + a` -/
def downgrading (k : Nat) : Policy :=
  ⟨fun a f _ =>
    if a > k then (.stop, none) else
    let id := some (100 + a)
    match f with
    | .srv 0x1000 => (.retry, id)
    | .srv 0x1100 => (.ignore, id)
    | .srv 0x1200 => (.retry, id)
    | _ => (.nextHost, id)⟩

end PagingRetry
