/-
C02 — SPECIFICATION of the STRING sources of scalar columns (op `sstr`): what a Go `string` bound to an inet / date /
tinyint … varint column DENOTES, written from the documents the gocql documentation points to and nothing of gocql:

  inet  : the textual forms of IP addresses — dotted decimal IPv4 (RFC 6943 §3.1.1 strict form: four decimal
          octets 0..255 without leading zeros), IPv6 (RFC 4291 §2.2: eight groups of 1..4 hex digits, one `::`
          standing for one or more zero groups, an IPv4 dotted quad in place of the last two groups), a ZONE
          (RFC 4007 §11: `%` + non-empty zone id after an IPv6 address).  A zoned address is a value an inet
          column CANNOT hold (it has 4 or 16 bytes): the string must be refused, not stripped.
  date  : `YYYY-MM-DD` of the proleptic Gregorian calendar (the layout gocql documents, '2006-01-02').
  integer columns / varint : an optionally signed decimal literal.
  uuid / timeuuid : 32 hex digits, hyphens between bytes allowed.

`strSpec col s` is the outcome the property demands: `merr` (the string denotes nothing the column can hold), or the
specification's bytes of the denoted value together with the canonical string a `*string` gets back — which must
denote the same value again (checked by `strSpec` itself: `inconsistent` otherwise).
Core Lean only.
-/
import Model.MarshalScalar
namespace StrSpec
open ValueSpec (Bytes CqlTy)

/-! ## helpers on ASCII strings -/

/-- split at every `c` (n separators give n+1 fields) -/
def splitOn (c : UInt8) : Bytes → List Bytes
  | [] => [[]]
  | x :: r =>
    match splitOn c r with
    | f :: fs => if x = c then [] :: f :: fs else (x :: f) :: fs
    | [] => [[x]]

def isDigit (c : UInt8) : Bool := 48 ≤ c.toNat && c.toNat ≤ 57

def decVal : Bytes → Nat → Option Nat
  | [], acc => some acc
  | c :: r, acc => if isDigit c then decVal r (acc * 10 + (c.toNat - 48)) else none

def hexDigitVal (c : UInt8) : Option Nat :=
  let n := c.toNat
  if 48 ≤ n ∧ n ≤ 57 then some (n - 48)
  else if 97 ≤ n ∧ n ≤ 102 then some (n - 87)
  else if 65 ≤ n ∧ n ≤ 70 then some (n - 55)
  else none

def hexVal : Bytes → Nat → Option Nat
  | [], acc => some acc
  | c :: r, acc => match hexDigitVal c with
    | some d => hexVal r (acc * 16 + d)
    | none => none

def mapOpt {α β : Type} (f : α → Option β) : List α → Option (List β)
  | [] => some []
  | a :: r => match f a, mapOpt f r with
    | some b, some bs => some (b :: bs)
    | _, _ => none

/-! ## IP address literals -/

/-- a decimal octet: 1..3 digits, no leading zero (except "0"), at most 255 -/
def octet (f : Bytes) : Option Nat :=
  if f = [] ∨ f.length > 3 then none
  else if f.length > 1 ∧ f.head? = some 48 then none
  else match decVal f 0 with
    | some n => if n ≤ 255 then some n else none
    | none => none

/-- dotted decimal: exactly four octets -/
def dottedQuad (s : Bytes) : Option (List Nat) :=
  match mapOpt octet (splitOn 46 s) with
  | some [a, b, c, d] => some [a, b, c, d]
  | _ => none

/-- a group of 1..4 hex digits -/
def hexGroup (f : Bytes) : Option Nat :=
  if f = [] ∨ f.length > 4 then none else hexVal f 0

/-- colon-separated groups; when `v4last`, the last field may be a dotted quad standing for two groups -/
def groupsOf (v4last : Bool) : List Bytes → Option (List Nat)
  | [] => some []
  | [f] =>
    (match hexGroup f with
     | some g => some [g]
     | none => if v4last then (match dottedQuad f with
         | some [a, b, c, d] => some [a * 256 + b, c * 256 + d]
         | _ => none) else none)
  | f :: r => match hexGroup f, groupsOf v4last r with
    | some g, some gs => some (g :: gs)
    | _, _ => none

/-- the fields of one side of `::` (the empty side has no field) -/
def side (v4last : Bool) (s : Bytes) : Option (List Nat) := if s = [] then some [] else groupsOf v4last (splitOn 58 s)

/-- position of the first `::` -/
def findDoubleColon : Bytes → Nat → Option Nat
  | 58 :: 58 :: _, i => some i
  | _ :: r, i => findDoubleColon r (i+1)
  | [], _ => none

def groupBytes (gs : List Nat) : Bytes := gs.flatMap (fun g => [UInt8.ofNat (g / 256), UInt8.ofNat (g % 256)])

/-- an IPv6 literal without zone: 16 bytes -/
def ipv6 (s : Bytes) : Option Bytes :=
  match findDoubleColon s 0 with
  | none => (match groupsOf true (splitOn 58 s) with
      | some gs => if gs.length = 8 then some (groupBytes gs) else none
      | none => none)
  | some i =>
    (match side false (s.take i), side true (s.drop (i+2)) with
     | some l, some r =>
       if l.length + r.length ≤ 7 then some (groupBytes (l ++ List.replicate (8 - l.length - r.length) 0 ++ r)) else none
     | _, _ => none)

/-- the address a string denotes: (4 or 16 bytes, zone); `none` = not an IP address literal -/
def parseIP (s : Bytes) : Option (Bytes × Bytes) :=
  match splitOn 37 s with
  | [a] => if a.contains 58 then (ipv6 a).map (fun b => (b, []))
           else (dottedQuad a).map (fun q => (q.map UInt8.ofNat, []))
  | a :: z :: rest =>
    -- a zone: after an IPv6 address only, non-empty (everything after the first `%`)
    if a.contains 58 ∧ (z ≠ [] ∨ rest ≠ []) then
      (ipv6 a).map (fun b => (b, s.drop (a.length + 1)))
    else none
  | [] => none

/-- the IPv4 address of an IPv4-mapped IPv6 address (::ffff:a.b.c.d), any other address unchanged -/
def unmap (b : Bytes) : Bytes :=
  if b.length = 16 ∧ b.take 10 = List.replicate 10 0 ∧ (b.drop 10).take 2 = [255, 255] then b.drop 12 else b

/-! ## dates -/

def isLeap (y : Nat) : Bool := (y % 4 = 0 && y % 100 ≠ 0) || y % 400 = 0

def daysInMonth (y m : Nat) : Nat :=
  if m = 2 then (if isLeap y then 29 else 28)
  else if m = 4 ∨ m = 6 ∨ m = 9 ∨ m = 11 then 30 else 31

/-- days from 1970-01-01 to y-m-d in the proleptic Gregorian calendar (civil-from-days, era arithmetic) -/
def daysFromCivil (y m d : Nat) : Int :=
  let y' : Int := if m ≤ 2 then (y : Int) - 1 else y
  let era : Int := y' / 400
  let yoe : Int := y' - era * 400
  let mp : Int := if m > 2 then (m : Int) - 3 else (m : Int) + 9
  let doy : Int := (153 * mp + 2) / 5 + d - 1
  let doe : Int := yoe * 365 + yoe / 4 - yoe / 100 + doy
  era * 146097 + doe - 719468

/-- `YYYY-MM-DD`: the day number, `none` = not a date -/
def parseDate (s : Bytes) : Option Int :=
  match s with
  | [y1, y2, y3, y4, 45, m1, m2, 45, d1, d2] =>
    (match decVal [y1, y2, y3, y4] 0, decVal [m1, m2] 0, decVal [d1, d2] 0 with
     | some y, some m, some d =>
       if 1 ≤ m ∧ m ≤ 12 ∧ 1 ≤ d ∧ d ≤ daysInMonth y m then some (daysFromCivil y m d) else none
     | _, _, _ => none)
  | _ => none

/-! ## UUID literals: "a 32 digit hexadecimal number (that might contain hyphens)" (gocql's documentation of ParseUUID;
     RFC 4122 §3 writes 8-4-4-4-12 lower case and accepts upper case on input).  Hyphens separate whole bytes: a hyphen
     between the two digits of one byte is no separator.  Braces, `urn:uuid:`, whitespace are not part of the number. -/

def uuidDigits : Bytes → Nat → List Nat → Option (List Nat)
  | [], _, acc => some acc.reverse
  | c :: r, j, acc =>
    if c = 45 ∧ j % 2 = 0 then uuidDigits r j acc
    else match hexDigitVal c with
      | some d => uuidDigits r (j+1) (d :: acc)
      | none => none

def pairBytes : List Nat → Bytes
  | a :: b :: r => UInt8.ofNat (a * 16 + b) :: pairBytes r
  | _ => []

def parseUUIDLit (s : Bytes) : Option Bytes :=
  match uuidDigits s 0 [] with
  | some ds => if ds.length = 32 then some (pairBytes ds) else none
  | none => none

/-! ## the demanded outcome -/

inductive Outcome
  | merr                                  -- Marshal must refuse
  | ok (bytes : Bytes) (back : Bytes)     -- the bytes, and the string a `*string` gets back
  | inconsistent                          -- (never) the canonical string does not denote the value
  | undocumented
deriving Repr, DecidableEq

def intBytes : CqlTy → Option Nat
  | .tinyint => some 1 | .smallint => some 2 | .int => some 4 | .bigint => some 8 | .counter => some 8 | _ => none

def strSpec (t : CqlTy) (s : Bytes) : Outcome :=
  match t with
  | .inet =>
    (match parseIP s with
     | none => .merr
     | some (a, zone) =>
       if zone ≠ [] then .merr            -- a zoned address is not a value of the column
       else
         let b := unmap a
         let back := Marshal.ipString b
         (match parseIP back with
          | some (a', []) => if unmap a' = b then .ok b back else .inconsistent
          | _ => .inconsistent))
  | .date =>
    if s = [] then .ok [] []               -- gocql's convention: "" ↔ the empty value
    else (match parseDate s with
     | none => .merr
     | some d => .ok (ValueSpec.beBytes 4 (d + 2147483648).toNat) s)
  | .uuid | .timeuuid =>
    (match parseUUIDLit s with
     | none => .merr
     | some b =>
       let back := Marshal.uuidString b
       (match parseUUIDLit back with
        | some b' => if b' = b then .ok b back else .inconsistent
        | none => .inconsistent))
  | .varint =>
    (match Marshal.parseDec s with
     | none => .merr
     | some n =>
       -- a number outside int64 may be refused (strconv.ParseInt; recorded with rtx): not claimed here
       if ValueSpec.fitsS 8 n then .ok (ValueSpec.specVarint n) (Marshal.formatInt n) else .merr)
  | t =>
    (match intBytes t with
     | some w => (match Marshal.parseDec s with
        | none => .merr
        | some n => if ValueSpec.fitsS w n then .ok (ValueSpec.tcEnc w n) (Marshal.formatInt n) else .merr)
     | none => .undocumented)

end StrSpec
