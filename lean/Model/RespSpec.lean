/-
C04 — SPECIFICATION side: logical server responses and an ENCODER from logical responses to bytes,
written from the CQL native protocol documents v1..v5 only (DESIGN.md appendix E8, E10; "v5" is the
beta subset gocql speaks: legacy framing, reason maps in READ_FAILURE / WRITE_FAILURE, no
result-metadata id). Nothing in the encoder refers to the parser model (Model/FrameRead.lean): the
primitive writers below are the spec's notation section ([int], [short], [string], [bytes], ...).

The second half defines `view`: the content a driver is expected to report for a logical response, in
the shape of gocql's parsed structures (the types of Model/FrameRead.lean are reused as the target
vocabulary; the class-name table is written again here, independently of the model's if-chain).
Core Lean only.
-/
import Model.FrameRead
namespace RespSpec

abbrev Bytes := List UInt8

/-! ## notation of the protocol documents, section 3 -/

def eByte (n : Nat) : Bytes := [UInt8.ofNat n]

/-- `[short]`: 2 bytes unsigned big endian -/
def eShort (n : Nat) : Bytes := [UInt8.ofNat (n / 256), UInt8.ofNat (n % 256)]

/-- 4 bytes unsigned big endian -/
def eUInt (n : Nat) : Bytes :=
  [UInt8.ofNat (n / 16777216), UInt8.ofNat (n / 65536 % 256), UInt8.ofNat (n / 256 % 256), UInt8.ofNat (n % 256)]

/-- `[int]`: 4 bytes two's complement big endian -/
def eInt (z : Int) : Bytes := eUInt (z % 4294967296).toNat

/-- `[string]` / `[short bytes]` -/
def eString (s : Bytes) : Bytes := eShort s.length ++ s

/-- `[bytes]`: n < 0 is null -/
def eBytes : Option Bytes → Bytes
  | none => eInt (-1)
  | some b => eInt b.length ++ b

def eStringList (l : List Bytes) : Bytes := eShort l.length ++ l.flatMap eString

/-- `[bytes map]` -/
def eBytesMap (m : List (Bytes × Option Bytes)) : Bytes :=
  eShort m.length ++ m.flatMap (fun kv => eString kv.1 ++ eBytes kv.2)

/-- `[string multimap]` -/
def eStringMultiMap (m : List (Bytes × List Bytes)) : Bytes :=
  eShort m.length ++ m.flatMap (fun kv => eString kv.1 ++ eStringList kv.2)

/-- `[inetaddr]`: one byte n (4 or 16) and the n address bytes -/
def eInetAddr (addr : Bytes) : Bytes := eByte addr.length ++ addr

/-- `[inet]`: address and `[int]` port -/
def eInet (addr : Bytes) (port : Int) : Bytes := eInetAddr addr ++ eInt port

/-! ## logical responses -/

mutual
/-- `<type>` option of the result metadata -/
inductive TypeDesc
  | native (id : Nat)                    -- 0x0001 .. 0x0015 (ascii .. duration): no value
  | custom (cls : Bytes)                 -- 0x0000 <string>
  | list (e : TypeDesc)                  -- 0x0020 <type>
  | map (k v : TypeDesc)                 -- 0x0021 <type><type>
  | set (e : TypeDesc)                   -- 0x0022 <type>
  | udt (ks name : Bytes) (fields : FieldDescs)   -- 0x0030 <ks><name><n>(<fname><type>)*
  | tuple (elems : TypeDescs)            -- 0x0031 <n><type>*
inductive TypeDescs
  | nil
  | cons (t : TypeDesc) (r : TypeDescs)
inductive FieldDescs
  | nil
  | cons (name : Bytes) (t : TypeDesc) (r : FieldDescs)
end

def TypeDescs.length : TypeDescs → Nat
  | .nil => 0
  | .cons _ r => r.length + 1

def FieldDescs.length : FieldDescs → Nat
  | .nil => 0
  | .cons _ _ r => r.length + 1

def TypeDescs.ofList : List TypeDesc → TypeDescs
  | [] => .nil
  | t :: r => .cons t (TypeDescs.ofList r)

def FieldDescs.ofList : List (Bytes × TypeDesc) → FieldDescs
  | [] => .nil
  | (n, t) :: r => .cons n t (FieldDescs.ofList r)

mutual
def eType : TypeDesc → Bytes
  | .native id => eShort id
  | .custom cls => eShort 0x0000 ++ eString cls
  | .list e => eShort 0x0020 ++ eType e
  | .map k v => eShort 0x0021 ++ (eType k ++ eType v)
  | .set e => eShort 0x0022 ++ eType e
  | .udt ks name fs => eShort 0x0030 ++ (eString ks ++ (eString name ++ (eShort fs.length ++ eFields fs)))
  | .tuple es => eShort 0x0031 ++ (eShort es.length ++ eTypes es)
def eTypes : TypeDescs → Bytes
  | .nil => []
  | .cons t r => eType t ++ eTypes r
def eFields : FieldDescs → Bytes
  | .nil => []
  | .cons n t r => (eString n ++ eType t) ++ eFields r
end

structure ColSpec where
  ks : Bytes
  table : Bytes
  name : Bytes
  typ : TypeDesc

/-- the column specifications of a `<metadata>` -/
inductive Cols
  | omitted (count : Nat) (globalBit : Bool)     -- flag 0x04 No_metadata: only the column count
  | global (ks table : Bytes) (cols : List (Bytes × TypeDesc))  -- flag 0x01 Global_tables_spec
  | perCol (cols : List ColSpec)

/-- `<metadata>`: `<flags int><columns_count int>[<paging_state bytes>][<global_table_spec>]<col_spec>*` -/
structure Meta where
  paging : Option Bytes          -- flag 0x02 Has_more_pages
  cols : Cols

def Cols.count : Cols → Nat
  | .omitted n _ => n
  | .global _ _ cs => cs.length
  | .perCol cs => cs.length

def Cols.flagBits : Cols → Nat
  | .omitted _ g => 0x04 + (if g then 0x01 else 0)
  | .global _ _ _ => 0x01
  | .perCol _ => 0

def Meta.flagBits (m : Meta) : Nat := m.cols.flagBits + (if m.paging.isSome then 0x02 else 0)

def eColsBody : Cols → Bytes
  | .omitted _ _ => []
  | .global ks tb cs => eString ks ++ (eString tb ++ cs.flatMap (fun c => eString c.1 ++ eType c.2))
  | .perCol cs => cs.flatMap (fun c => eString c.ks ++ (eString c.table ++ (eString c.name ++ eType c.typ)))

def ePaging : Option Bytes → Bytes
  | none => []
  | some p => eBytes (some p)

/-- result `<metadata>` -/
def eMeta (m : Meta) : Bytes :=
  eInt m.flagBits ++ (eInt m.cols.count ++ (ePaging m.paging ++ eColsBody m.cols))

/-- prepared `<metadata>`: v4+ adds `<pk_count int><pk_index short>*` after the column count -/
def ePreparedMeta (v : Nat) (pk : List Nat) (m : Meta) : Bytes :=
  eInt m.flagBits ++ (eInt m.cols.count ++
    ((if v ≥ 4 then eInt pk.length ++ pk.flatMap eShort else []) ++ (ePaging m.paging ++ eColsBody m.cols)))

/-- a cell of a row as the server means it: null, opaque bytes, or (for a tuple column) the
    sequence of its fields, each a `[bytes]` -/
inductive Cell
  | null
  | bytes (b : Bytes)
  | tuple (fields : List (Option Bytes))

def eTupleBody (fields : List (Option Bytes)) : Bytes := fields.flatMap eBytes

def eCell : Cell → Bytes
  | .null => eBytes none
  | .bytes b => eBytes (some b)
  | .tuple fs => eBytes (some (eTupleBody fs))

def eRows (rows : List (List Cell)) : Bytes := rows.flatMap (fun r => r.flatMap eCell)

inductive SchemaChange
  | keyspace (change ks : Bytes)
  | table (change ks name : Bytes)
  | udt (change ks name : Bytes)
  | function (change ks name : Bytes) (args : List Bytes)
  | aggregate (change ks name : Bytes) (args : List Bytes)

/-- v3+: `<change_type><target><options>`; v1/v2: `<change><keyspace><table>` with an empty table
    for a keyspace change -/
def eSchemaChange (v : Nat) : SchemaChange → Bytes
  | .keyspace ch ks =>
    if v ≤ 2 then eString ch ++ (eString ks ++ eString [])
    else eString ch ++ (eString b!"KEYSPACE" ++ eString ks)
  | .table ch ks n =>
    if v ≤ 2 then eString ch ++ (eString ks ++ eString n)
    else eString ch ++ (eString b!"TABLE" ++ (eString ks ++ eString n))
  | .udt ch ks n => eString ch ++ (eString b!"TYPE" ++ (eString ks ++ eString n))
  | .function ch ks n args => eString ch ++ (eString b!"FUNCTION" ++ (eString ks ++ (eString n ++ eStringList args)))
  | .aggregate ch ks n args => eString ch ++ (eString b!"AGGREGATE" ++ (eString ks ++ (eString n ++ eStringList args)))

inductive Result
  | void
  | rows (m : Meta) (rows : List (List Cell))
  | setKeyspace (ks : Bytes)
  | prepared (id : Bytes) (pk : List Nat) (req : Meta) (resp : Option Meta)
  | schemaChange (sc : SchemaChange)

def eResult (v : Nat) : Result → Bytes
  | .void => eInt 1
  | .rows m rs => eInt 2 ++ (eMeta m ++ (eInt rs.length ++ eRows rs))
  | .setKeyspace ks => eInt 3 ++ eString ks
  | .prepared id pk req resp =>
    eInt 4 ++ (eString id ++ (ePreparedMeta v pk req ++ (match resp with | some m => eMeta m | none => [])))
  | .schemaChange sc => eInt 5 ++ eSchemaChange v sc

/-- number of failures: an `[int]` up to v4, a reason map `<n int>(<inetaddr><code short>)*` in v5 -/
inductive Failures
  | count (n : Int)
  | reasons (m : List (Bytes × Nat))

def eFailures : Failures → Bytes
  | .count n => eInt n
  | .reasons m => eInt m.length ++ m.flatMap (fun ac => eInetAddr ac.1 ++ eShort ac.2)

inductive ErrBody
  | simple (code : Nat)   -- 0x0000 0x000A 0x0100 0x1001 0x1002 0x1003 0x2000 0x2100 0x2200 0x2300
  | unavailable (cl : Nat) (required alive : Int)                                   -- 0x1000
  | writeTimeout (cl : Nat) (received blockfor : Int) (writeType : Bytes)           -- 0x1100
  | readTimeout (cl : Nat) (received blockfor : Int) (dataPresent : Nat)            -- 0x1200
  | readFailure (cl : Nat) (received blockfor : Int) (f : Failures) (dataPresent : Nat)  -- 0x1300
  | functionFailure (ks fn : Bytes) (argTypes : List Bytes)                         -- 0x1400
  | writeFailure (cl : Nat) (received blockfor : Int) (f : Failures) (writeType : Bytes) -- 0x1500
  | cdcWriteFailure                                                                 -- 0x1600
  | casWriteUnknown (cl : Nat) (received blockfor : Int)                            -- 0x1700
  | alreadyExists (ks table : Bytes)                                                -- 0x2400
  | unprepared (id : Bytes)                                                         -- 0x2500

def simpleCodes : List Nat := [0x0000, 0x000A, 0x0100, 0x1001, 0x1002, 0x1003, 0x2000, 0x2100, 0x2200, 0x2300]

def ErrBody.code : ErrBody → Nat
  | .simple c => c
  | .unavailable .. => 0x1000
  | .writeTimeout .. => 0x1100
  | .readTimeout .. => 0x1200
  | .readFailure .. => 0x1300
  | .functionFailure .. => 0x1400
  | .writeFailure .. => 0x1500
  | .cdcWriteFailure => 0x1600
  | .casWriteUnknown .. => 0x1700
  | .alreadyExists .. => 0x2400
  | .unprepared .. => 0x2500

def eErrBody : ErrBody → Bytes
  | .simple _ => []
  | .unavailable cl rq al => eShort cl ++ (eInt rq ++ eInt al)
  | .writeTimeout cl rc bf wt => eShort cl ++ (eInt rc ++ (eInt bf ++ eString wt))
  | .readTimeout cl rc bf dp => eShort cl ++ (eInt rc ++ (eInt bf ++ eByte dp))
  | .readFailure cl rc bf f dp => eShort cl ++ (eInt rc ++ (eInt bf ++ (eFailures f ++ eByte dp)))
  | .functionFailure ks fn args => eString ks ++ (eString fn ++ eStringList args)
  | .writeFailure cl rc bf f wt => eShort cl ++ (eInt rc ++ (eInt bf ++ (eFailures f ++ eString wt)))
  | .cdcWriteFailure => []
  | .casWriteUnknown cl rc bf => eShort cl ++ (eInt rc ++ eInt bf)
  | .alreadyExists ks tb => eString ks ++ eString tb
  | .unprepared id => eString id

inductive Event
  | topology (change addr : Bytes) (port : Int)
  | status (change addr : Bytes) (port : Int)
  | schema (sc : SchemaChange)

def eEvent (v : Nat) : Event → Bytes
  | .topology ch a p => eString b!"TOPOLOGY_CHANGE" ++ (eString ch ++ eInet a p)
  | .status ch a p => eString b!"STATUS_CHANGE" ++ (eString ch ++ eInet a p)
  | .schema sc => eString b!"SCHEMA_CHANGE" ++ eSchemaChange v sc

inductive Body
  | error (msg : Bytes) (e : ErrBody)
  | ready
  | authenticate (cls : Bytes)
  | supported (opts : List (Bytes × List Bytes))
  | result (r : Result)
  | event (e : Event)
  | authChallenge (token : Option Bytes)
  | authSuccess (token : Option Bytes)

def Body.opcode : Body → Nat
  | .error .. => 0x00
  | .ready => 0x02
  | .authenticate _ => 0x03
  | .supported _ => 0x06
  | .result _ => 0x08
  | .event _ => 0x0C
  | .authChallenge _ => 0x0E
  | .authSuccess _ => 0x10

def eMsg (v : Nat) : Body → Bytes
  | .error msg e => eInt e.code ++ (eString msg ++ eErrBody e)
  | .ready => []
  | .authenticate c => eString c
  | .supported o => eStringMultiMap o
  | .result r => eResult v r
  | .event e => eEvent v e
  | .authChallenge t => eBytes t
  | .authSuccess t => eBytes t

/-- a response as the server means it. `tracing` is the 16-byte tracing id (flag 0x02), `warnings`
    (flag 0x08) and `payload` (flag 0x04) exist from v4 on. `extraFlags` are further header flag
    bits the server may set (0x10 beta in v5); compression (0x01) is a property of the transport
    of the body, not of the response (see `encodeFrame`). -/
structure LResp where
  stream : Int
  tracing : Option Bytes
  warnings : Option (List Bytes)
  payload : Option (List (Bytes × Option Bytes))
  beta : Bool
  body : Body

def LResp.flags (r : LResp) : Nat :=
  (if r.tracing.isSome then 0x02 else 0) + (if r.payload.isSome then 0x04 else 0) +
  (if r.warnings.isSome then 0x08 else 0) + (if r.beta then 0x10 else 0)

def eTracing : Option Bytes → Bytes
  | some t => t
  | none => []

def eWarnings : Option (List Bytes) → Bytes
  | some w => eStringList w
  | none => []

def ePayload : Option (List (Bytes × Option Bytes)) → Bytes
  | some p => eBytesMap p
  | none => []

/-- the frame body: `[tracing id][warnings string list][custom payload bytes map]<message>` -/
def encodeBody (v : Nat) (r : LResp) : Bytes :=
  eTracing r.tracing ++ (eWarnings r.warnings ++ (ePayload r.payload ++ eMsg v r.body))

/-- `byte(stream)` bytes of a stream id: 1 signed byte in v1/v2, 2 in v3+ -/
def eStream (v : Nat) (s : Int) : Bytes :=
  if v ≤ 2 then [UInt8.ofNat (s % 256).toNat] else eShort (s % 65536).toNat

/-- frame header: `<version|0x80><flags><stream><opcode><length int>` -/
def eHeader (v : Nat) (flags : Nat) (stream : Int) (op : Nat) (len : Nat) : Bytes :=
  eByte (v + 0x80) ++ (eByte flags ++ (eStream v stream ++ (eByte op ++ eInt len)))

/-- the whole frame, body not compressed -/
def encodeFrame (v : Nat) (r : LResp) : Bytes :=
  eHeader v r.flags r.stream r.body.opcode (encodeBody v r).length ++ encodeBody v r

/-- the whole frame with the body passed through a compressor's encoder output `z` (flag 0x01) -/
def encodeFrameCompressed (v : Nat) (r : LResp) (z : Bytes) : Bytes :=
  eHeader v (r.flags + 0x01) r.stream r.body.opcode z.length ++ z

/-! ## the driver-visible content (`view`) -/

open FrameRead (Native TypeInfo ColumnInfo ResultMeta PreparedMeta ErrDetail Frame Resp Header)

/-- gocql's documented mapping of Cassandra marshal class names (with or without the
    `org.apache.cassandra.db.marshal.` prefix) to native types; written as a table -/
def classTable : List (Bytes × Nat) :=
  [(b!"AsciiType", 0x01), (b!"LongType", 0x02), (b!"BytesType", 0x03), (b!"BooleanType", 0x04),
   (b!"CounterColumnType", 0x05), (b!"DecimalType", 0x06), (b!"DoubleType", 0x07), (b!"FloatType", 0x08),
   (b!"Int32Type", 0x09), (b!"ShortType", 0x13), (b!"ByteType", 0x14), (b!"TimeType", 0x12),
   (b!"DateType", 0x0B), (b!"TimestampType", 0x0B), (b!"UUIDType", 0x0C), (b!"LexicalUUIDType", 0x0C),
   (b!"UTF8Type", 0x0D), (b!"IntegerType", 0x0E), (b!"TimeUUIDType", 0x0F), (b!"InetAddressType", 0x10),
   (b!"MapType", 0x21), (b!"ListType", 0x20), (b!"SetType", 0x22), (b!"TupleType", 0x31),
   (b!"DurationType", 0x15)]

def marshalPrefix : Bytes := b!"org.apache.cassandra.db.marshal."

def stripMarshalPrefix (cls : Bytes) : Bytes :=
  if marshalPrefix.isPrefixOf cls then cls.drop marshalPrefix.length else cls

def classLookup (c : Bytes) : Nat := (classTable.lookup c).getD 0

def classType (cls : Bytes) : Nat := classLookup (stripMarshalPrefix cls)

/-- option ids whose descriptor carries element types -/
def elemKinds : List Nat := [0x20, 0x21, 0x22, 0x31]

/-- the type of a custom option `0x0000 <class>`: the table's native type for the class; a custom
    option carries nothing but the class name, so a class the table maps to a collection / tuple
    kind (the bare marshal class names `ListType`, `SetType`, `MapType`, `TupleType`: no element
    types) and every unknown class stays custom (0x0000) -/
def customType (cls : Bytes) : Nat :=
  if elemKinds.contains (classType cls) then 0 else classType cls

mutual
def viewType : TypeDesc → TypeInfo
  | .native id => .native { typ := id, custom := [] }
  | .custom cls => .native { typ := customType cls, custom := cls }
  | .list e => .coll { typ := 0x20, custom := [] } none (viewType e)
  | .map k v => .coll { typ := 0x21, custom := [] } (some (viewType k)) (viewType v)
  | .set e => .coll { typ := 0x22, custom := [] } none (viewType e)
  | .udt ks name fs => .udt { typ := 0x30, custom := [] } ks name (viewFields fs)
  | .tuple es => .tuple { typ := 0x31, custom := [] } (viewTypes es)
def viewTypes : TypeDescs → List TypeInfo
  | .nil => []
  | .cons t r => viewType t :: viewTypes r
def viewFields : FieldDescs → List (Bytes × TypeInfo)
  | .nil => []
  | .cons n t r => (n, viewType t) :: viewFields r
end

def viewCols : Cols → List ColumnInfo
  | .omitted _ _ => []
  | .global ks tb cs => cs.map (fun c => { keyspace := ks, table := tb, name := c.1, typ := viewType c.2 })
  | .perCol cs => cs.map (fun c => { keyspace := c.ks, table := c.table, name := c.name, typ := viewType c.typ })

/-- number of destinations a column occupies in Scan: a tuple column expands to its elements -/
def destWidth : TypeDesc → Nat
  | .tuple es => es.length
  | _ => 1

def colTypes : Cols → List TypeDesc
  | .omitted _ _ => []
  | .global _ _ cs => cs.map (·.2)
  | .perCol cs => cs.map (·.typ)

/-- total number of scannable destinations: the column count, each tuple column counted with its
    number of elements (for omitted metadata: the column count) -/
def actualCount : Cols → Int
  | .omitted n _ => n
  | c => (c.count : Int) + ((colTypes c).map (fun t => (destWidth t : Int) - 1)).sum

def viewMeta (m : Meta) : ResultMeta :=
  { flags := m.flagBits, pagingState := m.paging, columns := viewCols m.cols,
    colCount := m.cols.count, actualColCount := actualCount m.cols }

def globalOf : Cols → Bytes × Bytes
  | .global ks tb _ => (ks, tb)
  | _ => ([], [])

def viewPrepared (v : Nat) (pk : List Nat) (m : Meta) : PreparedMeta :=
  { md := viewMeta m, pkeyColumns := if v ≥ 4 then some pk else none,
    keyspace := (globalOf m.cols).1, table := (globalOf m.cols).2 }

def viewSchemaChange : SchemaChange → Frame
  | .keyspace ch ks => .schemaKeyspace ch ks
  | .table ch ks n => .schemaTable ch ks n
  | .udt ch ks n => .schemaType ch ks n
  | .function ch ks n a => .schemaFunction ch ks n a
  | .aggregate ch ks n a => .schemaAggregate ch ks n a

def viewFailures : Failures → Int × Option (List (Bytes × Nat))
  | .count n => (n, none)
  | .reasons m => (m.length, some (m.map (fun ac => (FrameRead.ipKey ac.1, ac.2))))

def viewErr : ErrBody → ErrDetail
  | .simple _ => .plain
  | .unavailable cl rq al => .unavailable cl rq al
  | .writeTimeout cl rc bf wt => .writeTimeout cl rc bf wt
  | .readTimeout cl rc bf dp => .readTimeout cl rc bf (UInt8.ofNat dp)
  | .readFailure cl rc bf f dp => .readFailure cl rc bf (viewFailures f).1 (dp != 0) (viewFailures f).2
  | .functionFailure ks fn a => .functionFailure ks fn a
  | .writeFailure cl rc bf f wt => .writeFailure cl rc bf (viewFailures f).1 wt (viewFailures f).2
  | .cdcWriteFailure => .cdcWriteFailure
  | .casWriteUnknown cl rc bf => .casWriteUnknown cl rc bf
  | .alreadyExists ks tb => .alreadyExists ks tb
  | .unprepared id => .unprepared id

def viewBody (v : Nat) : Body → Frame
  | .error msg e => .error e.code msg (viewErr e)
  | .ready => .ready
  | .authenticate c => .authenticate c
  | .supported o => .supported o
  | .result .void => .resultVoid
  | .result (.rows m rs) => .resultRows (viewMeta m) rs.length
  | .result (.setKeyspace ks) => .resultKeyspace ks
  | .result (.prepared id pk req resp) =>
    .resultPrepared id (viewPrepared v pk req) (match resp with | some m => viewMeta m | none => ResultMeta.zero)
  | .result (.schemaChange sc) => viewSchemaChange sc
  | .event (.topology ch a p) => .topologyChange ch a p
  | .event (.status ch a p) => .statusChange ch a p
  | .event (.schema sc) => viewSchemaChange sc
  | .authChallenge t => .authChallenge t
  | .authSuccess t => .authSuccess t

def view (v : Nat) (r : LResp) : Resp :=
  { traceId := r.tracing, warnings := r.warnings, payload := r.payload, frame := viewBody v r.body }

def restOfBody : Body → Bytes
  | .result (.rows _ rs) => eRows rs
  | _ => []

/-- what is left in the buffer after the frame has been parsed: the rows of a RESULT/Rows, which
    the iterator reads later -/
def restOf (r : LResp) : Bytes := restOfBody r.body

/-- the header fields the driver reads off the wire for `encodeFrame v r` -/
def hdr (v : Nat) (r : LResp) : Header :=
  { version := UInt8.ofNat (v + 0x80), flags := UInt8.ofNat r.flags, stream := r.stream,
    op := UInt8.ofNat r.body.opcode, length := (encodeBody v r).length }

/-! ## well-formedness (sizes the notation can carry, the spec's enumerations, distinct map keys) -/

def fitsShort (s : Bytes) : Bool := s.length < 65536
def fitsInt (s : Bytes) : Bool := s.length < 2147483648
def isInt32 (z : Int) : Bool := -2147483648 ≤ z && z < 2147483648
def isShort (n : Nat) : Bool := n < 65536

/-- option ids with a value (custom, collections, UDT, tuple) are not `native` -/
def structuredIds : List Nat := [0x00, 0x20, 0x21, 0x22, 0x30, 0x31]

mutual
def wfType : TypeDesc → Bool
  | .native id => isShort id && !structuredIds.contains id
  | .custom cls => fitsShort cls
  | .list e => wfType e
  | .map k v => wfType k && wfType v
  | .set e => wfType e
  | .udt ks name fs => fitsShort ks && fitsShort name && isShort fs.length && wfFields fs
  | .tuple es => isShort es.length && wfTypes es
def wfTypes : TypeDescs → Bool
  | .nil => true
  | .cons t r => wfType t && wfTypes r
def wfFields : FieldDescs → Bool
  | .nil => true
  | .cons n t r => fitsShort n && wfType t && wfFields r
end

def wfCols : Cols → Bool
  | .omitted n _ => n < 2147483648
  | .global ks tb cs => fitsShort ks && fitsShort tb && cs.length < 2147483648 &&
      cs.all (fun c => fitsShort c.1 && wfType c.2)
  | .perCol cs => cs.length < 2147483648 &&
      cs.all (fun c => fitsShort c.ks && fitsShort c.table && fitsShort c.name && wfType c.typ)

def optFitsInt : Option Bytes → Bool
  | none => true
  | some b => fitsInt b

def wfMeta (m : Meta) : Bool := optFitsInt m.paging && wfCols m.cols

def wfSchemaChange (v : Nat) : SchemaChange → Bool
  | .keyspace ch ks => fitsShort ch && fitsShort ks
  | .table ch ks n => fitsShort ch && fitsShort ks && fitsShort n && (v > 2 || n != [])
  | .udt ch ks n => v > 2 && fitsShort ch && fitsShort ks && fitsShort n
  | .function ch ks n a => v > 2 && fitsShort ch && fitsShort ks && fitsShort n && isShort a.length && a.all fitsShort
  | .aggregate ch ks n a => v > 2 && fitsShort ch && fitsShort ks && fitsShort n && isShort a.length && a.all fitsShort

def isAddr (a : Bytes) : Bool := a.length == 4 || a.length == 16

/-- the reason map is a map: distinct addresses (as the driver prints them) -/
def wfFailures (v : Nat) : Failures → Bool
  | .count n => v ≤ 4 && isInt32 n
  | .reasons m => v > 4 && m.length < 2147483648 && m.all (fun ac => isAddr ac.1 && isShort ac.2) &&
      decide ((m.map (fun ac => FrameRead.ipKey ac.1)).Nodup)

def wfErr (v : Nat) : ErrBody → Bool
  | .simple c => simpleCodes.contains c
  | .unavailable cl rq al => isShort cl && isInt32 rq && isInt32 al
  | .writeTimeout cl rc bf wt => isShort cl && isInt32 rc && isInt32 bf && fitsShort wt
  | .readTimeout cl rc bf dp => isShort cl && isInt32 rc && isInt32 bf && dp < 256
  | .readFailure cl rc bf f dp => isShort cl && isInt32 rc && isInt32 bf && wfFailures v f && dp < 256
  | .functionFailure ks fn a => fitsShort ks && fitsShort fn && isShort a.length && a.all fitsShort
  | .writeFailure cl rc bf f wt => isShort cl && isInt32 rc && isInt32 bf && wfFailures v f && fitsShort wt
  | .cdcWriteFailure => true
  | .casWriteUnknown cl rc bf => isShort cl && isInt32 rc && isInt32 bf
  | .alreadyExists ks tb => fitsShort ks && fitsShort tb
  | .unprepared id => fitsShort id

def wfResult (v : Nat) : Result → Bool
  | .void => true
  | .rows m rs => wfMeta m && rs.length < 2147483648
  | .setKeyspace ks => fitsShort ks
  | .prepared id pk req (some m) => fitsShort id && wfMeta req && pk.length < 2147483648 && pk.all isShort &&
      (v ≥ 2 && wfMeta m)
  | .prepared id pk req none => fitsShort id && wfMeta req && pk.length < 2147483648 && pk.all isShort && v < 2
  | .schemaChange sc => wfSchemaChange v sc

def wfEvent (v : Nat) : Event → Bool
  | .topology ch a p => fitsShort ch && isAddr a && isInt32 p
  | .status ch a p => fitsShort ch && isAddr a && isInt32 p
  | .schema sc => wfSchemaChange v sc

def wfBody (v : Nat) : Body → Bool
  | .error msg e => fitsShort msg && wfErr v e
  | .ready => true
  | .authenticate c => fitsShort c
  | .supported o => isShort o.length && o.all (fun kv => fitsShort kv.1 && isShort kv.2.length && kv.2.all fitsShort) &&
      decide ((o.map (·.1)).Nodup)
  | .result r => wfResult v r
  | .event e => wfEvent v e
  | .authChallenge t => optFitsInt t
  | .authSuccess t => optFitsInt t

def wfTracing : Option Bytes → Bool
  | some t => t.length == 16
  | none => true

def wfWarnings : Option (List Bytes) → Bool
  | some w => isShort w.length && w.all fitsShort
  | none => true

def wfPayload : Option (List (Bytes × Option Bytes)) → Bool
  | some p => isShort p.length && p.all (fun kv => fitsShort kv.1 && optFitsInt kv.2) && decide ((p.map (·.1)).Nodup)
  | none => true

/-- well-formed response for protocol version `v` (1..5) -/
def wf (v : Nat) (r : LResp) : Bool :=
  (1 ≤ v && v ≤ 5) && wfTracing r.tracing && wfWarnings r.warnings && wfPayload r.payload && wfBody v r.body

/-- the spec's per-version constraints that the decode theorem does NOT need (the parser is driven by
    the flags, not by the version): warnings / custom payload only from v4, beta flag only in v5,
    pk indexes only from v4 -/
def versionOk (v : Nat) (r : LResp) : Bool :=
  (v ≥ 4 || (r.warnings.isNone && r.payload.isNone)) && (v == 5 || !r.beta)

end RespSpec
