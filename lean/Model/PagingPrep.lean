import Model.Paging
/-!
  A failing PREPARE at a page fetch (C15, tier `psess`).

    conn.go  executeQuery, prepared statement: `info, err = c.prepareStatement(ctx, qry.stmt, qry.trace);
             if err != nil { return &Iter{err: err} }` — before the EXECUTE is built. prepareStatement sends a
             PREPARE only when the statement is not in the cache: for the first fetch of an uncached statement
             and, at ANY page, after an UNPREPARED answer (`evictPreparedID`, then `return c.executeQuery(ctx,
             qry)`: PREPARE again, EXECUTE again). If that PREPARE is answered with an ERROR (or fails), the
             fetch yields that error and NO EXECUTE is sent; a failed PREPARE is not cached.

  The script is positional over FETCH ATTEMPTS: entry k is the answer to the k-th EXECUTE/QUERY (`base`), or
  says that the PREPARE of the k-th attempt fails (`prepFail`), in which case that attempt sends no EXECUTE.
  A `prepFail` entry where no PREPARE is due (statement cached, or not a prepared statement) cannot be
  realised by a server: `valid` says where they may stand; the model treats them like a failure of the attempt.
-/
namespace Paging.Prep
open Paging

inductive PReply where
  | base (r : Reply)
  | prepFail (f : Fail)
  deriving DecidableEq, Repr

/-- the same script as the application sees it: a failed PREPARE is a failed fetch -/
def toBase : PReply → Reply
  | .base r => r
  | .prepFail f => .fail f

/-- conn.executeQuery + the draining consumer, as `Paging.run`, with the PREPARE answer scripted -/
def runP (pp : Nat → Nat) : List PReply → Bool → Qry → Out
  | [], c, q => { rows := [], reqs := prep c q ++ [request q], err := some .exhausted }
  | .prepFail f :: _, c, q =>
    -- prepareStatement fails: `return &Iter{err: err}`; the PREPARE (if one was due) is all that was sent
    { rows := [], reqs := prep c q, err := some f }
  | .base .unprepared :: rest, c, q =>
    let o := runP pp rest false q
    { o with reqs := prep c q ++ request q :: o.reqs }
  | .base (.fail f) :: _, c, q => { rows := [], reqs := prep c q ++ [request q], err := some f }
  | .base (.page rows st) :: rest, c, q =>
    let it := pageIter pp q rows st
    match it.next with
    | none => { rows := it.rows, reqs := prep c q ++ [request q], err := none }
    | some n =>
      let o := runP pp rest true n.qry
      { rows := it.rows ++ o.rows, reqs := prep c q ++ request q :: o.reqs, err := o.err }

/-- a `prepFail` entry stands only where a PREPARE is sent -/
def valid (prepared : Bool) : List PReply → Bool → Bool
  | [], _ => true
  | .prepFail _ :: _, needPrep => prepared && needPrep
  | .base .unprepared :: rest, _ => valid prepared rest true
  | .base (.fail _) :: _, _ => true
  | .base (.page _ none) :: _, _ => true
  | .base (.page _ (some _)) :: rest, _ => valid prepared rest false

namespace Spec

/-- requests, as `Paging.Spec.reqs`, where the PREPARE of an attempt may fail: then that attempt's request
    does not go out and nothing follows -/
def reqs (mk : Option Bytes → Req) (prepared : Bool) : List PReply → Bool → Option Bytes → List Req
  | [], needPrep, cur => (if prepared && needPrep then [.prepare] else []) ++ [mk cur]
  | .prepFail _ :: _, needPrep, _ => (if prepared && needPrep then [.prepare] else [])
  | .base .unprepared :: rest, needPrep, cur =>
    (if prepared && needPrep then [.prepare] else []) ++ mk cur :: reqs mk prepared rest true cur
  | .base (.fail _) :: _, needPrep, cur => (if prepared && needPrep then [.prepare] else []) ++ [mk cur]
  | .base (.page _ none) :: _, needPrep, cur => (if prepared && needPrep then [.prepare] else []) ++ [mk cur]
  | .base (.page _ (some s)) :: rest, needPrep, cur =>
    (if prepared && needPrep then [.prepare] else []) ++ mk cur :: reqs mk prepared rest false (some s)

end Spec

end Paging.Prep
