/-
  Model of HISTORIES in one process (round 2):
  (1) several sessions created one after the other from option values that change in between — the SAME caller
      `*tls.Config` object with its fields mutated, the SAME paths with the files rewritten / removed
      (connectionpool.go `connConfig` → `setupTLSConfig`, evaluated for every session);
  (2) several `PasswordAuthenticator.Challenge` calls whose returned tokens are all still held by their callers
      (conn.go: `resp := make([]byte, …)` — every call returns a buffer of its own; `authenticateHandshake` keeps the
      token until the AUTH_RESPONSE frame is built, other connections call `Challenge` meanwhile).
  Hand-written, core Lean only; tied to the source by `harness/cmd/c20` (ops `tlshist`, `tokalias`, `tokpar`).
-/
import Model.TlsAuth
namespace TlsAuth

/-! ### (1) sessions over time -/

/-- how the dial config of a session is obtained: a step on some process-wide state -/
abbrev Derive (σ : Type) := σ → SslOpts → σ × Except TlsErr OutCfg

/-- the sessions of a process in the order they are created; `os` = the option VALUES at each of those moments -/
def histRun {σ : Type} (derive : Derive σ) (s : σ) : List SslOpts → List (Except TlsErr OutCfg)
  | [] => []
  | o :: os => (derive s o).2 :: histRun derive (derive s o).1 os

/-- the code that exists: `setupTLSConfig` is run for every session on the values of that moment; no state -/
def deriveCode : Derive Unit := fun _ o => ((), setupTLSConfig o)

/-- what identifies "the same options" when only object identity and path names are compared: is there a Config
    (ONE caller object per history), which paths are set (ONE path per kind per history), EnableHostVerification -/
structure OptKey where
  hasCfg : Bool
  ehv : Bool
  caSet : Bool
  certSet : Bool
  keySet : Bool
  deriving DecidableEq, Repr

def optKey (o : SslOpts) : OptKey :=
  ⟨o.cfg.isSome, o.enableHostVerification, o.ca ≠ .absent, o.cert ≠ .absent, o.key ≠ .absent⟩

/-- NOT the code: the dial config is derived the first time "the same options" are seen and kept in a process-wide
    table (errors are not kept) — modelled to show what the history theorem excludes (C20_cex_cached_config) -/
def deriveCached : Derive (List (OptKey × OutCfg)) := fun tab o =>
  match tab.find? (fun e => e.1 = optKey o) with
  | some e => (tab, .ok e.2)
  | none =>
    match setupTLSConfig o with
    | .ok c => ((optKey o, c) :: tab, .ok c)
    | .error e => (tab, .error e)

inductive Verdict | verify | noverify | error
  deriving DecidableEq, Repr

def verdictOf : Except TlsErr OutCfg → Verdict
  | .ok c => if c.insecure then .noverify else .verify
  | .error _ => .error

namespace Spec
/-- what the property demands of ONE session, from the option values at the moment it is created: bad files are an
    error, otherwise the documented table decides -/
def sessionVerdict (o : SslOpts) : Verdict :=
  if !((o.ca = .absent || o.ca = .valid) && ((o.cert = .absent && o.key = .absent) || keyPairLoads o.cert o.key)) then .error
  else if mustVerify o then .verify else .noverify
end Spec

/-! ### (2) tokens held across further `Challenge` calls -/

/-- the byte buffers `Challenge` calls have written to, in order of creation -/
abbrev Heap := List (List UInt8)

/-- a returned slice: which buffer it points into and its length -/
structure View where
  buf : Nat
  len : Nat
  deriving DecidableEq, Repr

def Heap.read (h : Heap) (v : View) : List UInt8 := (h.getD v.buf []).take v.len

/-- writing `t` at the start of buffer `i` (the rest of a longer buffer keeps its bytes) -/
def overlay (t old : List UInt8) : List UInt8 := t ++ old.drop t.length

/-- where a call puts its token: a buffer of its own (`make`) or buffer `i` re-used -/
inductive Place | fresh | reuse (i : Nat)
  deriving DecidableEq, Repr

def Heap.put (h : Heap) (pl : Place) (t : List UInt8) : Heap × View :=
  match pl with
  | .fresh => (h ++ [t], ⟨h.length, t.length⟩)
  | .reuse i => if i < h.length then (h.set i (overlay t (h.getD i [])), ⟨i, t.length⟩) else (h ++ [t], ⟨h.length, t.length⟩)

/-- one `Challenge` call: authenticator and the class the server named -/
abbrev ChalCall := PwAuth × List UInt8

/-- a sequence of calls; every caller keeps what it was returned (`none` = the call returned an error) -/
def chalRun (place : Heap → Place) : Heap → List (Option View) → List ChalCall → Heap × List (Option View)
  | h, vs, [] => (h, vs)
  | h, vs, (p, cls) :: cs =>
    match challenge p cls with
    | none => chalRun place h (vs ++ [none]) cs
    | some t => chalRun place (h.put (place h) t).1 (vs ++ [some (h.put (place h) t).2]) cs

/-- what the callers read in the tokens they hold, after all the calls -/
def held (r : Heap × List (Option View)) : List (Option (List UInt8)) := r.2.map (·.map r.1.read)

/-- the code that exists: `resp := make([]byte, 2+len(user)+len(pass))` -/
def placeCode : Heap → Place := fun _ => .fresh

/-- NOT the code: one scratch buffer re-used by every call (a pooled buffer handed back while the returned slice still
    points into it) — the counterexample C20_cex_pooled_token -/
def placePooled : Heap → Place := fun _ => .reuse 0

end TlsAuth
