/-
C04 / C05 — MODEL side: gocql's response parser, mirrored function by function.

  frame.go   parseFrame (542-591) and everything under it: parseErrorFrame + readErrorMap (593-722),
             readTypeInfo (872-934), parsePreparedMetadata / readCol / parseResultMetadata (951-1095),
             parseResultFrame and the five result kinds (1105-1319), AUTHENTICATE / AUTH_CHALLENGE /
             AUTH_SUCCESS / SUPPORTED / READY / EVENT (1321-1420), the primitive readers (1771-1937)
  helpers.go getApacheCassandraType (252-303)

Conventions
* a Go `string` / `[]byte` is a `Bytes`; a nil `[]byte` is `none`.
* a parser is `P α = Bytes → Outcome (α × Bytes)`: it gets `f.buf` and returns the value and the new `f.buf`.
* `Outcome`: `ok`, `err` (parseFrame returns a non-nil error: every `panic(fmt.Errorf(..))` of the
  readers is recovered by parseFrame's deferred function and returned as the error), `crash` (a Go
  *runtime* panic — `runtime.Error` — which parseFrame re-panics: the goroutine dies).
* every primitive reader is `slice guard need`: the code checks `len(f.buf) < guard` (→ panic with an
  error value → `err`) and then slices `need` bytes off the buffer (→ runtime panic → `crash` when fewer
  are there). guard = need everywhere (readInetAdressOnly checks `len(f.buf) < int(size)` since the
  repair of KF-C05-5).
* `proto` is the framer's protocol version (`newFramer(c.compressor, c.version)`), NOT the version byte
  of the received header; all version dependent layouts use `proto`, as the code does.
* not modelled: Go's stack limit for deeply nested type descriptors (fuel = buffer length is never
  exhausted, see `readTypeInfo`).
* element counts that are used as a `make` size before the elements are read (partition-key indexes,
  tuple / UDT element descriptions) are checked against the bytes left first (`needBytes`, the repairs of
  KF-C05-6/7/8): a negative or impossible count is a returned error.
* readTypeInfo is the code AFTER the repair of KF-C04-1 (a custom class that names a bare collection /
  tuple marshal class stays a custom type).
Core Lean only (compiled into the native driver).
-/
namespace FrameRead

abbrev Bytes := List UInt8

/- byte-string literal: `b!"abc"` is `[0x61, 0x62, 0x63]` (expanded at elaboration time) -/
open Lean in
macro:max "b!" s:str : term => do
  let bs := s.getString.toUTF8.toList
  let elems : Array (TSyntax `term) ← bs.toArray.mapM fun b => `(($(quote b.toNat) : UInt8))
  `(([$elems,*] : List UInt8))

inductive Outcome (α : Type)
  | ok (a : α)
  | err
  | crash
deriving Repr

/-- a reader over the framer's buffer -/
def P (α : Type) : Type := Bytes → Outcome (α × Bytes)

@[inline] def P.pure {α : Type} (a : α) : P α := fun buf => .ok (a, buf)

@[inline] def P.bind {α β : Type} (p : P α) (f : α → P β) : P β := fun buf =>
  match p buf with
  | .ok (a, buf') => f a buf'
  | .err => .err
  | .crash => .crash

instance : Monad P where
  pure := P.pure
  bind := P.bind

/-- `panic(fmt.Errorf(...))`: recovered by parseFrame, returned as error -/
def P.fail {α : Type} : P α := fun _ => .err

/-! ## primitive readers (frame.go:1771-1937) -/

/-- `if len(f.buf) < guard { panic(error) }; x := f.buf[:need]; f.buf = f.buf[need:]` -/
def slice (guard need : Nat) : P Bytes := fun buf =>
  if buf.length < guard then .err
  else if buf.length < need then .crash
  else .ok (buf.take need, buf.drop need)

/-- big-endian unsigned value of a byte string -/
def beNat (bs : Bytes) : Nat := bs.foldl (fun a b => a * 256 + b.toNat) 0

/-- reinterpretation of 32 bits as Go `int32` (then widened to `int`) -/
def int32Of (n : Nat) : Int := if n < 2147483648 then (n : Int) else (n : Int) - 4294967296

/-- readByte: guard 1, need 1 -/
def readByte : P UInt8 := do
  let b ← slice 1 1
  pure (b.headD 0)

/-- readInt: guard 4, need 4; `int(int32(...))` -/
def readInt : P Int := do
  let b ← slice 4 4
  pure (int32Of (beNat b))

/-- readShort: guard 2, need 2; uint16 -/
def readShort : P Nat := do
  let b ← slice 2 2
  pure (beNat b)

/-- readString: `size := readShort(); guard size, need size` -/
def readString : P Bytes := do
  let size ← readShort
  slice size size

/-- readShortBytes: same layout as readString -/
def readShortBytes : P Bytes := do
  let size ← readShort
  slice size size

/-- readUUID: guard 16, need 16 (`UUIDFromBytes` of 16 bytes cannot fail) -/
def readUUID : P Bytes := slice 16 16

/-- `for i := 0; i < n; i++ { l[i] = rd() }` -/
def readN {α : Type} (rd : P α) : Nat → P (List α)
  | 0 => pure []
  | n + 1 => do
    let x ← rd
    let xs ← readN rd n
    pure (x :: xs)

/-- readStringList: `make([]string, size)` of a uint16 cannot fail -/
def readStringList : P (List Bytes) := do
  let size ← readShort
  readN readString size

/-- readBytesInternal + readBytes: size < 0 → nil; `len(f.buf) < size` → error → panic(err) -/
def readBytes : P (Option Bytes) := do
  let size ← readInt
  if size < 0 then pure none
  else do
    let b ← slice size.toNat size.toNat
    pure (some b)

/-- readConsistency -/
def readConsistency : P Nat := readShort

/-- readInetAdressOnly (frame.go:1883-1903): `len(f.buf) < int(size)` is checked before the `size`
    bytes are sliced. -/
def readInetAdressOnly : P Bytes := do
  let szb ← slice 1 1
  let size := (szb.headD 0).toNat
  if !(size == 4 || size == 16) then P.fail
  else slice size size

/-- readInet -/
def readInet : P (Bytes × Int) := do
  let ip ← readInetAdressOnly
  let port ← readInt
  pure (ip, port)

/-- Go map assignment `m[k] = v` on an association list kept in first-insertion order of the keys
    that are present (the order is not observable in Go; dumps sort by key) -/
def mapInsert {κ β : Type} [BEq κ] (m : List (κ × β)) (k : κ) (v : β) : List (κ × β) :=
  if m.any (fun kv => kv.1 == k) then m.map (fun kv => if kv.1 == k then (k, v) else kv)
  else m ++ [(k, v)]

def mapOfList {κ β : Type} [BEq κ] (l : List (κ × β)) : List (κ × β) :=
  l.foldl (fun m kv => mapInsert m kv.1 kv.2) []

/-- readBytesMap -/
def readBytesMap : P (List (Bytes × Option Bytes)) := do
  let size ← readShort
  let l ← readN (do let k ← readString; let v ← readBytes; pure (k, v)) size
  pure (mapOfList l)

/-- readStringMultiMap -/
def readStringMultiMap : P (List (Bytes × List Bytes)) := do
  let size ← readShort
  let l ← readN (do let k ← readString; let v ← readStringList; pure (k, v)) size
  pure (mapOfList l)

/-- `net.IP.String()` is injective on addresses up to the identification of a 16-byte IPv4-mapped
    address (`::ffff:a.b.c.d`) with its 4-byte form; the key of the error map is that string, which
    the model represents by the normalised address bytes. -/
def v4InV6Prefix : Bytes := [0, 0, 0, 0, 0, 0, 0, 0, 0, 0, 0xff, 0xff]

def ipKey (ip : Bytes) : Bytes :=
  if ip.length == 16 && ip.take 12 == v4InV6Prefix then ip.drop 12 else ip

/-- readErrorMap (frame.go:714-722): `for i := 0; i < numErrs; i++` — a negative count is an empty loop -/
def readErrorMap : P (List (Bytes × Nat)) := do
  let numErrs ← readInt
  let l ← readN (do let ip ← readInetAdressOnly; let c ← readShort; pure (ipKey ip, c)) numErrs.toNat
  pure (mapOfList l)

/-! ## type descriptors -/

/-- gocql `NativeType` without `proto` (which is the framer's version everywhere) -/
structure Native where
  typ : Nat
  custom : Bytes
deriving DecidableEq, Repr

/-- gocql `TypeInfo`: NativeType | CollectionType | TupleTypeInfo | UDTTypeInfo -/
inductive TypeInfo
  | native (n : Native)
  | coll (n : Native) (key : Option TypeInfo) (elem : TypeInfo)
  | tuple (n : Native) (elems : List TypeInfo)
  | udt (n : Native) (ks name : Bytes) (fields : List (Bytes × TypeInfo))
deriving Repr

def typeCustom : Nat := 0x0000
def typeList : Nat := 0x0020
def typeMap : Nat := 0x0021
def typeSet : Nat := 0x0022
def typeUDT : Nat := 0x0030
def typeTuple : Nat := 0x0031

def apachePrefix : Bytes := b!"org.apache.cassandra.db.marshal."

/-- strings.TrimPrefix -/
def trimPrefix (pfx s : Bytes) : Bytes := if pfx.isPrefixOf s then s.drop pfx.length else s

/-- the `switch` of helpers.go getApacheCassandraType on the class name without prefix -/
def apacheSwitch (c : Bytes) : Nat :=
  if c == b!"AsciiType" then 0x01
  else if c == b!"LongType" then 0x02
  else if c == b!"BytesType" then 0x03
  else if c == b!"BooleanType" then 0x04
  else if c == b!"CounterColumnType" then 0x05
  else if c == b!"DecimalType" then 0x06
  else if c == b!"DoubleType" then 0x07
  else if c == b!"FloatType" then 0x08
  else if c == b!"Int32Type" then 0x09
  else if c == b!"ShortType" then 0x13
  else if c == b!"ByteType" then 0x14
  else if c == b!"TimeType" then 0x12
  else if c == b!"DateType" then 0x0B
  else if c == b!"TimestampType" then 0x0B
  else if c == b!"UUIDType" then 0x0C
  else if c == b!"LexicalUUIDType" then 0x0C
  else if c == b!"UTF8Type" then 0x0D
  else if c == b!"IntegerType" then 0x0E
  else if c == b!"TimeUUIDType" then 0x0F
  else if c == b!"InetAddressType" then 0x10
  else if c == b!"MapType" then typeMap
  else if c == b!"ListType" then typeList
  else if c == b!"SetType" then typeSet
  else if c == b!"TupleType" then typeTuple
  else if c == b!"DurationType" then 0x15
  else typeCustom

/-- helpers.go getApacheCassandraType -/
def getApacheCassandraType (cls : Bytes) : Nat := apacheSwitch (trimPrefix apachePrefix cls)

/-- `if need > len(f.buf) { panic(fmt.Errorf(..)) }`: an element count that the rest of the body cannot
    hold (every element takes at least `need / count` bytes) is an error before anything is allocated -/
def needBytes (need : Nat) : P Unit := fun buf => if need > buf.length then .err else .ok ((), buf)

/-- readTypeInfo (frame.go:872-934). The Go function recurses on the buffer; every call consumes
    at least the 2 bytes of the option id, so `fuel = len(buf)` (see `readTypeInfo`) is never
    exhausted; the `0` case is unreachable from there and answers `err`. -/
def readTypeInfoF : Nat → P TypeInfo
  | 0 => P.fail
  | fuel + 1 => do
    let id ← readShort
    let simple ← (if id == typeCustom then do
        let custom ← readString
        let cassType := getApacheCassandraType custom
        -- `switch cassType { case TypeCustom, TypeList, TypeSet, TypeMap, TypeTuple: (stays custom)
        --  default: simple.typ = cassType }`: a custom option carries only the class name, so a bare
        -- collection / tuple marshal class has no element types to read
        pure (if cassType == typeCustom || cassType == typeList || cassType == typeSet ||
                 cassType == typeMap || cassType == typeTuple
              then { typ := id, custom := custom : Native }
              else { typ := cassType, custom := custom })
      else pure { typ := id, custom := [] })
    if simple.typ == typeTuple then do
      let n ← readShort
      needBytes (2 * n)                    -- `if int(n)*2 > len(f.buf) { panic(error) }`
      let elems ← readN (readTypeInfoF fuel) n
      pure (.tuple simple elems)
    else if simple.typ == typeUDT then do
      let ks ← readString
      let name ← readString
      let n ← readShort
      needBytes (4 * n)                    -- `if int(n)*4 > len(f.buf) { panic(error) }`
      let fields ← readN (do let fname ← readString; let t ← readTypeInfoF fuel; pure (fname, t)) n
      pure (.udt simple ks name fields)
    else if simple.typ == typeMap then do
      let key ← readTypeInfoF fuel
      let elem ← readTypeInfoF fuel
      pure (.coll simple (some key) elem)
    else if simple.typ == typeList || simple.typ == typeSet then do
      let elem ← readTypeInfoF fuel
      pure (.coll simple none elem)
    else pure (.native simple)

def readTypeInfo : P TypeInfo := fun buf => readTypeInfoF (buf.length + 1) buf

/-! ## metadata -/

structure ColumnInfo where
  keyspace : Bytes
  table : Bytes
  name : Bytes
  typ : TypeInfo
deriving Repr

/-- gocql `resultMetadata`. `pagingState`: nil unless has_more_pages; `copyBytes` turns a null
    `[bytes]` into an empty non-nil slice. `columns`: nil and empty are not distinguished. -/
structure ResultMeta where
  flags : Int
  pagingState : Option Bytes
  columns : List ColumnInfo
  colCount : Int
  actualColCount : Int
deriving Repr

def ResultMeta.zero : ResultMeta :=
  { flags := 0, pagingState := none, columns := [], colCount := 0, actualColCount := 0 }

/-- gocql `preparedMetadata` -/
structure PreparedMeta where
  md : ResultMeta
  pkeyColumns : Option (List Nat)
  keyspace : Bytes
  table : Bytes
deriving Repr

/-- `md.flags & bit == bit` on a Go `int` holding an int32 -/
def hasFlag (flags : Int) (bit : Nat) : Bool := (flags % 4294967296).toNat &&& bit == bit

def flagGlobalTableSpec : Nat := 0x01
def flagHasMorePages : Nat := 0x02
def flagNoMetaData : Nat := 0x04

/-- readCol's contribution to `actualColCount`: `len(v.Elems) - 1` for a tuple column -/
def colExtra (t : TypeInfo) : Int :=
  match t with
  | .tuple _ elems => (elems.length : Int) - 1
  | _ => 0

/-- readCol (frame.go:1030-1047) -/
def readCol (globalSpec : Bool) (keyspace table : Bytes) : P ColumnInfo := do
  let kt ← (if !globalSpec then do
      let ks ← readString
      let tb ← readString
      pure (ks, tb)
    else pure (keyspace, table))
  let name ← readString
  let t ← readTypeInfo
  pure { keyspace := kt.1, table := kt.2, name := name, typ := t }

/-- `copyBytes(f.readBytes())` -/
def readPagingState : P Bytes := do
  let b ← readBytes
  pure (b.getD [])

/-- the common tail of parseResultMetadata / parsePreparedMetadata after flags, colCount (and the
    pk indexes): paging state, NO_METADATA early return, global table spec, the columns (both the
    preallocating `< 1000` loop and the appending loop read `colCount` columns in order) -/
def readMetaTail (flags colCount : Int) : P (ResultMeta × Bytes × Bytes) := do
  let paging ← (if hasFlag flags flagHasMorePages then do
      let p ← readPagingState
      pure (some p)
    else pure none)
  if hasFlag flags flagNoMetaData then
    pure ({ flags := flags, pagingState := paging, columns := [], colCount := colCount,
            actualColCount := colCount }, [], [])
  else do
    let globalSpec := hasFlag flags flagGlobalTableSpec
    let kt ← (if globalSpec then do
        let ks ← readString
        let tb ← readString
        pure (ks, tb)
      else pure ([], []))
    let cols ← readN (readCol globalSpec kt.1 kt.2) colCount.toNat
    pure ({ flags := flags, pagingState := paging, columns := cols, colCount := colCount,
            actualColCount := colCount + (cols.map (fun c => colExtra c.typ)).sum }, kt.1, kt.2)

/-- parseResultMetadata (frame.go:1049-1095) -/
def parseResultMetadata : P ResultMeta := do
  let flags ← readInt
  let colCount ← readInt
  if colCount < 0 then P.fail
  else do
    let r ← readMetaTail flags colCount
    pure r.1

/-- `if pkeyCount < 0 || pkeyCount*2 > len(f.buf) { panic(error) }` before `make([]int, pkeyCount)` -/
def checkPkeyCount (n : Int) : P Unit := fun buf =>
  if n < 0 then .err else if 2 * n.toNat > buf.length then .err else .ok ((), buf)

/-- parsePreparedMetadata (frame.go:951-1005) -/
def parsePreparedMetadata (proto : Nat) : P PreparedMeta := do
  let flags ← readInt
  let colCount ← readInt
  if colCount < 0 then P.fail
  else do
    let pk ← (if proto >= 4 then do
        let pkeyCount ← readInt
        checkPkeyCount pkeyCount
        let l ← readN readShort pkeyCount.toNat
        pure (some l)
      else pure none)
    let r ← readMetaTail flags colCount
    pure { md := r.1, pkeyColumns := pk, keyspace := r.2.1, table := r.2.2 }

/-! ## frames -/

inductive ErrDetail
  | plain
  | unavailable (cl : Nat) (required alive : Int)
  | writeTimeout (cl : Nat) (received blockfor : Int) (writeType : Bytes)
  | readTimeout (cl : Nat) (received blockfor : Int) (dataPresent : UInt8)
  | alreadyExists (ks table : Bytes)
  | unprepared (id : Bytes)
  | readFailure (cl : Nat) (received blockfor numFailures : Int) (dataPresent : Bool)
      (errorMap : Option (List (Bytes × Nat)))
  | writeFailure (cl : Nat) (received blockfor numFailures : Int) (writeType : Bytes)
      (errorMap : Option (List (Bytes × Nat)))
  | functionFailure (ks fn : Bytes) (argTypes : List Bytes)
  | cdcWriteFailure
  | casWriteUnknown (cl : Nat) (received blockfor : Int)
deriving DecidableEq, Repr

inductive Frame
  | error (code : Int) (message : Bytes) (d : ErrDetail)
  | ready
  | supported (m : List (Bytes × List Bytes))
  | authenticate (cls : Bytes)
  | authChallenge (data : Option Bytes)
  | authSuccess (data : Option Bytes)
  | resultVoid
  | resultRows (md : ResultMeta) (numRows : Int)
  | resultKeyspace (ks : Bytes)
  | resultPrepared (id : Bytes) (req : PreparedMeta) (resp : ResultMeta)
  | schemaKeyspace (change ks : Bytes)
  | schemaTable (change ks object : Bytes)
  | schemaType (change ks object : Bytes)
  | schemaFunction (change ks name : Bytes) (args : List Bytes)
  | schemaAggregate (change ks name : Bytes) (args : List Bytes)
  | topologyChange (change host : Bytes) (port : Int)
  | statusChange (change host : Bytes) (port : Int)
deriving Repr

/-- the embedded `frameHeader` of the returned struct is a copy of `*f.header` for every frame
    except `resultRowsFrame`, whose embedded header stays the zero value (parseResultRows) -/
def Frame.headerCopied : Frame → Bool
  | .resultRows _ _ => false
  | _ => true

/-- the read part of the failure count of READ_FAILURE / WRITE_FAILURE -/
def readFailures (proto : Nat) : P (Int × Option (List (Bytes × Nat))) :=
  if proto > 4 then do
    let m ← readErrorMap
    pure ((m.length : Int), some m)
  else do
    let n ← readInt
    pure (n, none)

/-- parseErrorFrame (frame.go:593-712) -/
def parseErrorFrame (proto : Nat) : P Frame := do
  let code ← readInt
  let msg ← readString
  if code == 0x1000 then do
    let cl ← readConsistency; let required ← readInt; let alive ← readInt
    pure (.error code msg (.unavailable cl required alive))
  else if code == 0x1100 then do
    let cl ← readConsistency; let received ← readInt; let blockfor ← readInt; let wt ← readString
    pure (.error code msg (.writeTimeout cl received blockfor wt))
  else if code == 0x1200 then do
    let cl ← readConsistency; let received ← readInt; let blockfor ← readInt; let dp ← readByte
    pure (.error code msg (.readTimeout cl received blockfor dp))
  else if code == 0x2400 then do
    let ks ← readString; let table ← readString
    pure (.error code msg (.alreadyExists ks table))
  else if code == 0x2500 then do
    let id ← readShortBytes
    pure (.error code msg (.unprepared id))
  else if code == 0x1300 then do
    let cl ← readConsistency; let received ← readInt; let blockfor ← readInt
    let nf ← readFailures proto
    let dp ← readByte
    pure (.error code msg (.readFailure cl received blockfor nf.1 (dp != 0) nf.2))
  else if code == 0x1500 then do
    let cl ← readConsistency; let received ← readInt; let blockfor ← readInt
    let nf ← readFailures proto
    let wt ← readString
    pure (.error code msg (.writeFailure cl received blockfor nf.1 wt nf.2))
  else if code == 0x1400 then do
    let ks ← readString; let fn ← readString; let args ← readStringList
    pure (.error code msg (.functionFailure ks fn args))
  else if code == 0x1600 then
    pure (.error code msg .cdcWriteFailure)
  else if code == 0x1700 then do
    let cl ← readConsistency; let received ← readInt; let blockfor ← readInt
    pure (.error code msg (.casWriteUnknown cl received blockfor))
  else if code == 0x2200 || code == 0x1002 || code == 0x2300 || code == 0x0100 || code == 0x1001
       || code == 0x000A || code == 0x0000 || code == 0x2000 || code == 0x1003 || code == 0x2100 then
    pure (.error code msg .plain)
  else P.fail

/-- parseResultSchemaChange (frame.go:1237-1319) -/
def parseResultSchemaChange (proto : Nat) : P Frame :=
  if proto <= 2 then do
    let change ← readString; let keyspace ← readString; let table ← readString
    if table != [] then pure (.schemaTable change keyspace table)
    else pure (.schemaKeyspace change keyspace)
  else do
    let change ← readString
    let target ← readString
    if target == b!"KEYSPACE" then do
      let ks ← readString
      pure (.schemaKeyspace change ks)
    else if target == b!"TABLE" then do
      let ks ← readString; let obj ← readString
      pure (.schemaTable change ks obj)
    else if target == b!"TYPE" then do
      let ks ← readString; let obj ← readString
      pure (.schemaType change ks obj)
    else if target == b!"FUNCTION" then do
      let ks ← readString; let name ← readString; let args ← readStringList
      pure (.schemaFunction change ks name args)
    else if target == b!"AGGREGATE" then do
      let ks ← readString; let name ← readString; let args ← readStringList
      pure (.schemaAggregate change ks name args)
    else P.fail

/-- parseResultRows (frame.go:1136-1146) -/
def parseResultRows : P Frame := do
  let md ← parseResultMetadata
  let numRows ← readInt
  if numRows < 0 then P.fail
  else pure (.resultRows md numRows)

/-- parseResultPrepared (frame.go:1172-1186) -/
def parseResultPrepared (proto : Nat) : P Frame := do
  let id ← readShortBytes
  let req ← parsePreparedMetadata proto
  if proto < 2 then pure (.resultPrepared id req ResultMeta.zero)
  else do
    let resp ← parseResultMetadata
    pure (.resultPrepared id req resp)

/-- parseResultFrame (frame.go:1105-1122); an unknown kind is a returned error -/
def parseResultFrame (proto : Nat) : P Frame := do
  let kind ← readInt
  if kind == 1 then pure .resultVoid
  else if kind == 2 then parseResultRows
  else if kind == 3 then do
    let ks ← readString
    pure (.resultKeyspace ks)
  else if kind == 4 then parseResultPrepared proto
  else if kind == 5 then parseResultSchemaChange proto
  else P.fail

/-- parseEventFrame (frame.go:1397-1420) -/
def parseEventFrame (proto : Nat) : P Frame := do
  let eventType ← readString
  if eventType == b!"TOPOLOGY_CHANGE" then do
    let change ← readString
    let hp ← readInet
    pure (.topologyChange change hp.1 hp.2)
  else if eventType == b!"STATUS_CHANGE" then do
    let change ← readString
    let hp ← readInet
    pure (.statusChange change hp.1 hp.2)
  else if eventType == b!"SCHEMA_CHANGE" then parseResultSchemaChange proto
  else P.fail

/-- the received frame header (readHeader, frame.go:443-489) -/
structure Header where
  version : UInt8
  flags : UInt8
  stream : Int
  op : UInt8
  length : Int
deriving DecidableEq, Repr

def flagTracing : UInt8 := 0x02
def flagCustomPayload : UInt8 := 0x04
def flagWarning : UInt8 := 0x08

def opError : UInt8 := 0x00
def opReady : UInt8 := 0x02
def opAuthenticate : UInt8 := 0x03
def opSupported : UInt8 := 0x06
def opResult : UInt8 := 0x08
def opEvent : UInt8 := 0x0C
def opAuthChallenge : UInt8 := 0x0E
def opAuthSuccess : UInt8 := 0x10

/-- what parseFrame leaves behind: `f.traceID`, `f.header.warnings`, `f.customPayload`, the frame -/
structure Resp where
  traceId : Option Bytes
  warnings : Option (List Bytes)
  payload : Option (List (Bytes × Option Bytes))
  frame : Frame
deriving Repr

def parseBody (proto : Nat) (op : UInt8) : P Frame :=
  if op == opError then parseErrorFrame proto
  else if op == opReady then pure .ready
  else if op == opResult then parseResultFrame proto
  else if op == opSupported then do
    let m ← readStringMultiMap
    pure (.supported m)
  else if op == opAuthenticate then do
    let c ← readString
    pure (.authenticate c)
  else if op == opAuthChallenge then do
    let d ← readBytes
    pure (.authChallenge d)
  else if op == opAuthSuccess then do
    let d ← readBytes
    pure (.authSuccess d)
  else if op == opEvent then parseEventFrame proto
  else P.fail

/-- parseFrame (frame.go:542-591) as a reader over `f.buf` (the decompressed body) -/
def parseFrameP (proto : Nat) (h : Header) : P Resp :=
  if h.version &&& 0x80 == 0 then P.fail
  else do
    let trace ← (if h.flags &&& flagTracing == flagTracing then do
        let u ← readUUID
        pure (some u)
      else pure none)
    let warnings ← (if h.flags &&& flagWarning == flagWarning then do
        let l ← readStringList
        pure (some l)
      else pure none)
    let payload ← (if h.flags &&& flagCustomPayload == flagCustomPayload then do
        let m ← readBytesMap
        pure (some m)
      else pure none)
    let fr ← parseBody proto h.op
    pure { traceId := trace, warnings := warnings, payload := payload, frame := fr }

/-- parseFrame on the body `buf`; the second component of the result is what is left in `f.buf`
    (the rows of a RESULT/Rows frame, read later by the Iter). -/
def parseResp (proto : Nat) (h : Header) (buf : Bytes) : Outcome (Resp × Bytes) := parseFrameP proto h buf

end FrameRead
