import Model.Dispatch
/-!
# Setting up a pool connection as a SEQUENCE of answers (property C05, part "dispatch")

conn.go startupCoordinator.options -> startup -> authenticateHandshake (the machine `Dispatch.hsStep`), then
connectionpool.go hostConnPool.connect: `conn.UseKeyspace(pool.keyspace)` when the session has a keyspace
(the table row `Site.useKeyspace`). The peer answers every request of the set-up with ANY of the 18 frame kinds;
when the scripted answers run out it answers the way a server does (SUPPORTED, READY, AUTH_SUCCESS,
RESULT/SetKeyspace). What is observed of the real driver (harness/c05disp/hsseq.go, op `hs`): the requests the
peer saw on that connection, in order (O = OPTIONS, S = STARTUP, A = AUTH_RESPONSE, Q = the USE query), and
whether the connection came up. Core Lean only.
-/
namespace ConnSetup
open Dispatch

inductive St
  | hs (h : HS)      -- inside startupCoordinator
  | awaitUse         -- handshake done, `USE "ks"` sent
  | up | failed
  | dead (h : How)
  deriving DecidableEq, Repr

/-- leaving the handshake machine -/
def norm (useKs : Bool) : HS → St
  | .done true => if useKs then .awaitUse else .up
  | .done false => .failed
  | .crashed h => .dead h
  | h => .hs h

/-- the request that is outstanding in a state -/
def req : St → Option String
  | .hs .awaitSupported => some "O"
  | .hs .awaitStartup => some "S"
  | .hs (.authLoop _ _) => some "A"
  | .awaitUse => some "Q"
  | _ => none

/-- what the scripted server answers when the script says nothing -/
def dflt : St → FrameKind
  | .hs .awaitSupported => .supported
  | .hs .awaitStartup => .ready
  | .hs (.authLoop _ _) => .authSuccess
  | .awaitUse => .resultKeyspace
  | _ => .ready

def step (tbl : Site → FrameKind → Outcome) (cfg : AuthCfg) (useKs : Bool) : St → FrameKind → St
  | .hs h, k => norm useKs (hsStep tbl cfg h k)
  | .awaitUse, k =>
    match tbl .useKeyspace k with
    | .crash h => .dead h
    | .handled => .up
    | _ => .failed
  | s, _ => s

/-- answer the outstanding request (script first, then the defaults) until the set-up has ended -/
def drive (tbl : Site → FrameKind → Outcome) (cfg : AuthCfg) (useKs : Bool) :
    Nat → St → List FrameKind → List String → St × List String
  | 0, s, _, acc => (s, acc)
  | n + 1, s, fs, acc =>
    match req s with
    | none => (s, acc)
    | some r =>
      match fs with
      | [] => drive tbl cfg useKs n (step tbl cfg useKs s (dflt s)) [] (acc ++ [r])
      | k :: rest => drive tbl cfg useKs n (step tbl cfg useKs s k) rest (acc ++ [r])

/-- the defaults end every set-up within four requests -/
def run (cfg : AuthCfg) (useKs : Bool) (script : List FrameKind) : St × List String :=
  drive dispatch cfg useKs (script.length + 4) (.hs .awaitSupported) script []

def St.isDead : St → Bool
  | .dead _ => true
  | _ => false

def authOf : String → Option AuthCfg
  | "none" => some ⟨false, false, none⟩
  | "password" => some passwordAuth            -- gocql.PasswordAuthenticator: nil challenger after the first Challenge
  | "chain" => some ⟨true, true, none⟩         -- an Authenticator that always hands back itself
  | _ => none

def St.str : St → String
  | .up => "up" | .failed => "failed" | .awaitUse => "stuck" | .hs _ => "stuck"
  | .dead h => "crash:startupCoordinator:" ++ h.str

def answer (ws : List String) : Option String :=
  match ws with
  | ["hs", a, ks, sc] =>
    some (match authOf a, (if ks = "0" then some false else if ks = "1" then some true else none),
        (if sc = "-" then some [] else (sc.splitOn ",").mapM FrameKind.ofName) with
      | some cfg, some useKs, some script =>
        let r := run cfg useKs script
        r.1.str ++ ":" ++ String.join r.2
      | _, _, _ => "bad-op")
  | "hs" :: _ => some "bad-op"
  | _ => none

end ConnSetup
