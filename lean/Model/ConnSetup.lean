import Model.Dispatch
/-!
# Setting up a pool connection as a SEQUENCE of answers (property C05, part "dispatch")

conn.go startupCoordinator.options -> startup -> authenticateHandshake (the machine `Dispatch.hsStep`), then
connectionpool.go hostConnPool.connect: `conn.UseKeyspace(pool.keyspace)` when the session has a keyspace
(the table row `Site.useKeyspace`). The peer answers every request of the set-up with ANY of the 18 frame kinds;
when the scripted answers run out it answers the way a server does (SUPPORTED, READY, AUTH_SUCCESS,
RESULT/SetKeyspace). What is observed of the real driver (harness/c05disp/hsseq.go, op `hs`): the requests the
peer saw on that connection, in order (O = OPTIONS, S = STARTUP, A = AUTH_RESPONSE, Q = the USE query), and
whether the connection came up. Core Lean only.
-/
namespace ConnSetup
open Dispatch

inductive St
  | hs (h : HS)      -- inside startupCoordinator
  | awaitUse         -- handshake done, `USE "ks"` sent
  | up | failed
  | dead (h : How)
  deriving DecidableEq, Repr

/-- leaving the handshake machine -/
def norm (useKs : Bool) : HS → St
  | .done true => if useKs then .awaitUse else .up
  | .done false => .failed
  | .crashed h => .dead h
  | h => .hs h

/-- the request that is outstanding in a state -/
def req : St → Option String
  | .hs .awaitSupported => some "O"
  | .hs .awaitStartup => some "S"
  | .hs (.authLoop _ _) => some "A"
  | .awaitUse => some "Q"
  | _ => none

/-- what the scripted server answers when the script says nothing -/
def dflt : St → FrameKind
  | .hs .awaitSupported => .supported
  | .hs .awaitStartup => .ready
  | .hs (.authLoop _ _) => .authSuccess
  | .awaitUse => .resultKeyspace
  | _ => .ready

def step (tbl : Site → FrameKind → Outcome) (cfg : AuthCfg) (useKs : Bool) : St → FrameKind → St
  | .hs h, k => norm useKs (hsStep tbl cfg h k)
  | .awaitUse, k =>
    match tbl .useKeyspace k with
    | .crash h => .dead h
    | .handled => .up
    | _ => .failed
  | s, _ => s

/-- answer the outstanding request (script first, then the defaults) until the set-up has ended -/
def drive (tbl : Site → FrameKind → Outcome) (cfg : AuthCfg) (useKs : Bool) :
    Nat → St → List FrameKind → List String → St × List String
  | 0, s, _, acc => (s, acc)
  | n + 1, s, fs, acc =>
    match req s with
    | none => (s, acc)
    | some r =>
      match fs with
      | [] => drive tbl cfg useKs n (step tbl cfg useKs s (dflt s)) [] (acc ++ [r])
      | k :: rest => drive tbl cfg useKs n (step tbl cfg useKs s k) rest (acc ++ [r])

/-- the defaults end every set-up within four requests -/
def run (cfg : AuthCfg) (useKs : Bool) (script : List FrameKind) : St × List String :=
  drive dispatch cfg useKs (script.length + 4) (.hs .awaitSupported) script []

def St.isDead : St → Bool
  | .dead _ => true
  | _ => false

def authOf : String → Option AuthCfg
  | "none" => some ⟨false, false, none⟩
  | "password" => some passwordAuth            -- gocql.PasswordAuthenticator: nil challenger after the first Challenge
  | "chain" => some ⟨true, true, none⟩         -- an Authenticator that always hands back itself
  | _ => none

def St.str : St → String
  | .up => "up" | .failed => "failed" | .awaitUse => "stuck" | .hs _ => "stuck"
  | .dead h => "crash:startupCoordinator:" ++ h.str

def answer (ws : List String) : Option String :=
  match ws with
  | ["hs", a, ks, sc] =>
    some (match authOf a, (if ks = "0" then some false else if ks = "1" then some true else none),
        (if sc = "-" then some [] else (sc.splitOn ",").mapM FrameKind.ofName) with
      | some cfg, some useKs, some script =>
        let r := run cfg useKs script
        r.1.str ++ ":" ++ String.join r.2
      | _, _, _ => "bad-op")
  | "hs" :: _ => some "bad-op"
  | _ => none

/-! ## the same under non-default configurations and arbitrary SUPPORTED contents (op `hsc`)

conn.go Conn.init (`AuthProvider` / `Authenticator`), startupCoordinator.startup (what it reads of the SUPPORTED
multimap: `supported["COMPRESSION"]` only if a compressor is configured; CQL_VERSION of STARTUP is the configured
string, whatever the node offers), control.go discoverProtocol / parseProtocolFromError (ProtoVersion 0).
The configuration is a PARAMETER of the model. The peer speaks protocol 4 only. -/

structure SetupCfg where
  cqlSet : Bool          -- ClusterConfig.CQLVersion is "3.0.0" (false: "")
  discover : Bool        -- ProtoVersion 0: discoverProtocol first
  compressor : Bool      -- Compressor = SnappyCompressor{}
  auth : Nat             -- 0 none, 1 Authenticator, 2 AuthProvider (both PasswordAuthenticator), ≥ 3 AuthProvider returning an error
  noLookup : Bool        -- DisableInitialHostLookup
  deriving DecidableEq, Repr

/-- the strings a SUPPORTED option can list -/
inductive Tok | v300 | v345 | snappy | lz4 | foo | empty
  deriving DecidableEq, Repr

inductive Key | cql | comp | proto | other
  deriving DecidableEq, Repr

/-- a [string multimap] in wire order (a key may occur more than once) -/
abbrev Supported := List (Key × List Tok)

/-- framer.readStringMultiMap: `m[k] = v` entry by entry — the LAST occurrence of a key wins -/
def lookup (k : Key) : Supported → Option (List Tok)
  | [] => none
  | (k', v) :: rest =>
    match lookup k rest with
    | some v' => some v'
    | none => if k' = k then some v else none

/-- how STARTUP's CQL_VERSION is chosen: the configured string (conn.go startup), or — a variant — the first
    version the node offers when none is configured (`versions[0]`) -/
inductive Pick | configured | firstOffered
  deriving DecidableEq, Repr

/-- CQL_VERSION of the STARTUP body; `none` = index out of range on the set-up goroutine -/
def cqlVersion (p : Pick) (cfg : SetupCfg) (sup : Supported) : Option String :=
  if cfg.cqlSet then some "3.0.0" else
  match p with
  | .configured => some "~"
  | .firstOffered =>
    match lookup .cql sup with
    | none => some "~"
    | some [] => none
    | some (t :: _) => some (match t with
        | .v300 => "3.0.0" | .v345 => "3.4.5" | .snappy => "snappy" | .lz4 => "lz4" | .foo => "foo" | .empty => "~")

/-- COMPRESSION of the STARTUP body: the compressor's name if the node lists it -/
def compression (cfg : SetupCfg) (sup : Supported) : String :=
  if cfg.compressor then
    match lookup .comp sup with
    | some l => if l.contains .snappy then "snappy" else "none"
    | none => "none"
  else "none"

/-- what the connection dialled by discoverProtocol is told -/
inductive Disc
  | normal | errGreatest (n : Option Nat) | errOther | negStream | readyToOptions
  deriving DecidableEq, Repr

/-- discoverProtocol + parseProtocolFromError: the protocol version the session goes on with (`none`: NewSession
    fails with "unable to discover protocol version") -/
def discovered : Disc → Option Nat
  | .normal => some 4
  | .errGreatest (some n) => if n > 0 then some n else none     -- regexp match, strconv.Atoi
  | .errGreatest none => none                                   -- Atoi fails (out of range)
  | .errOther => none
  | .negStream => some 4                                        -- protocolError: the version of the frame received
  | .readyToOptions => none

def authCfgOf (cfg : SetupCfg) : AuthCfg := if cfg.auth = 0 then ⟨false, false, none⟩ else passwordAuth

inductive ResCfg
  | dead                                   -- the process died on a driver goroutine
  | done (st : St) (reqs : List String) (cql comp : String)
  deriving DecidableEq, Repr

/-- a whole NewSession as far as the first pool connection: `script` answers that connection's requests -/
def runCfg (p : Pick) (cfg : SetupCfg) (sup : Supported) (script : List FrameKind) (d : Disc) : ResCfg :=
  if cfg.auth ≥ 3 then .done .failed [] "-" "-"          -- Conn.init: AuthProvider's error, before any request
  else if cfg.discover && discovered d ≠ some 4 then
    -- no version, or one this peer does not speak ("unexpected protocol version in response")
    .done .failed [] "-" "-"
  else
    -- every connection's STARTUP body is built the same way; the control connection comes first
    match cqlVersion p cfg sup with
    | none => .dead
    | some v =>
      let r := run (authCfgOf cfg) false script
      if r.1.isDead then .dead
      else if r.2.contains "S" then .done r.1 r.2 v (compression cfg sup)
      else .done r.1 r.2 "-" "-"

def ResCfg.isDead : ResCfg → Bool
  | .dead => true
  | _ => false

def ResCfg.str : ResCfg → String
  | .dead => "crash:startupCoordinator.startup:index"
  | .done st reqs v c => st.str ++ ":" ++ String.join reqs ++ ":cql=" ++ v ++ ":comp=" ++ c

def parseTok : Char → Option Tok
  | '3' => some .v300 | '4' => some .v345 | 's' => some .snappy | 'z' => some .lz4 | 'f' => some .foo
  | 'e' => some .empty | _ => none

def parseKey : Char → Option Key
  | 'V' => some .cql | 'C' => some .comp | 'P' => some .proto | 'X' => some .other | _ => none

def parseEntry (w : String) : Option (Key × List Tok) :=
  match w.toList with
  | k :: '=' :: rest =>
    match parseKey k with
    | none => none
    | some k =>
      if rest.isEmpty then some (k, [])
      else ((String.ofList rest).splitOn "+").mapM (fun (t : String) => match t.toList with | [c] => parseTok c | _ => none)
        |>.map (fun l => (k, l))
  | _ => none

def parseSupported (w : String) : Option Supported :=
  if w = "-" then some [] else (w.splitOn ";").mapM parseEntry

def parseSetupCfg (w : String) : Option SetupCfg :=
  match w.toList with
  | [v, p, c, a, l] =>
    let bit : Char → Option Bool := fun ch => if ch = '0' then some false else if ch = '1' then some true else none
    match bit v, (if p = '0' then some true else if p = '4' then some false else none), bit c,
        (if a.isDigit ∧ a.toNat - '0'.toNat ≤ 3 then some (a.toNat - '0'.toNat) else none), bit l with
    | some v, some p, some c, some a, some l => some ⟨v, p, c, a, l⟩
    | _, _, _, _, _ => none
  | _ => none

def parseDisc : String → Option Disc
  | "-" => some .normal | "e4" => some (.errGreatest (some 4)) | "e3" => some (.errGreatest (some 3))
  | "e0" => some (.errGreatest (some 0)) | "e77" => some (.errGreatest (some 77)) | "ebig" => some (.errGreatest none)
  | "eo" => some .errOther | "neg" => some .negStream | "rdy" => some .readyToOptions
  | _ => none

def answerCfg (ws : List String) : Option String :=
  match ws with
  | ["hsc", c, su, sc, d] =>
    some (match parseSetupCfg c, parseSupported su,
        (if sc = "-" then some [] else (sc.splitOn ",").mapM FrameKind.ofName), parseDisc d with
      | some cfg, some sup, some script, some d =>
        if !cfg.discover && d ≠ .normal then "bad-op" else (runCfg .configured cfg sup script d).str
      | _, _, _, _ => "bad-op")
  | "hsc" :: _ => some "bad-op"
  | _ => none

end ConnSetup
