import Model.ValueSpec
import Model.MarshalInterp
import Model.MarshalRepresent
/-
  Memory discipline of gocql.Marshal / gocql.Unmarshal (C12, OWNERSHIP of what crosses that boundary).

  conn.go encodes ALL bind values of a statement (executeQuery: `params.values[i].value`) and of all
  statements of a batch (executeBatch: `b.values[j].value`) first and writes the frame afterwards; an
  application keeps Marshal results and decoded values for as long as it likes. So the bytes Marshal
  returned have to stay the specification's encoding of THEIR value while further Marshal / Unmarshal
  calls run, and a decoded value has to stay the value while the caller recycles the data buffer.

  marshal.go today:
    marshalList / marshalMap   `buf := &bytes.Buffer{}` … `return buf.Bytes(), nil`  — a new buffer per call
    marshalTuple / marshalUDT  `var buf []byte` … `appendBytes(buf, data)`           — a new slice per call
    scalars                    `make([]byte, n)` / `[]byte(string)` / big.Int.Bytes  — a new slice per call
    ZERO-COPY paths            marshalVarchar `case []byte: return v, nil` (and the reflect `rv.Bytes()`
                               fallback for named byte slices), marshalUUID `case []byte: return val, nil`,
                               marshalInet `val.To4()` / `val.To16()` of a net.IP: the result IS (a sub-slice
                               of) the caller's own byte slice — only when that slice is bound to the column
                               itself; inside a collection / tuple / UDT the bytes are copied into the buffer
    unmarshalVarchar           `*v = append((*v)[:0], data...)`, `string(data)`, copyBytes, net.IP copy —
                               every byte slice of a decoded value is a new slice

  A small heap makes that explicit: buffers have ids, a Go slice is a `View` (id, offset, length), a call
  reads caller-owned input buffers and PLACES the byte slices reachable from its result somewhere. Where,
  is the `Discipline`:
    `fresh`    the code that exists: a new buffer per result slice;
    `pooled`   a `sync.Pool`'ed scratch buffer for the calls that assemble their result in one (collection
               kinds): written in place when the recycled buffer is large enough, handed back to the pool
               when the call returns (`defer pool.Put(buf)`) although the returned slice points into it;
    `aliasIn`  a result slice is returned as a sub-slice of a caller's input buffer wherever its bytes
               stand there already (`*v = data[a:b]` instead of a copy).
  The machine keeps any number of earlier results alive ("held" slots), runs further calls, lets the
  callers scribble over their input buffers afterwards, and reads held results back at any time.
  The machine is generic in the calls (`Sig`); `callSig` instantiates it with Marshal / Unmarshal.
-/
namespace MarshalHeap
open ValueSpec (CqlTy CqlVal Bytes)
open Marshal

/-- a Go slice: buffer id, offset, length -/
structure View where
  id  : Nat
  off : Nat
  len : Nat
  deriving DecidableEq, Repr

/-- `v[off : off+n]` -/
def View.sub (v : View) (off n : Nat) : View := { id := v.id, off := v.off + off, len := n }

/-- buffer id ↦ contents; `pool` = the scratch buffers handed back to a free list (most recent first) -/
structure Heap where
  mem  : List Bytes
  pool : List Nat

def Heap.empty : Heap := { mem := [], pool := [] }

def Heap.buf (h : Heap) (id : Nat) : Bytes := h.mem.getD id []

/-- the bytes a slice shows NOW -/
def Heap.read (h : Heap) (v : View) : Bytes := ((h.buf v.id).drop v.off).take v.len

def Heap.reads (h : Heap) (vs : List View) : List Bytes := vs.map h.read

/-- `make` + fill: a new buffer, existing ones untouched -/
def Heap.alloc (h : Heap) (b : Bytes) : Heap × View :=
  ({ h with mem := h.mem ++ [b] }, { id := h.mem.length, off := 0, len := b.length })

def Heap.allocMany (h : Heap) : List Bytes → Heap × List View
  | [] => (h, [])
  | b :: r =>
    let m := (h.alloc b).1.allocMany r
    (m.1, (h.alloc b).2 :: m.2)

/-- `buf.Reset(); buf.Write(b)` within capacity: in-place write at the start of an existing buffer -/
def Heap.overwrite (h : Heap) (id : Nat) (b : Bytes) : Heap :=
  { h with mem := h.mem.set id (b ++ (h.buf id).drop b.length) }

/-- the caller re-uses a buffer of its own: every byte `^= x` -/
def Heap.scribble (h : Heap) (x : UInt8) (id : Nat) : Heap :=
  { h with mem := h.mem.set id ((h.buf id).map (· ^^^ x)) }

def Heap.scribbleAll (h : Heap) (x : UInt8) (ids : List Nat) : Heap := ids.foldl (fun h id => h.scribble x id) h

inductive Discipline
  | fresh | pooled | aliasIn
  deriving DecidableEq, Repr

/-- the calls that cross the boundary -/
structure Sig (α : Type) where
  /-- the caller-owned byte buffers reachable from the argument -/
  ins    : α → List Bytes
  /-- the byte slices reachable from the result (`none`: error or null — nothing is kept) -/
  F      : α → Option (List Bytes)
  /-- ZERO-COPY path of the code that exists: the result is input buffer `i`, bytes `[off, off+n)` -/
  pass   : α → Option (Nat × Nat × Nat)
  /-- the call assembles its result in a scratch buffer (list / set / map) -/
  scratch : α → Bool

/-- first position at which `pat` stands in `b` -/
def findSub (pat : Bytes) : Bytes → Nat → Option Nat
  | [], off => if pat.isEmpty then some off else none
  | x :: r, off => if (x :: r).take pat.length == pat then some off else findSub pat r (off + 1)

def aliasOne (h : Heap) (out : Bytes) : List View → Option View
  | [] => none
  | v :: r =>
    match findSub out (h.read v) 0 with
    | some o => if out.isEmpty then aliasOne h out r else some (v.sub o out.length)
    | none => aliasOne h out r

def Heap.placeAlias (h : Heap) (inp : List View) : List Bytes → Heap × List View
  | [] => (h, [])
  | out :: r =>
    match aliasOne h out inp with
    | some v =>
      let m := h.placeAlias inp r
      (m.1, v :: m.2)
    | none =>
      let m := (h.alloc out).1.placeAlias inp r
      (m.1, (h.alloc out).2 :: m.2)

/-- where a call with input slices `inp` puts the byte slices `outs` of its result -/
def Heap.place (d : Discipline) (scratch : Bool) (h : Heap) (inp : List View) (outs : List Bytes) : Heap × List View :=
  match d with
  | .fresh => h.allocMany outs
  | .pooled =>
    match scratch, outs with
    | true, [out] =>
      match h.pool with
      | id :: rest =>
        if out.length ≤ (h.buf id).length then
          -- fits the recycled buffer: Reset + Write in place; the deferred Put hands it back at once
          ({ h.overwrite id out with pool := id :: rest }, [{ id := id, off := 0, len := out.length }])
        else
          -- bytes.Buffer grows: a new backing array, which is what goes back to the pool
          let r := h.alloc out
          ({ r.1 with pool := r.2.id :: rest }, [r.2])
      | [] =>
        let r := h.alloc out
        ({ r.1 with pool := [r.2.id] }, [r.2])
    | _, _ => h.allocMany outs
  | .aliasIn => h.placeAlias inp outs

/-- a result somebody still holds -/
structure Slot (α : Type) where
  /-- what the caller passed -/
  arg  : α
  /-- the caller's input buffers -/
  inp  : List View
  /-- the byte slices reachable from what the call returned -/
  res  : List View
  /-- their bytes at the moment of the return -/
  want : List Bytes
  /-- the result came back through the zero-copy path -/
  pass : Bool

def lookupSlot {α : Type} (k : Nat) : List (Nat × Slot α) → Option (Slot α)
  | [] => none
  | (k', sl) :: r => if k' = k then some sl else lookupSlot k r

def eraseSlot {α : Type} (k : Nat) : List (Nat × Slot α) → List (Nat × Slot α)
  | [] => []
  | (k', sl) :: r => if k' = k then eraseSlot k r else (k', sl) :: eraseSlot k r

structure St (α : Type) where
  heap  : Heap
  slots : List (Nat × Slot α)

def St.init {α : Type} : St α := { heap := Heap.empty, slots := [] }

def St.lookup {α : Type} (s : St α) (k : Nat) : Option (Slot α) := lookupSlot k s.slots

/-- op `c`: what the holder of slot `k` reads now -/
def St.chk {α : Type} (s : St α) (k : Nat) : Option (List Bytes) := (s.lookup k).map fun sl => s.heap.reads sl.res

/-- what the caller's input buffers of slot `k` show now -/
def St.input {α : Type} (s : St α) (k : Nat) : Option (List Bytes) := (s.lookup k).map fun sl => s.heap.reads sl.inp

inductive Op (α : Type)
  /-- the caller builds the argument in buffers of its own, calls, keeps the result in `slot`
      (an error / null result is not kept) -/
  | hold (slot : Nat) (a : α)
  /-- the holder lets go -/
  | drop (slot : Nat)
  /-- the caller re-uses ALL input buffers of that call AFTER it returned: every byte `^= x` -/
  | mutIn (slot : Nat) (x : UInt8)

def Op.touches {α : Type} (k : Nat) : Op α → Bool
  | .hold k' _ => k' == k
  | .drop k' => k' == k
  | .mutIn _ _ => false

def Op.isMut {α : Type} : Op α → Bool
  | .mutIn _ _ => true
  | _ => false

def step {α : Type} (d : Discipline) (S : Sig α) (s : St α) : Op α → St α
  | .hold k a =>
    let ai := s.heap.allocMany (S.ins a)
    match S.F a with
    | none => { heap := ai.1, slots := eraseSlot k s.slots }
    | some outs =>
      match S.pass a with
      | some (i, off, n) =>
        { heap := ai.1,
          slots := (k, { arg := a, inp := ai.2, res := [(ai.2.getD i ⟨0, 0, 0⟩).sub off n], want := outs, pass := true })
                    :: eraseSlot k s.slots }
      | none =>
        let p := ai.1.place d (S.scratch a) ai.2 outs
        { heap := p.1,
          slots := (k, { arg := a, inp := ai.2, res := p.2, want := outs, pass := false }) :: eraseSlot k s.slots }
  | .drop k => { s with slots := eraseSlot k s.slots }
  | .mutIn k x =>
    match s.lookup k with
    | none => s
    | some sl => { s with heap := s.heap.scribbleAll x (sl.inp.map (·.id)) }

def run {α : Type} (d : Discipline) (S : Sig α) (ops : List (Op α)) : St α :=
  ops.foldl (step d S) St.init

/-! ## the instance: gocql.Marshal and gocql.Unmarshal -/

inductive Call
  /-- `Marshal(info(p, t), g)` -/
  | enc (p : Nat) (t : CqlTy) (g : GoVal)
  /-- `Unmarshal(info(p, t), data, &target)` with a new target of Go type `ty` -/
  | dec (p : Nat) (t : CqlTy) (ty : GoTy) (data : Bytes)

mutual
/-- the byte SLICES (`[]byte`, named byte slices, `net.IP`) reachable from a Go value, in traversal order;
    arrays (`[16]byte`, `gocql.UUID`) and strings are values, not slices -/
def leaves : GoVal → List Bytes
  | .bytes _ false b => [b]
  | .ip b => [b]
  | .ptr v => leaves v
  | .slice _ vs => leavesL vs
  | .array vs => leavesL vs
  | .ifaces vs => leavesL vs
  | .struct vs => leavesL vs
  | .mapset vs => leavesL vs
  | .udtmap _ _ vs => leavesL vs
  | .udtstruct _ vs => leavesL vs
  | .map _ kvs => leavesKV kvs
  | _ => []
def leavesL : List GoVal → List Bytes
  | [] => []
  | v :: vs => leaves v ++ leavesL vs
def leavesKV : List (GoVal × GoVal) → List Bytes
  | [] => []
  | (k, v) :: r => leaves k ++ (leaves v ++ leavesKV r)
end

mutual
/-- the value with its byte slices taken from `bs` (same traversal order); returns what is left of `bs` -/
def setLeaves : GoVal → List Bytes → GoVal × List Bytes
  | .bytes named false b, bs => (match bs with | x :: r => (.bytes named false x, r) | [] => (.bytes named false b, []))
  | .ip b, bs => (match bs with | x :: r => (.ip x, r) | [] => (.ip b, []))
  | .ptr v, bs => let r := setLeaves v bs; (.ptr r.1, r.2)
  | .slice n vs, bs => let r := setLeavesL vs bs; (.slice n r.1, r.2)
  | .array vs, bs => let r := setLeavesL vs bs; (.array r.1, r.2)
  | .ifaces vs, bs => let r := setLeavesL vs bs; (.ifaces r.1, r.2)
  | .struct vs, bs => let r := setLeavesL vs bs; (.struct r.1, r.2)
  | .mapset vs, bs => let r := setLeavesL vs bs; (.mapset r.1, r.2)
  | .udtmap n names vs, bs => let r := setLeavesL vs bs; (.udtmap n names r.1, r.2)
  | .udtstruct names vs, bs => let r := setLeavesL vs bs; (.udtstruct names r.1, r.2)
  | .map n kvs, bs => let r := setLeavesKV kvs bs; (.map n r.1, r.2)
  | g, bs => (g, bs)
def setLeavesL : List GoVal → List Bytes → List GoVal × List Bytes
  | [], bs => ([], bs)
  | v :: vs, bs =>
    let a := setLeaves v bs
    let r := setLeavesL vs a.2
    (a.1 :: r.1, r.2)
def setLeavesKV : List (GoVal × GoVal) → List Bytes → List (GoVal × GoVal) × List Bytes
  | [], bs => ([], bs)
  | (k, v) :: kvs, bs =>
    let a := setLeaves k bs
    let b := setLeaves v a.2
    let r := setLeavesKV kvs b.2
    ((a.1, b.1) :: r.1, r.2)
end

def isV4Mapped (b : Bytes) : Bool := b.take 12 == [0, 0, 0, 0, 0, 0, 0, 0, 0, 0, 0xff, 0xff]

/-- the zero-copy paths of marshal.go: Marshal dereferences pointers, then marshalVarchar / marshalUUID
    hand a byte slice back as it is and marshalInet returns `To4()` / `To16()` of a net.IP (sub-slices of it).
    Only for the value bound to the column itself (inside composites the bytes are copied). -/
def isUuidTy : CqlTy → Bool
  | .uuid | .timeuuid => true
  | _ => false

def isInetTy : CqlTy → Bool
  | .inet => true
  | _ => false

def passthrough (t : CqlTy) (g : GoVal) : Option (Nat × Nat × Nat) :=
  match derefAll g with
  | .bytes _ false b =>
    if t.isText then some (0, 0, b.length)
    else if isUuidTy t && b.length == 16 then some (0, 0, 16)
    else none
  | .ip b =>
    if isInetTy t then
      if b.length == 4 then some (0, 0, 4)
      else if b.length == 16 then (if isV4Mapped b then some (0, 12, 4) else some (0, 0, 16))
      else none
    else none
  | _ => none

def isCollection : CqlTy → Bool
  | .list _ | .set _ | .map _ _ => true
  | _ => false

/-- the specification's answer of a Marshal call: `none` = error, `some none` = null -/
def specEncode (p : Nat) (t : CqlTy) (g : GoVal) : Option (Option Bytes) :=
  match interp t g with
  | none => none
  | some .null => some none
  | some v => (ValueSpec.specEnc p t v).map some

/-- the specification's answer of an Unmarshal call into a target of Go type `ty` -/
def specDecode (p : Nat) (t : CqlTy) (ty : GoTy) (data : Bytes) : Option GoVal :=
  match ValueSpec.specDec p t data with
  | none => none
  | some v => (match representAny t ty v with
      | .ok g => some g
      | _ => none)

/-- Marshal / Unmarshal as the SPECIFICATION defines their results (the table the driver answers op `held` with) -/
def callSig : Sig Call where
  ins := fun
    | .enc _ _ g => leaves g
    | .dec _ _ _ data => [data]
  F := fun
    | .enc p t g => (match specEncode p t g with
        | some (some b) => some [b]
        | _ => none)
    | .dec p t ty data => (specDecode p t ty data).map leaves
  pass := fun
    | .enc _ t g => passthrough t g
    | .dec _ _ _ _ => none
  scratch := fun
    | .enc _ t g => isCollection t && (passthrough t g).isNone
    | .dec _ _ _ _ => false

end MarshalHeap
