/-
  Abstract model of stream multiplexing on one connection (/repo/conn.go: exec, recv, releaseStream,
  closeWithError; internal/streams as the abstract set of ids in use — C08 proves the lock-free
  allocator refines that set).

  One record per wire identifier `s`:
    owner s  — the call that holds `s` (bit set in the allocator), if any
    wire s   — what the server side holds for `s`: nothing, an unanswered request of call c, or an
               answered request whose response is on its way / in the receiver's hand
  and one program counter per call.
-/
namespace Mux

inductive Wire where
  | none
  | pending (c : Nat)    -- request of call c written, server has not answered
  | answered (c : Nat) (k w : Nat)   -- server has answered with a frame of kind `k` carrying token content `w`;
                                     -- response not yet consumed by the receive loop
deriving DecidableEq, Repr

inductive Outcome where
  | resp (origin : Nat) (k w : Nat)   -- a response frame of kind `k` (opcode / result kind / error code / header
                                      -- flags) with token content `w`; `origin` = the call whose request caused it (ghost)
  | timeout | ctxErr | connClosed | writeErr | buildErr | noStreams
deriving DecidableEq, Repr

inductive Pc where
  | idle
  | acquired (s : Nat)     -- GetStream returned s, call registered in c.calls
  | waiting (s : Nat)      -- frame written, in the select
  | done (o : Outcome)
deriving DecidableEq, Repr

structure St where
  cap : Nat                      -- NumStreams (128 / 32768)
  owner : Nat → Option Nat
  wire : Nat → Wire
  pc : Nat → Pc
  clears : Nat → Nat             -- how often the id acquired by call c has been released (ghost)
  abandoned : Nat → Bool         -- call c gave up waiting (timeout / ctx / conn closed) while its id stays reserved
  sent : Nat → Option (Nat × Nat) -- what the server answered to the request of call c: (kind, token content) (ghost)
  closed : Bool

inductive Act where
  | acquire (c s : Nat)          -- exec: GetStream + addCall
  | noStreams (c : Nat)          -- exec: GetStream failed
  | buildFail (c : Nat)          -- exec: buildFrame error → delete call, release id
  | writeCancelled (c : Nat)     -- exec: ctx ended before writing began (n = 0) → delete call, release id
  | writeFailed (c : Nat)        -- exec: write error → closeWithError (id stays reserved)
  | wrote (c : Nat)              -- exec: frame written; server now holds the request
  | answer (s k w : Nat)         -- environment: the server answers the request it holds for s with a frame of
                                 -- kind k and token content w (ANY kind: rows, void, error codes, flags)
  | stray (s : Nat)              -- environment: a response frame for an id nobody holds (recv: no handler, discarded)
  | event                        -- environment: an EVENT frame (stream -1; recv hands it to the session)
  | deliver (s : Nat)            -- recv: response for s consumed: to its waiting caller, or (caller gave up) released
  | timeout (c : Nat)            -- exec: timer fired
  | cancel (c : Nat)             -- exec: ctx done
  | connDone (c : Nat)           -- exec: connection context done / closeWithError delivered the error
  | close                        -- closeWithError
deriving Repr

def upd {α} (f : Nat → α) (k : Nat) (v : α) : Nat → α := fun x => if x = k then v else f x

def init (cap : Nat) : St :=
  { cap := cap, owner := fun _ => none, wire := fun _ => .none, pc := fun _ => .idle,
    clears := fun _ => 0, abandoned := fun _ => false, sent := fun _ => none, closed := false }

def step (st : St) : Act → Option St
  | .acquire c s =>
      -- the allocator only hands out an id that is not in use, never 0, below the capacity (C08)
      if st.pc c = .idle ∧ st.owner s = none ∧ 1 ≤ s ∧ s < st.cap ∧ st.closed = false then
        some { st with owner := upd st.owner s (some c), pc := upd st.pc c (.acquired s) }
      else none
  | .noStreams c =>
      if st.pc c = .idle then some { st with pc := upd st.pc c (.done .noStreams) } else none
  | .buildFail c =>
      match st.pc c with
      | .acquired s => some { st with owner := upd st.owner s none, pc := upd st.pc c (.done .buildErr),
                                      clears := upd st.clears c (st.clears c + 1) }
      | _ => none
  | .writeCancelled c =>
      match st.pc c with
      | .acquired s => some { st with owner := upd st.owner s none, pc := upd st.pc c (.done .ctxErr),
                                      clears := upd st.clears c (st.clears c + 1) }
      | _ => none
  | .writeFailed c =>
      match st.pc c with
      | .acquired _ => some { st with pc := upd st.pc c (.done .writeErr), abandoned := upd st.abandoned c true,
                                      closed := true }
      | _ => none
  | .wrote c =>
      match st.pc c with
      | .acquired s => some { st with wire := upd st.wire s (.pending c), pc := upd st.pc c (.waiting s) }
      | _ => none
  | .answer s k w =>
      match st.wire s with
      | .pending c => some { st with wire := upd st.wire s (.answered c k w), sent := upd st.sent c (some (k, w)) }
      | _ => none
  | .stray s =>
      -- assumption on the environment (props: "the server answers each request at most once and with its
      -- own stream id"): unsolicited frames only name ids that no call holds
      if st.wire s = .none ∧ st.owner s = none then some st else none
  | .event => some st
  | .deliver s =>
      match st.wire s with
      | .answered c k w =>
          if st.closed then none   -- recv returns ErrConnectionClosed once closed
          else match st.owner s with   -- recv: `call := c.calls[head.stream]`
            | some d =>
                if st.pc d = .waiting s then
                  -- rendezvous with the registered caller in its select: it takes the response (whose
                  -- origin is call c) and releases the id
                  some { st with wire := upd st.wire s .none, owner := upd st.owner s none,
                                 pc := upd st.pc d (.done (.resp c k w)), clears := upd st.clears d (st.clears d + 1) }
                else
                  -- the registered caller closed its `timeout` channel: recv releases the id itself
                  some { st with wire := upd st.wire s .none, owner := upd st.owner s none,
                                 clears := upd st.clears d (st.clears d + 1) }
            | none => some { st with wire := upd st.wire s .none }   -- no handler: frame discarded
      | _ => none
  | .timeout c =>
      match st.pc c with
      | .waiting _ => some { st with pc := upd st.pc c (.done .timeout), abandoned := upd st.abandoned c true }
      | _ => none
  | .cancel c =>
      match st.pc c with
      | .waiting _ => some { st with pc := upd st.pc c (.done .ctxErr), abandoned := upd st.abandoned c true }
      | _ => none
  | .connDone c =>
      match st.pc c with
      | .waiting _ => if st.closed then some { st with pc := upd st.pc c (.done .connClosed), abandoned := upd st.abandoned c true }
                      else none
      | _ => none
  | .close => some { st with closed := true }

def run : St → List Act → Option St
  | s, [] => some s
  | s, a :: as => match step s a with
    | some s' => run s' as
    | none => none

/-! ### Monitor over what can be observed from outside: the scripted server logs `req s t` when it has
    read a request with wire id `s` carrying token `t`, `resp s t k w` just BEFORE it writes the answer (a
    frame of kind `k` — opcode, result kind / error code, header flags — with token content `w`), `stray s`
    before it writes a response frame for an id that was never used, `event` before an EVENT frame; the
    client logs `got t k u` when the query that sent token `t` returned having decoded a response of kind
    `k` with token content `u`. -/

inductive Obs where
  | req (s t : Nat)
  | resp (s t k w : Nat)
  | got (t k u : Nat)
  | stray (s : Nat)
  | event
deriving Repr, DecidableEq

structure Mon where
  cap : Nat
  slot : List (Nat × Nat × Bool)   -- wire id ↦ (token, answered?) of the last request seen on it
  sent : List (Nat × Nat × Nat)    -- token ↦ (kind, token content) the server answered with
  gots : List Nat                  -- tokens whose caller has reported a response
  bad : Option String

def Mon.init (cap : Nat) : Mon := { cap := cap, slot := [], sent := [], gots := [], bad := none }

def Mon.lookup (m : Mon) (s : Nat) : Option (Nat × Bool) :=
  (m.slot.find? (·.1 = s)).map (·.2)

def Mon.set (m : Mon) (s t : Nat) (a : Bool) : Mon :=
  { m with slot := (s, t, a) :: m.slot.filter (·.1 ≠ s) }

def Mon.answer (m : Mon) (t : Nat) : Option (Nat × Nat) :=
  (m.sent.find? (·.1 = t)).map (·.2)

def Mon.step (m : Mon) : Obs → Mon
  | .req s t =>
      if m.bad.isSome then m
      else if ¬ (1 ≤ s ∧ s < m.cap) then { m with bad := some s!"stream-out-of-range:{s}" }
      else match m.lookup s with
        | some (t0, false) => { m with bad := some s!"stream-reused-while-outstanding:{s}:{t0}:{t}" }
        | _ => m.set s t false
  | .resp s t k w =>
      if m.bad.isSome then m
      else match m.lookup s with
        | some (t0, false) =>
            if t0 = t then { m.set s t true with sent := (t, k, w) :: m.sent }
            else { m with bad := some s!"server-script-error:{s}" }
        | _ => { m with bad := some s!"server-script-error:{s}" }
  | .got t k u =>
      if m.bad.isSome then m
      else if t ∈ m.gots then { m with bad := some s!"second-response-for-one-call:{t}" }
      else match m.answer t with
        | none => { m with bad := some s!"response-without-answer:{t}:{k}:{u}" }
        | some (k0, w0) =>
            if u ≠ w0 then { m with bad := some s!"misrouted:{t}:{u}" }
            else if k ≠ k0 then { m with bad := some s!"wrong-kind:{t}:{k}:{k0}" }
            else { m with gots := t :: m.gots }
  | .stray s =>
      if m.bad.isSome then m
      else match m.lookup s with
        | some (_, false) => { m with bad := some s!"server-script-error:{s}" }
        | _ => m
  | .event => m

end Mux
